import Gene.Value
/-! Model of `derive/src/lib.rs` (`FieldGetterDerive::build_match_arms`, the generated `get_from_iter`) and
    of the `FieldGetter` impls of `event.rs` (scalars, `Option<T>`, `HashMap<String, T>`).
    The macro is a program transformer: the model describes which match arms it emits for a struct
    definition and what the emitted code computes on a value of that struct. -/
namespace Gene

/-- what the macro can see inside one `#[getter(..)]` / `#[serde(..)]` attribute -/
inductive AttrMeta where
  | skip
  | rename (s : Str)
  | other
  deriving DecidableEq, Repr

structure FieldAttr where
  isGetter : Bool               -- `getter(..)`, otherwise `serde(..)`
  metas : List AttrMeta
  deriving DecidableEq, Repr

structure FieldDef where
  name : Str
  attrs : List FieldAttr        -- in source order; other attributes are invisible to the macro
  deriving DecidableEq, Repr

/-- a value of a type deriving (or implementing) `FieldGetter` -/
inductive GVal where
  | scalar (fv : FieldValue)
  | optNone
  | optSome (v : GVal)
  | map (kvs : List (Str × FieldValue))
  | struct (useSerde : Bool) (fields : List (FieldDef × GVal))

namespace M

/-- `MetaParser` collects metas into a map keyed by ident: the last `rename` of an attribute wins -/
def renameOf (metas : List AttrMeta) : Option Str :=
  metas.foldl (fun acc m => match m with
    | .rename s => some s
    | _ => acc) none

/-- `build_match_arms` for one field: `none` = skipped, else the patterns of its arm
    (own name, then every alias declared by a `getter` attribute, or by a `serde` one under
    `use_serde_rename`) -/
def arm (useSerde : Bool) (f : FieldDef) : Option (List Str) :=
  let rel := f.attrs.filter (fun a => a.isGetter || useSerde)
  if rel.any (fun a => a.isGetter && a.metas.contains .skip) then none
  else some (f.name :: rel.filterMap (fun a => renameOf a.metas))

-- the generated `get_from_iter` (first matching arm wins) + the impls for scalars, Option<T>, HashMap<String,T>
mutual
def gget : GVal → List Str → Option FieldValue
  | .scalar fv, [] => some fv
  | .scalar _, _ :: _ => none
  | .optNone, _ => some .none
  | .optSome v, p => gget v p
  | .map _, [] => some .some
  | .map kvs, [k] => kvs.lookup k
  | .map _, _ :: _ :: _ => none
  | .struct _ _, [] => some .some
  | .struct us fs, seg :: rest => ggetField us fs seg rest
def ggetField : Bool → List (FieldDef × GVal) → Str → List Str → Option FieldValue
  | _, [], _, _ => none
  | us, (f, v) :: fs, seg, rest =>
    match arm us f with
    | some names => if names.contains seg then gget v rest else ggetField us fs seg rest
    | none => ggetField us fs seg rest
end

end M

namespace S
/-- the statement: a field answers to its own name or any declared alias; a skipped field to nothing -/
def armSpec (useSerde : Bool) (f : FieldDef) : Option (List Str) :=
  if f.attrs.any (fun a => a.isGetter && a.metas.contains .skip) then none
  else some (f.name :: (f.attrs.filter (fun a => a.isGetter || useSerde)).filterMap (fun a => M.renameOf a.metas))

-- resolution of a path: follow the segments through nested structs, optionals and string-keyed maps
mutual
def resolve : GVal → List Str → Option FieldValue
  | .scalar fv, [] => some fv                      -- the field reached
  | .scalar _, _ :: _ => none                      -- a path that continues past a scalar
  | .optNone, _ => some .none                      -- an absent optional
  | .optSome v, p => resolve v p
  | .map _, [] => some .some                       -- a path ending at a map
  | .map kvs, [k] => kvs.lookup k
  | .map _, _ :: _ :: _ => none
  | .struct _ _, [] => some .some                  -- a path ending at a struct
  | .struct us fs, seg :: rest => resolveField us fs seg rest
def resolveField : Bool → List (FieldDef × GVal) → Str → List Str → Option FieldValue
  | _, [], _, _ => none                            -- undeclared name
  | us, (f, v) :: fs, seg, rest =>
    match armSpec us f with
    | some names => if names.contains seg then resolve v rest else resolveField us fs seg rest
    | none => resolveField us fs seg rest          -- skipped
end
end S

end Gene
