import Gene.Cond
import Gene.Admit
import Gene.Template
import Gene.Generated.Consts
/-! Model of `rules.rs`: `Rule` (the loaded document), `CompiledRule`, `Rule::compile_into`. -/
namespace Gene

inductive RType where
  | detection | filter | dependency
  deriving DecidableEq, Repr

structure Meta where
  tags : Option (List Str) := none
  attack : Option (List Str) := none
  authors : Option (List Str) := none
  comments : Option (List Str) := none
  deriving DecidableEq, Repr

/-- `Rule`. Sets and maps are lists (order = iteration order, keys/members unique). `matchOn` is
    `match_on.and_then(|mo| mo.events)`'s argument: `none` (no section), `some none` (`events` absent
    or null), `some (some m)`. -/
structure Rule where
  name : Str
  rtype : Option RType := none
  rmeta : Option Meta := none
  disable : Option (Option Bool) := none         -- params / params.disable
  matchOn : Option (Option MatchOnMap) := none
  mats : Option (List (Str × Str)) := none
  condition : Option Str := none
  severity : Option Nat := none
  actions : Option (List Str) := none
  deriving DecidableEq, Repr

structure CompiledRule where
  name : Str
  rtype : RType
  depends : List Str
  tags : List Str
  attack : List Str
  includeEvents : MatchOnMap
  excludeEvents : MatchOnMap
  ops : List (Str × Match)       -- `matches: BTreeMap<String, Match>`: sorted by operand name
  cond : Expr
  severity : Nat
  actions : List Str
  deriving Repr

/-- `engine::ScanResult`; the sets are lists compared by membership -/
structure ScanResult where
  rules : List Str := []
  tags : List Str := []
  attack : List Str := []
  actions : List Str := []
  filtered : Bool := false
  severity : Nat := 0
  deriving Repr

inductive CompileOut where
  | ok (c : CompiledRule)
  | err
  | panic
  deriving Repr

namespace M

def Rule.isDisabled (r : Rule) : Bool :=
  match r.disable with
  | some (some b) => b
  | _ => false

/-- `^[A-Za-z]+[0-9]+(\.[0-9]+)?$` -/
def attackIdOk (s : Str) : Bool :=
  match spanP isAsciiAlpha s with
  | (_ :: _, r) =>
    match spanP isAsciiDigit r with
    | (_ :: _, []) => true
    | (_ :: _, '.' :: r') =>
      match spanP isAsciiDigit r' with
      | (_ :: _, []) => true
      | _ => false
    | _ => false
  | _ => false

def strLe (a b : Str) : Bool := !(b < a)

/-- `BTreeMap::insert` into a key-sorted association list (replace on equal key) -/
def btInsert (k : Str) (v : Match) : List (Str × Match) → List (Str × Match)
  | [] => [(k, v)]
  | (k', v') :: r =>
    if k == k' then (k, v) :: r
    else if k < k' then (k, v) :: (k', v') :: r
    else (k', v') :: btInsert k v r

inductive OpsOut where
  | ok (deps : List Str) (ops : List (Str × Match))
  | err
  | panic

/-- the operand loop of `compile_into` (in the `HashMap`'s iteration order) -/
def compileOps (x : Ext) : List (Str × Str) → List Str → List (Str × Match) → OpsOut
  | [], deps, ops => .ok deps ops
  | (operand, s) :: rest, deps, ops =>
    if !startsWith operand ['$'] then .err
    else match parseMatch x s with
      | .panic => .panic
      | .err => .err
      | .ok m =>
        let deps' := match m with
          | .rule n => if deps.contains n then deps else deps ++ [n]
          | _ => deps
        compileOps x rest deps' (btInsert operand m ops)

def boundSeverity (s : Nat) : Nat := min s Gen.maxSeverity

def dedup (l : List Str) : List Str := l.foldl (fun acc a => if acc.contains a then acc else acc ++ [a]) []

def compileInto (x : Ext) (r : Rule) : CompileOut :=
  let filters : MatchOnMap := ((r.matchOn.bind id).getD [])
  match (match r.condition with
         | some c => parseCond c
         | none => CondParse.ok Expr.none) with
  | .panic => .panic
  | .err => .err
  | .ok cond =>
    let tags := (r.rmeta.bind (·.tags)).getD []
    let attack? : Option (List Str) :=
      match r.rmeta.bind (·.attack) with
      | none => some []
      | some ids => if ids.all attackIdOk then some (dedup (ids.map asciiUpper)) else none
    match attack? with
    | none => .err
    | some attack =>
      match compileOps x (r.mats.getD []) [] [] with
      | .err => .err
      | .panic => .panic
      | .ok deps ops =>
        .ok { name := r.name, rtype := r.rtype.getD .detection, depends := deps, tags := tags, attack := attack,
              includeEvents := buildInclude filters, excludeEvents := buildExclude filters,
              ops := ops, cond := cond, severity := boundSeverity (r.severity.getD 0),
              actions := r.actions.getD [] }

/-- `Templates::replace` on a rule: only the values of `matches` change -/
def applyTemplates (tpls : Tpls) (r : Rule) : Rule :=
  { r with mats := r.mats.map (fun ms => ms.map (fun p => (p.1, replaceStr tpls p.2))) }

end M
end Gene
