import Gene.Rule
import Gene.Generated.Schema
/-! Rule documents as YAML *trees* (the text ↔ tree layer is `serde_yaml` / libyaml, not modelled).
    Scalars keep their raw text and style, because that is what serde_yaml coerces from. The
    (de)serialisers reproduce what serde's derive does for `Rule`, `Meta`, `Params`, `MatchOn` with the
    attributes recorded in `Gene/Generated/Schema.lean` (allowed keys = the generated field keys). -/
namespace Gene

inductive Yaml where
  | scalar (text : Str) (plain : Bool)
  | seq (xs : List Yaml)
  | map (kvs : List (Yaml × Yaml))

inductive YErr where
  | notMap | badKey | unknown (k : Str) | dup (k : Str) | missing (k : Str) | badTy | range
  deriving DecidableEq, Repr

namespace M

def keysOf (s : Gen.Struct) : List Str := s.fields.map (fun f => f.key.toList)

/-! ### scalars as serde_yaml 0.9 coerces them -/
def nullTexts : List Str := ["null".toList, "Null".toList, "NULL".toList, "~".toList, []]
def isNull : Yaml → Bool
  | .scalar t true => nullTexts.contains t
  | _ => false

/-- `String`: any scalar, by its text -/
def deStr : Yaml → Except YErr Str
  | .scalar t _ => .ok t
  | _ => .error .badTy

/-- `bool`: plain `true|True|TRUE|false|False|FALSE` -/
def deBool : Yaml → Except YErr Bool
  | .scalar t true =>
    if t = "true".toList ∨ t = "True".toList ∨ t = "TRUE".toList then .ok true
    else if t = "false".toList ∨ t = "False".toList ∨ t = "FALSE".toList then .ok false
    else .error .badTy
  | _ => .error .badTy

def allDigits (s : Str) : Bool := s.all isAsciiDigit

def stripPlus : Str → Str
  | '+' :: r => r
  | s => s
def stripSign : Str → Str
  | '-' :: r => r
  | '+' :: r => r
  | s => s
def startsSigned : Str → Bool
  | '+' :: _ => true
  | '-' :: _ => true
  | _ => false

/-- `digits_but_not_number`: leading zero followed by digits is a string (YAML 1.2) -/
def digitsButNotNumber (s : Str) : Bool :=
  match stripSign s with
  | '0' :: c :: r => allDigits (c :: r)
  | _ => false

def radixVal (radix : Nat) (s : Str) : Option Nat :=
  let body := stripPlus s
  if body.isEmpty then none
  else match body.mapM hexVal with
    | none => none
    | some ds => if ds.all (fun d => decide (d < radix)) then some (ds.foldl (fun a d => a * radix + d) 0) else none

/-- one `0x` / `0o` / `0b` attempt of `parse_unsigned_int`: `none` = go on, `some r` = return `r` -/
def radixTryU (u p : Str) (radix : Nat) : Option (Option Nat) :=
  match stripPrefix u p with
  | none => none
  | some rest =>
    if startsSigned rest then some none
    else match radixVal radix rest with
      | some v => if v < 2^64 then some (some v) else none
      | none => none

/-- `parse_unsigned_int::<u64>` -/
def yamlU64 (s : Str) : Option Nat :=
  let u := stripPlus s
  match radixTryU u "0x".toList 16 with
  | some r => r
  | none =>
  match radixTryU u "0o".toList 8 with
  | some r => r
  | none =>
  match radixTryU u "0b".toList 2 with
  | some r => r
  | none =>
    if startsSigned u then none
    else if digitsButNotNumber s then none
    else parseDigits (2^64 - 1) u

/-- `u8`: a plain scalar that reads as an unsigned integer ≤ 255 -/
def deU8 : Yaml → Except YErr Nat
  | .scalar t true =>
    match yamlU64 t with
    | some n => if n ≤ 255 then .ok n else .error .range
    | none => .error .badTy
  | _ => .error .badTy

/-- digits in a radix, no sign -/
def radixDigits (radix : Nat) (s : Str) : Option Nat :=
  if s.isEmpty then none
  else match s.mapM hexVal with
    | none => none
    | some ds => if ds.all (fun d => decide (d < radix)) then some (ds.foldl (fun a d => a * radix + d) 0) else none

/-- one `-0x` / `-0o` / `-0b` attempt of `parse_negative_int` -/
def radixTryN (t p : Str) (radix : Nat) : Option Int :=
  match stripPrefix t p with
  | none => none
  | some rest => match radixDigits radix rest with
    | some v => if v ≤ 2^63 then some (-(Int.ofNat v)) else none
    | none => none

/-- `parse_negative_int::<i64>`: `-0x…`, `-0o…`, `-0b…`, then decimal -/
def yamlNegI64 (t : Str) : Option Int :=
  match radixTryN t "-0x".toList 16 with
  | some v => some v
  | none =>
  match radixTryN t "-0o".toList 8 with
  | some v => some v
  | none =>
  match radixTryN t "-0b".toList 2 with
  | some v => some v
  | none =>
    if digitsButNotNumber t then none else parseI64 t

/-- `i64`: plain scalar; `parse_unsigned_int` first (must fit `i64`), then `parse_negative_int` -/
def deI64 : Yaml → Except YErr Int
  | .scalar t true =>
    match yamlU64 t with
    | some n => if n < 2^63 then .ok (Int.ofNat n) else .error .range
    | none =>
      match yamlNegI64 t with
      | some v => .ok v
      | none => .error .badTy
  | _ => .error .badTy

def rtypeName : RType → Str
  | .detection => "detection".toList
  | .filter => "filter".toList
  | .dependency => "dependency".toList

/-- `impl Deserialize for Type`: a string, then `from_str` -/
def deType : Yaml → Except YErr RType
  | .scalar s _ =>
    if s = "detection".toList then .ok .detection
    else if s = "filter".toList then .ok .filter
    else if s = "dependency".toList then .ok .dependency
    else .error .badTy
  | _ => .error .badTy

def mapE {α β : Type} (f : α → Except YErr β) : List α → Except YErr (List β)
  | [] => .ok []
  | a :: r =>
    match f a, mapE f r with
    | .ok b, .ok bs => .ok (b :: bs)
    | .error e, _ => .error e
    | _, .error e => .error e

/-- `Vec<String>` / `HashSet<String>` (a set keeps the first of equal members) -/
def deStrList : Yaml → Except YErr (List Str)
  | .seq xs => mapE deStr xs
  | _ => .error .badTy

def deI64List : Yaml → Except YErr (List Int)
  | .seq xs => mapE deI64 xs
  | _ => .error .badTy

/-! ### struct-from-map plumbing -/
def keyTexts : List (Yaml × Yaml) → Option (List Str)
  | [] => some []
  | (.scalar t _, _) :: r => match keyTexts r with
    | some ks => some (t :: ks)
    | none => none
  | _ => none

def firstUnknown (allowed : List Str) : List Str → Option Str
  | [] => none
  | k :: r => if allowed.contains k then firstUnknown allowed r else some k

def firstDup : List Str → Option Str
  | [] => none
  | k :: r => if r.contains k then some k else firstDup r

def field (kvs : List (Yaml × Yaml)) (k : Str) : Option Yaml :=
  match kvs with
  | [] => none
  | (.scalar t _, v) :: r => if t = k then some v else field r k
  | _ :: r => field r k

/-- a struct: a map with scalar keys; unknown keys rejected under `deny_unknown_fields`; duplicates rejected -/
def openStruct (s : Gen.Struct) : Yaml → Except YErr (List (Yaml × Yaml))
  | .map kvs =>
    match keyTexts kvs with
    | none => .error .badKey
    | some ks =>
      match (if s.denyUnknown then firstUnknown (keysOf s) ks else none) with
      | some k => .error (.unknown k)
      | none => match firstDup (ks.filter (fun k => (keysOf s).contains k)) with
        | some k => .error (.dup k)
        | none => .ok kvs
  | _ => .error .notMap

/-- an `Option<T>` field: missing or null ⇒ `None` -/
def optField {α : Type} (kvs : List (Yaml × Yaml)) (k : Str) (de : Yaml → Except YErr α) : Except YErr (Option α) :=
  match field kvs k with
  | none => .ok none
  | some y => if isNull y then .ok none else match de y with
    | .ok a => .ok (some a)
    | .error e => .error e

def deMeta (y : Yaml) : Except YErr Meta :=
  match openStruct Gen.metaStruct y with
  | .error e => .error e
  | .ok kvs =>
    match optField kvs "tags".toList deStrList, optField kvs "attack".toList deStrList,
          optField kvs "authors".toList deStrList, optField kvs "comments".toList deStrList with
    | .ok a, .ok b, .ok c, .ok d => .ok { tags := a, attack := b, authors := c, comments := d }
    | .error e, _, _, _ => .error e
    | _, .error e, _, _ => .error e
    | _, _, .error e, _ => .error e
    | _, _, _, .error e => .error e

/-- `Params` -/
def deParams (y : Yaml) : Except YErr (Option Bool) :=
  match openStruct Gen.paramsStruct y with
  | .error e => .error e
  | .ok kvs => optField kvs "disable".toList deBool

def dePairs {α β : Type} (dk : Yaml → Except YErr α) (dv : Yaml → Except YErr β) :
    List (Yaml × Yaml) → Except YErr (List (α × β))
  | [] => .ok []
  | (k, v) :: r =>
    match dk k, dv v, dePairs dk dv r with
    | .ok a, .ok b, .ok rest => .ok ((a, b) :: rest)
    | .error e, _, _ => .error e
    | _, .error e, _ => .error e
    | _, _, .error e => .error e

/-- `HashMap<String, HashSet<i64>>` -/
def deEvents : Yaml → Except YErr MatchOnMap
  | .map kvs => dePairs deStr deI64List kvs
  | _ => .error .badTy

/-- `MatchOn` -/
def deMatchOn (y : Yaml) : Except YErr (Option MatchOnMap) :=
  match openStruct Gen.matchOnStruct y with
  | .error e => .error e
  | .ok kvs => optField kvs "events".toList deEvents

/-- `deserialize_uk_hashmap`: a map whose keys are unique -/
def deUkMap : Yaml → Except YErr (List (Str × Str))
  | .map kvs =>
    match keyTexts kvs with
    | none => .error .badKey
    | some ks => match firstDup ks with
      | some k => .error (.dup k)
      | none => dePairs deStr deStr kvs
  | _ => .error .badTy

def deRuleFields (kvs : List (Yaml × Yaml)) : Except YErr Rule :=
  match field kvs "name".toList with
  | none => .error (.missing "name".toList)
  | some ny =>
    match deStr ny with
    | .error e => .error e
    | .ok name =>
    match optField kvs "type".toList deType with
    | .error e => .error e
    | .ok rtype =>
    match optField kvs "meta".toList deMeta with
    | .error e => .error e
    | .ok rmeta =>
    match optField kvs "params".toList deParams with
    | .error e => .error e
    | .ok disable =>
    match optField kvs "match-on".toList deMatchOn with
    | .error e => .error e
    | .ok matchOn =>
    match optField kvs "matches".toList deUkMap with
    | .error e => .error e
    | .ok mats =>
    match optField kvs "condition".toList deStr with
    | .error e => .error e
    | .ok condition =>
    match optField kvs "severity".toList deU8 with
    | .error e => .error e
    | .ok severity =>
    match optField kvs "actions".toList deStrList with
    | .error e => .error e
    | .ok actions =>
      .ok { name := name, rtype := rtype, rmeta := rmeta, disable := disable, matchOn := matchOn, mats := mats,
            condition := condition, severity := severity, actions := actions }

/-- `Rule::deserialize` on a document tree -/
def deRule (y : Yaml) : Except YErr Rule :=
  match openStruct Gen.ruleStruct y with
  | .error e => .error e
  | .ok kvs => deRuleFields kvs

/-! ### serialisation: `skip_serializing_if = "Option::is_none"` on every optional field -/
def ystr (s : Str) : Yaml := .scalar s false
def ykey (s : String) : Yaml := .scalar s.toList true
def optEntry {α : Type} (k : String) (v : Option α) (ser : α → Yaml) : List (Yaml × Yaml) :=
  match v with
  | none => []
  | some a => [(ykey k, ser a)]

def serBool (b : Bool) : Yaml := .scalar (if b then "true".toList else "false".toList) true
def serStrList (l : List Str) : Yaml := .seq (l.map ystr)
def showInt (i : Int) : Str := if i < 0 then '-' :: showNat i.natAbs else showNat i.toNat
def serEvents (m : MatchOnMap) : Yaml :=
  .map (m.map (fun p => (ystr p.1, Yaml.seq (p.2.map (fun i => Yaml.scalar (showInt i) true)))))
def serUkMap (m : List (Str × Str)) : Yaml := .map (m.map (fun kv => (ystr kv.1, ystr kv.2)))
def serMeta (m : Meta) : Yaml :=
  .map (optEntry "tags" m.tags serStrList ++ (optEntry "attack" m.attack serStrList ++
       (optEntry "authors" m.authors serStrList ++ optEntry "comments" m.comments serStrList)))
def serParams (d : Option Bool) : Yaml := .map (optEntry "disable" d serBool)
def serMatchOn (e : Option MatchOnMap) : Yaml := .map (optEntry "events" e serEvents)

def serRuleFields (r : Rule) : List (Yaml × Yaml) :=
  (ykey "name", ystr r.name) ::
    (optEntry "type" r.rtype (fun t => ystr (rtypeName t)) ++
    (optEntry "meta" r.rmeta serMeta ++
    (optEntry "params" r.disable serParams ++
    (optEntry "match-on" r.matchOn serMatchOn ++
    (optEntry "matches" r.mats serUkMap ++
    (optEntry "condition" r.condition ystr ++
    (optEntry "severity" r.severity (fun n => Yaml.scalar (showNat n) true) ++
     optEntry "actions" r.actions serStrList)))))))

def serRule (r : Rule) : Yaml := .map (serRuleFields r)

end M
end Gene
