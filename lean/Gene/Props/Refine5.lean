import Gene.Props.Refine4
/-! Refinement, part 5: which rule the error names. -/
set_option linter.unusedSimpArgs false
namespace Gene.Props.Refine
open Gene M EngineSim
open Gene.Props.C03 (resOf IsValueTok EventWf)
open Gene.Props.C01 (verdict verdict_eq candidates_lt mem_candidates isCand)
open Gene.Props.C13 (T T_inv TSorted keyLt_irrefl keyLt_trans keyLt_total keyLt_iff candidates_eq sorted_ext)

/-! ### the specification's visiting order is a strict total order on rules with distinct names -/
def K (r : S.SRule) : Nat × Str := (S.cap r.severity, r.name)

theorem visitedBefore_eq (a b : S.SRule) : S.visitedBefore a b = keyLt (K b) (K a) := by
  unfold S.visitedBefore keyLt K
  have : (S.cap a.severity == S.cap b.severity) = (S.cap b.severity == S.cap a.severity) := by
    cases h1 : S.cap a.severity == S.cap b.severity <;> cases h2 : S.cap b.severity == S.cap a.severity
    · rfl
    · have := (beq_iff_eq.mp h2); rw [this] at h1; simp at h1
    · have := (beq_iff_eq.mp h1); rw [this] at h2; simp at h2
    · rfl
  show (_ || (_ && _)) = (_ || (_ && _))
  rw [this]

theorem insertCand_perm (r : S.SRule) : ∀ l, (S.insertCand r l).Perm (r :: l)
  | [] => List.Perm.refl _
  | q :: l => by
    simp only [S.insertCand]
    split
    · exact List.Perm.refl _
    · exact ((insertCand_perm r l).cons q).trans (List.Perm.swap r q l)

theorem scanOrder_perm : ∀ l : List S.SRule, (S.scanOrder l).Perm l
  | [] => List.Perm.refl _
  | p :: l => by
    show (S.insertCand p (S.scanOrder l)).Perm (p :: l)
    exact (insertCand_perm p _).trans ((scanOrder_perm l).cons p)

def VB (a b : S.SRule) : Prop := S.visitedBefore a b = true

theorem insertCand_sorted (r : S.SRule) : ∀ (l : List S.SRule), l.Pairwise VB → (∀ q ∈ l, K q ≠ K r) →
    (S.insertCand r l).Pairwise VB
  | [], _, _ => by simp [S.insertCand]
  | q :: l, hs, hk => by
    rw [List.pairwise_cons] at hs
    simp only [S.insertCand]
    split
    · rename_i hlt
      rw [List.pairwise_cons]
      refine ⟨?_, by rw [List.pairwise_cons]; exact hs⟩
      intro p hp
      rcases List.mem_cons.mp hp with rfl | hp
      · exact hlt
      · have h1 := hs.1 p hp
        unfold VB at h1 ⊢
        rw [visitedBefore_eq] at h1 hlt ⊢
        exact keyLt_trans h1 hlt
    · rename_i hnlt
      rw [List.pairwise_cons]
      refine ⟨?_, insertCand_sorted r l hs.2 (fun p hp => hk p (by simp [hp]))⟩
      have hqr : VB q r := by
        unfold VB
        rw [visitedBefore_eq] at hnlt ⊢
        exact keyLt_total (fun h => hk q (by simp) h) hnlt
      intro p hp
      rcases List.mem_cons.mp ((insertCand_perm r l).mem_iff.mp hp) with rfl | hp'
      · exact hqr
      · exact hs.1 p hp'

theorem scanOrder_sorted : ∀ (l : List S.SRule), (l.map K).Nodup → (S.scanOrder l).Pairwise VB
  | [], _ => by simp [S.scanOrder]
  | p :: l, hnd => by
    simp only [List.map_cons, List.nodup_cons] at hnd
    show (S.insertCand p (S.scanOrder l)).Pairwise VB
    apply insertCand_sorted p _ (scanOrder_sorted l hnd.2)
    intro q hq heq
    apply hnd.1
    rw [← heq]
    exact List.mem_map.mpr ⟨q, (scanOrder_perm l).mem_iff.mp hq, rfl⟩


theorem nodup_of_index_inj : ∀ (l : List CompiledRule),
    (∀ (i j : Nat) (a b : CompiledRule), l[i]? = some a → l[j]? = some b → a.name = b.name → i = j) →
    (l.map (·.name)).Nodup
  | [], _ => by simp
  | a :: l, h => by
    simp only [List.map_cons, List.nodup_cons]
    constructor
    · intro hm
      obtain ⟨b, hb, hbn⟩ := List.mem_map.mp hm
      obtain ⟨j, hj⟩ := List.getElem?_of_mem hb
      have := h 0 (j + 1) a b (by simp) (by simpa using hj) hbn.symm
      omega
    · apply nodup_of_index_inj l
      intro i j x y hi hj hxy
      have := h (i + 1) (j + 1) x y (by simpa using hi) (by simpa using hj) hxy
      omega

theorem rel2_map_eq {α β γ : Type} {R : α → β → Prop} (f : α → γ) (g : β → γ) (h : ∀ a b, R a b → f a = g b) :
    ∀ {l : List α} {l' : List β}, Rel2 R l l' → l.map f = l'.map g
  | _, _, .nil => rfl
  | _, _, .cons hab t => by simp [h _ _ hab, rel2_map_eq f g h t]

section order
variable (x : Ext) (ev : Event) (rules : List S.SRule) (e : Engine) (hw : WfEngine e)
  (hrel : Rel2 (RuleRelFull x ev) rules e.rules)
include hw hrel

theorem rules_names_nodup : (rules.map (·.name)).Nodup := by
  rw [rel2_map_eq (fun r : S.SRule => r.name) (fun c : CompiledRule => c.name) (fun _ _ h => h.name) hrel]
  exact nodup_of_index_inj e.rules (fun i j a b hi hj hab => name_unique hw.toWfCore hi hj hab)

/-- the candidates of the model, mapped to the structured rules, in scan order -/
def CS : List S.SRule := (candidates e ev.source ev.id).filterMap (fun i => rules[i]?)

theorem CS_sorted : (CS ev rules e).Pairwise VB := by
  unfold CS
  rw [candidates_eq, ← List.map_reverse, List.filterMap_map]
  obtain ⟨hinv, hs⟩ := T_inv ev.source ev.id hw e.rules.length (Nat.le_refl _)
  have hs' : (T e ev.source ev.id).Pairwise (fun p q => keyLt p.1 q.1 = true) := hs
  have hlen := Rel2.length_eq hrel
  -- every entry carries the key of the structured rule at its index
  have hinfo : ∀ p ∈ T e ev.source ev.id, ∀ sr, rules[p.2]? = some sr → p.1 = K sr := by
    intro p hp sr hsr
    obtain ⟨r, hr, hk, _⟩ := hinv p hp
    have hrr := Rel2.get hrel p.2 sr r hsr hr
    rw [hk, K, hrr.severity, hrr.name]
  have h2 : (T e ev.source ev.id).Pairwise (fun p q => keyLt p.1 q.1 = true ∧
      (∀ sr, rules[p.2]? = some sr → p.1 = K sr) ∧ (∀ sr, rules[q.2]? = some sr → q.1 = K sr)) :=
    List.Pairwise.imp_of_mem (fun hp hq h => ⟨h, hinfo _ hp, hinfo _ hq⟩) hs'
  rw [← List.pairwise_reverse] at h2
  refine List.Pairwise.filterMap _ ?_ h2
  intro p q ⟨hlt, hq, hp⟩ b hb b' hb'
  simp only [Function.comp] at hb hb'
  unfold VB
  rw [visitedBefore_eq, ← hp b hb, ← hq b' hb']
  exact hlt

theorem mem_CS (sr : S.SRule) : sr ∈ CS ev rules e ↔ sr ∈ rules ∧ candS ev sr = true := by
  have hlen := Rel2.length_eq hrel
  simp only [CS, List.mem_filterMap]
  constructor
  · rintro ⟨i, hi, hsr⟩
    have hil := candidates_lt e hw _ _ i hi
    have hc : e.rules[i]? = some e.rules[i] := by simp [hil]
    exact ⟨List.mem_of_getElem? hsr, (cand_idx x ev rules e hw hrel i sr _ hsr hc).mp hi⟩
  · rintro ⟨hm, hc⟩
    obtain ⟨i, hi⟩ := List.getElem?_of_mem hm
    have hil : i < rules.length := (List.getElem?_eq_some_iff.mp hi).1
    have hce : e.rules[i]? = some e.rules[i] := by simp
    exact ⟨i, (cand_idx x ev rules e hw hrel i sr _ hi hce).mpr hc, hi⟩

/-- **the specification visits the candidates in the order the engine does** -/
theorem scanOrder_eq :
    S.scanOrder (rules.filter (fun r => (r.rtype == RType.detection || r.rtype == RType.filter) && S.admits r.matchOn ev.source ev.id)) =
      CS ev rules e := by
  have hnd : ((rules.filter (fun r => (r.rtype == RType.detection || r.rtype == RType.filter) && S.admits r.matchOn ev.source ev.id)).map K).Nodup := by
    have h1 : ((rules.filter (fun r => (r.rtype == RType.detection || r.rtype == RType.filter) && S.admits r.matchOn ev.source ev.id)).map (·.name)).Nodup :=
      ((rules_names_nodup x ev rules e hw hrel).sublist ((List.filter_sublist).map _))
    have h2 : ((rules.filter (fun r => (r.rtype == RType.detection || r.rtype == RType.filter) && S.admits r.matchOn ev.source ev.id)).map K).map Prod.snd =
        (rules.filter (fun r => (r.rtype == RType.detection || r.rtype == RType.filter) && S.admits r.matchOn ev.source ev.id)).map (·.name) := by
      rw [List.map_map]; rfl
    rw [← h2] at h1
    exact (List.pairwise_map.mp h1).imp (fun h heq => h (by rw [heq]))
  apply sorted_ext VB (fun a b h1 h2 => by
    unfold VB at h1 h2
    rw [visitedBefore_eq] at h1 h2
    exact keyLt_irrefl _ (keyLt_trans h1 h2)) _ _ (scanOrder_sorted _ hnd) (CS_sorted x ev rules e hw hrel)
  intro sr
  rw [(scanOrder_perm _).mem_iff, mem_CS x ev rules e hw hrel, List.mem_filter]
  simp only [candS]

end order


section named
variable (x : Ext) (ev : Event) (hev : EventWf ev) (rules : List S.SRule) (e : Engine) (hw : WfEngine e)
  (hrel : Rel2 (RuleRelFull x ev) rules e.rules)

def isBadS (n : Str) : Bool := (S.verdicts x ev rules).lookup n == Option.some S.Res.err
def badS (r : S.SRule) : Bool :=
  isBadS x ev rules r.name || (((S.closures rules).lookup r.name).getD []).any (isBadS x ev rules)

theorem named_unfold : (S.scan x ev rules).named =
    match ((S.scanOrder (rules.filter (fun r => (r.rtype == RType.detection || r.rtype == RType.filter) && S.admits r.matchOn ev.source ev.id))).filter
            (badS x ev rules)).getLast? with
    | Option.none => []
    | Option.some c => if isBadS x ev rules c.name then [c.name]
        else (((S.closures rules).lookup c.name).getD []).filter (isBadS x ev rules) := rfl

/-- the errors candidate `i` contributes, in terms of verdicts -/
theorem errsOf_eq (i : Nat) : Scan.errsOf (absEng e) (absEv x ev e) i =
    (Dfs.dfsDepSearch (absEng e) i).filter (fun z => verdict x ev e z == .err) ++
      (if verdict x ev e i == .err then [i] else []) := rfl

include hev hw hrel in
theorem badS_iff (i : Nat) (hi : i < rules.length) :
    badS x ev rules rules[i] = true ↔
      (verdict x ev e i = .err ∨ ∃ z ∈ Dfs.dfsDepSearch (absEng e) i, verdict x ev e z = .err) := by
  have hlen := Rel2.length_eq hrel
  have hs : rules[i]? = some rules[i] := by simp
  have hc : e.rules[i]? = some e.rules[i] := by simp
  have hr := Rel2.get hrel i _ _ hs hc
  obtain ⟨l, hl, hch⟩ := closures_spec x ev rules e hw hrel i _ hc
  simp only [badS, isBadS, Bool.or_eq_true, List.any_eq_true, hr.name, hl, Option.getD_some]
  constructor
  · rintro (h | ⟨n, hn, hb⟩)
    · exact Or.inl ((bad_iff x ev hev rules e hw hrel i _ hc).mp h)
    · obtain ⟨z, hz, q, hq, hqn⟩ := (hch n).mp hn
      rw [← hqn] at hb
      exact Or.inr ⟨z, hz, (bad_iff x ev hev rules e hw hrel z q hq).mp hb⟩
  · rintro (h | ⟨z, hz, hv⟩)
    · exact Or.inl ((bad_iff x ev hev rules e hw hrel i _ hc).mpr h)
    · have hzl := dfs_members_lt hw.toWfCore i z hz
      have hcz : e.rules[z]? = some e.rules[z] := by simp [hzl]
      exact Or.inr ⟨e.rules[z].name, (hch _).mpr ⟨z, hz, _, hcz, rfl⟩, (bad_iff x ev hev rules e hw hrel z _ hcz).mpr hv⟩

include hev hw hrel in
theorem errsOf_nil_iff (i : Nat) (hi : i < rules.length) :
    (Scan.errsOf (absEng e) (absEv x ev e) i).getLast? = none ↔ badS x ev rules rules[i] = false := by
  rw [List.getLast?_eq_none_iff, errsOf_eq, List.append_eq_nil_iff, List.filter_eq_nil_iff]
  have hb := badS_iff x ev hev rules e hw hrel i hi
  constructor
  · rintro ⟨h1, h2⟩
    cases hbb : badS x ev rules rules[i] with
    | false => rfl
    | true =>
      rcases hb.mp hbb with h | ⟨z, hz, hv⟩
      · simp [h] at h2
      · have := h1 z hz; simp [hv] at this
  · intro hbb
    have hn : ¬ (verdict x ev e i = .err ∨ ∃ z ∈ Dfs.dfsDepSearch (absEng e) i, verdict x ev e z = .err) := by
      intro h; rw [hb.mpr h] at hbb; cases hbb
    constructor
    · intro z hz hv
      exact hn (Or.inr ⟨z, hz, by simpa using hv⟩)
    · have : ¬ verdict x ev e i = .err := fun h => hn (Or.inl h)
      simp [this]

include hev hw hrel in
/-- **which rule the error names**: one of the rules the specification allows -/
theorem named_refines (sr : Option ScanResult) (err : Option (Str × EvalErr)) (hspec : C01.ScanSpec x ev e sr err)
    (nm : Str) (k : EvalErr) (h : err = some (nm, k)) : nm ∈ (S.scan x ev rules).named := by
  have hlen := Rel2.length_eq hrel
  obtain ⟨y, hy, r, hr, hrn⟩ := hspec.error_last nm k h
  rw [List.getLast?_flatMap, List.findSome?_eq_some_iff] at hy
  obtain ⟨l₁, a, l₂, hsplit, hfa, hl₁⟩ := hy
  -- `a` is a candidate; everything visited after it raises nothing
  have hmemC : ∀ z, z ∈ l₁ ++ a :: l₂ → z ∈ candidates e ev.source ev.id := by
    intro z hz; rw [← hsplit] at hz; exact List.mem_reverse.mp hz
  have hal : a < rules.length := by rw [hlen]; exact candidates_lt e hw _ _ a (hmemC a (by simp))
  have hsa : rules[a]? = some rules[a] := by simp
  have hca : e.rules[a]? = some e.rules[a] := by simp
  have hra := Rel2.get hrel a _ _ hsa hca
  -- the specification's last failing candidate is rule `a`
  have hlast : ((S.scanOrder (rules.filter (fun r => (r.rtype == RType.detection || r.rtype == RType.filter) && S.admits r.matchOn ev.source ev.id))).filter
      (badS x ev rules)).getLast? = some rules[a] := by
    rw [scanOrder_eq x ev rules e hw hrel, List.getLast?_filter, CS, ← List.filterMap_reverse, hsplit,
      List.filterMap_append, List.filterMap_cons, hsa]
    apply List.find?_eq_some_iff_append.mpr
    refine ⟨?_, l₁.filterMap (fun i => rules[i]?), l₂.filterMap (fun i => rules[i]?), rfl, ?_⟩
    · cases hb : badS x ev rules rules[a] with
      | true => rfl
      | false =>
        have := (errsOf_nil_iff x ev hev rules e hw hrel a hal).mpr hb
        rw [this] at hfa; cases hfa
    · intro s hs
      obtain ⟨z, hz, hzs⟩ := List.mem_filterMap.mp hs
      have hzl : z < rules.length := (List.getElem?_eq_some_iff.mp hzs).1
      have : rules[z] = s := by
        have h' : rules[z]? = some rules[z] := by simp
        rw [h'] at hzs; exact Option.some.inj hzs
      rw [← this, (errsOf_nil_iff x ev hev rules e hw hrel z hzl).mp (hl₁ z hz)]
      rfl
  rw [named_unfold, hlast]
  simp only
  rw [errsOf_eq] at hfa
  by_cases hva : verdict x ev e a = .err
  · -- the candidate itself fails: it is evaluated after its dependencies, so it is the one named
    have : y = a := by
      simp only [hva, beq_self_eq_true, if_true, List.getLast?_append, List.getLast?_singleton, Option.some_or,
        Option.some.injEq] at hfa
      exact hfa.symm
    subst this
    rw [hca] at hr; cases hr
    have hb : isBadS x ev rules rules[y].name = true := by
      rw [isBadS, hra.name]; exact (bad_iff x ev hev rules e hw hrel y _ hca).mpr hva
    simp only [hb, if_true, List.mem_singleton]
    rw [← hrn, hra.name]
  · have hne : (verdict x ev e a == Memo.Res.err) = false := by
      cases hv : verdict x ev e a with
      | ok b => rfl
      | err => exact absurd hv hva
    simp only [hne, Bool.false_eq_true, if_false, List.append_nil] at hfa
    have hymem := List.mem_of_getLast? hfa
    obtain ⟨hyd, hyv⟩ := List.mem_filter.mp hymem
    have hyv' : verdict x ev e y = .err := by simpa using hyv
    have hb : isBadS x ev rules rules[a].name = false := by
      cases hbb : isBadS x ev rules rules[a].name with
      | false => rfl
      | true =>
        rw [isBadS, hra.name] at hbb
        exact absurd ((bad_iff x ev hev rules e hw hrel a _ hca).mp hbb) hva
    simp only [hb, Bool.false_eq_true, if_false, List.mem_filter]
    obtain ⟨l, hl, hch⟩ := closures_spec x ev rules e hw hrel a _ hca
    rw [hra.name, hl]
    refine ⟨(hch nm).mpr ⟨y, hyd, r, hr, hrn⟩, ?_⟩
    rw [isBadS, ← hrn]
    exact (bad_iff x ev hev rules e hw hrel y r hr).mpr hyv'

include hev hw hrel in
/-- **The model refines the specification** (complete form): result, error status, and the rule named. -/
theorem scan_refines_spec_full :
    ∃ c sr err, Engine.scan x e ev = ({ e with rulesCache := c }, .done sr err) ∧
      SrEq sr (S.scan x ev rules).result ∧
      (err.isSome = true ↔ (S.scan x ev rules).failing ≠ []) ∧
      (∀ nm k, err = some (nm, k) → nm ∈ (S.scan x ev rules).named) := by
  obtain ⟨c, sr, err, hs, _, hspec⟩ := C01.C01_scan x ev e hw
  refine ⟨c, sr, err, hs, ?_, ?_, ?_⟩
  · rw [hspec.result]; exact result_refines x ev hev rules e hw hrel
  · rw [hspec.error_iff]; exact failing_iff x ev hev rules e hw hrel
  · intro nm k h; exact named_refines x ev hev rules e hw hrel sr err hspec nm k h

end named

end Gene.Props.Refine
