import Gene.Getter
/-! C08 — derived field getters resolve a path to the field it names. -/
set_option linter.unusedSimpArgs false
namespace Gene.Props.C08
open Gene M

theorem arm_eq_spec (us : Bool) (f : FieldDef) : arm us f = S.armSpec us f := by
  unfold arm S.armSpec
  have : (f.attrs.filter (fun a => a.isGetter || us)).any (fun a => a.isGetter && a.metas.contains .skip)
       = f.attrs.any (fun a => a.isGetter && a.metas.contains .skip) := by
    induction f.attrs with
    | nil => rfl
    | cons a as ih =>
      simp only [List.filter_cons, List.any_cons]
      cases hg : a.isGetter <;> cases us <;> simp [hg, ih]
  simp only [this]

mutual
theorem gget_resolve : ∀ (v : GVal) (p : List Str), gget v p = S.resolve v p
  | .scalar fv, [] => rfl
  | .scalar _, _ :: _ => rfl
  | .optNone, _ => by simp [gget, S.resolve]
  | .optSome v, p => by simp only [gget, S.resolve]; exact gget_resolve v p
  | .map _, [] => rfl
  | .map kvs, [k] => rfl
  | .map _, _ :: _ :: _ => rfl
  | .struct _ _, [] => rfl
  | .struct us fs, seg :: rest => by simp only [gget, S.resolve]; exact ggetField_resolve us fs seg rest
theorem ggetField_resolve : ∀ (us : Bool) (fs : List (FieldDef × GVal)) (seg : Str) (rest : List Str),
    ggetField us fs seg rest = S.resolveField us fs seg rest
  | _, [], _, _ => rfl
  | us, (f, v) :: fs, seg, rest => by
    simp only [ggetField, S.resolveField, arm_eq_spec]
    cases S.armSpec us f with
    | none => exact ggetField_resolve us fs seg rest
    | some names =>
      simp only
      split
      · exact gget_resolve v rest
      · exact ggetField_resolve us fs seg rest
end

/-- **C08.** For every struct definition (any nesting, any attribute lists in any order), every value and
    every path, the generated getter resolves the path as the statement says -/
theorem C08_resolves (v : GVal) (p : List Str) : gget v p = S.resolve v p := gget_resolve v p

/-- a field carrying `getter(skip)` in *any* of its attributes resolves to nothing, whatever else it carries -/
theorem C08_skip (us : Bool) (f : FieldDef) (h : f.attrs.any (fun a => a.isGetter && a.metas.contains .skip) = true) :
    arm us f = none := by
  rw [arm_eq_spec]; simp only [S.armSpec, h, if_true]

/-- every alias declared by any relevant attribute is a pattern of the arm -/
theorem C08_alias (us : Bool) (f : FieldDef) (a : FieldAttr) (n : Str) (ha : a ∈ f.attrs)
    (hrel : (a.isGetter || us) = true) (hn : renameOf a.metas = some n)
    (hns : f.attrs.any (fun a => a.isGetter && a.metas.contains .skip) = false) :
    ∃ names, arm us f = some names ∧ n ∈ names ∧ f.name ∈ names := by
  rw [arm_eq_spec]
  simp only [S.armSpec, hns, Bool.false_eq_true, if_false]
  refine ⟨_, rfl, ?_, by simp⟩
  simp only [List.mem_cons, List.mem_filterMap, List.mem_filter]
  exact Or.inr ⟨a, ⟨ha, hrel⟩, hn⟩

-- the statement's clauses, as evaluations
example : gget (.struct false [(⟨"o".toList, []⟩, .optNone)]) ["o".toList, "zzz".toList] = some .none := by decide
example : gget (.struct false [(⟨"m".toList, []⟩, .map [("k.j".toList, .num (.uint 9))])]) ["m".toList, "k.j".toList]
    = some (.num (.uint 9)) := by decide
example : gget (.struct false [(⟨"a".toList, []⟩, .scalar (.num (.uint 1)))]) ["a".toList, "b".toList] = none := by decide
example : gget (.struct false [(⟨"a".toList, []⟩, .struct false [])]) ["a".toList] = some .some := by decide
-- `#[serde(rename = "x")] #[getter(skip)] f` under `use_serde_rename` is skipped
example : gget (.struct true [(⟨"f".toList, [⟨false, [.rename "x".toList]⟩, ⟨true, [.skip]⟩]⟩, .scalar (.num (.uint 1)))])
    ["f".toList] = none := by decide

end Gene.Props.C08
