import Gene.Props.EngineSim
import Gene.Props.C05
/-! C01 — scan reports exactly the rules whose conditions hold (and C06 / C09 / C10 / C12 corollaries).

    `verdict x ev e i` is the denotational verdict of rule `i` on the event: defined by recursion over
    the load order only (`Memo.specV`): rule `i`'s condition evaluated with every `rule(d)` operand standing
    for the verdict of `d`, an erroring or missing dependency being an error (`verdict_eq`). No candidate
    cache, dependency cache, DFS list or per-scan memo appears in it.

    `C01_scan`: for every well-formed engine (`WfEngine`: what `Engine::try_from(Compiler)` builds) and every
    event, `scan` never panics and
      * the reported result is the aggregation of exactly the candidates — detection or filter rules
        admitted by their match-on section for the event's (source, id) — whose verdict is `ok true`;
      * an error is returned iff some candidate, or a rule in the dependency list of a candidate, has an
        erroring verdict, and the rule the error names is one of those;
      * the engine after the scan is well-formed again, and differs by the candidate cache only. -/
set_option linter.unusedSimpArgs false
namespace Gene.Props.C01
open Gene M EngineSim

variable (x : Ext) (event : Event)

/-- the denotational verdict of rule `i` -/
def verdict (e : Engine) (i : Nat) : Memo.Res := Memo.specV (absEv x event e) i

/-- **C06 (rule(x) = x's verdict).** The verdict of a rule is its condition evaluated against a memo in
    which each earlier rule `d` has exactly its own verdict (present iff that verdict is not an error). -/
theorem verdict_eq (e : Engine) (hw : WfEngine e) (i : Nat) :
    verdict x event e i = absEv x event e i (fun d => (verdict x event e d).toOpt) :=
  Memo.specV_eq (absEng e) (absEv x event e) (absEng_wf hw.toWfCore) (absEv_local x event hw) i

/-! ### candidates -/
theorem btInsertCand_vals (k : Nat × Str) (i : Nat) (l : List ((Nat × Str) × Nat)) (hk : ∀ p ∈ l, p.1 ≠ k) (j : Nat) :
    j ∈ (btInsertCand k i l).map Prod.snd ↔ j = i ∨ j ∈ l.map Prod.snd := by
  induction l with
  | nil => simp [btInsertCand]
  | cons p l ih =>
    obtain ⟨k', i'⟩ := p
    have hne : (k == k') = false := by
      have := hk (k', i') (by simp)
      simp only [ne_eq] at this
      cases hb : k == k' with
      | false => rfl
      | true => exact absurd (by simpa using hb : k = k').symm this
    simp only [btInsertCand, hne, Bool.false_eq_true, if_false]
    split
    · simp
    · simp only [List.map_cons, List.mem_cons]
      rw [ih (fun p hp => hk p (by simp [hp]))]
      constructor
      · rintro (h | h | h)
        · exact Or.inr (Or.inl h)
        · exact Or.inl h
        · exact Or.inr (Or.inr h)
      · rintro (h | h | h)
        · exact Or.inr (Or.inl h)
        · exact Or.inl h
        · exact Or.inr (Or.inr h)

theorem btInsertCand_keys (k : Nat × Str) (i : Nat) (l : List ((Nat × Str) × Nat)) (p : (Nat × Str) × Nat)
    (hp : p ∈ btInsertCand k i l) : p = (k, i) ∨ p ∈ l := by
  induction l with
  | nil => simp [btInsertCand] at hp; exact Or.inl hp
  | cons q l ih =>
    obtain ⟨k', i'⟩ := q
    simp only [btInsertCand] at hp
    split at hp
    · simp only [List.mem_cons] at hp
      rcases hp with h | h
      · exact Or.inl h
      · exact Or.inr (List.mem_cons_of_mem _ h)
    · split at hp
      · simp only [List.mem_cons] at hp
        rcases hp with h | h | h
        · exact Or.inl h
        · exact Or.inr (by simp [h])
        · exact Or.inr (List.mem_cons_of_mem _ h)
      · simp only [List.mem_cons] at hp
        rcases hp with h | h
        · exact Or.inr (by simp [h])
        · rcases ih h with h' | h'
          · exact Or.inl h'
          · exact Or.inr (List.mem_cons_of_mem _ h')

def isCand (e : Engine) (src : Str) (id : Int) (i : Nat) : Prop :=
  ∃ r, e.rules[i]? = some r ∧ (CompiledRule.isFilter r || CompiledRule.isDetection r) = true ∧
    canMatchOn r.includeEvents r.excludeEvents src id = true

/-- **candidates = detection / filter rules admitted for (source, id)**, each exactly once is not needed:
    membership is what the scan theorem uses -/
theorem mem_candidates (e : Engine) (hw : WfEngine e) (src : Str) (id : Int) (i : Nat) :
    i ∈ candidates e src id ↔ isCand e src id i := by
  unfold candidates
  simp only [List.mem_reverse]
  -- fold invariant over a prefix of the range
  have key : ∀ (m : Nat), m ≤ e.rules.length →
      let tmp := (List.range m).foldl (candStep e src id) []
      (∀ j, j ∈ tmp.map Prod.snd ↔ j < m ∧ isCand e src id j) ∧
      (∀ p ∈ tmp, ∃ r, e.rules[p.2]? = some r ∧ p.1 = (r.severity, r.name) ∧ p.2 < m) := by
    intro m
    induction m with
    | zero => intro _; simp
    | succ m ih =>
      intro hm
      have ihm := ih (by omega)
      simp only [List.range_succ, List.foldl_append, List.foldl_cons, List.foldl_nil]
      generalize hT : (List.range m).foldl _ [] = tmp at ihm ⊢
      obtain ⟨ih1, ih2⟩ := ihm
      have hr : e.rules[m]? = some e.rules[m] := by
        have : m < e.rules.length := by omega
        simp [this]
      simp only [candStep, hr]
      by_cases hc : ((CompiledRule.isFilter e.rules[m] || CompiledRule.isDetection e.rules[m]) &&
          canMatchOn e.rules[m].includeEvents e.rules[m].excludeEvents src id) = true
      · simp only [hc, if_true]
        have hfresh : ∀ p ∈ tmp, p.1 ≠ (e.rules[m].severity, e.rules[m].name) := by
          intro p hp heq
          obtain ⟨r, hr', hk, hlt⟩ := ih2 p hp
          rw [hk] at heq
          simp only [Prod.mk.injEq] at heq
          have := name_unique hw.toWfCore hr' hr heq.2
          omega
        constructor
        · intro j
          rw [btInsertCand_vals _ _ _ hfresh, ih1 j]
          simp only [Bool.and_eq_true] at hc
          constructor
          · rintro (rfl | ⟨h1, h2⟩)
            · exact ⟨by omega, e.rules[j], hr, hc.1, hc.2⟩
            · exact ⟨by omega, h2⟩
          · rintro ⟨h1, h2⟩
            by_cases hjm : j = m
            · exact Or.inl hjm
            · exact Or.inr ⟨by omega, h2⟩
        · intro p hp
          rcases btInsertCand_keys _ _ _ p hp with rfl | hp'
          · exact ⟨e.rules[m], hr, rfl, Nat.lt_succ_self m⟩
          · obtain ⟨r, h1, h2, h3⟩ := ih2 p hp'
            exact ⟨r, h1, h2, by omega⟩
      · simp only [hc, Bool.false_eq_true, if_false]
        constructor
        · intro j
          rw [ih1 j]
          constructor
          · rintro ⟨h1, h2⟩; exact ⟨by omega, h2⟩
          · rintro ⟨h1, h2⟩
            refine ⟨?_, h2⟩
            by_cases hjm : j = m
            · subst hjm
              obtain ⟨r, hr', hc1, hc2⟩ := h2
              rw [hr] at hr'; cases hr'
              exfalso; apply hc; simp [hc1, hc2]
            · omega
        · intro p hp
          obtain ⟨r, h1, h2, h3⟩ := ih2 p hp
          exact ⟨r, h1, h2, by omega⟩
  have := (key e.rules.length (Nat.le_refl _)).1 i
  rw [this]
  constructor
  · rintro ⟨_, h⟩; exact h
  · intro h
    have h' := h
    obtain ⟨r, hr, _⟩ := h'
    exact ⟨(List.getElem?_eq_some_iff.mp hr).1, h⟩

theorem candidates_lt (e : Engine) (hw : WfEngine e) (src : Str) (id : Int) :
    ∀ i ∈ candidates e src id, i < e.rules.length := by
  intro i hi
  obtain ⟨r, hr, _⟩ := (mem_candidates e hw src id i).mp hi
  exact (List.getElem?_eq_some_iff.mp hr).1


/-! ### the candidate cache is unobservable -/
theorem wf_cache (e : Engine) (hw : WfEngine e) (cache' : List ((Str × Int) × List Nat))
    (hc : ∀ k l, cache'.lookup k = some l → l = candidates e k.1 k.2) :
    WfEngine { e with rulesCache := cache' } :=
  { toWfCore := ⟨hw.names_ok, hw.deps_back⟩, deps_cover := hw.deps_cover, deps_cache := hw.deps_cache, cache_ok := hc,
    sev_ok := hw.sev_ok }

theorem cachedRules_spec (e : Engine) (hw : WfEngine e) (src : Str) (id : Int) :
    ∃ cache', Engine.cachedRules e src id = ({ e with rulesCache := cache' }, candidates e src id) ∧
      ∀ k l, cache'.lookup k = some l → l = candidates e k.1 k.2 := by
  unfold Engine.cachedRules
  cases hl : e.rulesCache.lookup (src, id) with
  | some l =>
    have := hw.cache_ok (src, id) l hl
    exact ⟨e.rulesCache, by simp only [this], hw.cache_ok⟩
  | none =>
    refine ⟨((src, id), candidates e src id) :: e.rulesCache, rfl, ?_⟩
    intro k l hk
    simp only [List.lookup_cons] at hk
    cases hb : k == (src, id) with
    | true =>
      rw [hb] at hk
      simp only [Option.some.injEq] at hk
      have : k = (src, id) := by simpa using hb
      rw [← hk, this]
    | false =>
      rw [hb] at hk
      exact hw.cache_ok k l hk

/-- what a scan delivers, for any well-formed engine -/
structure ScanSpec (e : Engine) (sr : Option ScanResult) (err : Option (Str × EvalErr)) : Prop where
  /-- the result aggregates exactly the candidates whose verdict is `ok true` -/
  result : sr = srFold (((candidates e event.source event.id).filter
              (fun i => verdict x event e i == .ok true)).filterMap (fun i => e.rules[i]?))
  /-- an error is returned iff a candidate, or a rule in a candidate's dependency list, has an erroring verdict -/
  error_iff : err.isSome = true ↔
      ∃ i ∈ candidates e event.source event.id, ∃ y, (y = i ∨ y ∈ Dfs.dfsDepSearch (absEng e) i) ∧
        verdict x event e y = .err
  /-- the rule named by the error really failed -/
  error_names : ∀ nm k, err = some (nm, k) →
      ∃ i ∈ candidates e event.source event.id, ∃ y, (y = i ∨ y ∈ Dfs.dfsDepSearch (absEng e) i) ∧
        verdict x event e y = .err ∧ ∃ r, e.rules[y]? = some r ∧ r.name = nm
  /-- which failing rule is named: the last one of the error record, i.e. of the failing rules listed candidate
      by candidate in scan order — for each candidate its failing dependencies in the order of its dependency
      list, then the candidate itself -/
  error_last : ∀ nm k, err = some (nm, k) →
      ∃ y, ((candidates e event.source event.id).flatMap
              (Scan.errsOf (absEng e) (absEv x event e))).getLast? = some y ∧
        ∃ r, e.rules[y]? = some r ∧ r.name = nm

/-- **C01 / C09 / C10 / C12.** -/
theorem C01_scan (e : Engine) (hw : WfEngine e) :
    ∃ cache' sr err,
      Engine.scan x e event = ({ e with rulesCache := cache' }, .done sr err) ∧
      WfEngine { e with rulesCache := cache' } ∧ ScanSpec x event e sr err := by
  obtain ⟨cache', hcr, hc⟩ := cachedRules_spec e hw event.source event.id
  have hw' := wf_cache e hw cache' hc
  let e' : Engine := { e with rulesCache := cache' }
  have hcl := candidates_lt e hw event.source event.id
  obtain ⟨c', hloop, hR, hE, hS⟩ := scanLoop_sim x event (e := e') hw' (candidates e event.source event.id) hcl
    ⟨[], [], []⟩ {} R_nil ⟨by simp, by intro nm k h; cases h⟩ ⟨rfl, by intro s h; cases h⟩
  have hinv := Scan.scan_correct (absEng e') (absEv x event e') (absEng_wf hw'.toWfCore) (absEv_local x event hw')
    (candidates e event.source event.id)
  refine ⟨cache', c'.sr, c'.lastErr, ?_, hw', ?_⟩
  · unfold Engine.scan
    simp only [hcr]
    rw [hloop]
  · -- the abstraction of `e'` is the abstraction of `e`
    have hS1 := hS.1
    have hm := hinv.matched
    have he := hinv.errs
    unfold Scan.scan at hm he
    have hel := Scan.scan_errs_eq (absEng e') (absEv x event e') (absEng_wf hw'.toWfCore) (absEv_local x event hw')
      (candidates e event.source event.id)
    unfold Scan.scan at hel
    refine ⟨?_, ?_, ?_, ?_⟩
    · rw [hS1, hm]; rfl
    · rw [hE.1]
      constructor
      · intro hne
        obtain ⟨y, hy⟩ := List.exists_mem_of_ne_nil _ hne
        obtain ⟨i, hi, h1, h2⟩ := (he y).mp hy
        exact ⟨i, hi, y, h1, h2⟩
      · rintro ⟨i, hi, y, h1, h2⟩
        have := (he y).mpr ⟨i, hi, h1, h2⟩
        intro hnil; rw [hnil] at this; cases this
    · intro nm k h
      obtain ⟨y, hy, r, hr, hn⟩ := hE.2 nm k h
      obtain ⟨i, hi, h1, h2⟩ := (he y).mp (List.mem_of_getLast? hy)
      exact ⟨i, hi, y, h1, h2, r, hr, hn⟩
    · intro nm k h
      obtain ⟨y, hy, r, hr, hn⟩ := hE.2 nm k h
      rw [hel] at hy
      exact ⟨y, hy, r, hr, hn⟩

/-- **C09.** Scanning an engine that was built successfully never panics, whatever the event's getter
    answers (the event is an arbitrary function from segment lists to optional `FieldValue`s) -/
theorem C09_no_panic (e : Engine) (hw : WfEngine e) : ∀ site, (Engine.scan x e event).2 ≠ .panic site := by
  intro site
  obtain ⟨cache', sr, err, h, _, _⟩ := C01_scan x event e hw
  rw [h]; intro hc; cases hc

end Gene.Props.C01
