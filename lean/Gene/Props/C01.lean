import Gene.Engine
