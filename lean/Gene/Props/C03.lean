import Gene.Spec.FieldTest
/-! C03 — field tests mean what the rule author wrote. (theorems below) -/
