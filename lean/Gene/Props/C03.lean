import Gene.Spec.FieldTest
import Gene.Props.C04
/-! C03 — field tests (==, is, ~=, &=, @indirect) mean what the rule author wrote.

    `C03_direct`: for every operator, every `value` token the grammar can produce, and every field value
    (present with any `FieldValue`, or missing), compiling the token (`DirectMatch::from_str`'s literal
    classification) and evaluating the match (`match_event`/`match_value`) gives exactly the table of the
    property statement, read off the characters between the token's outer quotes. A token the statement
    cannot interpret for the operator is exactly a compile error.
    `C03_indirect`: `== @.other`. -/
set_option linter.unusedSimpArgs false
namespace Gene.Props.C03
open Gene M

/-- the shapes of the `value` token (match.pest: `value_dq | value_sq | "none" | "some" | "true" | "false"`) -/
inductive IsValueTok : Str → Prop
  | none : IsValueTok "none".toList
  | some : IsValueTok "some".toList
  | tt : IsValueTok "true".toList
  | ff : IsValueTok "false".toList
  | sq (body : Str) : IsValueTok ('\'' :: (body ++ ['\'']))
  | dq (body : Str) : IsValueTok ('"' :: (body ++ ['"']))

def resOfOpt : Option Bool → S.Res
  | Option.some b => .ok b
  | Option.none => .err

def resOf : Except EvalErr Bool → S.Res
  | .ok b => .ok b
  | .error _ => .err

/-- a field value whose numeric payload fits its Rust type -/
def fvWf : FieldValue → Prop
  | .num n => n.wf
  | _ => True

/-! ### numbers produced by `Number::parse` fit their types -/
theorem parseDigits_le {max : Nat} {s : Str} {n : Nat} (h : parseDigits max s = Option.some n) : n ≤ max := by
  unfold parseDigits at h
  split at h
  · cases h
  · simp only at h
    split at h
    · cases h; assumption
    · cases h

theorem p63n : (2:Nat)^63 = 9223372036854775808 := by decide

theorem numParse_wf (fp : Str → Option FVal) (s : Str) (n : Num) (h : numParse fp s = Option.some n) : n.wf := by
  unfold numParse at h
  split at h
  · -- hex
    cases hh : parseHexU64 (s.drop 2) with
    | none => rw [hh] at h; cases h
    | some v =>
      rw [hh] at h; simp only [Option.map_some, Option.some.injEq] at h; subst h
      unfold parseHexU64 at hh
      split at hh
      · cases hh
      · cases hm : (hexBody (s.drop 2)).mapM hexVal with
        | none => rw [hm] at hh; cases hh
        | some ds =>
          rw [hm] at hh
          simp only at hh
          split at hh
          · cases hh; assumption
          · cases hh
  · split at h
    · split at h
      · cases hf : fp s with
        | none => rw [hf] at h; cases h
        | some v => rw [hf] at h; simp only [Option.map_some, Option.some.injEq] at h; subst h; trivial
      · cases hi : parseI64 s with
        | none => rw [hi] at h; cases h
        | some v =>
          rw [hi] at h; simp only [Option.map_some, Option.some.injEq] at h; subst h
          have hr : -(2:Int)^63 ≤ v ∧ v < 2^63 := by
            rw [C04.p63]
            unfold parseI64 at hi
            split at hi
            · cases hd : parseDigits (2^63) _ with
              | none => rw [hd] at hi; cases hi
              | some m =>
                rw [hd] at hi; simp only [Option.map_some, Option.some.injEq] at hi; subst hi
                have := parseDigits_le hd; rw [p63n] at this
                simp only [Int.ofNat_eq_natCast]; omega
            · cases hd : parseDigits (2^63 - 1) _ with
              | none => rw [hd] at hi; cases hi
              | some m =>
                rw [hd] at hi; simp only [Option.map_some, Option.some.injEq] at hi; subst hi
                have := parseDigits_le hd; rw [p63n] at this
                simp only [Int.ofNat_eq_natCast]; omega
            · cases hd : parseDigits (2^63 - 1) _ with
              | none => rw [hd] at hi; cases hi
              | some m =>
                rw [hd] at hi; simp only [Option.map_some, Option.some.injEq] at hi; subst hi
                have := parseDigits_le hd; rw [p63n] at this
                simp only [Int.ofNat_eq_natCast]; omega
          unfold fromI64
          split
          · exact hr
          · show v.toNat < 2^64
            rw [C04.p64n]; rw [C04.p63] at hr; omega
    · split at h
      · cases hf : fp s with
        | none => rw [hf] at h; cases h
        | some v => rw [hf] at h; simp only [Option.map_some, Option.some.injEq] at h; subst h; trivial
      · cases hu : parseU64 s with
        | none => rw [hu] at h; cases h
        | some v =>
          rw [hu] at h; simp only [Option.map_some, Option.some.injEq] at h; subst h
          show v < 2^64
          rw [C04.p64n]
          unfold parseU64 at hu
          split at hu <;> (have := parseDigits_le hu; omega)

/-! ### the bit test -/
theorem land_eq_iff (a b : Nat) (ha : a < 2^64) :
    ((a &&& b) == a) = (List.range 64).all (fun i => !a.testBit i || b.testBit i) := by
  rw [Bool.eq_iff_iff]
  simp only [beq_iff_eq, List.all_eq_true, List.mem_range, Bool.or_eq_true, Bool.not_eq_true']
  constructor
  · intro h i _
    have : (a &&& b).testBit i = a.testBit i := by rw [h]
    rw [Nat.testBit_and] at this
    cases hai : a.testBit i
    · left; rfl
    · right; rw [hai] at this; simpa using this
  · intro h
    apply Nat.eq_of_testBit_eq
    intro i
    rw [Nat.testBit_and]
    by_cases hi : i < 64
    · rcases h i hi with h1 | h1
      · simp [h1]
      · simp [h1]
    · have : a < 2^i := Nat.lt_of_lt_of_le ha (Nat.pow_le_pow_right (by decide) (by omega))
      simp [Nat.testBit_lt_two_pow this]

theorem asBits_spec (n : Num) (hn : n.wf) :
    asBits n = (S.intOf n).map S.pattern ∧ ∀ v, asBits n = Option.some v → v < 2^64 := by
  cases n with
  | int v =>
    refine ⟨rfl, ?_⟩
    intro w hw
    simp only [asBits, Option.some.injEq] at hw
    subst hw
    have hpos : (0:Int) < 2^64 := by rw [C04.p64]; decide
    have h1 := Int.emod_lt_of_pos v hpos
    have h2 := Int.emod_nonneg v (Int.ne_of_gt hpos)
    rw [C04.p64n]; rw [C04.p64] at h1 h2 ⊢; omega
  | uint v =>
    have hv : v < 2^64 := hn
    refine ⟨?_, ?_⟩
    · simp only [asBits, S.intOf, Option.map_some, S.pattern, Option.some.injEq]
      have : ((v : Int) % 2^64) = v := by
        rw [C04.p64]; rw [C04.p64n] at hv; omega
      rw [this]; simp
    · intro w hw; simp only [asBits, Option.some.injEq] at hw; subst hw; exact hv
  | float x => exact ⟨rfl, by intro v h; cases h⟩

theorem flag_spec (a b : Num) (ha : a.wf) (hb : b.wf) : resOfOpt (flagTest a b) = S.bitTest a b := by
  have sa := asBits_spec a ha
  have sb := asBits_spec b hb
  unfold flagTest S.bitTest
  rw [sa.1, sb.1]
  cases hia : S.intOf a with
  | none => simp [resOfOpt]
  | some x =>
    cases hib : S.intOf b with
    | none => simp [resOfOpt]
    | some y =>
      simp only [Option.map_some, resOfOpt]
      have hlt : S.pattern x < 2^64 := sa.2 _ (by rw [sa.1, hia]; rfl)
      rw [land_eq_iff _ _ hlt]
      rfl

/-! ### reading the token -/
theorem strip_concat (body : Str) (q : Char) : stripSuffixChar (body ++ [q]) q = Option.some body := by
  unfold stripSuffixChar
  simp

theorem sanitize_sq (body : Str) : sanitize ('\'' :: (body ++ ['\''])) = body := by
  simp only [sanitize, strip_concat]
theorem sanitize_dq (body : Str) : sanitize ('"' :: (body ++ ['"'])) = body := by
  simp only [sanitize, strip_concat]

theorem literal_sq (body : Str) : S.literal ('\'' :: (body ++ ['\''])) = .text body := by
  unfold S.literal
  have h1 : ('\'' :: (body ++ ['\'']) == "none".toList) = false := by
    show (('\'' :: (body ++ ['\''])) == ('n' :: _)) = false
    simp
  have h2 : ('\'' :: (body ++ ['\'']) == "some".toList) = false := by
    show (('\'' :: (body ++ ['\''])) == ('s' :: _)) = false
    simp
  have h3 : ('\'' :: (body ++ ['\'']) == "true".toList) = false := by
    show (('\'' :: (body ++ ['\''])) == ('t' :: _)) = false
    simp
  have h4 : ('\'' :: (body ++ ['\'']) == "false".toList) = false := by
    show (('\'' :: (body ++ ['\''])) == ('f' :: _)) = false
    simp
  simp only [h1, h2, h3, h4, Bool.false_eq_true, if_false, List.drop_succ_cons, List.drop_zero,
    List.dropLast_concat]

theorem literal_dq (body : Str) : S.literal ('"' :: (body ++ ['"'])) = .text body := by
  unfold S.literal
  have h1 : ('"' :: (body ++ ['"']) == "none".toList) = false := by
    show (('"' :: (body ++ ['"'])) == ('n' :: _)) = false
    simp
  have h2 : ('"' :: (body ++ ['"']) == "some".toList) = false := by
    show (('"' :: (body ++ ['"'])) == ('s' :: _)) = false
    simp
  have h3 : ('"' :: (body ++ ['"']) == "true".toList) = false := by
    show (('"' :: (body ++ ['"'])) == ('t' :: _)) = false
    simp
  have h4 : ('"' :: (body ++ ['"']) == "false".toList) = false := by
    show (('"' :: (body ++ ['"'])) == ('f' :: _)) = false
    simp
  simp only [h1, h2, h3, h4, Bool.false_eq_true, if_false, List.drop_succ_cons, List.drop_zero,
    List.dropLast_concat]

/-- the four token tests of `classify` on a quoted token -/
theorem quoted_not_kw (q : Char) (body : Str) (hq : q = '\'' ∨ q = '"') :
    ((q :: (body ++ [q])) == "none".toList) = false ∧ ((q :: (body ++ [q])) == "some".toList) = false ∧
    ((q :: (body ++ [q])) == "true".toList) = false ∧ ((q :: (body ++ [q])) == "false".toList) = false := by
  rcases hq with rfl | rfl
  · refine ⟨?_, ?_, ?_, ?_⟩
    · show (('\'' :: _) == ('n' :: _)) = false; simp
    · show (('\'' :: _) == ('s' :: _)) = false; simp
    · show (('\'' :: _) == ('t' :: _)) = false; simp
    · show (('\'' :: _) == ('f' :: _)) = false; simp
  · refine ⟨?_, ?_, ?_, ?_⟩
    · show (('"' :: _) == ('n' :: _)) = false; simp
    · show (('"' :: _) == ('s' :: _)) = false; simp
    · show (('"' :: _) == ('t' :: _)) = false; simp
    · show (('"' :: _) == ('f' :: _)) = false; simp

/-- a keyword is not a number -/
theorem kw_not_num (fp : Str → Option FVal) :
    numParse fp "none".toList = Option.none ∧ numParse fp "some".toList = Option.none ∧
    numParse fp "true".toList = Option.none ∧ numParse fp "false".toList = Option.none := by
  refine ⟨rfl, rfl, rfl, rfl⟩


/-! ### `classify` in closed form -/
/-- what `DirectMatch::from_str` builds from a quoted token with content `body` -/
def quotedValue (x : Ext) (op : MOp) (body : Str) : Option MatchValue :=
  match op with
  | .eq => match numParse x.fparse body with
    | Option.some n => Option.some (.strOrNum body n)
    | Option.none => Option.some (.str body)
  | .rex => if x.rxOk body then Option.some (.regex body) else Option.none
  | _ => (numParse x.fparse body).map MatchValue.num

theorem classify_quoted (x : Ext) (op : MOp) (q : Char) (body : Str) (hq : q = '\'' ∨ q = '"') :
    classify x op (q :: (body ++ [q])) = quotedValue x op body := by
  obtain ⟨k1, k2, k3, k4⟩ := quoted_not_kw q body hq
  have hs : sanitize (q :: (body ++ [q])) = body := by
    rcases hq with rfl | rfl
    · exact sanitize_sq body
    · exact sanitize_dq body
  unfold classify quotedValue
  simp only [hs, k1, k2, k3, k4, Bool.false_eq_true, if_false]
  cases op <;> rfl

/-- what it builds from a bare keyword -/
def kwValue (x : Ext) (op : MOp) (kw : Str) (v : MatchValue) : Option MatchValue :=
  match op with
  | .eq => Option.some v
  | .rex => if x.rxOk kw then Option.some (.regex kw) else Option.none
  | _ => Option.none

theorem classify_kw (x : Ext) (op : MOp) :
    classify x op "none".toList = kwValue x op "none".toList .none ∧
    classify x op "some".toList = kwValue x op "some".toList .some ∧
    classify x op "true".toList = kwValue x op "true".toList (.bool true) ∧
    classify x op "false".toList = kwValue x op "false".toList (.bool false) := by
  obtain ⟨n1, n2, n3, n4⟩ := kw_not_num x.fparse
  have s1 : sanitize "none".toList = "none".toList := rfl
  have s2 : sanitize "some".toList = "some".toList := rfl
  have s3 : sanitize "true".toList = "true".toList := rfl
  have s4 : sanitize "false".toList = "false".toList := rfl
  refine ⟨?_, ?_, ?_, ?_⟩ <;> cases op <;>
    simp only [classify, kwValue, s1, s2, s3, s4, n1, n2, n3, n4, Option.map_none] <;> rfl

/-- Stage A: a token is rejected at compile time exactly when the statement cannot interpret it -/
theorem classify_isSome (x : Ext) (op : MOp) (tok : Str) (h : IsValueTok tok) :
    (classify x op tok).isSome = S.litOk x op (S.literal tok) := by
  obtain ⟨c1, c2, c3, c4⟩ := classify_kw x op
  cases h with
  | none => rw [c1]; cases op <;> simp [kwValue, S.litOk, S.literal] <;> (try split) <;> simp_all
  | some => rw [c2]; cases op <;> simp [kwValue, S.litOk, S.literal] <;> (try split) <;> simp_all
  | tt => rw [c3]; cases op <;> simp [kwValue, S.litOk, S.literal] <;> (try split) <;> simp_all
  | ff => rw [c4]; cases op <;> simp [kwValue, S.litOk, S.literal] <;> (try split) <;> simp_all
  | sq body =>
    rw [classify_quoted x op '\'' body (Or.inl rfl), literal_sq]
    cases op <;> simp only [quotedValue, S.litOk] <;>
      first
        | (cases numParse x.fparse body <;> rfl)
        | (cases x.rxOk body <;> rfl)
  | dq body =>
    rw [classify_quoted x op '"' body (Or.inr rfl), literal_dq]
    cases op <;> simp only [quotedValue, S.litOk] <;>
      first
        | (cases numParse x.fparse body <;> rfl)
        | (cases x.rxOk body <;> rfl)


/-! ### Stage B: evaluation against a present value -/
theorem ops_eq {a b : Num} (ha : a.wf) (hb : b.wf) :
    numEq a b = S.numEq a b ∧ numLt a b = S.numLt a b ∧ numLe a b = S.numLe a b ∧
    numGt a b = S.numGt a b ∧ numGe a b = S.numGe a b := C04.C04_ops a b ha hb

theorem matchValue_quoted (x : Ext) (op : MOp) (body : Str) (v : MatchValue)
    (hc : quotedValue x op body = Option.some v) (fv : FieldValue) (hfv : fvWf fv) :
    resOfOpt (matchValue x op v fv) = S.fieldTest x op (.text body) (Option.some fv) := by
  cases op with
  | eq =>
    simp only [quotedValue] at hc
    cases hn : numParse x.fparse body with
    | none =>
      rw [hn] at hc; simp only [Option.some.injEq] at hc; subst hc
      cases fv <;> simp [matchValue, S.fieldTest, resOfOpt, hn]
    | some n =>
      rw [hn] at hc; simp only [Option.some.injEq] at hc; subst hc
      have hnw := numParse_wf _ _ _ hn
      cases fv with
      | num m =>
        have := (ops_eq (a := m) (b := n) hfv hnw).1
        simp [matchValue, S.fieldTest, resOfOpt, hn, this]
      | _ => simp [matchValue, S.fieldTest, resOfOpt, hn]
  | rex =>
    simp only [quotedValue] at hc
    split at hc
    · simp only [Option.some.injEq] at hc; subst hc
      cases fv <;> simp [matchValue, S.fieldTest, resOfOpt, S.litText]
    · cases hc
  | flag =>
    simp only [quotedValue] at hc
    cases hn : numParse x.fparse body with
    | none => rw [hn] at hc; cases hc
    | some n =>
      rw [hn] at hc; simp only [Option.map_some, Option.some.injEq] at hc; subst hc
      have hnw := numParse_wf _ _ _ hn
      cases fv with
      | num m =>
        have := flag_spec n m hnw hfv
        simp only [matchValue, S.fieldTest, S.fieldNum, S.litText, hn]
        exact this
      | str s =>
        simp only [matchValue, S.fieldTest, S.fieldNum, S.litText, hn]
        cases hs : numParse x.fparse s with
        | none => simp [resOfOpt]
        | some m =>
          have hmw := numParse_wf _ _ _ hs
          have := flag_spec n m hnw hmw
          simp only [Option.map_some]
          exact this
      | _ => simp [matchValue, S.fieldTest, S.fieldNum, S.litText, resOfOpt, hn]
  | lt =>
    simp only [quotedValue] at hc
    cases hn : numParse x.fparse body with
    | none => rw [hn] at hc; cases hc
    | some n =>
      rw [hn] at hc; simp only [Option.map_some, Option.some.injEq] at hc; subst hc
      have hnw := numParse_wf _ _ _ hn
      cases fv with
      | num m =>
        have := (ops_eq (a := m) (b := n) hfv hnw)
        simp [matchValue, S.fieldTest, S.ordTest, S.fieldNum, S.litText, resOfOpt, hn, this]
      | str s =>
        simp only [matchValue, S.fieldTest, S.ordTest, S.fieldNum, S.litText, hn]
        cases hs : numParse x.fparse s with
        | none => simp [resOfOpt]
        | some m =>
          have := (ops_eq (a := m) (b := n) (numParse_wf _ _ _ hs) hnw)
          simp [resOfOpt, this]
      | _ => simp [matchValue, S.fieldTest, S.ordTest, S.fieldNum, S.litText, resOfOpt, hn]
  | lte =>
    simp only [quotedValue] at hc
    cases hn : numParse x.fparse body with
    | none => rw [hn] at hc; cases hc
    | some n =>
      rw [hn] at hc; simp only [Option.map_some, Option.some.injEq] at hc; subst hc
      have hnw := numParse_wf _ _ _ hn
      cases fv with
      | num m =>
        have := (ops_eq (a := m) (b := n) hfv hnw)
        simp [matchValue, S.fieldTest, S.ordTest, S.fieldNum, S.litText, resOfOpt, hn, this]
      | str s =>
        simp only [matchValue, S.fieldTest, S.ordTest, S.fieldNum, S.litText, hn]
        cases hs : numParse x.fparse s with
        | none => simp [resOfOpt]
        | some m =>
          have := (ops_eq (a := m) (b := n) (numParse_wf _ _ _ hs) hnw)
          simp [resOfOpt, this]
      | _ => simp [matchValue, S.fieldTest, S.ordTest, S.fieldNum, S.litText, resOfOpt, hn]
  | gt =>
    simp only [quotedValue] at hc
    cases hn : numParse x.fparse body with
    | none => rw [hn] at hc; cases hc
    | some n =>
      rw [hn] at hc; simp only [Option.map_some, Option.some.injEq] at hc; subst hc
      have hnw := numParse_wf _ _ _ hn
      cases fv with
      | num m =>
        have := (ops_eq (a := m) (b := n) hfv hnw)
        simp [matchValue, S.fieldTest, S.ordTest, S.fieldNum, S.litText, resOfOpt, hn, this]
      | str s =>
        simp only [matchValue, S.fieldTest, S.ordTest, S.fieldNum, S.litText, hn]
        cases hs : numParse x.fparse s with
        | none => simp [resOfOpt]
        | some m =>
          have := (ops_eq (a := m) (b := n) (numParse_wf _ _ _ hs) hnw)
          simp [resOfOpt, this]
      | _ => simp [matchValue, S.fieldTest, S.ordTest, S.fieldNum, S.litText, resOfOpt, hn]
  | gte =>
    simp only [quotedValue] at hc
    cases hn : numParse x.fparse body with
    | none => rw [hn] at hc; cases hc
    | some n =>
      rw [hn] at hc; simp only [Option.map_some, Option.some.injEq] at hc; subst hc
      have hnw := numParse_wf _ _ _ hn
      cases fv with
      | num m =>
        have := (ops_eq (a := m) (b := n) hfv hnw)
        simp [matchValue, S.fieldTest, S.ordTest, S.fieldNum, S.litText, resOfOpt, hn, this]
      | str s =>
        simp only [matchValue, S.fieldTest, S.ordTest, S.fieldNum, S.litText, hn]
        cases hs : numParse x.fparse s with
        | none => simp [resOfOpt]
        | some m =>
          have := (ops_eq (a := m) (b := n) (numParse_wf _ _ _ hs) hnw)
          simp [resOfOpt, this]
      | _ => simp [matchValue, S.fieldTest, S.ordTest, S.fieldNum, S.litText, resOfOpt, hn]


theorem matchValue_kw (x : Ext) (op : MOp) (kw : Str) (kv : MatchValue) (l : S.Lit) (v : MatchValue)
    (hk : (kv = .none ∧ l = .none ∧ kw = "none".toList) ∨ (kv = .some ∧ l = .some ∧ kw = "some".toList) ∨
          (kv = .bool true ∧ l = .bool true ∧ kw = "true".toList) ∨
          (kv = .bool false ∧ l = .bool false ∧ kw = "false".toList))
    (hc : kwValue x op kw kv = Option.some v) (fv : FieldValue) :
    resOfOpt (matchValue x op v fv) = S.fieldTest x op l (Option.some fv) := by
  cases op with
  | eq =>
    simp only [kwValue, Option.some.injEq] at hc; subst hc
    rcases hk with ⟨rfl, rfl, _⟩ | ⟨rfl, rfl, _⟩ | ⟨rfl, rfl, _⟩ | ⟨rfl, rfl, _⟩ <;>
      cases fv <;> simp [matchValue, S.fieldTest, resOfOpt]
  | rex =>
    simp only [kwValue] at hc
    split at hc
    · simp only [Option.some.injEq] at hc; subst hc
      rcases hk with ⟨_, rfl, rfl⟩ | ⟨_, rfl, rfl⟩ | ⟨_, rfl, rfl⟩ | ⟨_, rfl, rfl⟩ <;>
        cases fv <;> simp [matchValue, S.fieldTest, resOfOpt, S.litText]
    · cases hc
  | lt => simp [kwValue] at hc
  | lte => simp [kwValue] at hc
  | gt => simp [kwValue] at hc
  | gte => simp [kwValue] at hc
  | flag => simp [kwValue] at hc

/-- Stage B for every token -/
theorem matchValue_spec (x : Ext) (op : MOp) (tok : Str) (h : IsValueTok tok) (v : MatchValue)
    (hc : classify x op tok = Option.some v) (fv : FieldValue) (hfv : fvWf fv) :
    resOfOpt (matchValue x op v fv) = S.fieldTest x op (S.literal tok) (Option.some fv) := by
  obtain ⟨c1, c2, c3, c4⟩ := classify_kw x op
  cases h with
  | none =>
    rw [c1] at hc
    exact matchValue_kw x op _ .none .none v (Or.inl ⟨rfl, rfl, rfl⟩) hc fv
  | some =>
    rw [c2] at hc
    exact matchValue_kw x op _ .some .some v (Or.inr (Or.inl ⟨rfl, rfl, rfl⟩)) hc fv
  | tt =>
    rw [c3] at hc
    exact matchValue_kw x op _ (.bool true) (.bool true) v (Or.inr (Or.inr (Or.inl ⟨rfl, rfl, rfl⟩))) hc fv
  | ff =>
    rw [c4] at hc
    exact matchValue_kw x op _ (.bool false) (.bool false) v (Or.inr (Or.inr (Or.inr ⟨rfl, rfl, rfl⟩))) hc fv
  | sq body =>
    rw [classify_quoted x op '\'' body (Or.inl rfl)] at hc
    rw [literal_sq]
    exact matchValue_quoted x op body v hc fv hfv
  | dq body =>
    rw [classify_quoted x op '"' body (Or.inr rfl)] at hc
    rw [literal_dq]
    exact matchValue_quoted x op body v hc fv hfv

/-- every number an event can hand out fits its Rust type (true of any `FieldValue`) -/
def EventWf (ev : Event) : Prop := ∀ segs fv, ev.get segs = Option.some fv → fvWf fv

/-- **C03 (direct tests).** For every operator, every `value` token, every path and every event:
    (1) the token compiles iff the statement can interpret it for that operator, and
    (2) when it does, evaluating the compiled test on the event yields exactly the statement's table —
        in particular an error, never a match, for a missing field or a value of the wrong kind. -/
theorem C03_direct (x : Ext) (op : MOp) (tok : Str) (h : IsValueTok tok) :
    (classify x op tok).isSome = S.litOk x op (S.literal tok) ∧
    ∀ v, classify x op tok = Option.some v →
      ∀ (ev : Event) (p : XPath) (states : List (Str × Bool)), EventWf ev →
        resOf (matchEvent x ev states (.direct p op v)) =
          S.fieldTest x op (S.literal tok) (ev.get p.segments) := by
  refine ⟨classify_isSome x op tok h, ?_⟩
  intro v hc ev p states hwf
  cases hg : ev.get p.segments with
  | none => simp only [matchEvent, hg, resOf, S.fieldTest]
  | some fv =>
    have := matchValue_spec x op tok h v hc fv (hwf _ _ hg)
    rw [← this]
    simp only [matchEvent, hg]
    cases matchValue x op v fv <;> rfl

/-- **C03 (indirect tests).** `.a == @.b` holds exactly when both fields are present and carry equal
    values; a missing field is an error. -/
theorem C03_indirect (x : Ext) (ev : Event) (p q : XPath) (states : List (Str × Bool)) (hwf : EventWf ev) :
    resOf (matchEvent x ev states (.indirect p q)) = S.indirectTest (ev.get p.segments) (ev.get q.segments) := by
  cases ha : ev.get p.segments with
  | none => simp only [matchEvent, ha, resOf, S.indirectTest]
  | some a =>
    cases hb : ev.get q.segments with
    | none => simp only [matchEvent, ha, hb, resOf, S.indirectTest]
    | some b =>
      simp only [matchEvent, ha, hb, resOf, S.indirectTest]
      have wa := hwf _ _ ha
      have wb := hwf _ _ hb
      cases a <;> cases b <;> simp only [fvEq, S.fvEqual]
      rename_i m n
      rw [(ops_eq (a := m) (b := n) wa wb).1]

/-- `is none` and `is some` are complementary on every present value -/
theorem C03_none_some_complementary (x : Ext) (fv : FieldValue) :
    S.fieldTest x .eq .none (Option.some fv) = .ok (fv == FieldValue.none) ∧
    S.fieldTest x .eq .some (Option.some fv) = .ok (!(fv == FieldValue.none)) := by
  constructor
  · simp [S.fieldTest]
  · simp only [S.fieldTest]; rfl

/-- a missing field is an error for every operator and literal — never a match -/
theorem C03_missing (x : Ext) (op : MOp) (l : S.Lit) : S.fieldTest x op l Option.none = .err := rfl

/-- the token `direct_match` hands to the classification is one of the six shapes -/
theorem valueTok_shape (s tok r : Str) (h : valueTok s = Option.some (tok, r)) : IsValueTok tok := by
  unfold valueTok at h
  split at h
  · split at h
    · simp only [Option.some.injEq, Prod.mk.injEq] at h; obtain ⟨rfl, _⟩ := h; exact IsValueTok.dq _
    · cases h
  · split at h
    · simp only [Option.some.injEq, Prod.mk.injEq] at h; obtain ⟨rfl, _⟩ := h; exact IsValueTok.sq _
    · cases h
  · split at h
    · simp only [Option.some.injEq, Prod.mk.injEq] at h; obtain ⟨rfl, _⟩ := h; exact IsValueTok.none
    · split at h
      · simp only [Option.some.injEq, Prod.mk.injEq] at h; obtain ⟨rfl, _⟩ := h; exact IsValueTok.some
      · split at h
        · simp only [Option.some.injEq, Prod.mk.injEq] at h; obtain ⟨rfl, _⟩ := h; exact IsValueTok.tt
        · split at h
          · simp only [Option.some.injEq, Prod.mk.injEq] at h; obtain ⟨rfl, _⟩ := h; exact IsValueTok.ff
          · cases h

theorem parseDirect_token (s : Str) (gs : List Seg) (op : MOp) (tok : Str)
    (h : parseDirect s = Option.some (gs, op, tok)) : IsValueTok tok := by
  unfold parseDirect at h
  simp only at h
  split at h
  · cases h
  · split at h
    · cases h
    · split at h
      · cases h
      · rename_i tok' r' hv
        split at h
        · simp only [Option.some.injEq, Prod.mk.injEq] at h
          obtain ⟨_, _, rfl⟩ := h
          exact valueTok_shape _ _ _ hv
        · cases h

-- non-vacuity: text that itself starts / ends with the other quote character
example : S.literal "'\"a\"'".toList = .text "\"a\"".toList := by decide
example : IsValueTok "'\"a\"'".toList := IsValueTok.sq "\"a\"".toList

end Gene.Props.C03
