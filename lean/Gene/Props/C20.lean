import Gene.Yaml
import Gene.Props.C19
import Gene.Props.C07
/-! C20 — rule documents are validated strictly and survive a serialise / parse round trip.
    (Tree level: the YAML text ↔ tree layer is `serde_yaml`, tied by differential runs only.) -/
set_option linter.unusedSimpArgs false
namespace Gene.Props.C20
open Gene M

/-! ### schema side conditions: re-checked against the regenerated schema on every run -/
/-- every level of a rule document denies unknown fields -/
theorem schema_deny_unknown :
    Gen.ruleStruct.denyUnknown = true ∧ Gen.metaStruct.denyUnknown = true ∧
    Gen.paramsStruct.denyUnknown = true ∧ Gen.matchOnStruct.denyUnknown = true := by decide

/-- the keys each level allows are exactly the ones the (de)serialisers of the model handle -/
theorem schema_keys :
    keysOf Gen.ruleStruct = ["name", "type", "meta", "params", "match-on", "matches", "condition", "severity", "actions"].map String.toList ∧
    keysOf Gen.metaStruct = ["tags", "attack", "authors", "comments"].map String.toList ∧
    keysOf Gen.paramsStruct = ["disable"].map String.toList ∧
    keysOf Gen.matchOnStruct = ["events"].map String.toList := by decide

/-- field types and attributes the model was written against: `matches` goes through the unique-key
    deserialiser, `severity` is a `u8`, `type` the closed enum, every optional field is an `Option` skipped
    when `None`, and only `name` is required -/
theorem schema_fields :
    (Gen.ruleStruct.fields.map (fun f => (f.key, f.ty, f.deWith))) =
      [("name", "String", ""), ("type", "Option<Type>", ""), ("meta", "Option<Meta>", ""),
       ("params", "Option<Params>", ""), ("match-on", "Option<MatchOn>", ""),
       ("matches", "Option<HashMap<String,String>>", "deserialize_uk_hashmap"),
       ("condition", "Option<String>", ""), ("severity", "Option<u8>", ""),
       ("actions", "Option<HashSet<String>>", "")] ∧
    (Gen.ruleStruct.fields.filter (fun f => !f.skipNone)).map (·.key) = ["name"] ∧
    (Gen.metaStruct.fields.map (fun f => (f.key, f.ty))) =
      [("tags", "Option<HashSet<String>>"), ("attack", "Option<HashSet<String>>"),
       ("authors", "Option<Vec<String>>"), ("comments", "Option<Vec<String>>")] ∧
    (Gen.paramsStruct.fields.map (fun f => (f.key, f.ty))) = [("disable", "Option<bool>")] ∧
    (Gen.matchOnStruct.fields.map (fun f => (f.key, f.ty))) = [("events", "Option<HashMap<String,HashSet<i64>>>")] := by
  decide

/-! ### strictness -/
theorem firstUnknown_some (allowed ks : List Str) (k : Str) (hmem : k ∈ ks) (hun : allowed.contains k = false) :
    ∃ k', firstUnknown allowed ks = some k' := by
  induction ks with
  | nil => cases hmem
  | cons a r ih =>
    simp only [firstUnknown]
    cases ha : allowed.contains a with
    | true =>
      simp only [if_true]
      rcases List.mem_cons.mp hmem with rfl | h
      · rw [ha] at hun; cases hun
      · exact ih h
    | false => exact ⟨a, by simp⟩

/-- **an unknown key at any level is rejected**: for every struct that denies unknown fields and every
    map containing a key outside its allowed list, whatever else the map contains -/
theorem unknown_key_rejected (s : Gen.Struct) (hs : s.denyUnknown = true) (kvs : List (Yaml × Yaml))
    (ks : List Str) (k : Str) (hk : keyTexts kvs = some ks) (hmem : k ∈ ks) (hun : (keysOf s).contains k = false) :
    ∃ e, openStruct s (.map kvs) = .error e := by
  obtain ⟨k', hk'⟩ := firstUnknown_some (keysOf s) ks k hmem hun
  exact ⟨.unknown k', by simp only [openStruct, hk, hs, if_true, hk']⟩

theorem unknown_key_rule (kvs : List (Yaml × Yaml)) (ks : List Str) (k : Str) (hk : keyTexts kvs = some ks)
    (hmem : k ∈ ks) (hun : (keysOf Gen.ruleStruct).contains k = false) : ∃ e, deRule (.map kvs) = .error e := by
  obtain ⟨e, he⟩ := unknown_key_rejected Gen.ruleStruct schema_deny_unknown.1 kvs ks k hk hmem hun
  exact ⟨e, by simp only [deRule, he]⟩
theorem unknown_key_meta (kvs : List (Yaml × Yaml)) (ks : List Str) (k : Str) (hk : keyTexts kvs = some ks)
    (hmem : k ∈ ks) (hun : (keysOf Gen.metaStruct).contains k = false) : ∃ e, deMeta (.map kvs) = .error e := by
  obtain ⟨e, he⟩ := unknown_key_rejected Gen.metaStruct schema_deny_unknown.2.1 kvs ks k hk hmem hun
  exact ⟨e, by simp only [deMeta, he]⟩
theorem unknown_key_params (kvs : List (Yaml × Yaml)) (ks : List Str) (k : Str) (hk : keyTexts kvs = some ks)
    (hmem : k ∈ ks) (hun : (keysOf Gen.paramsStruct).contains k = false) : ∃ e, deParams (.map kvs) = .error e := by
  obtain ⟨e, he⟩ := unknown_key_rejected Gen.paramsStruct schema_deny_unknown.2.2.1 kvs ks k hk hmem hun
  exact ⟨e, by simp only [deParams, he]⟩
theorem unknown_key_matchOn (kvs : List (Yaml × Yaml)) (ks : List Str) (k : Str) (hk : keyTexts kvs = some ks)
    (hmem : k ∈ ks) (hun : (keysOf Gen.matchOnStruct).contains k = false) : ∃ e, deMatchOn (.map kvs) = .error e := by
  obtain ⟨e, he⟩ := unknown_key_rejected Gen.matchOnStruct schema_deny_unknown.2.2.2 kvs ks k hk hmem hun
  exact ⟨e, by simp only [deMatchOn, he]⟩

/-- an error in a nested section is an error of the document (here: `meta`; the other sections alike) -/
theorem nested_error_propagates (kvs : List (Yaml × Yaml)) (name : Str) (rt : Option RType) (y : Yaml) (e : YErr)
    (hn : field kvs "name".toList = some (.scalar name false))
    (ht : optField kvs "type".toList deType = .ok rt)
    (hm : field kvs "meta".toList = some y) (hnn : isNull y = false) (he : deMeta y = .error e) :
    deRuleFields kvs = .error e := by
  have hmeta : optField kvs "meta".toList deMeta = .error e := by
    simp only [optField, hm, hnn, he, Bool.false_eq_true, if_false]
  simp only [deRuleFields, hn, deStr, ht, hmeta]

theorem firstDup_some (ks : List Str) (k : Str) (pre post : List Str) (h : ks = pre ++ k :: post) (hk : k ∈ post) :
    ∃ k', firstDup ks = some k' := by
  subst h
  induction pre with
  | nil =>
    simp only [List.nil_append, firstDup]
    have : post.contains k = true := by simpa using hk
    exact ⟨k, by rw [if_pos this]⟩
  | cons a pre ih =>
    simp only [List.cons_append, firstDup]
    split
    · exact ⟨a, rfl⟩
    · exact ih

/-- **a duplicate operand name is rejected** (`deserialize_uk_hashmap`) -/
theorem duplicate_operand_rejected (kvs : List (Yaml × Yaml)) (ks : List Str) (k : Str) (pre post : List Str)
    (hk : keyTexts kvs = some ks) (h : ks = pre ++ k :: post) (hdup : k ∈ post) :
    ∃ e, deUkMap (.map kvs) = .error e := by
  obtain ⟨k', hk'⟩ := firstDup_some ks k pre post h hdup
  exact ⟨.dup k', by simp only [deUkMap, hk, hk']⟩

/-- **an unknown rule type is rejected** -/
theorem bad_type_rejected (t : Str) (p : Bool) (h1 : t ≠ "detection".toList) (h2 : t ≠ "filter".toList)
    (h3 : t ≠ "dependency".toList) : deType (.scalar t p) = .error .badTy := by
  show (if t = "detection".toList then _ else _) = _
  rw [if_neg h1, if_neg h2, if_neg h3]

/-- **severity**: only a plain scalar reading as an unsigned integer in 0..255 is accepted -/
theorem severity_strict (y : Yaml) (n : Nat) (h : deU8 y = .ok n) :
    ∃ t, y = .scalar t true ∧ yamlU64 t = some n ∧ n ≤ 255 := by
  cases y with
  | scalar t p =>
    cases p with
    | false => simp [deU8] at h
    | true =>
      simp only [deU8] at h
      cases hy : yamlU64 t with
      | none => rw [hy] at h; cases h
      | some m =>
        rw [hy] at h
        simp only at h
        split at h
        · rename_i hle; cases h; exact ⟨t, rfl, hy, hle⟩
        · cases h
  | seq xs => simp [deU8] at h
  | map kvs => simp [deU8] at h

/-- **an operand name not starting with `$` is a compile error**, wherever it sits among the operands -/
theorem operand_without_dollar (x : Ext) (pre : List (Str × Str)) (k s : Str) (post : List (Str × Str))
    (hk : startsWith k ['$'] = false) : ∀ deps ops,
    (∃ e, compileOps x (pre ++ (k, s) :: post) deps ops = e ∧ ∀ d o, e ≠ .ok d o) := by
  induction pre with
  | nil =>
    intro deps ops
    refine ⟨_, rfl, ?_⟩
    intro d o
    simp only [List.nil_append, compileOps, hk, Bool.not_false, if_true]
    intro h; cases h
  | cons a pre ih =>
    intro deps ops
    obtain ⟨operand, str⟩ := a
    simp only [List.cons_append]
    unfold compileOps
    split
    · exact ⟨_, rfl, by intro d o h; cases h⟩
    · cases parseMatch x str with
      | panic => exact ⟨_, rfl, by intro d o h; cases h⟩
      | err => exact ⟨_, rfl, by intro d o h; cases h⟩
      | ok m => simp only; exact ih _ _

/-- **a malformed ATT&CK id is a compile error** -/
theorem bad_attack_rejected (x : Ext) (r : Rule) (m : Meta) (ids : List Str) (hm : r.rmeta = some m)
    (ha : m.attack = some ids) (hbad : ids.all attackIdOk = false) :
    ∀ cr, compileInto x r ≠ .ok cr := by
  intro cr h
  unfold compileInto at h
  simp only [hm, ha, Option.bind_some, hbad, Bool.false_eq_true, if_false] at h
  split at h <;> cases h

/-- **severities above 10 act as 10** -/
theorem severity_cap (x : Ext) (r : Rule) (cr : CompiledRule) (h : compileInto x r = .ok cr) :
    cr.severity = min (r.severity.getD 0) 10 := C07.C07_compile_caps x r cr h


/-! ### round trip (tree level) -/
theorem mapE_map_ok {α β : Type} (f : α → Except YErr β) (g : β → α) (l : List β) (h : ∀ b ∈ l, f (g b) = .ok b) :
    mapE f (l.map g) = .ok l := by
  induction l with
  | nil => rfl
  | cons b l ih =>
    simp only [List.map_cons, mapE, h b (by simp), ih (fun b' hb' => h b' (by simp [hb']))]

theorem deStrList_ser (l : List Str) : deStrList (serStrList l) = .ok l :=
  mapE_map_ok deStr ystr l (fun _ _ => rfl)

/-! printed integers read back -/
theorem showNat_cons (n : Nat) : ∃ a r, showNat n = a :: r ∧ isAsciiDigit a = true := C19.showNat_head n

/-- most significant digit: no leading zero on a number of two or more digits -/
theorem toDigitsRev_last : ∀ (f n : Nat), 0 < n → n < f → ∀ d, (toDigitsRev f n).getLast? = some d → d ≠ 0 := by
  intro f
  induction f with
  | zero => intro n _ h; omega
  | succ f ih =>
    intro n hn hf d hd
    unfold toDigitsRev at hd
    by_cases h10 : n < 10
    · simp only [h10, if_true, List.getLast?_singleton, Option.some.injEq] at hd; omega
    · simp only [h10, if_false] at hd
      have hq : 0 < n / 10 := by omega
      have hne : toDigitsRev f (n / 10) ≠ [] := by
        cases f with
        | zero => omega
        | succ g => unfold toDigitsRev; split <;> simp
      rw [List.getLast?_cons_of_ne_nil hne] at hd
      exact ih (n / 10) hq (by omega) d hd

theorem showNat_no_leading_zero (n : Nat) (c : Char) (r : Str) (h : showNat n = '0' :: c :: r) : False := by
  unfold showNat digits at h
  by_cases hn : n = 0
  · subst hn; simp [toDigitsRev] at h
  · have hlast := toDigitsRev_last (n + 1) n (by omega) (by omega)
    cases hd : (toDigitsRev (n + 1) n).reverse with
    | nil => rw [hd] at h; cases h
    | cons d ds =>
      rw [hd] at h
      simp only [List.map_cons, List.cons.injEq] at h
      have hgl : (toDigitsRev (n + 1) n).getLast? = some d := by
        rw [← List.head?_reverse, hd]; rfl
      have hd0 := hlast d hgl
      have hdlt : d < 10 := C19.toDigitsRev_lt10 _ _ d (by
        have : d ∈ (toDigitsRev (n + 1) n).reverse := by rw [hd]; simp
        simpa using this)
      have : dch d = '0' := h.1
      have hz : d = 0 := by
        have := (C19.dch_spec d hdlt).2
        rw [‹dch d = '0'›] at this
        simpa [dval] using this.symm
      exact hd0 hz

theorem showNat_first (n : Nat) : ∃ a r, showNat n = a :: r ∧ a ≠ '-' ∧ a ≠ '+' := by
  obtain ⟨a, r, har, ha⟩ := showNat_cons n
  refine ⟨a, r, har, ?_, ?_⟩
  · intro h; subst h; simp [C19.digit_facts.2.2.1] at ha
  · intro h; subst h; simp [C19.digit_facts.2.2.2] at ha

theorem stripPlus_showNat (n : Nat) : stripPlus (showNat n) = showNat n := by
  obtain ⟨a, r, har, _, hp⟩ := showNat_first n
  rw [har]; unfold stripPlus
  split
  · rename_i heq; simp at heq; exact absurd heq.1 hp
  · rfl
theorem stripSign_showNat (n : Nat) : stripSign (showNat n) = showNat n := by
  obtain ⟨a, r, har, hm, hp⟩ := showNat_first n
  rw [har]; unfold stripSign
  split
  · rename_i heq; simp at heq; exact absurd heq.1 hm
  · rename_i heq; simp at heq; exact absurd heq.1 hp
  · rfl
theorem startsSigned_showNat (n : Nat) : startsSigned (showNat n) = false := by
  obtain ⟨a, r, har, hm, hp⟩ := showNat_first n
  rw [har]; unfold startsSigned
  split
  · rename_i heq; simp at heq; exact absurd heq.1 hp
  · rename_i heq; simp at heq; exact absurd heq.1 hm
  · rfl

theorem digitsButNotNumber_showNat (n : Nat) : digitsButNotNumber (showNat n) = false := by
  unfold digitsButNotNumber
  rw [stripSign_showNat]
  split
  · rename_i c r' heq
    exact absurd heq (fun h => showNat_no_leading_zero n c r' h)
  · rfl

theorem stripPrefix_digit2 (n : Nat) (x : Char) (hx : isAsciiDigit x = false) :
    stripPrefix (showNat n) ['0', x] = none := by
  obtain ⟨a, r, har, ha⟩ := showNat_cons n
  rw [har]
  cases r with
  | nil =>
    simp only [stripPrefix]
    split <;> rfl
  | cons b r' =>
    have hb : isAsciiDigit b = true := C19.showNat_all n b (by rw [har]; simp)
    have hne : b ≠ x := by intro h; subst h; rw [hx] at hb; cases hb
    have hbf : (b == x) = false := by simpa using hne
    simp only [stripPrefix, hbf, Bool.false_eq_true, if_false]
    split <;> rfl

theorem radixTryU_showNat (n : Nat) (x : Char) (hx : isAsciiDigit x = false) (radix : Nat) :
    radixTryU (showNat n) ['0', x] radix = none := by
  unfold radixTryU
  rw [stripPrefix_digit2 n x hx]

theorem yamlU64_showNat (n : Nat) (h : n < 2^64) : yamlU64 (showNat n) = some n := by
  unfold yamlU64
  simp only [stripPlus_showNat]
  have e1 : "0x".toList = ['0', 'x'] := rfl
  have e2 : "0o".toList = ['0', 'o'] := rfl
  have e3 : "0b".toList = ['0', 'b'] := rfl
  rw [e1, e2, e3, radixTryU_showNat n 'x' (by decide), radixTryU_showNat n 'o' (by decide),
    radixTryU_showNat n 'b' (by decide)]
  simp only [startsSigned_showNat, digitsButNotNumber_showNat, Bool.false_eq_true, if_false]
  exact C19.parseDigits_showNat (2^64 - 1) n (by omega)

theorem showNat_not_null (n : Nat) : nullTexts.contains (showNat n) = false := by
  obtain ⟨a, r, har, ha⟩ := showNat_cons n
  rw [har]
  have h1 : a ≠ 'n' := by intro h; subst h; revert ha; decide
  have h2 : a ≠ 'N' := by intro h; subst h; revert ha; decide
  have h3 : a ≠ '~' := by intro h; subst h; revert ha; decide
  simp [nullTexts, h1, h2, h3]

theorem deU8_ser (n : Nat) (h : n ≤ 255) : deU8 (.scalar (showNat n) true) = .ok n := by
  have : n < 2^64 := by
    have : (2:Nat)^64 = 18446744073709551616 := by decide
    omega
  simp only [deU8, yamlU64_showNat n this, h, if_true]


theorem deI64_ser (i : Int) (h : -(2:Int)^63 ≤ i ∧ i < 2^63) : deI64 (.scalar (showInt i) true) = .ok i := by
  have e63 : (2:Int)^63 = 9223372036854775808 := by decide
  have n63 : (2:Nat)^63 = 9223372036854775808 := by decide
  have n64 : (2:Nat)^64 = 18446744073709551616 := by decide
  unfold showInt
  by_cases hneg : i < 0
  · simp only [hneg, if_true]
    have hk : i.natAbs ≤ 2^63 := by rw [n63]; rw [e63] at h; omega
    -- not an unsigned integer
    have hu : yamlU64 ('-' :: showNat i.natAbs) = none := by
      unfold yamlU64
      have hs : stripPlus ('-' :: showNat i.natAbs) = '-' :: showNat i.natAbs := rfl
      have hr : ∀ x radix, radixTryU ('-' :: showNat i.natAbs) ['0', x] radix = none := by
        intro x radix; unfold radixTryU; simp [stripPrefix]
      have e1 : "0x".toList = ['0', 'x'] := rfl
      have e2 : "0o".toList = ['0', 'o'] := rfl
      have e3 : "0b".toList = ['0', 'b'] := rfl
      simp only [hs, e1, e2, e3, hr]
      rfl
    have hn : yamlNegI64 ('-' :: showNat i.natAbs) = some i := by
      unfold yamlNegI64
      have hr : ∀ x (hx : isAsciiDigit x = false) radix,
          radixTryN ('-' :: showNat i.natAbs) ['-', '0', x] radix = none := by
        intro x hx radix
        unfold radixTryN
        have : stripPrefix ('-' :: showNat i.natAbs) ['-', '0', x] = stripPrefix (showNat i.natAbs) ['0', x] := by
          simp [stripPrefix]
        rw [this, stripPrefix_digit2 _ x hx]
      have e1 : "-0x".toList = ['-', '0', 'x'] := rfl
      have e2 : "-0o".toList = ['-', '0', 'o'] := rfl
      have e3 : "-0b".toList = ['-', '0', 'b'] := rfl
      rw [e1, e2, e3, hr 'x' (by decide), hr 'o' (by decide), hr 'b' (by decide)]
      have hd : digitsButNotNumber ('-' :: showNat i.natAbs) = false := by
        unfold digitsButNotNumber
        have : stripSign ('-' :: showNat i.natAbs) = showNat i.natAbs := rfl
        rw [this]
        split
        · rename_i c r' heq; exact absurd heq (fun h => showNat_no_leading_zero _ c r' h)
        · rfl
      simp only [hd, Bool.false_eq_true, if_false]
      simp only [parseI64, C19.parseDigits_showNat (2^63) i.natAbs hk, Option.map_some, Option.some.injEq]
      simp only [Int.ofNat_eq_natCast]; omega
    simp only [deI64, hu, hn]
  · simp only [hneg, if_false]
    have hlt : i.toNat < 2^63 := by rw [n63]; rw [e63] at h; omega
    have : i.toNat < 2^64 := by rw [n64]; rw [n63] at hlt; omega
    simp only [deI64, yamlU64_showNat _ this, hlt, if_true]
    congr 1
    simp only [Int.ofNat_eq_natCast]; omega

/-- every id of a match-on map is an `i64` -/
def EventsOk (m : MatchOnMap) : Prop := ∀ p ∈ m, ∀ i ∈ p.2, -(2:Int)^63 ≤ i ∧ i < 2^63

theorem deEvents_ser (m : MatchOnMap) (h : EventsOk m) : deEvents (serEvents m) = .ok m := by
  unfold deEvents serEvents
  simp only
  induction m with
  | nil => rfl
  | cons p m ih =>
    obtain ⟨src, ids⟩ := p
    have hids : deI64List (Yaml.seq (ids.map (fun i => Yaml.scalar (showInt i) true))) = .ok ids := by
      unfold deI64List
      exact mapE_map_ok deI64 (fun i => Yaml.scalar (showInt i) true) ids
        (fun i hi => deI64_ser i (h (src, ids) (by simp) i hi))
    have ih' := ih (fun q hq => h q (by simp [hq]))
    simp only [ystr] at ih'
    simp only [List.map_cons, dePairs, deStr, ystr, hids, ih']

theorem keyTexts_ukmap (m : List (Str × Str)) :
    keyTexts (m.map (fun kv => (ystr kv.1, ystr kv.2))) = some (m.map (·.1)) := by
  induction m with
  | nil => rfl
  | cons a m ih => simp only [List.map_cons, ystr, keyTexts] at ih ⊢; rw [ih]

theorem firstDup_nodup (ks : List Str) (h : ks.Nodup) : firstDup ks = none := by
  induction ks with
  | nil => rfl
  | cons a r ih =>
    obtain ⟨h1, h2⟩ := List.nodup_cons.mp h
    simp [firstDup, h1, ih h2]

theorem dePairs_ukmap (m : List (Str × Str)) :
    dePairs deStr deStr (m.map (fun kv => (ystr kv.1, ystr kv.2))) = .ok m := by
  induction m with
  | nil => rfl
  | cons a m ih => simp only [List.map_cons, dePairs, deStr, ystr] at ih ⊢; rw [ih]

theorem deUkMap_ser (m : List (Str × Str)) (h : (m.map (·.1)).Nodup) : deUkMap (serUkMap m) = .ok m := by
  simp only [deUkMap, serUkMap, keyTexts_ukmap, firstDup_nodup _ h]
  exact dePairs_ukmap m

/-! entries of a serialised struct -/
theorem field_cons (k : String) (v : Yaml) (rest : List (Yaml × Yaml)) (k' : Str) :
    field ((ykey k, v) :: rest) k' = if k.toList = k' then some v else field rest k' := rfl

theorem field_skip {α : Type} (k : String) (v : Option α) (ser : α → Yaml) (rest : List (Yaml × Yaml)) (k' : Str)
    (hne : k.toList ≠ k') : field (optEntry k v ser ++ rest) k' = field rest k' := by
  cases v with
  | none => rfl
  | some a => simp only [optEntry, List.singleton_append, field_cons, hne, if_false]

theorem field_hit {α : Type} (k : String) (v : Option α) (ser : α → Yaml) (rest : List (Yaml × Yaml)) :
    field (optEntry k v ser ++ rest) k.toList = match v with
      | some a => some (ser a)
      | none => field rest k.toList := by
  cases v with
  | none => rfl
  | some a => simp only [optEntry, List.singleton_append, field_cons, if_true]

theorem optField_none {α : Type} (kvs : List (Yaml × Yaml)) (k : Str) (de : Yaml → Except YErr α)
    (h : field kvs k = none) : optField kvs k de = .ok none := by simp [optField, h]
theorem optField_some {α : Type} (kvs : List (Yaml × Yaml)) (k : Str) (de : Yaml → Except YErr α) (y : Yaml) (a : α)
    (h : field kvs k = some y) (hn : isNull y = false) (hd : de y = .ok a) : optField kvs k de = .ok (some a) := by
  simp [optField, h, hn, hd]

/-- an optional entry reads back: absent ⇒ `None`, present ⇒ the value -/
theorem optField_entry {α : Type} (kvs : List (Yaml × Yaml)) (k : Str) (v : Option α) (ser : α → Yaml)
    (de : Yaml → Except YErr α) (hf : field kvs k = v.map ser) (hn : ∀ a, isNull (ser a) = false)
    (hd : ∀ a, v = some a → de (ser a) = .ok a) : optField kvs k de = .ok v := by
  cases v with
  | none => exact optField_none kvs k de hf
  | some a => exact optField_some kvs k de (ser a) a hf (hn a) (hd a rfl)

def optKey {α : Type} (k : Str) (v : Option α) : List Str :=
  match v with
  | some _ => [k]
  | none => []

/-- keys of a serialised struct -/
theorem keyTexts_entry {α : Type} (k : String) (v : Option α) (ser : α → Yaml) (rest : List (Yaml × Yaml))
    (ks : List Str) (h : keyTexts rest = some ks) :
    keyTexts (optEntry k v ser ++ rest) = some (optKey k.toList v ++ ks) := by
  cases v with
  | none => exact h
  | some a => simp only [optEntry, List.singleton_append, ykey, keyTexts, h, optKey, List.cons_append, List.nil_append]


theorem firstUnknown_none (allowed ks : List Str) (h : ∀ k ∈ ks, k ∈ allowed) : firstUnknown allowed ks = none := by
  induction ks with
  | nil => rfl
  | cons a r ih =>
    have ha : allowed.contains a = true := by simpa using h a (by simp)
    simp only [firstUnknown, ha, if_true]
    exact ih (fun k hk => h k (by simp [hk]))

theorem openStruct_ok (s : Gen.Struct) (kvs : List (Yaml × Yaml)) (ks : List Str) (hk : keyTexts kvs = some ks)
    (hsub : ks.Sublist (keysOf s)) (hnd : (keysOf s).Nodup) : openStruct s (.map kvs) = .ok kvs := by
  have hall : ∀ k ∈ ks, k ∈ keysOf s := fun k hk => hsub.subset hk
  have hfilter : ks.filter (fun k => (keysOf s).contains k) = ks := by
    apply List.filter_eq_self.mpr
    intro k hk; simpa using hall k hk
  have hdup : firstDup ks = none := firstDup_nodup ks (hsub.nodup hnd)
  have hun : (if s.denyUnknown = true then firstUnknown (keysOf s) ks else none) = none := by
    split
    · exact firstUnknown_none _ _ hall
    · rfl
  simp only [openStruct, hk, hun, hfilter, hdup]

theorem optKeys_sublist {α : Type} (k : Str) (v : Option α) (ks keys : List Str) (h : ks.Sublist keys) :
    (optKey k v ++ ks).Sublist (k :: keys) := by
  cases v with
  | none => exact List.Sublist.cons _ h
  | some a => exact List.Sublist.cons_cons _ h

theorem notNull_seq (xs : List Yaml) : isNull (.seq xs) = false := rfl
theorem notNull_map (kvs : List (Yaml × Yaml)) : isNull (.map kvs) = false := rfl
theorem notNull_ystr (t : Str) : isNull (ystr t) = false := rfl
theorem notNull_bool (b : Bool) : isNull (serBool b) = false := by cases b <;> rfl
theorem deBool_ser (b : Bool) : deBool (serBool b) = .ok b := by cases b <;> rfl
theorem deType_ser (t : RType) : deType (ystr (rtypeName t)) = .ok t := by cases t <;> rfl

/-- `Params` -/
theorem deParams_ser (d : Option Bool) : deParams (serParams d) = .ok d := by
  have hkeys : keyTexts (optEntry "disable" d serBool ++ []) = some (optKey "disable".toList d ++ []) :=
    keyTexts_entry "disable" d serBool [] [] rfl
  rw [List.append_nil] at hkeys
  have hopen : openStruct Gen.paramsStruct (serParams d) = .ok (optEntry "disable" d serBool) := by
    apply openStruct_ok _ _ _ hkeys
    · exact optKeys_sublist "disable".toList d [] [] (List.Sublist.refl _)
    · decide
  simp only [deParams, hopen]
  apply optField_entry _ _ d serBool deBool
  · have := field_hit "disable" d serBool []
    rw [List.append_nil] at this
    rw [this]; cases d <;> rfl
  · exact notNull_bool
  · intro a _; exact deBool_ser a

/-- `MatchOn` -/
theorem deMatchOn_ser (e : Option MatchOnMap) (h : ∀ m, e = some m → EventsOk m) :
    deMatchOn (serMatchOn e) = .ok e := by
  have hkeys : keyTexts (optEntry "events" e serEvents ++ []) = some (optKey "events".toList e ++ []) :=
    keyTexts_entry "events" e serEvents [] [] rfl
  rw [List.append_nil] at hkeys
  have hopen : openStruct Gen.matchOnStruct (serMatchOn e) = .ok (optEntry "events" e serEvents) := by
    apply openStruct_ok _ _ _ hkeys
    · exact optKeys_sublist "events".toList e [] [] (List.Sublist.refl _)
    · decide
  simp only [deMatchOn, hopen]
  apply optField_entry _ _ e serEvents deEvents
  · have := field_hit "events" e serEvents []
    rw [List.append_nil] at this
    rw [this]; cases e <;> rfl
  · intro a; rfl
  · intro a ha; exact deEvents_ser a (h a ha)

/-- `Meta` -/
theorem deMeta_ser (m : Meta) : deMeta (serMeta m) = .ok m := by
  obtain ⟨tags, attack, authors, comments⟩ := m
  let kvs := optEntry "tags" tags serStrList ++ (optEntry "attack" attack serStrList ++
       (optEntry "authors" authors serStrList ++ (optEntry "comments" comments serStrList ++ [])))
  have hser : serMeta ⟨tags, attack, authors, comments⟩ = .map kvs := by
    simp only [serMeta, kvs, List.append_nil]
  have hk4 := keyTexts_entry "comments" comments serStrList [] [] rfl
  have hk3 := keyTexts_entry "authors" authors serStrList _ _ hk4
  have hk2 := keyTexts_entry "attack" attack serStrList _ _ hk3
  have hk1 := keyTexts_entry "tags" tags serStrList _ _ hk2
  have hsub : (_ : List Str).Sublist (keysOf Gen.metaStruct) :=
    optKeys_sublist "tags".toList tags _ _ (optKeys_sublist "attack".toList attack _ _
      (optKeys_sublist "authors".toList authors _ _ (optKeys_sublist "comments".toList comments [] [] (List.Sublist.refl _))))
  have hopen : openStruct Gen.metaStruct (.map kvs) = .ok kvs :=
    openStruct_ok _ _ _ hk1 hsub (by decide)
  have f1 : field kvs "tags".toList = tags.map serStrList := by
    show field (optEntry "tags" tags serStrList ++ _) "tags".toList = _
    rw [field_hit]
    cases tags with
    | some a => rfl
    | none =>
      simp only
      rw [field_skip "attack" attack _ _ _ (by decide), field_skip "authors" authors _ _ _ (by decide),
        field_skip "comments" comments _ _ _ (by decide)]; rfl
  have f2 : field kvs "attack".toList = attack.map serStrList := by
    show field (optEntry "tags" tags serStrList ++ _) "attack".toList = _
    rw [field_skip "tags" tags _ _ _ (by decide), field_hit]
    cases attack with
    | some a => rfl
    | none =>
      simp only
      rw [field_skip "authors" authors _ _ _ (by decide), field_skip "comments" comments _ _ _ (by decide)]; rfl
  have f3 : field kvs "authors".toList = authors.map serStrList := by
    show field (optEntry "tags" tags serStrList ++ _) "authors".toList = _
    rw [field_skip "tags" tags _ _ _ (by decide), field_skip "attack" attack _ _ _ (by decide), field_hit]
    cases authors with
    | some a => rfl
    | none =>
      simp only
      rw [field_skip "comments" comments _ _ _ (by decide)]; rfl
  have f4 : field kvs "comments".toList = comments.map serStrList := by
    show field (optEntry "tags" tags serStrList ++ _) "comments".toList = _
    rw [field_skip "tags" tags _ _ _ (by decide), field_skip "attack" attack _ _ _ (by decide),
      field_skip "authors" authors _ _ _ (by decide), field_hit]
    cases comments <;> rfl
  rw [hser]
  simp only [deMeta, hopen,
    optField_entry kvs _ tags serStrList deStrList f1 notNull_seq' (fun a _ => deStrList_ser a),
    optField_entry kvs _ attack serStrList deStrList f2 notNull_seq' (fun a _ => deStrList_ser a),
    optField_entry kvs _ authors serStrList deStrList f3 notNull_seq' (fun a _ => deStrList_ser a),
    optField_entry kvs _ comments serStrList deStrList f4 notNull_seq' (fun a _ => deStrList_ser a)]
where
  notNull_seq' : ∀ a : List Str, isNull (serStrList a) = false := fun _ => rfl


/-- what a Rust `Rule` value always satisfies: operand names are the keys of a map, numbers fit their types -/
structure RuleOk (r : Rule) : Prop where
  mats_nodup : ∀ m, r.mats = some m → (m.map (·.1)).Nodup
  sev : ∀ n, r.severity = some n → n ≤ 255
  events : ∀ m, r.matchOn = some (some m) → EventsOk m

/-- **C20 (round trip).** Serialising any rule and parsing it back yields an equal rule: every optional
    section present / absent / empty, arbitrary texts, at tree level. -/
theorem C20_roundtrip (r : Rule) (hr : RuleOk r) : deRule (serRule r) = .ok r := by
  obtain ⟨name, rtype, rmeta, disable, matchOn, mats, condition, severity, actions⟩ := r
  let sSev : Nat → Yaml := fun n => Yaml.scalar (showNat n) true
  let sTy : RType → Yaml := fun t => ystr (rtypeName t)
  let tail := optEntry "type" rtype sTy ++
    (optEntry "meta" rmeta serMeta ++
    (optEntry "params" disable serParams ++
    (optEntry "match-on" matchOn serMatchOn ++
    (optEntry "matches" mats serUkMap ++
    (optEntry "condition" condition ystr ++
    (optEntry "severity" severity sSev ++
    (optEntry "actions" actions serStrList ++ [])))))))
  let kvs : List (Yaml × Yaml) := (ykey "name", ystr name) :: tail
  have hser : serRule ⟨name, rtype, rmeta, disable, matchOn, mats, condition, severity, actions⟩ = .map kvs := by
    simp only [serRule, serRuleFields, kvs, tail, List.append_nil, sSev, sTy]
  have k8 := keyTexts_entry "actions" actions serStrList [] [] rfl
  have k7 := keyTexts_entry "severity" severity sSev _ _ k8
  have k6 := keyTexts_entry "condition" condition ystr _ _ k7
  have k5 := keyTexts_entry "matches" mats serUkMap _ _ k6
  have k4 := keyTexts_entry "match-on" matchOn serMatchOn _ _ k5
  have k3 := keyTexts_entry "params" disable serParams _ _ k4
  have k2 := keyTexts_entry "meta" rmeta serMeta _ _ k3
  have k1 := keyTexts_entry "type" rtype sTy _ _ k2
  have hkeys : keyTexts kvs = some ("name".toList :: (optKey "type".toList rtype ++ (optKey "meta".toList rmeta ++
      (optKey "params".toList disable ++ (optKey "match-on".toList matchOn ++ (optKey "matches".toList mats ++
      (optKey "condition".toList condition ++ (optKey "severity".toList severity ++
      (optKey "actions".toList actions ++ []))))))))) := by
    show keyTexts ((ykey "name", ystr name) :: tail) = _
    have hk1 : keyTexts tail = _ := k1
    simp only [ykey, keyTexts, hk1]
  have hsub : ("name".toList :: (optKey "type".toList rtype ++ (optKey "meta".toList rmeta ++
      (optKey "params".toList disable ++ (optKey "match-on".toList matchOn ++ (optKey "matches".toList mats ++
      (optKey "condition".toList condition ++ (optKey "severity".toList severity ++
      (optKey "actions".toList actions ++ []))))))))).Sublist (keysOf Gen.ruleStruct) :=
    List.Sublist.cons_cons _ (optKeys_sublist "type".toList rtype _ _ (optKeys_sublist "meta".toList rmeta _ _
      (optKeys_sublist "params".toList disable _ _ (optKeys_sublist "match-on".toList matchOn _ _
      (optKeys_sublist "matches".toList mats _ _ (optKeys_sublist "condition".toList condition _ _
      (optKeys_sublist "severity".toList severity _ _ (optKeys_sublist "actions".toList actions [] [] (List.Sublist.refl _)))))))))
  have hopen : openStruct Gen.ruleStruct (.map kvs) = .ok kvs := openStruct_ok _ _ _ hkeys hsub (by decide)
  have fname : field kvs "name".toList = some (ystr name) := rfl
  have skipName : ∀ k' : Str, "name".toList ≠ k' → field kvs k' = field tail k' := by
    intro k' h; show field ((ykey "name", ystr name) :: tail) k' = _
    rw [field_cons]; simp only [h, if_false]
  have f1 : field kvs "type".toList = rtype.map sTy := by
    rw [skipName _ (by decide)]; show field (optEntry "type" rtype sTy ++ _) _ = _
    rw [field_hit]
    cases rtype with
    | some a => rfl
    | none =>
      simp only
      rw [field_skip "meta" rmeta _ _ _ (by decide), field_skip "params" disable _ _ _ (by decide),
        field_skip "match-on" matchOn _ _ _ (by decide), field_skip "matches" mats _ _ _ (by decide),
        field_skip "condition" condition _ _ _ (by decide), field_skip "severity" severity _ _ _ (by decide),
        field_skip "actions" actions _ _ _ (by decide)]; rfl
  have f2 : field kvs "meta".toList = rmeta.map serMeta := by
    rw [skipName _ (by decide)]; show field (optEntry "type" rtype sTy ++ _) _ = _
    rw [field_skip "type" rtype _ _ _ (by decide), field_hit]
    cases rmeta with
    | some a => rfl
    | none =>
      simp only
      rw [field_skip "params" disable _ _ _ (by decide),
        field_skip "match-on" matchOn _ _ _ (by decide), field_skip "matches" mats _ _ _ (by decide),
        field_skip "condition" condition _ _ _ (by decide), field_skip "severity" severity _ _ _ (by decide),
        field_skip "actions" actions _ _ _ (by decide)]; rfl
  have f3 : field kvs "params".toList = disable.map serParams := by
    rw [skipName _ (by decide)]; show field (optEntry "type" rtype sTy ++ _) _ = _
    rw [field_skip "type" rtype _ _ _ (by decide), field_skip "meta" rmeta _ _ _ (by decide), field_hit]
    cases disable with
    | some a => rfl
    | none =>
      simp only
      rw [field_skip "match-on" matchOn _ _ _ (by decide), field_skip "matches" mats _ _ _ (by decide),
        field_skip "condition" condition _ _ _ (by decide), field_skip "severity" severity _ _ _ (by decide),
        field_skip "actions" actions _ _ _ (by decide)]; rfl
  have f4 : field kvs "match-on".toList = matchOn.map serMatchOn := by
    rw [skipName _ (by decide)]; show field (optEntry "type" rtype sTy ++ _) _ = _
    rw [field_skip "type" rtype _ _ _ (by decide), field_skip "meta" rmeta _ _ _ (by decide),
      field_skip "params" disable _ _ _ (by decide), field_hit]
    cases matchOn with
    | some a => rfl
    | none =>
      simp only
      rw [field_skip "matches" mats _ _ _ (by decide),
        field_skip "condition" condition _ _ _ (by decide), field_skip "severity" severity _ _ _ (by decide),
        field_skip "actions" actions _ _ _ (by decide)]; rfl
  have f5 : field kvs "matches".toList = mats.map serUkMap := by
    rw [skipName _ (by decide)]; show field (optEntry "type" rtype sTy ++ _) _ = _
    rw [field_skip "type" rtype _ _ _ (by decide), field_skip "meta" rmeta _ _ _ (by decide),
      field_skip "params" disable _ _ _ (by decide), field_skip "match-on" matchOn _ _ _ (by decide), field_hit]
    cases mats with
    | some a => rfl
    | none =>
      simp only
      rw [field_skip "condition" condition _ _ _ (by decide), field_skip "severity" severity _ _ _ (by decide),
        field_skip "actions" actions _ _ _ (by decide)]; rfl
  have f6 : field kvs "condition".toList = condition.map ystr := by
    rw [skipName _ (by decide)]; show field (optEntry "type" rtype sTy ++ _) _ = _
    rw [field_skip "type" rtype _ _ _ (by decide), field_skip "meta" rmeta _ _ _ (by decide),
      field_skip "params" disable _ _ _ (by decide), field_skip "match-on" matchOn _ _ _ (by decide),
      field_skip "matches" mats _ _ _ (by decide), field_hit]
    cases condition with
    | some a => rfl
    | none =>
      simp only
      rw [field_skip "severity" severity _ _ _ (by decide), field_skip "actions" actions _ _ _ (by decide)]; rfl
  have f7 : field kvs "severity".toList = severity.map sSev := by
    rw [skipName _ (by decide)]; show field (optEntry "type" rtype sTy ++ _) _ = _
    rw [field_skip "type" rtype _ _ _ (by decide), field_skip "meta" rmeta _ _ _ (by decide),
      field_skip "params" disable _ _ _ (by decide), field_skip "match-on" matchOn _ _ _ (by decide),
      field_skip "matches" mats _ _ _ (by decide), field_skip "condition" condition _ _ _ (by decide), field_hit]
    cases severity with
    | some a => rfl
    | none =>
      simp only
      rw [field_skip "actions" actions _ _ _ (by decide)]; rfl
  have f8 : field kvs "actions".toList = actions.map serStrList := by
    rw [skipName _ (by decide)]; show field (optEntry "type" rtype sTy ++ _) _ = _
    rw [field_skip "type" rtype _ _ _ (by decide), field_skip "meta" rmeta _ _ _ (by decide),
      field_skip "params" disable _ _ _ (by decide), field_skip "match-on" matchOn _ _ _ (by decide),
      field_skip "matches" mats _ _ _ (by decide), field_skip "condition" condition _ _ _ (by decide),
      field_skip "severity" severity _ _ _ (by decide), field_hit]
    cases actions <;> rfl
  have o1 := optField_entry kvs _ rtype sTy deType f1 (fun _ => rfl) (fun a _ => deType_ser a)
  have o2 := optField_entry kvs _ rmeta serMeta deMeta f2 (fun _ => rfl) (fun a _ => deMeta_ser a)
  have o3 := optField_entry kvs _ disable serParams deParams f3 (fun _ => rfl) (fun a _ => deParams_ser a)
  have o4 := optField_entry kvs _ matchOn serMatchOn deMatchOn f4 (fun _ => rfl)
    (fun a ha => deMatchOn_ser a (fun m hm => hr.events m (by simp only at ha ⊢; rw [ha, hm])))
  have o5 := optField_entry kvs _ mats serUkMap deUkMap f5 (fun _ => rfl)
    (fun a ha => deUkMap_ser a (hr.mats_nodup a ha))
  have o6 := optField_entry kvs _ condition ystr deStr f6 (fun _ => rfl) (fun a _ => rfl)
  have o7 := optField_entry kvs _ severity sSev deU8 f7
    (fun n => by show isNull (Yaml.scalar (showNat n) true) = false; simp only [isNull]; exact showNat_not_null n)
    (fun n hn => deU8_ser n (hr.sev n hn))
  have o8 := optField_entry kvs _ actions serStrList deStrList f8 (fun _ => rfl) (fun a _ => deStrList_ser a)
  rw [hser]
  simp only [deRule, hopen, deRuleFields, fname, deStr, ystr, o1, o2, o3, o4, o5, o6, o7, o8]

-- non-vacuity: a rule with every section present satisfies the hypothesis
example : RuleOk { name := "r".toList, mats := some [("$a".toList, ".x == '1'".toList)], severity := some 200,
                   matchOn := some (some [("s".toList, [1, -2])]) } := by
  refine ⟨?_, ?_, ?_⟩
  · intro m h; simp only [Option.some.injEq] at h; subst h; decide
  · intro n h; simp only [Option.some.injEq] at h; subst h; decide
  · intro m h; simp only [Option.some.injEq] at h; subst h
    intro p hp i hi
    simp only [List.mem_singleton] at hp; subst hp
    simp only [List.mem_cons, List.mem_singleton, List.not_mem_nil, or_false] at hi
    rcases hi with rfl | rfl <;> decide

/-- reading back what was written, rule by rule -/
def reload : List Rule → Except YErr (List Rule)
  | [] => .ok []
  | r :: rs => match deRule (serRule r) with
    | .error e => .error e
    | .ok r' => match reload rs with
      | .error e => .error e
      | .ok rs' => .ok (r' :: rs')

/-- **dumping a compiler's rules and loading the text again gives the same rules**, hence (the compiler and the
    engine being functions of the rules in load order) the same compiler state, the same engine and the same
    answers: the metamorphic check every third scenario runs against the implementation -/
theorem dump_reload (rs : List Rule) (h : ∀ r ∈ rs, RuleOk r) : reload rs = .ok rs := by
  induction rs with
  | nil => rfl
  | cons r rs ih =>
    unfold reload
    rw [C20_roundtrip r (h r List.mem_cons_self), ih (fun r' hr' => h r' (List.mem_cons_of_mem _ hr'))]


end Gene.Props.C20
