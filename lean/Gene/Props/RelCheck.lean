import Gene.Props.Refine5
import Gene.RelCheck
/-! A decision procedure for the hypothesis of the refinement theorem, and its soundness.

    `ruleRelB x ev sr cr` is computed by the driver on every scenario, between the structured rule the
    harness generated (`sr`) and the rule the model compiled from the rendered text (`cr`).  When it answers
    `true`, `RuleRelFull x ev sr cr` holds (`ruleRelB_sound`), so `scan_refines_spec_full` applies to that very
    case: the model's scan *is* the specification's outcome there, by theorem, and what remains differential is
    only implementation vs model. -/
set_option linter.unusedSimpArgs false
namespace Gene.Props.Refine
open Gene M EngineSim
open Gene.Props.C03 (IsValueTok)

theorem tokOf_isValueTok : ∀ l, IsValueTok (tokOf l)
  | .none => .none
  | .some => .some
  | .bool true => .tt
  | .bool false => .ff
  | .text t => .sq t

theorem literal_tokOf : ∀ l, S.literal (tokOf l) = l
  | .none => rfl
  | .some => rfl
  | .bool true => rfl
  | .bool false => rfl
  | .text t => by
    simp only [tokOf, S.literal]
    have h : ∀ (k : Str), ('\'' :: (t ++ ['\'']) == k) = true → k.head? = Option.some '\'' := by
      intro k hk; have := (beq_iff_eq.mp hk); rw [← this]; rfl
    have n1 : ('\'' :: (t ++ ['\'']) == "none".toList) = false := by
      cases hb : ('\'' :: (t ++ ['\'']) == "none".toList) with
      | false => rfl
      | true => have := h _ hb; simp at this
    have n2 : ('\'' :: (t ++ ['\'']) == "some".toList) = false := by
      cases hb : ('\'' :: (t ++ ['\'']) == "some".toList) with
      | false => rfl
      | true => have := h _ hb; simp at this
    have n3 : ('\'' :: (t ++ ['\'']) == "true".toList) = false := by
      cases hb : ('\'' :: (t ++ ['\'']) == "true".toList) with
      | false => rfl
      | true => have := h _ hb; simp at this
    have n4 : ('\'' :: (t ++ ['\'']) == "false".toList) = false := by
      cases hb : ('\'' :: (t ++ ['\'']) == "false".toList) with
      | false => rfl
      | true => have := h _ hb; simp at this
    simp only [n1, n2, n3, n4, Bool.false_eq_true, if_false, List.drop_succ_cons, List.drop_zero, List.dropLast_concat]

theorem matchOfB_sound (x : Ext) : ∀ (o : S.Operand) (m : Match), matchOfB x o m = true → MatchOf x o m
  | .test segs op lit, .direct p op' v, h => by
    simp only [matchOfB, Bool.and_eq_true, beq_iff_eq] at h
    obtain ⟨⟨h1, h2⟩, h3⟩ := h
    subst h2
    exact MatchOf.test (tokOf lit) h1 (tokOf_isValueTok lit) (literal_tokOf lit) h3
  | .indirect a b, .indirect p q, h => by
    simp only [matchOfB, Bool.and_eq_true, beq_iff_eq] at h
    exact MatchOf.indirect h.1 h.2
  | .rule n, .rule m, h => by
    simp only [matchOfB, beq_iff_eq] at h
    subst h; exact MatchOf.rule n
  | .test _ _ _, .indirect _ _, h => by simp [matchOfB] at h
  | .test _ _ _, .rule _, h => by simp [matchOfB] at h
  | .indirect _ _, .direct _ _ _, h => by simp [matchOfB] at h
  | .indirect _ _, .rule _, h => by simp [matchOfB] at h
  | .rule _, .direct _ _ _, h => by simp [matchOfB] at h
  | .rule _, .indirect _ _, h => by simp [matchOfB] at h

theorem condRelB_sound : ∀ (f : S.Form) (e : Expr), condRelB f e = true → CondRel f e := by
  intro f
  induction f with
  | tt => intro e h; cases e <;> simp [condRelB] at h; exact .tt
  | opd n => intro e h; cases e <;> simp [condRelB] at h; subst h; exact .opd n
  | not f ih => intro e h; cases e <;> simp [condRelB] at h; exact .not (ih _ h)
  | and f g ihf ihg =>
    intro e h
    cases e with
    | binop l o r => cases o <;> simp [condRelB] at h; exact .and (ihf _ h.1) (ihg _ h.2)
    | _ => simp [condRelB] at h
  | or f g ihf ihg =>
    intro e h
    cases e with
    | binop l o r => cases o <;> simp [condRelB] at h; exact .or (ihf _ h.1) (ihg _ h.2)
    | _ => simp [condRelB] at h
  | allOf p =>
    intro e h
    cases p with
    | none => cases e <;> simp [condRelB] at h; exact .allThem
    | some p => cases e <;> simp [condRelB] at h; subst h; exact .allVars p
  | anyOf p =>
    intro e h
    cases p with
    | none => cases e <;> simp [condRelB] at h; exact .anyThem
    | some p => cases e <;> simp [condRelB] at h; subst h; exact .anyVars p
  | noneOf p =>
    intro e h
    cases p with
    | none => cases e <;> simp [condRelB] at h; exact .noneThem
    | some p => cases e <;> simp [condRelB] at h; subst h; exact .noneVars p
  | nOf n p =>
    intro e h
    cases n with
    | zero =>
      cases p with
      | none => cases e <;> simp [condRelB] at h; exact .zeroThem
      | some p => cases e <;> simp [condRelB] at h; subst h; exact .zeroVars p
    | succ n =>
      cases p with
      | none => cases e <;> simp [condRelB] at h; subst h; exact .nThem n
      | some p => cases e <;> simp [condRelB] at h; obtain ⟨h1, h2⟩ := h; subst h1; subst h2; exact .nVars n p


theorem setEqB_sound {a b : List Str} (h : setEqB a b = true) : ∀ t, t ∈ a ↔ t ∈ b := by
  simp only [setEqB, Bool.and_eq_true, List.all_eq_true, List.contains_iff_mem] at h
  intro t; exact ⟨h.1 t, h.2 t⟩

theorem opsRelB_sound (x : Ext) : ∀ (sl : List (Str × S.Operand)) (ml : List (Str × Match)), opsRelB x sl ml = true →
    Rel2 (fun (so : Str × S.Operand) (mo : Str × Match) => so.1 = mo.1 ∧ MatchOf x so.2 mo.2) sl ml
  | [], [], _ => .nil
  | so :: sl, mo :: ml, h => by
    simp only [opsRelB, Bool.and_eq_true, beq_iff_eq] at h
    exact .cons ⟨h.1.1, matchOfB_sound x _ _ h.1.2⟩ (opsRelB_sound x sl ml h.2)
  | [], _ :: _, h => by simp [opsRelB] at h
  | _ :: _, [], h => by simp [opsRelB] at h

theorem ruleRelB_sound (x : Ext) (ev : Event) (sr : S.SRule) (cr : CompiledRule) (h : ruleRelB x ev sr cr = true) :
    RuleRelFull x ev sr cr := by
  simp only [ruleRelB, Bool.and_eq_true, beq_iff_eq, decide_eq_true_eq] at h
  obtain ⟨⟨⟨⟨⟨⟨⟨⟨⟨⟨h1, h2⟩, h3⟩, h4⟩, h5⟩, h6⟩, h7⟩, h8⟩, h9⟩, h10⟩, h11⟩ := h
  exact { name := h1, nodup := h2, ops := opsRelB_sound x _ _ h3, cond := condRelB_sound _ _ h4, rtype := h5, admits := h6,
          severity := h7, tags := setEqB_sound h8, attack := setEqB_sound h9, actions := setEqB_sound h10,
          deps := setEqB_sound h11 }

theorem rulesRelB_sound (x : Ext) (ev : Event) : ∀ (rs : List S.SRule) (cs : List CompiledRule), rulesRelB x ev rs cs = true →
    Rel2 (RuleRelFull x ev) rs cs
  | [], [], _ => .nil
  | sr :: rs, cr :: cs, h => by
    simp only [rulesRelB, Bool.and_eq_true] at h
    exact .cons (ruleRelB_sound x ev sr cr h.1) (rulesRelB_sound x ev rs cs h.2)
  | [], _ :: _, h => by simp [rulesRelB] at h
  | _ :: _, [], h => by simp [rulesRelB] at h

/-- **what a `true` from the driver's check means**: on that scenario the model's scan is the specification's
    outcome, by theorem -/
theorem checked_refines (x : Ext) (ev : Event) (hev : C03.EventWf ev) (rules : List S.SRule) (e : Engine) (hw : WfEngine e)
    (h : rulesRelB x ev rules e.rules = true) :
    ∃ c sr err, Engine.scan x e ev = ({ e with rulesCache := c }, .done sr err) ∧
      SrEq sr (S.scan x ev rules).result ∧
      (err.isSome = true ↔ (S.scan x ev rules).failing ≠ []) ∧
      (∀ nm k, err = some (nm, k) → nm ∈ (S.scan x ev rules).named) :=
  scan_refines_spec_full x ev hev rules e hw (rulesRelB_sound x ev rules e.rules h)

theorem fieldsWfB_sound (source : Str) (id : Int) (fields : List (List Str × FieldValue)) (h : fieldsWfB fields = true) :
    C03.EventWf (eventOfFields source id fields) := by
  intro segs fv hget
  simp only [eventOfFields] at hget
  have hmem : (segs, fv) ∈ fields := by
    induction fields with
    | nil => simp at hget
    | cons p fs ih =>
      obtain ⟨k, v⟩ := p
      simp only [List.lookup_cons] at hget
      cases hb : segs == k with
      | true =>
        rw [hb] at hget
        simp only [Option.some.injEq] at hget
        have : segs = k := by simpa using hb
        subst this; subst hget; simp
      | false =>
        rw [hb] at hget
        simp only [fieldsWfB, List.all_cons, Bool.and_eq_true] at h
        exact List.mem_cons_of_mem _ (ih (by simpa [fieldsWfB] using h.2) hget)
  simp only [fieldsWfB, List.all_eq_true] at h
  have := h (segs, fv) hmem
  cases fv with
  | num n =>
    cases n with
    | int v => simp only [fvWfB, numWfB, Bool.and_eq_true, decide_eq_true_eq] at this; exact this
    | uint v => simp only [fvWfB, numWfB, decide_eq_true_eq] at this; exact this
    | float f => trivial
  | str s => trivial
  | bool b => trivial
  | some => trivial
  | none => trivial

/-- the same with every hypothesis decided: an event decoded from a field list whose numbers fit, an engine
    the model built (well-formed by `ofCompiler_wf`), rules the checker relates -/
theorem checked_refines_event (x : Ext) (source : Str) (id : Int) (fields : List (List Str × FieldValue))
    (hf : fieldsWfB fields = true) (rules : List S.SRule) (e : Engine) (hw : WfEngine e)
    (h : rulesRelB x (eventOfFields source id fields) rules e.rules = true) :
    ∃ c sr err, Engine.scan x e (eventOfFields source id fields) = ({ e with rulesCache := c }, .done sr err) ∧
      SrEq sr (S.scan x (eventOfFields source id fields) rules).result ∧
      (err.isSome = true ↔ (S.scan x (eventOfFields source id fields) rules).failing ≠ []) ∧
      (∀ nm k, err = some (nm, k) → nm ∈ (S.scan x (eventOfFields source id fields) rules).named) :=
  checked_refines x _ (fieldsWfB_sound source id fields hf) rules e hw h

/-! events served by derived getters -/
theorem fvWfB_sound {fv : FieldValue} (h : fvWfB fv = true) : C03.fvWf fv := by
  cases fv with
  | num n =>
    cases n with
    | int v => simp only [fvWfB, numWfB, Bool.and_eq_true, decide_eq_true_eq] at h; exact h
    | uint v => simp only [fvWfB, numWfB, decide_eq_true_eq] at h; exact h
    | float f => trivial
  | str s => trivial
  | bool b => trivial
  | some => trivial
  | none => trivial

mutual
theorem gget_wf : ∀ (v : GVal) (segs : List Str) (fv : FieldValue), gvalWfB v = true → gget v segs = some fv → C03.fvWf fv
  | .scalar x, [], fv, hw, h => by
    simp only [gget, Option.some.injEq] at h; subst h; exact fvWfB_sound (by simpa [gvalWfB] using hw)
  | .scalar _, _ :: _, fv, _, h => by simp [gget] at h
  | .optNone, _, fv, _, h => by simp only [gget, Option.some.injEq] at h; subst h; trivial
  | .optSome v, p, fv, hw, h => by
    simp only [gget] at h
    exact gget_wf v p fv (by simpa [gvalWfB] using hw) h
  | .map _, [], fv, _, h => by simp only [gget, Option.some.injEq] at h; subst h; trivial
  | .map kvs, [k], fv, hw, h => by
    simp only [gget] at h
    simp only [gvalWfB, List.all_eq_true] at hw
    have hmem : (k, fv) ∈ kvs := by
      clear hw
      induction kvs with
      | nil => simp at h
      | cons p kvs ih =>
        obtain ⟨k', v'⟩ := p
        simp only [List.lookup_cons] at h
        cases hb : k == k' with
        | true =>
          rw [hb] at h; simp only [Option.some.injEq] at h
          have : k = k' := by simpa using hb
          subst this; subst h; simp
        | false => rw [hb] at h; exact List.mem_cons_of_mem _ (ih h)
    exact fvWfB_sound (hw (k, fv) hmem)
  | .map _, _ :: _ :: _, fv, _, h => by simp [gget] at h
  | .struct _ _, [], fv, _, h => by simp only [gget, Option.some.injEq] at h; subst h; trivial
  | .struct us fs, seg :: rest, fv, hw, h => by
    simp only [gget] at h
    exact ggetField_wf us fs seg rest fv (by simpa [gvalWfB] using hw) h
theorem ggetField_wf : ∀ (us : Bool) (fs : List (FieldDef × GVal)) (seg : Str) (rest : List Str) (fv : FieldValue),
    gfieldsWfB fs = true → ggetField us fs seg rest = some fv → C03.fvWf fv
  | _, [], _, _, fv, _, h => by simp [ggetField] at h
  | us, (f, v) :: fs, seg, rest, fv, hw, h => by
    simp only [gfieldsWfB, Bool.and_eq_true] at hw
    simp only [ggetField] at h
    split at h
    · split at h
      · exact gget_wf v rest fv hw.1 h
      · exact ggetField_wf us fs seg rest fv hw.2 h
    · exact ggetField_wf us fs seg rest fv hw.2 h
end


theorem gvalWfB_sound (source : Str) (id : Int) (v : GVal) (h : gvalWfB v = true) : C03.EventWf (eventOfGVal source id v) :=
  fun segs fv hg => gget_wf v segs fv h hg

theorem checked_refines_gval (x : Ext) (source : Str) (id : Int) (v : GVal) (hv : gvalWfB v = true)
    (rules : List S.SRule) (e : Engine) (hw : WfEngine e)
    (h : rulesRelB x (eventOfGVal source id v) rules e.rules = true) :
    ∃ c sr err, Engine.scan x e (eventOfGVal source id v) = ({ e with rulesCache := c }, .done sr err) ∧
      SrEq sr (S.scan x (eventOfGVal source id v) rules).result ∧
      (err.isSome = true ↔ (S.scan x (eventOfGVal source id v) rules).failing ≠ []) ∧
      (∀ nm k, err = some (nm, k) → nm ∈ (S.scan x (eventOfGVal source id v) rules).named) :=
  checked_refines x _ (gvalWfB_sound source id v hv) rules e hw h

/-- the closed form: the engine is whatever `Engine::try_from` builds from a compiler in a reachable state
    (`C14.RInv`: the empty compiler after any sequence of template loads, rule loads and compile calls —
    `C14.run_inv`); its well-formedness is `C06.ofCompiler_wf`, not an assumption -/
theorem checked_refines_compiler (x : Ext) (c : Compiler) (hi : C14.RInv x c) (e : Engine)
    (he : Engine.ofCompiler x c = .ok e)
    (source : Str) (id : Int) (fields : List (List Str × FieldValue)) (hf : fieldsWfB fields = true)
    (rules : List S.SRule) (h : rulesRelB x (eventOfFields source id fields) rules e.rules = true) :
    ∃ k sr err, Engine.scan x e (eventOfFields source id fields) = ({ e with rulesCache := k }, .done sr err) ∧
      SrEq sr (S.scan x (eventOfFields source id fields) rules).result ∧
      (err.isSome = true ↔ (S.scan x (eventOfFields source id fields) rules).failing ≠ []) ∧
      (∀ nm kd, err = some (nm, kd) → nm ∈ (S.scan x (eventOfFields source id fields) rules).named) :=
  checked_refines_event x source id fields hf rules e (C06.ofCompiler_wf x c hi e he).1 h

end Gene.Props.Refine
