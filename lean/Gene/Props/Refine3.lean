import Gene.Props.Refine2
import Gene.Props.C13
/-! Refinement, part 3: the whole scan.  `scan_refines_spec`: for an engine whose compiled rules correspond
    one by one to a list of structured rules, `Engine.scan` delivers what `S.scan` says — the same result (as
    sets and values), an error exactly when the specification lists a failing rule, and the error names one of
    the rules the specification allows it to name. -/
set_option linter.unusedSimpArgs false
namespace Gene.Props.Refine
open Gene M EngineSim
open Gene.Props.C03 (resOf IsValueTok EventWf)
open Gene.Props.C01 (verdict verdict_eq)

/-! ### the result slot is the aggregate of C07 -/
theorem foldUpd_some (ms : List CompiledRule) (hok : C07.SevOk ms) : ∀ (sr : ScanResult), sr.severity ≤ Gen.maxSeverity →
    ms.foldl (fun o r => srUpdate (Option.getD o {}) r) (some sr) = C07.foldUpd ms sr := by
  induction ms with
  | nil => intro sr _; rfl
  | cons r ms ih =>
    intro sr hs
    obtain ⟨sr', h1, h2, _⟩ := C07.srUpdate_some sr r hs (hok r (by simp))
    have ih' := ih (fun q hq => hok q (by simp [hq])) sr' h2
    simp only [List.foldl_cons, Option.getD_some, h1, C07.foldUpd, Option.bind_some] at ih' ⊢
    exact ih'

theorem srFold_eq_agg (ms : List CompiledRule) (hok : C07.SevOk ms) : C07.aggModel ms = some (srFold ms) := by
  cases ms with
  | nil => rfl
  | cons r ms =>
    have hs0 : ({} : ScanResult).severity ≤ Gen.maxSeverity := Nat.zero_le _
    obtain ⟨sr', h1, h2, _⟩ := C07.srUpdate_some {} r hs0 (hok r (by simp))
    have h := foldUpd_some ms (fun q hq => hok q (by simp [hq])) sr' h2
    obtain ⟨out, ho, _⟩ := C07.foldUpd_spec (r :: ms) {} hok hs0
    simp only [C07.aggModel, srFold, List.foldl_cons, Option.getD_none, h1, h, ho, Option.map_some]
    have : C07.foldUpd (r :: ms) {} = C07.foldUpd ms sr' := by
      simp only [C07.foldUpd, List.foldl_cons, Option.bind_some, h1]
    rw [← this, ho]

/-- a structured rule and a compiled rule that agree on everything a scan looks at -/
structure RuleRelFull (x : Ext) (ev : Event) (sr : S.SRule) (cr : CompiledRule) : Prop extends RuleRel x sr cr where
  rtype : cr.rtype = sr.rtype
  /-- admission agrees for the event scanned (for a compiled match-on section this is `C05_admits`) -/
  admits : canMatchOn cr.includeEvents cr.excludeEvents ev.source ev.id = S.admits sr.matchOn ev.source ev.id
  severity : cr.severity = S.cap sr.severity
  tags : ∀ t, t ∈ cr.tags ↔ t ∈ sr.tags
  attack : ∀ t, t ∈ cr.attack ↔ t ∈ sr.attack.map asciiUpper
  actions : ∀ t, t ∈ cr.actions ↔ t ∈ sr.actions
  deps : ∀ n, n ∈ cr.depends ↔ n ∈ S.directDeps sr

/-! ### transitive dependencies -/
theorem reach_cases {e : Dfs.Eng} {i y : Nat} (h : Dfs.Reach e i y) :
    y ∈ Dfs.deps e i ∨ ∃ d, d ∈ Dfs.deps e i ∧ Dfs.Reach e d y := by
  induction h with
  | direct h => exact Or.inl h
  | step _ hd ih =>
    rcases ih with h | ⟨d, hd1, hd2⟩
    · exact Or.inr ⟨_, h, Dfs.Reach.direct hd⟩
    · exact Or.inr ⟨d, hd1, Dfs.Reach.step hd2 hd⟩

theorem closures_snoc (l : List S.SRule) (r : S.SRule) :
    S.closures (l ++ [r]) = S.closures l ++
      [(r.name, (S.directDeps r ++ (S.directDeps r).flatMap (fun d => ((S.closures l).lookup d).getD [])).eraseDups)] := by
  simp [S.closures, List.foldl_append]


def NameAt (e : Engine) (y : Nat) (n : Str) : Prop := ∃ q, e.rules[y]? = some q ∧ q.name = n

theorem mem_deps_iff {e : Engine} {j : Nat} {q : CompiledRule} (hj : e.rules[j]? = some q) (y : Nat) :
    y ∈ Dfs.deps (absEng e) j ↔ ∃ n ∈ q.depends, idxOf e n = some y := by
  rw [deps_absEng]
  simp only [depIdx, hj, List.mem_filterMap]

section closure
variable (x : Ext) (ev : Event) (rules : List S.SRule) (e : Engine) (hw : WfEngine e) (hrel : Rel2 (RuleRelFull x ev) rules e.rules)
include hw hrel

theorem closures_prefix : ∀ k, k ≤ rules.length →
    (∀ j q, j < k → e.rules[j]? = some q →
      ∃ l, (S.closures (rules.take k)).lookup q.name = some l ∧
        ∀ n, n ∈ l ↔ ∃ y, Dfs.Reach (absEng e) j y ∧ NameAt e y n) ∧
    (∀ n, (∀ j q, j < k → e.rules[j]? = some q → q.name ≠ n) → (S.closures (rules.take k)).lookup n = none) := by
  intro k
  induction k with
  | zero => intro _; exact ⟨by intro j q h; omega, by intro n _; simp [S.closures]⟩
  | succ k ih =>
    intro hk
    obtain ⟨ih1, ih2⟩ := ih (by omega)
    have hlen := Rel2.length_eq hrel
    have hs : rules[k]? = some rules[k] := by simp
    have hc : e.rules[k]? = some e.rules[k] := by simp
    have hr := Rel2.get hrel k _ _ hs hc
    have htake : rules.take (k + 1) = rules.take k ++ [rules[k]] := by
      rw [List.take_add_one, hs]; rfl
    have hfresh : (S.closures (rules.take k)).lookup e.rules[k].name = none := by
      apply ih2
      intro j q hj hq heq
      have := name_unique hw.toWfCore hq hc heq
      omega
    rw [htake, closures_snoc]
    generalize hcs : S.closures (rules.take k) = cs at ih1 ih2 hfresh
    -- a dependency name of rule k denotes an earlier rule, whose closure is recorded
    have hdep : ∀ m, m ∈ S.directDeps rules[k] → ∃ d qd, d < k ∧ e.rules[d]? = some qd ∧ qd.name = m ∧
        idxOf e m = some d ∧ d ∈ Dfs.deps (absEng e) k := by
      intro m hm
      have hm' : m ∈ e.rules[k].depends := (hr.deps m).mpr hm
      obtain ⟨d, hdk, hd⟩ := hw.deps_back k _ hc m hm'
      obtain ⟨qd, hqd, hqn⟩ := (hw.names_ok m d).mp hd
      exact ⟨d, qd, hdk, hqd, hqn, hd, (mem_deps_iff hc d).mpr ⟨m, hm', hd⟩⟩
    constructor
    · intro j q hj hq
      rw [List.lookup_append]
      by_cases hjk : j = k
      · subst hjk
        rw [hc] at hq; cases hq
        rw [hfresh]
        refine ⟨_, (by simp only [Option.none_or, List.lookup_cons, List.lookup_nil, hr.name, beq_self_eq_true]; rfl), ?_⟩
        intro n
        rw [List.mem_eraseDups, List.mem_append, List.mem_flatMap]
        constructor
        · rintro (hn | ⟨m, hm, hnm⟩)
          · obtain ⟨d, qd, _, hqd, hqn, _, hdd⟩ := hdep n hn
            exact ⟨d, Dfs.Reach.direct hdd, qd, hqd, hqn⟩
          · obtain ⟨d, qd, hdk, hqd, hqn, _, hdd⟩ := hdep m hm
            obtain ⟨l, hl, hch⟩ := ih1 d qd hdk hqd
            rw [hqn] at hl
            rw [hl] at hnm
            obtain ⟨y, hy, hny⟩ := (hch n).mp hnm
            exact ⟨y, Dfs.reach_head hdd hy, hny⟩
        · rintro ⟨y, hy, qy, hqy, hqyn⟩
          rcases reach_cases hy with hyd | ⟨d, hdd, hdy⟩
          · obtain ⟨m, hm, hidx⟩ := (mem_deps_iff hc y).mp hyd
            obtain ⟨r', hr', hrn⟩ := (hw.names_ok m y).mp hidx
            rw [hqy] at hr'; cases hr'
            left; rw [← hqyn, hrn]; exact (hr.deps m).mp hm
          · obtain ⟨m, hm, hidx⟩ := (mem_deps_iff hc d).mp hdd
            have hm' := (hr.deps m).mp hm
            obtain ⟨d', qd, hdk, hqd, hqn, hidx', _⟩ := hdep m hm'
            have : d' = d := by rw [hidx] at hidx'; exact (Option.some.inj hidx').symm
            subst this
            obtain ⟨l, hl, hch⟩ := ih1 d' qd hdk hqd
            right
            refine ⟨m, hm', ?_⟩
            rw [← hqn, hl]
            exact (hch n).mpr ⟨y, hdy, qy, hqy, hqyn⟩
      · obtain ⟨l, hl, hch⟩ := ih1 j q (by omega) hq
        exact ⟨l, by rw [hl]; rfl, hch⟩
    · intro n hn
      rw [List.lookup_append, ih2 n (fun j q hj hq => hn j q (by omega) hq)]
      have : (n == rules[k].name) = false := by
        have := hn k _ (Nat.lt_succ_self k) hc
        rw [hr.name]
        cases hb : n == e.rules[k].name with
        | false => rfl
        | true => exact absurd (by simpa using hb : n = e.rules[k].name).symm this
      simp only [Option.none_or, List.lookup_cons, List.lookup_nil, this]

/-- **closures: the specification's fold records, under each rule's name, the names of the rules the DFS
    dependency list of that rule contains** -/
theorem closures_spec (j : Nat) (q : CompiledRule) (hq : e.rules[j]? = some q) :
    ∃ l, (S.closures rules).lookup q.name = some l ∧
      ∀ n, n ∈ l ↔ ∃ y, y ∈ Dfs.dfsDepSearch (absEng e) j ∧ NameAt e y n := by
  have h := (closures_prefix x ev rules e hw hrel rules.length (Nat.le_refl _)).1 j q
    (by rw [Rel2.length_eq hrel]; exact (List.getElem?_eq_some_iff.mp hq).1) hq
  rw [List.take_length] at h
  obtain ⟨l, hl, hch⟩ := h
  refine ⟨l, hl, fun n => ?_⟩
  rw [hch n]
  constructor
  · rintro ⟨y, hy, hn⟩; exact ⟨y, (Dfs.mem_dfs_iff _ (absEng_wf hw.toWfCore) j y).mpr hy, hn⟩
  · rintro ⟨y, hy, hn⟩; exact ⟨y, (Dfs.mem_dfs_iff _ (absEng_wf hw.toWfCore) j y).mp hy, hn⟩

end closure

end Gene.Props.Refine
