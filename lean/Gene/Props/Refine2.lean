import Gene.Props.Refine
import Gene.Props.C01
/-! Refinement, part 2: verdicts.  For an engine whose compiled rules correspond one by one to a list of
    structured rules (`RuleRel`), the denotational verdict of rule `j` (`C01.verdict`, which `C01_scan`
    shows the scan to implement) is what `S.verdicts` — a left fold over the load order — records under
    the rule's name. -/
set_option linter.unusedSimpArgs false
namespace Gene.Props.Refine
open Gene M EngineSim
open Gene.Props.C03 (resOf IsValueTok EventWf)
open Gene.Props.C01 (verdict verdict_eq)

theorem Rel2.length_eq {α β : Type} {R : α → β → Prop} : ∀ {l : List α} {l' : List β}, Rel2 R l l' → l.length = l'.length
  | _, _, .nil => rfl
  | _, _, .cons _ t => by simp [Rel2.length_eq t]

theorem Rel2.get {α β : Type} {R : α → β → Prop} : ∀ {l : List α} {l' : List β}, Rel2 R l l' →
    ∀ (j : Nat) (a : α) (b : β), l[j]? = some a → l'[j]? = some b → R a b
  | _, _, .nil => by intro j a b h; simp at h
  | _, _, .cons h t => by
    intro j a b ha hb
    cases j with
    | zero => simp at ha hb; subst ha; subst hb; exact h
    | succ j => simp at ha hb; exact Rel2.get t j a b ha hb

theorem Rel2.mem_right {α β : Type} {R : α → β → Prop} : ∀ {l : List α} {l' : List β}, Rel2 R l l' →
    ∀ b ∈ l', ∃ a ∈ l, R a b
  | _, _, .nil => by intro b hb; cases hb
  | _, _, .cons (a := a) h t => by
    intro b hb
    rcases List.mem_cons.mp hb with rfl | hb
    · exact ⟨a, by simp, h⟩
    · obtain ⟨a', ha', hr⟩ := Rel2.mem_right t b hb
      exact ⟨a', by simp [ha'], hr⟩

/-- a structured operand and a compiled match that say the same thing, whatever the event -/
inductive MatchOf (x : Ext) : S.Operand → Match → Prop
  | test {segs : List Str} {op : MOp} {lit : S.Lit} {p : XPath} {v : MatchValue} (tok : Str) :
      p.segments = segs → IsValueTok tok → S.literal tok = lit → classify x op tok = Option.some v →
      MatchOf x (.test segs op lit) (.direct p op v)
  | indirect {a b : List Str} {p q : XPath} : p.segments = a → q.segments = b → MatchOf x (.indirect a b) (.indirect p q)
  | rule (n : Str) : MatchOf x (.rule n) (.rule n)

/-- a structured rule and a compiled rule that say the same thing -/
structure RuleRel (x : Ext) (sr : S.SRule) (cr : CompiledRule) : Prop where
  name : sr.name = cr.name
  nodup : (sr.ops.map Prod.fst).Nodup
  ops : Rel2 (fun (so : Str × S.Operand) (mo : Str × Match) => so.1 = mo.1 ∧ MatchOf x so.2 mo.2) (S.sortByName sr.ops) cr.ops
  cond : CondRel sr.cond cr.cond

def toS : Memo.Res → S.Res
  | .ok b => .ok b
  | .err => .err

theorem toS_toRes (r : Except EvalErr Bool) : toS (toRes r) = resOf r := by
  cases r <;> rfl

theorem verdicts_snoc (x : Ext) (ev : Event) (l : List S.SRule) (r : S.SRule) :
    S.verdicts x ev (l ++ [r]) = S.verdicts x ev l ++ [(r.name, S.ruleVerdict x ev (S.verdicts x ev l) r)] := by
  simp [S.verdicts, List.foldl_append]

section verdicts
variable (x : Ext) (ev : Event) (hev : EventWf ev)
variable (rules : List S.SRule) (e : Engine) (hw : WfEngine e) (hrel : Rel2 (RuleRel x) rules e.rules)
include hev hw hrel

/-- one rule: given that the verdicts of the earlier rules are recorded correctly, the rule's own verdict is
    the specification's `ruleVerdict` -/
theorem rule_step (k : Nat) (sr : S.SRule) (cr : CompiledRule) (hs : rules[k]? = some sr) (hc : e.rules[k]? = some cr)
    (vs : S.Verdicts)
    (hvs : ∀ j q, j < k → e.rules[j]? = some q → vs.lookup q.name = some (toS (verdict x ev e j))) :
    S.ruleVerdict x ev vs sr = toS (verdict x ev e k) := by
  have hr := Rel2.get hrel k sr cr hs hc
  rw [verdict_eq x ev e hw k]
  simp only [absEv, hc, toS_toRes, ruleEval, S.ruleVerdict]
  symm
  apply evalExpr_evalForm x ev _ (S.operandVal x ev vs) sr.ops cr.ops hr.nodup ?_ hr.cond
  -- operand by operand
  have key1 : ∀ (so : Str × S.Operand) (mo : Str × Match), so.1 = mo.1 → MatchOf x so.2 mo.2 → mo ∈ cr.ops →
      OpR x ev (statesOf e (fun d => (verdict x ev e d).toOpt)) (S.operandVal x ev vs) so mo := by
    rintro ⟨an, ao⟩ ⟨bn, bm⟩ h1 hmo hmem
    refine ⟨h1, ?_⟩
    simp only at hmo ⊢
    cases hmo with
    | @test segs op lit p v tok hseg htok hlit hcl =>
      have := (C03.C03_direct x op tok htok).2 v hcl ev p (statesOf e (fun d => (verdict x ev e d).toOpt)) hev
      rw [this, hlit, hseg]; rfl
    | @indirect a b p q ha hb =>
      have := C03.C03_indirect x ev p q (statesOf e (fun d => (verdict x ev e d).toOpt)) hev
      rw [this, ha, hb]; rfl
    | rule n =>
      simp only [matchEvent, S.operandVal, statesOf_lookup hw]
      have hdep := hw.deps_cover k cr hc n (mem_refs cr.ops bn n hmem)
      obtain ⟨d, hdk, hd⟩ := hw.deps_back k cr hc n hdep
      have hidx : idxOf e n = some d := hd
      obtain ⟨q, hq, hqn⟩ := (hw.names_ok n d).mp hd
      have hv := hvs d q hdk hq
      rw [hqn] at hv
      rw [hidx, hv]
      simp only [Option.bind_some]
      cases verdict x ev e d with
      | ok b => rfl
      | err => rfl
  have key : ∀ {sl : List (Str × S.Operand)} {ml : List (Str × Match)},
      Rel2 (fun (so : Str × S.Operand) (mo : Str × Match) => so.1 = mo.1 ∧ MatchOf x so.2 mo.2) sl ml →
      (∀ m ∈ ml, m ∈ cr.ops) →
      Rel2 (OpR x ev (statesOf e (fun d => (verdict x ev e d).toOpt)) (S.operandVal x ev vs)) sl ml := by
    intro sl ml h
    induction h with
    | nil => intro _; exact .nil
    | cons hab _ ih =>
      intro hsub
      exact .cons (key1 _ _ hab.1 hab.2 (hsub _ (by simp))) (ih (fun m hm => hsub m (by simp [hm])))
  exact key hr.ops (fun m hm => hm)

theorem verdicts_prefix : ∀ k, k ≤ rules.length →
    (∀ j q, j < k → e.rules[j]? = some q →
      (S.verdicts x ev (rules.take k)).lookup q.name = some (toS (verdict x ev e j))) ∧
    (∀ n, (∀ j q, j < k → e.rules[j]? = some q → q.name ≠ n) → (S.verdicts x ev (rules.take k)).lookup n = none) := by
  intro k
  induction k with
  | zero => intro _; exact ⟨by intro j q h; omega, by intro n _; simp [S.verdicts]⟩
  | succ k ih =>
    intro hk
    obtain ⟨ih1, ih2⟩ := ih (by omega)
    have hlen := Rel2.length_eq hrel
    have hs : rules[k]? = some rules[k] := by simp
    have hc : e.rules[k]? = some e.rules[k] := by simp
    have hr := Rel2.get hrel k _ _ hs hc
    have htake : rules.take (k + 1) = rules.take k ++ [rules[k]] := by
      rw [List.take_add_one, hs]; rfl
    have hstep := rule_step x ev hev rules e hw hrel k _ _ hs hc (S.verdicts x ev (rules.take k)) ih1
    have hfresh : (S.verdicts x ev (rules.take k)).lookup e.rules[k].name = none := by
      apply ih2
      intro j q hj hq heq
      have := name_unique hw.toWfCore hq hc heq
      omega
    rw [htake, verdicts_snoc]
    constructor
    · intro j q hj hq
      rw [List.lookup_append]
      by_cases hjk : j = k
      · subst hjk
        rw [hc] at hq; cases hq
        rw [hfresh]
        simp only [Option.none_or, List.lookup_cons, List.lookup_nil, hr.name, beq_self_eq_true, hstep]
      · rw [ih1 j q (by omega) hq]; rfl
    · intro n hn
      rw [List.lookup_append, ih2 n (fun j q hj hq => hn j q (by omega) hq)]
      have : (n == rules[k].name) = false := by
        have := hn k _ (Nat.lt_succ_self k) hc
        rw [hr.name]
        cases hb : n == e.rules[k].name with
        | false => rfl
        | true => exact absurd (by simpa using hb : n = e.rules[k].name).symm this
      simp only [Option.none_or, List.lookup_cons, List.lookup_nil, this]

/-- **verdicts: the specification's fold records, under each rule's name, the verdict the scan implements** -/
theorem verdicts_spec (j : Nat) (q : CompiledRule) (hq : e.rules[j]? = some q) :
    (S.verdicts x ev rules).lookup q.name = some (toS (verdict x ev e j)) := by
  have h := (verdicts_prefix x ev hev rules e hw hrel rules.length (Nat.le_refl _)).1 j q
    (by rw [Rel2.length_eq hrel]; exact (List.getElem?_eq_some_iff.mp hq).1) hq
  rwa [List.take_length] at h

end verdicts

end Gene.Props.Refine
