import Gene.Engine
import Gene.Lemmas.CompAbs
/-! C14 — the compiler yields an engine only if every rule is valid, unique and resolved.

    The concrete `Compiler` model (with its `names` / `loaded` / `rules` / `compiled` fields, the skip of
    already compiled rules, the dependency check against `names`) is shown to refine the abstract state
    machine of `Gene/Lemmas/CompAbs.lean`, where `compile` = "extend `compiled` to the longest valid prefix
    of `rules`". The abstract theorems (invariant over all histories, compile placement irrelevant, ok iff
    all good) then hold of the concrete model. -/
set_option linter.unusedSimpArgs false
namespace Gene.Props.C14
open Gene M

variable (x : Ext)

def okOf (r : Rule) : Option CompiledRule :=
  match compileInto x r with
  | .ok cr => some cr
  | _ => none

/-- the abstract view of a loaded rule: its name, whether it compiles in isolation, the rules it names -/
def absRule (r : Rule) : Comp.Rule :=
  { name := r.name, disabled := false,
    valid := (okOf x r).isSome,
    deps := match okOf x r with
      | some cr => cr.depends
      | none => [] }

theorem compileInto_name (r : Rule) (cr : CompiledRule) (h : compileInto x r = .ok cr) : cr.name = r.name := by
  unfold compileInto at h
  simp only at h
  split at h
  · cases h
  · cases h
  · split at h
    · cases h
    · split at h
      · cases h
      · cases h
      · simp only [CompileOut.ok.injEq] at h; rw [← h]

theorem okOf_name (r : Rule) (cr : CompiledRule) (h : okOf x r = some cr) : cr.name = r.name := by
  unfold okOf at h
  split at h
  · rename_i cr' hc; simp only [Option.some.injEq] at h; subst h; exact compileInto_name x r _ hc
  · cases h

/-- the concrete `names`/`compiled` fields describe the compiled prefix `pre` of the loaded rules -/
structure Coupled (names : List (Str × Nat)) (compiled : List CompiledRule) (pre : List Rule) : Prop where
  keys : names.map Prod.fst = pre.map (·.name)
  comp : pre.map (okOf x) = compiled.map some

theorem lookup_isSome {β : Type} (l : List (Str × β)) (n : Str) :
    (l.lookup n).isSome = true ↔ n ∈ l.map Prod.fst := by
  induction l with
  | nil => simp
  | cons p l ih =>
    obtain ⟨k, v⟩ := p
    simp only [List.lookup_cons, List.map_cons, List.mem_cons]
    cases h : n == k
    · simp only [ih]
      have : n ≠ k := by simpa using h
      simp [this]
    · have : n = k := by simpa using h
      simp [this]

theorem absNames (l : List Rule) : Comp.names (l.map (absRule x)) = l.map (·.name) := by
  simp [Comp.names, absRule, List.map_map, Function.comp_def]

/-- **Refinement of the compile loop.** -/
theorem loop_refines : ∀ (rest : List Rule) (i : Nat) (names : List (Str × Nat)) (compiled : List CompiledRule)
    (pre : List Rule), Coupled x names compiled pre →
    ∃ pre', Coupled x (compileLoop x rest i names compiled).1 (compileLoop x rest i names compiled).2.1 pre' ∧
      (Comp.compLoop (pre.map (absRule x)) (rest.map (absRule x))).1 = pre'.map (absRule x) ∧
      ((compileLoop x rest i names compiled).2.2 = none ↔
        (Comp.compLoop (pre.map (absRule x)) (rest.map (absRule x))).2 = .ok) ∧
      ∃ added, pre' = pre ++ added ∧ ∀ a ∈ added, a ∈ rest := by
  intro rest
  induction rest with
  | nil =>
    intro i names compiled pre hc
    exact ⟨pre, by simpa [compileLoop] using hc, by simp [Comp.compLoop], by simp [compileLoop, Comp.compLoop],
      [], by simp, by simp⟩
  | cons r rest ih =>
    intro i names compiled pre hc
    have hnames : Comp.names (pre.map (absRule x)) = names.map Prod.fst := by rw [absNames, hc.keys]
    by_cases hskip : (names.lookup r.name).isSome = true
    · have hmem : r.name ∈ Comp.names (pre.map (absRule x)) := by
        rw [hnames]; exact (lookup_isSome names r.name).mp hskip
      have e1 : compileLoop x (r :: rest) i names compiled = compileLoop x rest (i + 1) names compiled := by
        simp [compileLoop, hskip]
      have e2 : Comp.compLoop (pre.map (absRule x)) ((r :: rest).map (absRule x)) =
          Comp.compLoop (pre.map (absRule x)) (rest.map (absRule x)) := by
        simp only [List.map_cons, Comp.compLoop]
        have : (absRule x r).name ∈ Comp.names (pre.map (absRule x)) := hmem
        simp [this]
      rw [e1, e2]
      obtain ⟨pre', h1, h2, h3, added, h4, h5⟩ := ih (i + 1) names compiled pre hc
      exact ⟨pre', h1, h2, h3, added, h4, fun a ha => List.mem_cons_of_mem _ (h5 a ha)⟩
    · have hnmem : (absRule x r).name ∉ Comp.names (pre.map (absRule x)) := by
        rw [hnames]; intro h; exact hskip ((lookup_isSome names r.name).mpr h)
      cases hok : okOf x r with
      | none =>
        -- the rule does not compile: both loops stop here
        have e1 : (compileLoop x (r :: rest) i names compiled).1 = names ∧
            (compileLoop x (r :: rest) i names compiled).2.1 = compiled ∧
            (compileLoop x (r :: rest) i names compiled).2.2 ≠ none := by
          unfold okOf at hok
          simp only [compileLoop, hskip, Bool.false_eq_true, if_false]
          cases hci : compileInto x r with
          | ok cr => rw [hci] at hok; cases hok
          | err => exact ⟨rfl, rfl, by simp⟩
          | panic => exact ⟨rfl, rfl, by simp⟩
        have e2 : Comp.compLoop (pre.map (absRule x)) ((r :: rest).map (absRule x)) = (pre.map (absRule x), .bad) := by
          simp only [List.map_cons, Comp.compLoop, hnmem, if_false]
          have : Comp.goodAt (pre.map (absRule x)) (absRule x r) = false := by
            simp [Comp.goodAt, absRule, hok]
          simp [this]
        refine ⟨pre, ?_, by rw [e2], ?_, [], by simp, by simp⟩
        · rw [e1.1, e1.2.1]; exact hc
        · rw [e2]; constructor
          · intro h; exact absurd h e1.2.2
          · intro h; cases h
      | some cr =>
        have hci : compileInto x r = .ok cr := by
          unfold okOf at hok
          split at hok
          · rename_i cr' h; simp only [Option.some.injEq] at hok; subst hok; exact h
          · cases hok
        have hname := compileInto_name x r cr hci
        by_cases hdeps : cr.depends.all (fun d => (names.lookup d).isSome) = true
        · -- accepted
          have hfind : cr.depends.find? (fun d => (names.lookup d).isNone) = none := by
            rw [List.find?_eq_none]
            intro d hd
            have := List.all_eq_true.mp hdeps d hd
            simp [Option.isNone_iff_eq_none, Option.isSome_iff_ne_none] at this ⊢
            exact this
          have e1 : compileLoop x (r :: rest) i names compiled =
              compileLoop x rest (i + 1) (names ++ [(cr.name, i)]) (compiled ++ [cr]) := by
            simp [compileLoop, hskip, hci, hfind]
          have hgood : Comp.goodAt (pre.map (absRule x)) (absRule x r) = true := by
            simp only [Comp.goodAt, absRule, hok, Option.isSome_some, Bool.true_and, List.all_eq_true,
              decide_eq_true_eq]
            intro d hd
            rw [hnames]
            exact (lookup_isSome names d).mp (List.all_eq_true.mp hdeps d hd)
          have e2 : Comp.compLoop (pre.map (absRule x)) ((r :: rest).map (absRule x)) =
              Comp.compLoop ((pre ++ [r]).map (absRule x)) (rest.map (absRule x)) := by
            simp only [List.map_cons, Comp.compLoop, hnmem, if_false, hgood, if_true, List.map_append,
              List.map_nil]
          rw [e1, e2]
          obtain ⟨pre', h1, h2, h3, added, h4, h5⟩ := ih (i + 1) (names ++ [(cr.name, i)]) (compiled ++ [cr]) (pre ++ [r])
            ⟨by simp [hc.keys, hname], by simp [hc.comp, hok]⟩
          refine ⟨pre', h1, h2, h3, r :: added, by rw [h4]; simp, ?_⟩
          intro a ha
          rcases List.mem_cons.mp ha with rfl | ha
          · exact List.mem_cons_self
          · exact List.mem_cons_of_mem _ (h5 a ha)
        · -- a dependency is not compiled yet
          have hfind : ∃ d, cr.depends.find? (fun d => (names.lookup d).isNone) = some d := by
            cases hf : cr.depends.find? (fun d => (names.lookup d).isNone) with
            | some d => exact ⟨d, rfl⟩
            | none =>
              exfalso; apply hdeps
              rw [List.all_eq_true]
              intro d hd
              have := (List.find?_eq_none.mp hf) d hd
              simpa [Option.isNone_iff_eq_none, Option.isSome_iff_ne_none] using this
          obtain ⟨d, hd⟩ := hfind
          have e1 : compileLoop x (r :: rest) i names compiled = (names, compiled, some (.unknownDep d)) := by
            simp [compileLoop, hskip, hci, hd]
          have hbad : Comp.goodAt (pre.map (absRule x)) (absRule x r) = false := by
            cases hg : Comp.goodAt (pre.map (absRule x)) (absRule x r) with
            | false => rfl
            | true =>
              exfalso; apply hdeps
              simp only [Comp.goodAt, absRule, hok, Option.isSome_some, Bool.true_and, List.all_eq_true,
                decide_eq_true_eq] at hg
              rw [List.all_eq_true]
              intro d' hd'
              have := hg d' hd'
              rw [hnames] at this
              exact (lookup_isSome names d').mpr this
          have e2 : Comp.compLoop (pre.map (absRule x)) ((r :: rest).map (absRule x)) = (pre.map (absRule x), .bad) := by
            simp only [List.map_cons, Comp.compLoop, hnmem, if_false, hbad]
            simp
          refine ⟨pre, ?_, by rw [e2], ?_, [], by simp, by simp⟩
          · rw [e1]; exact hc
          · rw [e1, e2]; simp


/-! ### the state machine -/

/-- the compiled prefix of the loaded rules -/
def preOf (c : Compiler) : List Rule := c.rules.take c.compiled.length

def absSt (c : Compiler) : Comp.St := ⟨c.rules.map (absRule x), (preOf c).map (absRule x)⟩

/-- invariant of every reachable compiler state -/
structure RInv (c : Compiler) : Prop where
  loaded : c.loaded = c.rules.map (·.name)
  len : c.compiled.length ≤ c.rules.length
  coupled : Coupled x c.names c.compiled (preOf c)
  abs : Comp.Inv (absSt x c)

theorem init_inv : RInv x {} := by
  refine ⟨rfl, Nat.le_refl _, ⟨rfl, rfl⟩, ?_⟩
  exact Comp.init_inv

theorem name_inj {rules : List Rule} (hnd : (rules.map (·.name)).Nodup) {a b : Rule}
    (ha : a ∈ rules) (hb : b ∈ rules) (h : a.name = b.name) : a = b := by
  induction rules with
  | nil => cases ha
  | cons r rs ih =>
    simp only [List.map_cons, List.nodup_cons] at hnd
    rcases List.mem_cons.mp ha with rfl | ha'
    · rcases List.mem_cons.mp hb with rfl | hb'
      · rfl
      · exact absurd (List.mem_map.mpr ⟨b, hb', h.symm⟩) hnd.1
    · rcases List.mem_cons.mp hb with rfl | hb'
      · exact absurd (List.mem_map.mpr ⟨a, ha', h⟩) hnd.1
      · exact ih hnd.2 ha' hb'

theorem eq_of_names {rules : List Rule} (hnd : (rules.map (·.name)).Nodup) :
    ∀ (l1 l2 : List Rule), (∀ r ∈ l1, r ∈ rules) → (∀ r ∈ l2, r ∈ rules) →
      l1.map (·.name) = l2.map (·.name) → l1 = l2 := by
  intro l1
  induction l1 with
  | nil => intro l2 _ _ h; cases l2 with
    | nil => rfl
    | cons _ _ => simp at h
  | cons a l1 ih =>
    intro l2 h1 h2 h
    cases l2 with
    | nil => simp at h
    | cons b l2 =>
      simp only [List.map_cons, List.cons.injEq] at h
      have := name_inj hnd (h1 a (by simp)) (h2 b (by simp)) h.1
      subst this
      rw [ih l2 (fun r hr => h1 r (by simp [hr])) (fun r hr => h2 r (by simp [hr])) h.2]

/-- `Compiler::load`: a disabled rule is ignored entirely -/
theorem load_disabled (c : Compiler) (r : Rule) (h : Rule.isDisabled r = true) : Compiler.load c r = .ok c := by
  simp [Compiler.load, h]

/-- an enabled rule whose name is taken is rejected (and, the result being an error, nothing changes) -/
theorem load_duplicate (c : Compiler) (r : Rule) (hd : Rule.isDisabled r = false)
    (hdup : r.name ∈ c.loaded) : Compiler.load c r = .error (.duplicateRule r.name) := by
  simp [Compiler.load, hd, hdup]

theorem applyTemplates_name (t : Tpls) (r : Rule) : (applyTemplates t r).name = r.name := rfl

theorem load_ok (c c' : Compiler) (r : Rule) (h : Compiler.load c r = .ok c') :
    c' = c ∨ (Rule.isDisabled r = false ∧ r.name ∉ c.loaded ∧
      c' = { c with loaded := c.loaded ++ [r.name], rules := c.rules ++ [applyTemplates c.templates r] }) := by
  unfold Compiler.load at h
  split at h
  · left; cases h; rfl
  · rename_i hd
    split at h
    · cases h
    · rename_i hnd
      right
      simp only [Except.ok.injEq] at h
      refine ⟨by simpa using hd, by simpa using hnd, h.symm⟩

theorem load_inv (c c' : Compiler) (r : Rule) (hi : RInv x c) (h : Compiler.load c r = .ok c') : RInv x c' := by
  rcases load_ok c c' r h with rfl | ⟨hd, hnd, rfl⟩
  · exact hi
  · have hpre : preOf { c with loaded := c.loaded ++ [r.name], rules := c.rules ++ [applyTemplates c.templates r] } = preOf c := by
      simp only [preOf]
      rw [List.take_append_of_le_length hi.len]
    refine ⟨by simp [hi.loaded, applyTemplates], by simp; have := hi.len; omega, by rw [hpre]; exact hi.coupled, ?_⟩
    -- the abstract machine makes the same step
    have hn : r.name ∉ Comp.names (absSt x c).rules := by
      simp only [absSt, absNames]
      rw [← hi.loaded]; exact hnd
    have hstep : (Comp.load (absSt x c) (absRule x (applyTemplates c.templates r))).1 =
        ⟨(absSt x c).rules ++ [absRule x (applyTemplates c.templates r)], (absSt x c).compiled⟩ := by
      have h1 : (absRule x (applyTemplates c.templates r)).disabled = false := rfl
      have h2 : (absRule x (applyTemplates c.templates r)).name = r.name := rfl
      simp only [Comp.load, h1, h2, hn, Bool.false_eq_true, if_false]
    have habs : absSt x { c with loaded := c.loaded ++ [r.name], rules := c.rules ++ [applyTemplates c.templates r] } =
        (Comp.load (absSt x c) (absRule x (applyTemplates c.templates r))).1 := by
      rw [hstep]
      simp only [absSt, hpre, List.map_append, List.map_cons, List.map_nil]
    rw [habs]
    exact Comp.load_inv _ _ hi.abs

theorem loadTemplates_inv (c c' : Compiler) (t : Tpls) (hi : RInv x c) (h : Compiler.loadTemplates c t = .ok c') :
    RInv x c' := by
  unfold Compiler.loadTemplates at h
  split at h
  · simp only [Except.ok.injEq] at h; subst h
    exact ⟨hi.loaded, hi.len, hi.coupled, hi.abs⟩
  · cases h

theorem compile_fields (c : Compiler) (hr : ¬ Compiler.isReady c = true) :
    (Compiler.compile x c).1.rules = c.rules ∧ (Compiler.compile x c).1.templates = c.templates ∧
    (Compiler.compile x c).1.loaded = c.loaded ∧
    (Compiler.compile x c).1.names = (compileLoop x c.rules 0 c.names c.compiled).1 ∧
    (Compiler.compile x c).1.compiled = (compileLoop x c.rules 0 c.names c.compiled).2.1 ∧
    (Compiler.compile x c).2 = (compileLoop x c.rules 0 c.names c.compiled).2.2 := by
  simp only [Compiler.compile, hr, Bool.false_eq_true, if_false, and_self]

/-- **`Compiler::compile` refines the abstract compile**: same rules, the compiled list is the image of
    the abstract one, the verdict agrees, and the invariant is kept -/
theorem compile_refines (c : Compiler) (hi : RInv x c) :
    RInv x (Compiler.compile x c).1 ∧ (Compiler.compile x c).1.rules = c.rules ∧
    (Compiler.compile x c).1.templates = c.templates ∧
    absSt x (Compiler.compile x c).1 = (Comp.compile (absSt x c)).1 ∧
    ((Compiler.compile x c).2 = none ↔ (Comp.compile (absSt x c)).2 = .ok) := by
  have hlenpre : (preOf c).length = c.compiled.length := by
    simp only [preOf, List.length_take]; have := hi.len; omega
  by_cases hr : Compiler.isReady c = true
  · have hl : c.rules.length = c.compiled.length := by simpa [Compiler.isReady] using hr
    have e1 : Compiler.compile x c = (c, none) := by simp [Compiler.compile, hr]
    have e2 : Comp.compile (absSt x c) = (absSt x c, .ok) := by
      simp [Comp.compile, absSt, hlenpre, hl]
    rw [e1, e2]; exact ⟨hi, rfl, rfl, rfl, by simp⟩
  · have hl : c.rules.length ≠ c.compiled.length := by
      intro h; apply hr; simp [Compiler.isReady, h]
    obtain ⟨pre', hc', habs', hverd, added, hadd, hsub⟩ := loop_refines x c.rules 0 c.names c.compiled (preOf c) hi.coupled
    obtain ⟨f1, f2, f3, f4, f5, f6⟩ := compile_fields x c hr
    have e2 : Comp.compile (absSt x c) =
        (⟨c.rules.map (absRule x), (Comp.compLoop ((preOf c).map (absRule x)) (c.rules.map (absRule x))).1⟩,
         (Comp.compLoop ((preOf c).map (absRule x)) (c.rules.map (absRule x))).2) := by
      have : ¬ (List.map (absRule x) c.rules).length = (List.map (absRule x) (preOf c)).length := by
        simp [hlenpre, hl]
      simp only [Comp.compile, absSt, this, if_false]
    -- the new compiled prefix is a prefix of the rules: by names
    have hspec := Comp.compile_spec (absSt x c) hi.abs
    rw [e2] at hspec
    simp only at hspec
    obtain ⟨a, b, hv1, hv2⟩ := Comp.vp_prefix (absSt x c).rules []
    have hnd : (c.rules.map (·.name)).Nodup := by
      have := hi.abs.nodup; simpa [absSt, absNames] using this
    have hlen' : (Compiler.compile x c).1.compiled.length = pre'.length := by
      rw [f5]
      have := congrArg List.length hc'.comp; simp at this; exact this.symm
    have hpre' : pre' = c.rules.take pre'.length := by
      apply eq_of_names hnd
      · intro r hr'
        rw [hadd] at hr'
        rcases List.mem_append.mp hr' with h | h
        · exact List.mem_of_mem_take h
        · exact hsub r h
      · intro r hr'; exact List.mem_of_mem_take hr'
      · -- names of pre' = names of the abstract compiled list = a prefix of the names of the rules
        have h1 : pre'.map (absRule x) = a := by
          rw [← habs', hspec.2.1, hv1]; simp
        have h3 : c.rules.map (absRule x) = a ++ b := hv2
        have hla : a.length = pre'.length := by rw [← h1]; simp
        have : (c.rules.take pre'.length).map (absRule x) = a := by
          rw [List.map_take, h3, ← hla, List.take_left']
          rfl
        have hn1 := congrArg Comp.names h1
        have hn2 := congrArg Comp.names this
        rw [absNames] at hn1 hn2
        rw [hn1, hn2]
    have hpreOf : preOf (Compiler.compile x c).1 = pre' := by
      simp only [preOf, hlen', f1]; exact hpre'.symm
    have habsSt : absSt x (Compiler.compile x c).1 = (Comp.compile (absSt x c)).1 := by
      rw [e2]; simp only [absSt, hpreOf, habs', f1]
    refine ⟨?_, f1, f2, habsSt, by rw [f6, e2]; exact hverd⟩
    refine ⟨by rw [f3, f1]; exact hi.loaded, ?_, by rw [hpreOf, f4, f5]; exact hc', ?_⟩
    · rw [hlen', f1]
      have := congrArg List.length hpre'
      simp only [List.length_take] at this
      omega
    · rw [habsSt]
      exact Comp.compile_inv _ hi.abs


/-! ### histories -/
inductive Op where
  | tpl (t : Tpls)
  | load (r : Rule)
  | compile

/-- one operation; a failing load leaves the state as it was (the call returns an error) -/
def stepC (c : Compiler) : Op → Compiler
  | .tpl t => match Compiler.loadTemplates c t with
    | .ok c' => c'
    | .error _ => c
  | .load r => match Compiler.load c r with
    | .ok c' => c'
    | .error _ => c
  | .compile => (Compiler.compile x c).1

def runC (c : Compiler) (ops : List Op) : Compiler := ops.foldl (stepC x) c

theorem step_inv (c : Compiler) (o : Op) (hi : RInv x c) : RInv x (stepC x c o) := by
  cases o with
  | tpl t =>
    simp only [stepC]
    cases h : Compiler.loadTemplates c t with
    | ok c' => exact loadTemplates_inv x c c' t hi h
    | error e => exact hi
  | load r =>
    simp only [stepC]
    cases h : Compiler.load c r with
    | ok c' => exact load_inv x c c' r hi h
    | error e => exact hi
  | compile => exact (compile_refines x c hi).1

/-- **the invariant holds after every history** of template loads, rule loads and compile calls -/
theorem run_inv (ops : List Op) (c : Compiler) (hi : RInv x c) : RInv x (runC x c ops) := by
  induction ops generalizing c with
  | nil => exact hi
  | cons o ops ih => exact ih _ (step_inv x c o hi)

theorem some_inj {α : Type} (a b : List α) (h : a.map some = b.map some) : a = b := by
  induction a generalizing b with
  | nil => cases b with
    | nil => rfl
    | cons _ _ => simp at h
  | cons x a ih =>
    cases b with
    | nil => simp at h
    | cons y b =>
      simp only [List.map_cons, List.cons.injEq, Option.some.injEq] at h
      rw [h.1, ih b h.2]

/-- **C14 (compile).** In every reachable state, `compile` succeeds exactly when every loaded rule is
    well-formed and depends only on rules loaded before it, and then yields exactly the loaded rules, in
    load order, each the compilation of its source. -/
theorem C14_compile (c : Compiler) (hi : RInv x c) :
    ((Compiler.compile x c).2 = none ↔ Comp.vpOk [] (c.rules.map (absRule x)) = true) ∧
    ((Compiler.compile x c).2 = none →
      (Compiler.compile x c).1.compiled.map some = c.rules.map (okOf x) ∧
      (Compiler.compile x c).1.compiled.map (·.name) = c.rules.map (·.name)) := by
  obtain ⟨hi', hrules, _, habs, hverd⟩ := compile_refines x c hi
  have hspec := Comp.compile_spec (absSt x c) hi.abs
  refine ⟨by rw [hverd, hspec.2.2]; rfl, ?_⟩
  intro hok
  have hall := (Comp.ok_iff_all_good (absSt x c) hi.abs).mp (hverd.mp hok)
  -- the abstract compiled list is all the rules, hence the concrete prefix is all the rules
  have hpre : (preOf (Compiler.compile x c).1).map (absRule x) = c.rules.map (absRule x) := by
    have := congrArg Comp.St.compiled habs
    exact this.trans hall
  have hlen : (preOf (Compiler.compile x c).1).length = c.rules.length := by
    have := congrArg List.length hpre; simpa using this
  have hfull : preOf (Compiler.compile x c).1 = c.rules := by
    have h1 : preOf (Compiler.compile x c).1 = c.rules.take (Compiler.compile x c).1.compiled.length := by
      simp only [preOf, hrules]
    rw [h1] at hlen ⊢
    simp only [List.length_take] at hlen
    exact List.take_of_length_le (by omega)
  have hcomp := hi'.coupled.comp
  rw [hfull] at hcomp
  refine ⟨hcomp.symm, ?_⟩
  have hkeys := hi'.coupled
  -- names: each compiled rule carries the name of its source
  have : ∀ (rs : List Rule) (cs : List CompiledRule), rs.map (okOf x) = cs.map some →
      cs.map (·.name) = rs.map (·.name) := by
    intro rs
    induction rs with
    | nil => intro cs h; cases cs with
      | nil => rfl
      | cons _ _ => simp at h
    | cons r rs ih =>
      intro cs h
      cases cs with
      | nil => simp at h
      | cons cr cs =>
        simp only [List.map_cons, List.cons.injEq] at h ⊢
        exact ⟨okOf_name x r cr h.1, ih cs h.2⟩
  exact this _ _ hcomp

/-- **C14 (engine).** An engine is obtained only from a compiler whose `compile` succeeds, and it then
    holds exactly the compiled rules, in load order. -/
theorem insert_rules : ∀ (cs : List CompiledRule) (e e' : Engine),
    cs.foldl (fun e? r => e?.bind (fun e => Engine.insertCompiled e r)) (some e) = some e' →
    e'.rules = e.rules ++ cs := by
  intro cs
  induction cs with
  | nil => intro e e' h; simp only [List.foldl_nil, Option.some.injEq] at h; subst h; simp
  | cons r cs ih =>
    intro e e' h
    simp only [List.foldl_cons, Option.bind_some] at h
    cases hins : Engine.insertCompiled e r with
    | none =>
      rw [hins] at h
      have : ∀ l : List CompiledRule, l.foldl (fun e? r => e?.bind (fun e => Engine.insertCompiled e r)) none = none := by
        intro l; induction l with
        | nil => rfl
        | cons _ _ ih' => simpa using ih'
      rw [this] at h; cases h
    | some e1 =>
      rw [hins] at h
      have h1 := ih e1 e' h
      have h2 : e1.rules = e.rules ++ [r] := by
        unfold Engine.insertCompiled at hins
        simp only at hins
        split at hins
        · simp only [Option.some.injEq] at hins; rw [← hins]
        · split at hins
          · cases hins
          · simp only [Option.some.injEq] at hins; rw [← hins]
      rw [h1, h2]; simp

theorem C14_engine (c : Compiler) (e : Engine) (h : Engine.ofCompiler x c = .ok e) :
    (Compiler.compile x c).2 = none ∧ e.rules = (Compiler.compile x c).1.compiled := by
  unfold Engine.ofCompiler at h
  split at h
  · cases h
  · rename_i c' hc
    split at h
    · rename_i e1 hf
      simp only [Except.ok.injEq] at h; subst h
      have := insert_rules _ _ _ hf
      rw [hc]
      exact ⟨rfl, by simpa using this⟩
    · cases h


/-! ### compiling incrementally, in any interleaving, is compiling in one batch -/
def dropCompiles : List Op → List Op :=
  List.filter (fun o => match o with
    | .compile => false
    | _ => true)

/-- what loads look at -/
def SameCore (a b : Compiler) : Prop := a.templates = b.templates ∧ a.loaded = b.loaded ∧ a.rules = b.rules

theorem compile_core (c : Compiler) : SameCore (Compiler.compile x c).1 c := by
  by_cases hr : Compiler.isReady c = true
  · have : Compiler.compile x c = (c, none) := by simp [Compiler.compile, hr]
    rw [this]; exact ⟨rfl, rfl, rfl⟩
  · obtain ⟨f1, f2, f3, _, _, _⟩ := compile_fields x c hr
    exact ⟨f2, f3, f1⟩

theorem step_core_tpl (a b : Compiler) (t : Tpls) (h : SameCore a b) :
    SameCore (stepC x a (.tpl t)) (stepC x b (.tpl t)) := by
  obtain ⟨h1, h2, h3⟩ := h
  unfold SameCore
  simp only [stepC, Compiler.loadTemplates, h1]
  cases ht : tplExtend b.templates t with
  | none => exact ⟨h1, h2, h3⟩
  | some ts => exact ⟨rfl, h2, h3⟩

theorem step_core_load (a b : Compiler) (r : Rule) (h : SameCore a b) :
    SameCore (stepC x a (.load r)) (stepC x b (.load r)) := by
  obtain ⟨h1, h2, h3⟩ := h
  unfold SameCore
  simp only [stepC, Compiler.load, h1, h2, h3]
  by_cases hd : Rule.isDisabled r = true
  · simp only [hd, if_true]; exact ⟨h1, h2, h3⟩
  · simp only [hd, Bool.false_eq_true, if_false]
    by_cases hm : b.loaded.contains r.name = true
    · simp only [hm, if_true]; exact ⟨h1, h2, h3⟩
    · simp only [hm, Bool.false_eq_true, if_false]; simp [h1]

theorem run_core : ∀ (ops : List Op) (a b : Compiler), SameCore a b →
    SameCore (runC x a ops) (runC x b (dropCompiles ops)) := by
  intro ops
  induction ops with
  | nil => intro a b h; exact h
  | cons o ops ih =>
    intro a b h
    cases o with
    | compile =>
      simp only [runC, List.foldl_cons, dropCompiles, List.filter_cons] at ih ⊢
      apply ih
      obtain ⟨c1, c2, c3⟩ := compile_core x a
      exact ⟨c1.trans h.1, c2.trans h.2.1, c3.trans h.2.2⟩
    | tpl t =>
      simp only [runC, List.foldl_cons, dropCompiles, List.filter_cons] at ih ⊢
      apply ih
      exact step_core_tpl x a b t h
    | load r =>
      simp only [runC, List.foldl_cons, dropCompiles, List.filter_cons] at ih ⊢
      apply ih
      exact step_core_load x a b r h

/-- two reachable states with the same loaded rules compile to the same result -/
theorem compile_same (a b : Compiler) (ha : RInv x a) (hb : RInv x b) (h : a.rules = b.rules) :
    (Compiler.compile x a).1.rules = (Compiler.compile x b).1.rules ∧
    (Compiler.compile x a).1.compiled = (Compiler.compile x b).1.compiled ∧
    ((Compiler.compile x a).2 = none ↔ (Compiler.compile x b).2 = none) := by
  obtain ⟨ia, ra, _, aa, va⟩ := compile_refines x a ha
  obtain ⟨ib, rb, _, ab, vb⟩ := compile_refines x b hb
  have sa := Comp.compile_spec (absSt x a) ha.abs
  have sb := Comp.compile_spec (absSt x b) hb.abs
  have hrules : (absSt x a).rules = (absSt x b).rules := by simp only [absSt, h]
  refine ⟨by rw [ra, rb, h], ?_, by rw [va, vb, sa.2.2, sb.2.2, hrules]⟩
  -- compiled prefixes: same abstract prefix, hence same length, hence same rules, hence same compilations
  have hpa : (preOf (Compiler.compile x a).1).map (absRule x) = (preOf (Compiler.compile x b).1).map (absRule x) := by
    have e1 := congrArg Comp.St.compiled aa
    have e2 := congrArg Comp.St.compiled ab
    exact e1.trans ((sa.2.1.trans (by rw [hrules])).trans (sb.2.1.symm.trans e2.symm))
  have hlen : (preOf (Compiler.compile x a).1).length = (preOf (Compiler.compile x b).1).length := by
    have := congrArg List.length hpa; simpa using this
  have hpre : preOf (Compiler.compile x a).1 = preOf (Compiler.compile x b).1 := by
    simp only [preOf, ra, rb, h] at hlen ⊢
    simp only [List.length_take] at hlen
    have la := ia.len; have lb := ib.len
    rw [ra] at la; rw [rb] at lb; rw [h] at la
    have : (Compiler.compile x a).1.compiled.length = (Compiler.compile x b).1.compiled.length := by omega
    rw [this]
  apply some_inj
  rw [← ia.coupled.comp, ← ib.coupled.comp, hpre]

/-- **C14 (incremental = batch).** Wherever `compile` calls are interleaved in a history of template and
    rule loads, a final `compile` gives the same loaded rules, the same compiled rules and the same
    verdict as the same loads followed by one `compile`. -/
theorem C14_incremental (ops : List Op) :
    let a := Compiler.compile x (runC x {} ops)
    let b := Compiler.compile x (runC x {} (dropCompiles ops))
    a.1.rules = b.1.rules ∧ a.1.compiled = b.1.compiled ∧ (a.2 = none ↔ b.2 = none) := by
  have ia := run_inv x ops {} (init_inv x)
  have ib := run_inv x (dropCompiles ops) {} (init_inv x)
  have hc := run_core x ops {} {} ⟨rfl, rfl, rfl⟩
  exact compile_same x _ _ ia ib hc.2.2

/-- names of the loaded rules are unique, and `loaded` is exactly that set, in every reachable state -/
theorem C14_unique (ops : List Op) :
    ((runC x {} ops).rules.map (·.name)).Nodup ∧ (runC x {} ops).loaded = (runC x {} ops).rules.map (·.name) := by
  have i := run_inv x ops {} (init_inv x)
  refine ⟨?_, i.loaded⟩
  have := i.abs.nodup
  simpa [absSt, absNames] using this

end Gene.Props.C14
