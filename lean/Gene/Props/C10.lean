import Gene.Props.C12
import Gene.Props.C02
/-! C10 — evaluation is lazy, left to right, and — for quantifiers — in operand-name order. -/
set_option linter.unusedSimpArgs false
namespace Gene.Props.C10
open Gene M

variable (x : Ext) (ev : Event) (states : List (Str × Bool)) (ops : List (Str × Match))

/-- `and`: a false left operand decides; the right operand is not evaluated and cannot raise -/
theorem and_lazy (l r : Expr) (h : evalExpr x ev states ops l = .ok false) :
    evalExpr x ev states ops (.binop l .and r) = .ok false := by
  simp only [evalExpr, h]
/-- `or`: a true left operand decides -/
theorem or_lazy (l r : Expr) (h : evalExpr x ev states ops l = .ok true) :
    evalExpr x ev states ops (.binop l .or r) = .ok true := by
  simp only [evalExpr, h]
/-- an error on the left is the outcome; an error on the right only matters if the left did not decide -/
theorem and_err_left (l r : Expr) (e : EvalErr) (h : evalExpr x ev states ops l = .error e) :
    evalExpr x ev states ops (.binop l .and r) = .error e := by
  simp only [evalExpr, h]
theorem or_err_left (l r : Expr) (e : EvalErr) (h : evalExpr x ev states ops l = .error e) :
    evalExpr x ev states ops (.binop l .or r) = .error e := by
  simp only [evalExpr, h]

/-- `all of …` stops at the first operand that is not true: a false operand decides, whatever follows -/
theorem all_lazy (pre : List Match) (m : Match) (post : List Match)
    (hpre : ∀ p ∈ pre, matchEvent x ev states p = .ok true) (hm : matchEvent x ev states m = .ok false) :
    allLoop x ev states (pre ++ m :: post) = .ok false := by
  induction pre with
  | nil => simp only [List.nil_append, allLoop, hm]
  | cons p pre ih =>
    simp only [List.cons_append, allLoop, hpre p (by simp)]
    exact ih (fun q hq => hpre q (by simp [hq]))
theorem any_lazy (pre : List Match) (m : Match) (post : List Match)
    (hpre : ∀ p ∈ pre, matchEvent x ev states p = .ok false) (hm : matchEvent x ev states m = .ok true) :
    anyLoop x ev states (pre ++ m :: post) = .ok true := by
  induction pre with
  | nil => simp only [List.nil_append, anyLoop, hm]
  | cons p pre ih =>
    simp only [List.cons_append, anyLoop, hpre p (by simp)]
    exact ih (fun q hq => hpre q (by simp [hq]))
theorem none_lazy (pre : List Match) (m : Match) (post : List Match)
    (hpre : ∀ p ∈ pre, matchEvent x ev states p = .ok false) (hm : matchEvent x ev states m = .ok true) :
    noneLoop x ev states (pre ++ m :: post) = .ok false := by
  induction pre with
  | nil => simp only [List.nil_append, noneLoop, hm]
  | cons p pre ih =>
    simp only [List.cons_append, noneLoop, hpre p (by simp)]
    exact ih (fun q hq => hpre q (by simp [hq]))

/-! ### quantifiers visit operands in name order: the compiled operand list is sorted by name -/
def Sorted (ops : List (Str × Match)) : Prop := ops.Pairwise (fun a b => a.1 < b.1)

theorem btInsert_lower (k : Str) (m : Match) (ops : List (Str × Match)) (a : Str)
    (hak : a < k) (h : ∀ p ∈ ops, a < p.1) : ∀ p ∈ btInsert k m ops, a < p.1 := by
  induction ops with
  | nil => intro p hp; simp [btInsert] at hp; subst hp; exact hak
  | cons q ops ih =>
    obtain ⟨k', m'⟩ := q
    intro p hp
    simp only [btInsert] at hp
    split at hp
    · simp only [List.mem_cons] at hp
      rcases hp with rfl | hp
      · exact hak
      · exact h p (by simp [hp])
    · split at hp
      · simp only [List.mem_cons] at hp
        rcases hp with rfl | rfl | hp
        · exact hak
        · exact h _ (by simp)
        · exact h p (by simp [hp])
      · simp only [List.mem_cons] at hp
        rcases hp with rfl | hp
        · exact h _ (by simp)
        · exact ih (fun p hp => h p (by simp [hp])) p hp

theorem btInsert_sorted (k : Str) (m : Match) (ops : List (Str × Match)) (h : Sorted ops) :
    Sorted (btInsert k m ops) := by
  induction ops with
  | nil => simp [btInsert, Sorted]
  | cons q ops ih =>
    obtain ⟨k', m'⟩ := q
    unfold Sorted at h ⊢
    rw [List.pairwise_cons] at h
    obtain ⟨h1, h2⟩ := h
    simp only [btInsert]
    split
    · rename_i heq
      have : k = k' := by simpa using heq
      subst this
      rw [List.pairwise_cons]; exact ⟨h1, h2⟩
    · split
      · rename_i hlt
        rw [List.pairwise_cons]
        refine ⟨?_, by rw [List.pairwise_cons]; exact ⟨h1, h2⟩⟩
        intro p hp
        rcases List.mem_cons.mp hp with rfl | hp
        · exact hlt
        · exact List.lt_trans hlt (h1 p hp)
      · rename_i hne hnlt
        rw [List.pairwise_cons]
        refine ⟨?_, ih h2⟩
        have hk'k : k' < k := by
          have hne' : k ≠ k' := by simpa using hne
          rcases List.le_iff_lt_or_eq.mp (List.not_lt.mp hnlt) with h | h
          · exact h
          · exact absurd h.symm hne'
        exact btInsert_lower k m ops k' hk'k h1

/-- `compile_into` builds the operand map sorted by operand name, whatever order the rule's `matches`
    hash map is visited in -/
theorem compileOps_sorted : ∀ (l : List (Str × Str)) (deps : List Str) (ops : List (Str × Match))
    (deps' : List Str) (ops' : List (Str × Match)), compileOps x l deps ops = .ok deps' ops' → Sorted ops → Sorted ops' := by
  intro l
  induction l with
  | nil =>
    intro deps ops deps' ops' h hs
    simp only [compileOps, OpsOut.ok.injEq] at h
    obtain ⟨_, rfl⟩ := h; exact hs
  | cons p l ih =>
    intro deps ops deps' ops' h hs
    obtain ⟨operand, s⟩ := p
    unfold compileOps at h
    split at h
    · cases h
    · cases hm : parseMatch x s with
      | panic => rw [hm] at h; cases h
      | err => rw [hm] at h; cases h
      | ok m =>
        rw [hm] at h
        simp only at h
        exact ih _ _ _ _ h (btInsert_sorted operand m ops hs)

end Gene.Props.C10
