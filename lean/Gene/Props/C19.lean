import Gene.Conv
import Gene.Spec.Num
import Gene.Lemmas.WidenAbs
/-! C19 — event values enter the engine without changing value. -/
set_option linter.unusedSimpArgs false
namespace Gene.Props.C19
open Gene M

/-- every signed integer of every width (all are within `i64`) keeps its value, as `Int` iff negative -/
theorem C19_signed (v : Int) (hv : -(2:Int)^63 ≤ v ∧ v < 2^63) :
    (fromSigned v).real = .fin (v * S) ∧ ((∃ w, fromSigned v = .int w) ↔ v < 0) ∧ (fromSigned v).canonical := by
  by_cases h : v < 0
  · have e : fromSigned v = .int v := by simp [fromSigned, h]
    rw [e]
    exact ⟨rfl, ⟨fun _ => h, fun _ => ⟨v, rfl⟩⟩, hv.1, h⟩
  · have e : fromSigned v = .uint v.toNat := by simp [fromSigned, h]
    rw [e]
    refine ⟨?_, ⟨?_, fun hf => absurd hf h⟩, ?_⟩
    · show FVal.fin ((v.toNat : Int) * S) = _
      rw [Int.toNat_of_nonneg (by omega)]
    · rintro ⟨w, hw⟩; cases hw
    · show v.toNat < 2^64
      have : (2:Int)^63 = 9223372036854775808 := by decide
      have h64 : (2:Nat)^64 = 18446744073709551616 := by decide
      rw [h64]; omega

/-- every unsigned integer keeps its value, as `Uint` -/
theorem C19_unsigned (v : Nat) (hv : v < 2^64) :
    (fromUnsigned v).real = .fin ((v : Int) * S) ∧ fromUnsigned v = .uint v ∧ (fromUnsigned v).canonical :=
  ⟨rfl, rfl, hv⟩

/-- an optional maps to its inner value or to `none` -/
theorem C19_option (o : Option FieldValue) :
    (∀ v, o = some v → fromOption o = v) ∧ (o = none → fromOption o = .none) := by
  constructor
  · intro v h; subst h; rfl
  · intro h; subst h; rfl

/-- a scalar answers the empty path only; an absent optional answers `none` for any continuation -/
theorem C19_scalar_getter (v : FieldValue) (rest : List Str) :
    scalarGet v rest = (if rest = [] then some v else none) := by
  unfold scalarGet
  cases rest <;> simp

/-! ### printing then parsing an integer -/
def ofRev : List Nat → Nat
  | [] => 0
  | d :: r => d + 10 * ofRev r

theorem ofRev_toDigitsRev : ∀ f n, n < f → ofRev (toDigitsRev f n) = n := by
  intro f
  induction f with
  | zero => intro n h; omega
  | succ f ih =>
    intro n h
    unfold toDigitsRev
    by_cases hn : n < 10
    · simp [hn, ofRev]
    · simp only [hn, if_false, ofRev]
      rw [ih (n / 10) (by omega)]; omega

theorem foldl_digits (l : List Nat) (acc : Nat) :
    l.foldl (fun a d => a * 10 + d) acc = acc * 10 ^ l.length + ofRev l.reverse := by
  induction l generalizing acc with
  | nil => simp [ofRev]
  | cons d l ih =>
    simp only [List.foldl_cons, List.reverse_cons, List.length_cons]
    rw [ih]
    have : ∀ (r : List Nat) (x : Nat), ofRev (r ++ [x]) = ofRev r + x * 10 ^ r.length := by
      intro r x; induction r with
      | nil => simp [ofRev]
      | cons y r ihr => simp only [List.cons_append, ofRev, ihr, List.length_cons, Nat.pow_succ]; rw [Nat.mul_add]; ac_rfl
    rw [this, List.length_reverse, Nat.pow_succ, Nat.add_mul]; ac_rfl

theorem ofDigits_digits (n : Nat) : ofDigits (digits n) = n := by
  unfold ofDigits digits
  rw [foldl_digits]; simp [ofRev_toDigitsRev (n + 1) n (by omega)]

theorem toDigitsRev_lt10 : ∀ f n d, d ∈ toDigitsRev f n → d < 10 := by
  intro f
  induction f with
  | zero => intro n d h; simp [toDigitsRev] at h
  | succ f ih =>
    intro n d h
    unfold toDigitsRev at h
    by_cases hn : n < 10
    · simp [hn] at h; omega
    · simp only [hn, if_false, List.mem_cons] at h
      rcases h with h | h
      · omega
      · exact ih _ _ h

theorem digits_lt10 (n d : Nat) (h : d ∈ digits n) : d < 10 :=
  toDigitsRev_lt10 _ _ d (by simpa [digits] using h)
theorem digits_ne_nil (n : Nat) : digits n ≠ [] := by
  have : toDigitsRev (n + 1) n ≠ [] := by unfold toDigitsRev; split <;> simp
  simp [digits, this]

theorem dch_spec (d : Nat) (h : d < 10) : isAsciiDigit (dch d) = true ∧ dval (dch d) = d := by
  have : d = 0 ∨ d = 1 ∨ d = 2 ∨ d = 3 ∨ d = 4 ∨ d = 5 ∨ d = 6 ∨ d = 7 ∨ d = 8 ∨ d = 9 := by omega
  rcases this with rfl | rfl | rfl | rfl | rfl | rfl | rfl | rfl | rfl | rfl <;> decide

theorem showNat_all (n : Nat) : ∀ c ∈ showNat n, isAsciiDigit c = true := by
  intro c hc
  obtain ⟨d, hd, rfl⟩ := List.mem_map.mp hc
  exact (dch_spec d (digits_lt10 n d hd)).1

theorem showNat_ne_nil (n : Nat) : showNat n ≠ [] := by simp [showNat, digits_ne_nil]

theorem parseDigits_showNat (max n : Nat) (h : n ≤ max) : parseDigits max (showNat n) = some n := by
  unfold parseDigits
  have hne : (showNat n).isEmpty = false := by
    cases hd : showNat n with
    | nil => exact absurd hd (showNat_ne_nil n)
    | cons _ _ => rfl
  have hall : (showNat n).all isAsciiDigit = true := by
    rw [List.all_eq_true]; exact showNat_all n
  have hval : (showNat n).map dval = digits n := by
    unfold showNat
    rw [List.map_map]
    have : ∀ d ∈ digits n, (dval ∘ dch) d = id d := fun d hd => (dch_spec d (digits_lt10 n d hd)).2
    rw [List.map_congr_left this]; simp
  simp [hne, hall, hval, ofDigits_digits, h]

theorem digit_facts : isAsciiDigit 'x' = false ∧ isAsciiDigit '.' = false ∧ isAsciiDigit '-' = false ∧
    isAsciiDigit '+' = false := by decide

theorem showNat_head (n : Nat) : ∃ a r, showNat n = a :: r ∧ isAsciiDigit a = true := by
  cases h : showNat n with
  | nil => exact absurd h (showNat_ne_nil n)
  | cons a r => exact ⟨a, r, rfl, showNat_all n a (by simp [h])⟩

theorem showNat_not_hex (n : Nat) : startsWith (showNat n) "0x".toList = false := by
  have hall := showNat_all n
  cases h : showNat n with
  | nil => rfl
  | cons a r =>
    cases r with
    | nil => simp [startsWith]
    | cons b r' =>
      have hb : isAsciiDigit b = true := hall b (by simp [h])
      have : b ≠ 'x' := by intro hx; subst hx; simp [digit_facts.1] at hb
      show (a == '0' && (b == 'x' && startsWith r' [])) = false
      have : (b == 'x') = false := by simpa using this
      simp [this]

theorem showNat_no_dot (n : Nat) : (showNat n).contains '.' = false := by
  cases hc : (showNat n).contains '.' with
  | false => rfl
  | true =>
    have : '.' ∈ showNat n := by simpa using hc
    have := showNat_all n '.' this
    simp [digit_facts.2.1] at this

/-- **C19.** Parsing the printed form of any integer `Number` gives back the same number -/
theorem C19_parse_display (fp : Str → Option FVal) (n : Num) (h : n.canonical) (s : Str)
    (hs : displayInt n = some s) : numParse fp s = some n := by
  cases n with
  | float x => simp [displayInt] at hs
  | uint v =>
    simp only [displayInt, Option.some.injEq] at hs; subst hs
    obtain ⟨a, r, har, ha⟩ := showNat_head v
    have hminus : a ≠ '-' := by intro hx; subst hx; simp [digit_facts.2.2.1] at ha
    have hplus : a ≠ '+' := by intro hx; subst hx; simp [digit_facts.2.2.2] at ha
    have hv : v < 2^64 := h
    have hp : parseU64 (showNat v) = some v := by
      have := parseDigits_showNat (2^64 - 1) v (by omega)
      rw [har] at this ⊢
      unfold parseU64
      split
      · rename_i heq; simp at heq; exact absurd heq.1 hplus
      · exact this
    unfold numParse
    have hm : startsWith (showNat v) "-".toList = false := by
      rw [har]; show (a == '-' && startsWith r []) = false
      have : (a == '-') = false := by simpa using hminus
      simp [this]
    simp only [showNat_not_hex, hm, showNat_no_dot, Bool.false_eq_true, if_false, hp, Option.map_some]
  | int v =>
    obtain ⟨h1, h2⟩ := h
    simp only [displayInt, h2, if_true, Option.some.injEq] at hs; subst hs
    have e1 : (2:Int)^63 = 9223372036854775808 := by decide
    have e2 : (2:Nat)^63 = 9223372036854775808 := by decide
    have hp : parseI64 ('-' :: showNat v.natAbs) = some v := by
      have hb : v.natAbs ≤ 2^63 := by rw [e2]; rw [e1] at h1; omega
      have := parseDigits_showNat (2^63) v.natAbs hb
      simp only [parseI64, this, Option.map_some, Option.some.injEq]
      simp only [Int.ofNat_eq_natCast]; omega
    unfold numParse
    have nothex : startsWith ('-' :: showNat v.natAbs) "0x".toList = false := by
      show ('-' == '0' && _) = false; simp
    have isneg : startsWith ('-' :: showNat v.natAbs) "-".toList = true := by
      show ('-' == '-' && startsWith _ []) = true; simp [startsWith]
    have nodot : ('-' :: showNat v.natAbs).contains '.' = false := by
      simp only [List.contains_cons]
      rw [showNat_no_dot]; decide
    simp only [nothex, isneg, nodot, Bool.false_eq_true, if_false, if_true, hp, Option.map_some]
    simp [fromI64, h2]

/-- `0x`-prefixed text is read as hexadecimal -/
theorem C19_hex (fp : Str → Option FVal) (s : Str) :
    numParse fp ('0' :: 'x' :: s) = (parseHexU64 s).map Num.uint := by
  unfold numParse
  have : startsWith ('0' :: 'x' :: s) "0x".toList = true := by
    show ('0' == '0' && ('x' == 'x' && startsWith s [])) = true
    cases s <;> simp [startsWith]
  simp only [this, if_true, List.drop_succ_cons, List.drop_zero]
example (fp : Str → Option FVal) : numParse fp "0xff".toList = some (.uint 255) := by
  rw [show "0xff".toList = '0' :: 'x' :: "ff".toList from rfl, C19_hex]; decide

/-! ### `f32 as f64` is exact -/
/-- every 32-bit float (sign, exponent and fraction fields) widens to the 64-bit float of exactly the same
    value, subnormals included -/
theorem C19_widen (s : Bool) (e m : Nat) (he : e < 256) (hm : m < 2 ^ 23) :
    Widen.val64 s (Widen.widen e m).1 (Widen.widen e m).2 = Widen.val32 s e m ∧
    (Widen.widen e m).1 < 2 ^ 11 ∧ (Widen.widen e m).2 < 2 ^ 52 :=
  ⟨Widen.widen_exact s e m he hm, Widen.widen_fields_ok e m he hm⟩

/-- the executable bit-level function used by the driver is that field-wise widening -/
theorem widenBits_fields (b : Nat) :
    widenBits b = (b / 2^31 % 2) * 2^63 + (Widen.widen (b / 2^23 % 2^8) (b % 2^23)).1 * 2^52 +
      (Widen.widen (b / 2^23 % 2^8) (b % 2^23)).2 := rfl

-- non-vacuity
example (fp : Str → Option FVal) : numParse fp "18446744073709551615".toList = some (.uint 18446744073709551615) := rfl
example : displayInt (.int (-9223372036854775808)) = some "-9223372036854775808".toList := by decide

end Gene.Props.C19
