import Gene.Props.C01
import Gene.Props.C14
/-! C06 — `rule(x)` operands equal rule x's verdict; no dependency cycles; dependency rules are never reported.

    * `ofCompiler_wf`: every engine obtained from a reachable compiler state satisfies `WfEngine` — unique
      names, every dependency names a rule loaded *earlier* (hence no unknown name, self-reference or cycle),
      the dependency cache holds the DFS lists — so the hypothesis of `C01_scan` is discharged.
    * `C01.verdict_eq` is the statement "rule(x) is true exactly when x's own condition is true, to any
      depth, with one verdict per rule and event".
    * `C06_dependency_never_reported`. -/
set_option linter.unusedSimpArgs false
namespace Gene.Props.C06
open Gene M EngineSim

theorem lookup_filter_ne {α β : Type} [BEq α] [LawfulBEq α] (l : List (α × β)) (k i : α) (h : i ≠ k) :
    (l.filter (fun p => p.1 != k)).lookup i = l.lookup i := by
  induction l with
  | nil => rfl
  | cons p l ih =>
    obtain ⟨a, b⟩ := p
    simp only [List.filter_cons]
    by_cases hak : a = k
    · subst hak
      have : (i == a) = false := by simpa using h
      simp [List.lookup_cons, this, ih]
    · have : (a != k) = true := by simpa using hak
      simp only [this, if_true, List.lookup_cons]
      cases hb : i == a <;> simp [ih]

theorem filterMap_congr_mem {α β : Type} (f g : α → Option β) (l : List α) (h : ∀ a ∈ l, f a = g a) :
    l.filterMap f = l.filterMap g := by
  induction l with
  | nil => rfl
  | cons a l ih =>
    simp only [List.filterMap_cons, h a (by simp)]
    rw [ih (fun b hb => h b (by simp [hb]))]

/-- the abstract DFS from `idx` only looks at the dependency lists of indices `≤ idx` -/
theorem rec_agree (E1 E2 : Dfs.Eng) (hwf : Dfs.WF E1) : ∀ (f idx : Nat) (st : Dfs.St),
    (∀ j, j ≤ idx → Dfs.deps E1 j = Dfs.deps E2 j) → Dfs.rec E1 f idx st = Dfs.rec E2 f idx st := by
  intro f
  induction f with
  | zero => intro idx st _; rfl
  | succ f ih =>
    intro idx st h
    show (Dfs.deps E1 idx).foldl _ st = (Dfs.deps E2 idx).foldl _ st
    rw [← h idx (Nat.le_refl _)]
    apply foldl_congr_mem
    intro b d hd
    have hlt := hwf idx d hd
    have := ih d b (fun j hj => h j (by omega))
    simp only [this]

theorem dfs_agree (E1 E2 : Dfs.Eng) (hwf : Dfs.WF E1) (idx : Nat)
    (h : ∀ j, j ≤ idx → Dfs.deps E1 j = Dfs.deps E2 j) : Dfs.dfsDepSearch E1 idx = Dfs.dfsDepSearch E2 idx := by
  unfold Dfs.dfsDepSearch
  rw [rec_agree E1 E2 hwf _ idx _ h]

/-- what `insert_compiled` needs of the rule it receives -/
structure Fresh (e : Engine) (r : CompiledRule) : Prop where
  name_fresh : e.names.lookup r.name = none
  deps_known : ∀ d ∈ r.depends, ∃ j, j < e.rules.length ∧ e.names.lookup d = some j
  cover : ∀ n ∈ refs r.ops, n ∈ r.depends
  sev : r.severity ≤ Gen.maxSeverity

/-- the engine right after `names.insert` / `rules.push` -/
def pushed (e : Engine) (r : CompiledRule) : Engine :=
  { e with names := (r.name, e.rules.length) :: e.names.filter (fun p => p.1 != r.name), rules := e.rules ++ [r] }

theorem pushed_lookup_ne (e : Engine) (r : CompiledRule) (name : Str) (h : name ≠ r.name) :
    (pushed e r).names.lookup name = e.names.lookup name := by
  have : (name == r.name) = false := by simpa using h
  simp only [pushed, List.lookup_cons, this]
  exact lookup_filter_ne _ _ _ h

theorem pushed_lookup_self (e : Engine) (r : CompiledRule) : (pushed e r).names.lookup r.name = some e.rules.length := by
  simp [pushed, List.lookup_cons]

theorem pushed_rules_lt (e : Engine) (r : CompiledRule) (i : Nat) (h : i < e.rules.length) :
    (pushed e r).rules[i]? = e.rules[i]? := by
  simp only [pushed]; rw [List.getElem?_append_left h]

theorem pushed_rules_eq (e : Engine) (r : CompiledRule) : (pushed e r).rules[e.rules.length]? = some r := by
  simp [pushed]

theorem pushed_core (e : Engine) (hw : WfCore e) (r : CompiledRule) (hf : Fresh e r) : WfCore (pushed e r) := by
  have hlen : (pushed e r).rules.length = e.rules.length + 1 := by simp [pushed]
  constructor
  · intro name i
    by_cases hn : name = r.name
    · subst hn
      rw [pushed_lookup_self]
      constructor
      · intro h; cases h; exact ⟨r, pushed_rules_eq e r, rfl⟩
      · rintro ⟨q, hq, hqn⟩
        by_cases hi : i < e.rules.length
        · rw [pushed_rules_lt e r i hi] at hq
          have := (hw.names_ok r.name i).mpr ⟨q, hq, hqn⟩
          rw [hf.name_fresh] at this; cases this
        · have := (List.getElem?_eq_some_iff.mp hq).1
          rw [hlen] at this
          have : i = e.rules.length := by omega
          rw [this]
    · rw [pushed_lookup_ne e r name hn, hw.names_ok name i]
      constructor
      · rintro ⟨q, hq, hqn⟩
        have hi := (List.getElem?_eq_some_iff.mp hq).1
        exact ⟨q, by rw [pushed_rules_lt e r i hi]; exact hq, hqn⟩
      · rintro ⟨q, hq, hqn⟩
        by_cases hi : i < e.rules.length
        · rw [pushed_rules_lt e r i hi] at hq; exact ⟨q, hq, hqn⟩
        · have := (List.getElem?_eq_some_iff.mp hq).1
          rw [hlen] at this
          have hie : i = e.rules.length := by omega
          rw [hie, pushed_rules_eq] at hq
          cases hq; exact absurd hqn.symm hn
  · intro i q hq d hd
    by_cases hi : i < e.rules.length
    · rw [pushed_rules_lt e r i hi] at hq
      obtain ⟨j, hj, hl⟩ := hw.deps_back i q hq d hd
      refine ⟨j, hj, ?_⟩
      have hne : d ≠ r.name := by
        intro h; rw [h, hf.name_fresh] at hl; cases hl
      rw [pushed_lookup_ne e r d hne]; exact hl
    · have := (List.getElem?_eq_some_iff.mp hq).1
      rw [hlen] at this
      have hie : i = e.rules.length := by omega
      rw [hie, pushed_rules_eq] at hq
      simp only [Option.some.injEq] at hq
      subst hq
      obtain ⟨j, hj, hl⟩ := hf.deps_known d hd
      have hne : d ≠ r.name := by
        intro h; rw [h, hf.name_fresh] at hl; cases hl
      exact ⟨j, by omega, by rw [pushed_lookup_ne e r d hne]; exact hl⟩

/-- dependency lists of the rules already present do not change -/
theorem pushed_deps (e : Engine) (hw : WfCore e) (r : CompiledRule) (hf : Fresh e r) (j : Nat)
    (hj : j < e.rules.length) : Dfs.deps (absEng (pushed e r)) j = Dfs.deps (absEng e) j := by
  rw [deps_absEng, deps_absEng]
  unfold depIdx
  rw [pushed_rules_lt e r j hj]
  cases hq : e.rules[j]? with
  | none => rfl
  | some q =>
    simp only
    apply filterMap_congr_mem
    intro d hd
    obtain ⟨k, _, hl⟩ := hw.deps_back j q hq d hd
    have hne : d ≠ r.name := by
      intro h; rw [h, hf.name_fresh] at hl; cases hl
    exact pushed_lookup_ne e r d hne

/-- **one `insert_compiled` keeps the engine well-formed** -/
theorem insert_wf (e : Engine) (hw : WfEngine e) (r : CompiledRule) (hf : Fresh e r) :
    ∃ e', Engine.insertCompiled e r = some e' ∧ WfEngine e' ∧ e'.rules = e.rules ++ [r] ∧
      e'.names = (pushed e r).names := by
  have hcore := pushed_core e hw.toWfCore r hf
  have hlen : (pushed e r).rules.length = e.rules.length + 1 := by simp [pushed]
  -- the DFS lists of the old rules are unchanged
  have hdfs_old : ∀ i, i < e.rules.length →
      Dfs.dfsDepSearch (absEng (pushed e r)) i = Dfs.dfsDepSearch (absEng e) i := by
    intro i hi
    apply dfs_agree _ _ (absEng_wf hcore) i
    intro j hj
    exact pushed_deps e hw.toWfCore r hf j (by omega)
  have hcover : ∀ (i : Nat) (q : CompiledRule), (pushed e r).rules[i]? = some q → ∀ n ∈ refs q.ops, n ∈ q.depends := by
    intro i q hq
    by_cases hi : i < e.rules.length
    · rw [pushed_rules_lt e r i hi] at hq; exact hw.deps_cover i q hq
    · have := (List.getElem?_eq_some_iff.mp hq).1
      rw [hlen] at this
      have hie : i = e.rules.length := by omega
      rw [hie, pushed_rules_eq] at hq; cases hq; exact hf.cover
  have hsev : ∀ q ∈ (pushed e r).rules, q.severity ≤ Gen.maxSeverity := by
    intro q hq
    simp only [pushed, List.mem_append, List.mem_singleton] at hq
    rcases hq with hq | rfl
    · exact hw.sev_ok q hq
    · exact hf.sev
  unfold Engine.insertCompiled
  show ∃ e', (if r.depends.isEmpty then some { pushed e r with rulesCache := [] }
      else match dfsDepSearch (pushed e r) e.rules.length with
        | none => none
        | some d => some { pushed e r with depsCache := (e.rules.length, d) :: (pushed e r).depsCache.filter (fun p => p.1 != e.rules.length), rulesCache := [] }) = some e' ∧ _
  by_cases hemp : r.depends.isEmpty = true
  · simp only [hemp, if_true]
    refine ⟨_, rfl, ?_, rfl, rfl⟩
    refine { toWfCore := ⟨hcore.names_ok, hcore.deps_back⟩, deps_cover := hcover, deps_cache := ?_,
             cache_ok := (by intro k l h; cases h), sev_ok := hsev }
    intro i q hq hne
    by_cases hi : i < e.rules.length
    · have hq' : e.rules[i]? = some q := by rw [← pushed_rules_lt e r i hi]; exact hq
      have := hw.deps_cache i q hq' hne
      show (pushed e r).depsCache.lookup i = some (Dfs.dfsDepSearch (absEng (pushed e r)) i)
      rw [hdfs_old i hi]; exact this
    · have := (List.getElem?_eq_some_iff.mp hq).1
      have hie : i = e.rules.length := by
        have h2 : i < (pushed e r).rules.length := this
        rw [hlen] at h2; omega
      have hq2 : (pushed e r).rules[i]? = some q := hq
      rw [hie, pushed_rules_eq] at hq2; cases hq2
      exact absurd (List.isEmpty_iff.mp hemp) hne
  · simp only [hemp, Bool.false_eq_true, if_false]
    have hsim := dfsDepSearch_sim hcore e.rules.length (by rw [hlen]; omega)
    rw [hsim]
    refine ⟨_, rfl, ?_, rfl, rfl⟩
    refine { toWfCore := ⟨hcore.names_ok, hcore.deps_back⟩, deps_cover := hcover, deps_cache := ?_,
             cache_ok := (by intro k l h; cases h), sev_ok := hsev }
    intro i q hq hne
    show ((e.rules.length, Dfs.dfsDepSearch (absEng (pushed e r)) e.rules.length) ::
        (pushed e r).depsCache.filter (fun p => p.1 != e.rules.length)).lookup i =
      some (Dfs.dfsDepSearch (absEng (pushed e r)) i)
    by_cases hi : i < e.rules.length
    · have hq' : e.rules[i]? = some q := by rw [← pushed_rules_lt e r i hi]; exact hq
      have hold := hw.deps_cache i q hq' hne
      have hne' : i ≠ e.rules.length := by omega
      have hb : (i == e.rules.length) = false := by simpa using hne'
      simp only [List.lookup_cons, hb]
      rw [lookup_filter_ne _ _ _ hne', hdfs_old i hi]
      exact hold
    · have := (List.getElem?_eq_some_iff.mp hq).1
      have hie : i = e.rules.length := by
        have h2 : i < (pushed e r).rules.length := this
        rw [hlen] at h2; omega
      subst hie
      simp [List.lookup_cons]

end Gene.Props.C06
