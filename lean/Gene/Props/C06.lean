import Gene.Props.C01
import Gene.Props.C14
/-! C06 — `rule(x)` operands equal rule x's verdict; no dependency cycles; dependency rules are never reported.

    * `ofCompiler_wf`: every engine obtained from a reachable compiler state satisfies `WfEngine` — unique
      names, every dependency names a rule loaded *earlier* (hence no unknown name, self-reference or cycle),
      the dependency cache holds the DFS lists — so the hypothesis of `C01_scan` is discharged.
    * `C01.verdict_eq` is the statement "rule(x) is true exactly when x's own condition is true, to any
      depth, with one verdict per rule and event".
    * `C06_dependency_never_reported`. -/
set_option linter.unusedSimpArgs false
namespace Gene.Props.C06
open Gene M EngineSim

theorem lookup_filter_ne {α β : Type} [BEq α] [LawfulBEq α] (l : List (α × β)) (k i : α) (h : i ≠ k) :
    (l.filter (fun p => p.1 != k)).lookup i = l.lookup i := by
  induction l with
  | nil => rfl
  | cons p l ih =>
    obtain ⟨a, b⟩ := p
    simp only [List.filter_cons]
    by_cases hak : a = k
    · subst hak
      have : (i == a) = false := by simpa using h
      simp [List.lookup_cons, this, ih]
    · have : (a != k) = true := by simpa using hak
      simp only [this, if_true, List.lookup_cons]
      cases hb : i == a <;> simp [ih]

theorem filterMap_congr_mem {α β : Type} (f g : α → Option β) (l : List α) (h : ∀ a ∈ l, f a = g a) :
    l.filterMap f = l.filterMap g := by
  induction l with
  | nil => rfl
  | cons a l ih =>
    simp only [List.filterMap_cons, h a (by simp)]
    rw [ih (fun b hb => h b (by simp [hb]))]

/-- the abstract DFS from `idx` only looks at the dependency lists of indices `≤ idx` -/
theorem rec_agree (E1 E2 : Dfs.Eng) (hwf : Dfs.WF E1) : ∀ (f idx : Nat) (st : Dfs.St),
    (∀ j, j ≤ idx → Dfs.deps E1 j = Dfs.deps E2 j) → Dfs.rec E1 f idx st = Dfs.rec E2 f idx st := by
  intro f
  induction f with
  | zero => intro idx st _; rfl
  | succ f ih =>
    intro idx st h
    show (Dfs.deps E1 idx).foldl _ st = (Dfs.deps E2 idx).foldl _ st
    rw [← h idx (Nat.le_refl _)]
    apply foldl_congr_mem
    intro b d hd
    have hlt := hwf idx d hd
    have := ih d b (fun j hj => h j (by omega))
    simp only [this]

theorem dfs_agree (E1 E2 : Dfs.Eng) (hwf : Dfs.WF E1) (idx : Nat)
    (h : ∀ j, j ≤ idx → Dfs.deps E1 j = Dfs.deps E2 j) : Dfs.dfsDepSearch E1 idx = Dfs.dfsDepSearch E2 idx := by
  unfold Dfs.dfsDepSearch
  rw [rec_agree E1 E2 hwf _ idx _ h]

/-- what `insert_compiled` needs of the rule it receives -/
structure Fresh (e : Engine) (r : CompiledRule) : Prop where
  name_fresh : e.names.lookup r.name = none
  deps_known : ∀ d ∈ r.depends, ∃ j, j < e.rules.length ∧ e.names.lookup d = some j
  cover : ∀ n ∈ refs r.ops, n ∈ r.depends
  sev : r.severity ≤ Gen.maxSeverity

/-- the engine right after `names.insert` / `rules.push` -/
def pushed (e : Engine) (r : CompiledRule) : Engine :=
  { e with names := (r.name, e.rules.length) :: e.names.filter (fun p => p.1 != r.name), rules := e.rules ++ [r] }

theorem pushed_lookup_ne (e : Engine) (r : CompiledRule) (name : Str) (h : name ≠ r.name) :
    (pushed e r).names.lookup name = e.names.lookup name := by
  have : (name == r.name) = false := by simpa using h
  simp only [pushed, List.lookup_cons, this]
  exact lookup_filter_ne _ _ _ h

theorem pushed_lookup_self (e : Engine) (r : CompiledRule) : (pushed e r).names.lookup r.name = some e.rules.length := by
  simp [pushed, List.lookup_cons]

theorem pushed_rules_lt (e : Engine) (r : CompiledRule) (i : Nat) (h : i < e.rules.length) :
    (pushed e r).rules[i]? = e.rules[i]? := by
  simp only [pushed]; rw [List.getElem?_append_left h]

theorem pushed_rules_eq (e : Engine) (r : CompiledRule) : (pushed e r).rules[e.rules.length]? = some r := by
  simp [pushed]

theorem pushed_core (e : Engine) (hw : WfCore e) (r : CompiledRule) (hf : Fresh e r) : WfCore (pushed e r) := by
  have hlen : (pushed e r).rules.length = e.rules.length + 1 := by simp [pushed]
  constructor
  · intro name i
    by_cases hn : name = r.name
    · subst hn
      rw [pushed_lookup_self]
      constructor
      · intro h; cases h; exact ⟨r, pushed_rules_eq e r, rfl⟩
      · rintro ⟨q, hq, hqn⟩
        by_cases hi : i < e.rules.length
        · rw [pushed_rules_lt e r i hi] at hq
          have := (hw.names_ok r.name i).mpr ⟨q, hq, hqn⟩
          rw [hf.name_fresh] at this; cases this
        · have := (List.getElem?_eq_some_iff.mp hq).1
          rw [hlen] at this
          have : i = e.rules.length := by omega
          rw [this]
    · rw [pushed_lookup_ne e r name hn, hw.names_ok name i]
      constructor
      · rintro ⟨q, hq, hqn⟩
        have hi := (List.getElem?_eq_some_iff.mp hq).1
        exact ⟨q, by rw [pushed_rules_lt e r i hi]; exact hq, hqn⟩
      · rintro ⟨q, hq, hqn⟩
        by_cases hi : i < e.rules.length
        · rw [pushed_rules_lt e r i hi] at hq; exact ⟨q, hq, hqn⟩
        · have := (List.getElem?_eq_some_iff.mp hq).1
          rw [hlen] at this
          have hie : i = e.rules.length := by omega
          rw [hie, pushed_rules_eq] at hq
          cases hq; exact absurd hqn.symm hn
  · intro i q hq d hd
    by_cases hi : i < e.rules.length
    · rw [pushed_rules_lt e r i hi] at hq
      obtain ⟨j, hj, hl⟩ := hw.deps_back i q hq d hd
      refine ⟨j, hj, ?_⟩
      have hne : d ≠ r.name := by
        intro h; rw [h, hf.name_fresh] at hl; cases hl
      rw [pushed_lookup_ne e r d hne]; exact hl
    · have := (List.getElem?_eq_some_iff.mp hq).1
      rw [hlen] at this
      have hie : i = e.rules.length := by omega
      rw [hie, pushed_rules_eq] at hq
      simp only [Option.some.injEq] at hq
      subst hq
      obtain ⟨j, hj, hl⟩ := hf.deps_known d hd
      have hne : d ≠ r.name := by
        intro h; rw [h, hf.name_fresh] at hl; cases hl
      exact ⟨j, by omega, by rw [pushed_lookup_ne e r d hne]; exact hl⟩

/-- dependency lists of the rules already present do not change -/
theorem pushed_deps (e : Engine) (hw : WfCore e) (r : CompiledRule) (hf : Fresh e r) (j : Nat)
    (hj : j < e.rules.length) : Dfs.deps (absEng (pushed e r)) j = Dfs.deps (absEng e) j := by
  rw [deps_absEng, deps_absEng]
  unfold depIdx
  rw [pushed_rules_lt e r j hj]
  cases hq : e.rules[j]? with
  | none => rfl
  | some q =>
    simp only
    apply filterMap_congr_mem
    intro d hd
    obtain ⟨k, _, hl⟩ := hw.deps_back j q hq d hd
    have hne : d ≠ r.name := by
      intro h; rw [h, hf.name_fresh] at hl; cases hl
    exact pushed_lookup_ne e r d hne

/-- **one `insert_compiled` keeps the engine well-formed** -/
theorem insert_wf (e : Engine) (hw : WfEngine e) (r : CompiledRule) (hf : Fresh e r) :
    ∃ e', Engine.insertCompiled e r = some e' ∧ WfEngine e' ∧ e'.rules = e.rules ++ [r] ∧
      e'.names = (pushed e r).names := by
  have hcore := pushed_core e hw.toWfCore r hf
  have hlen : (pushed e r).rules.length = e.rules.length + 1 := by simp [pushed]
  -- the DFS lists of the old rules are unchanged
  have hdfs_old : ∀ i, i < e.rules.length →
      Dfs.dfsDepSearch (absEng (pushed e r)) i = Dfs.dfsDepSearch (absEng e) i := by
    intro i hi
    apply dfs_agree _ _ (absEng_wf hcore) i
    intro j hj
    exact pushed_deps e hw.toWfCore r hf j (by omega)
  have hcover : ∀ (i : Nat) (q : CompiledRule), (pushed e r).rules[i]? = some q → ∀ n ∈ refs q.ops, n ∈ q.depends := by
    intro i q hq
    by_cases hi : i < e.rules.length
    · rw [pushed_rules_lt e r i hi] at hq; exact hw.deps_cover i q hq
    · have := (List.getElem?_eq_some_iff.mp hq).1
      rw [hlen] at this
      have hie : i = e.rules.length := by omega
      rw [hie, pushed_rules_eq] at hq; cases hq; exact hf.cover
  have hsev : ∀ q ∈ (pushed e r).rules, q.severity ≤ Gen.maxSeverity := by
    intro q hq
    simp only [pushed, List.mem_append, List.mem_singleton] at hq
    rcases hq with hq | rfl
    · exact hw.sev_ok q hq
    · exact hf.sev
  unfold Engine.insertCompiled
  show ∃ e', (if r.depends.isEmpty then some { pushed e r with rulesCache := [] }
      else match dfsDepSearch (pushed e r) e.rules.length with
        | none => none
        | some d => some { pushed e r with depsCache := (e.rules.length, d) :: (pushed e r).depsCache.filter (fun p => p.1 != e.rules.length), rulesCache := [] }) = some e' ∧ _
  by_cases hemp : r.depends.isEmpty = true
  · simp only [hemp, if_true]
    refine ⟨_, rfl, ?_, rfl, rfl⟩
    refine { toWfCore := ⟨hcore.names_ok, hcore.deps_back⟩, deps_cover := hcover, deps_cache := ?_,
             cache_ok := (by intro k l h; cases h), sev_ok := hsev }
    intro i q hq hne
    by_cases hi : i < e.rules.length
    · have hq' : e.rules[i]? = some q := by rw [← pushed_rules_lt e r i hi]; exact hq
      have := hw.deps_cache i q hq' hne
      show (pushed e r).depsCache.lookup i = some (Dfs.dfsDepSearch (absEng (pushed e r)) i)
      rw [hdfs_old i hi]; exact this
    · have := (List.getElem?_eq_some_iff.mp hq).1
      have hie : i = e.rules.length := by
        have h2 : i < (pushed e r).rules.length := this
        rw [hlen] at h2; omega
      have hq2 : (pushed e r).rules[i]? = some q := hq
      rw [hie, pushed_rules_eq] at hq2; cases hq2
      exact absurd (List.isEmpty_iff.mp hemp) hne
  · simp only [hemp, Bool.false_eq_true, if_false]
    have hsim := dfsDepSearch_sim hcore e.rules.length (by rw [hlen]; omega)
    rw [hsim]
    refine ⟨_, rfl, ?_, rfl, rfl⟩
    refine { toWfCore := ⟨hcore.names_ok, hcore.deps_back⟩, deps_cover := hcover, deps_cache := ?_,
             cache_ok := (by intro k l h; cases h), sev_ok := hsev }
    intro i q hq hne
    show ((e.rules.length, Dfs.dfsDepSearch (absEng (pushed e r)) e.rules.length) ::
        (pushed e r).depsCache.filter (fun p => p.1 != e.rules.length)).lookup i =
      some (Dfs.dfsDepSearch (absEng (pushed e r)) i)
    by_cases hi : i < e.rules.length
    · have hq' : e.rules[i]? = some q := by rw [← pushed_rules_lt e r i hi]; exact hq
      have hold := hw.deps_cache i q hq' hne
      have hne' : i ≠ e.rules.length := by omega
      have hb : (i == e.rules.length) = false := by simpa using hne'
      simp only [List.lookup_cons, hb]
      rw [lookup_filter_ne _ _ _ hne', hdfs_old i hi]
      exact hold
    · have := (List.getElem?_eq_some_iff.mp hq).1
      have hie : i = e.rules.length := by
        have h2 : i < (pushed e r).rules.length := this
        rw [hlen] at h2; omega
      subst hie
      simp [List.lookup_cons]


/-! ### every engine built from a compiler is well-formed -/
structure GoodList (cs : List CompiledRule) : Prop where
  nodup : (cs.map (·.name)).Nodup
  deps : ∀ (k : Nat) (r : CompiledRule), cs[k]? = some r → ∀ d ∈ r.depends,
    ∃ j, j < k ∧ ∃ q, cs[j]? = some q ∧ q.name = d
  cover : ∀ r ∈ cs, ∀ n ∈ refs r.ops, n ∈ r.depends
  sev : ∀ r ∈ cs, r.severity ≤ Gen.maxSeverity

theorem empty_wf : WfEngine {} := by
  refine { toWfCore := ⟨?_, ?_⟩, deps_cover := ?_, deps_cache := ?_, cache_ok := ?_, sev_ok := ?_ }
  · intro name i; simp
  · intro i r h; simp at h
  · intro i r h; simp at h
  · intro i r h; simp at h
  · intro k l h; cases h
  · intro r h; cases h

theorem nodup_name_inj {cs : List CompiledRule} (h : (cs.map (·.name)).Nodup) {i j : Nat} {a b : CompiledRule}
    (hi : cs[i]? = some a) (hj : cs[j]? = some b) (hn : a.name = b.name) : i = j := by
  have hi' := List.getElem?_eq_some_iff.mp hi
  have hj' := List.getElem?_eq_some_iff.mp hj
  obtain ⟨hil, hie⟩ := hi'
  obtain ⟨hjl, hje⟩ := hj'
  have h1 : (cs.map (·.name))[i]? = some a.name := by simp [hi]
  have h2 : (cs.map (·.name))[j]? = some a.name := by simp [hj, hn]
  exact (List.getElem?_inj (by simpa using hil) h).mp (h1.trans h2.symm)

theorem fold_wf : ∀ (rest : List CompiledRule) (e : Engine) (pre : List CompiledRule), WfEngine e → e.rules = pre →
    GoodList (pre ++ rest) →
    ∃ e', rest.foldl (fun e? r => e?.bind (fun e => Engine.insertCompiled e r)) (some e) = some e' ∧
      WfEngine e' ∧ e'.rules = pre ++ rest := by
  intro rest
  induction rest with
  | nil => intro e pre hw hr _; exact ⟨e, rfl, hw, by simp [hr]⟩
  | cons r rest ih =>
    intro e pre hw hr hg
    have hk : (pre ++ r :: rest)[pre.length]? = some r := by simp
    have hf : Fresh e r := by
      refine ⟨?_, ?_, hg.cover r (by simp), hg.sev r (by simp)⟩
      · cases hl : e.names.lookup r.name with
        | none => rfl
        | some i =>
          exfalso
          obtain ⟨q, hq, hqn⟩ := (hw.names_ok r.name i).mp hl
          rw [hr] at hq
          have hi : i < pre.length := (List.getElem?_eq_some_iff.mp hq).1
          have hq' : (pre ++ r :: rest)[i]? = some q := by rw [List.getElem?_append_left hi]; exact hq
          have := nodup_name_inj hg.nodup hq' hk hqn
          omega
      · intro d hd
        obtain ⟨j, hj, q, hq, hqn⟩ := hg.deps pre.length r hk d hd
        have hq' : e.rules[j]? = some q := by
          rw [hr]; rw [List.getElem?_append_left hj] at hq; exact hq
        exact ⟨j, by rw [hr]; exact hj, (hw.names_ok d j).mpr ⟨q, hq', hqn⟩⟩
    obtain ⟨e1, h1, hw1, hr1, _⟩ := insert_wf e hw r hf
    simp only [List.foldl_cons, Option.bind_some, h1]
    have := ih e1 (pre ++ [r]) hw1 (by rw [hr1, hr]) (by simpa using hg)
    simpa using this

theorem btInsert_mem (k : Str) (m : Match) (ops : List (Str × Match)) (p : Str × Match)
    (h : p ∈ btInsert k m ops) : p = (k, m) ∨ p ∈ ops := by
  induction ops with
  | nil => simp [btInsert] at h; exact Or.inl h
  | cons q ops ih =>
    obtain ⟨k', m'⟩ := q
    simp only [btInsert] at h
    split at h
    · simp only [List.mem_cons] at h
      rcases h with h | h
      · exact Or.inl h
      · exact Or.inr (List.mem_cons_of_mem _ h)
    · split at h
      · simp only [List.mem_cons] at h
        rcases h with h | h | h
        · exact Or.inl h
        · exact Or.inr (by simp [h])
        · exact Or.inr (List.mem_cons_of_mem _ h)
      · simp only [List.mem_cons] at h
        rcases h with h | h
        · exact Or.inr (by simp [h])
        · rcases ih h with h' | h'
          · exact Or.inl h'
          · exact Or.inr (List.mem_cons_of_mem _ h')

theorem mem_refs_iff (ops : List (Str × Match)) (n : Str) : n ∈ refs ops ↔ ∃ k, (k, Match.rule n) ∈ ops := by
  simp only [refs, List.mem_filterMap]
  constructor
  · rintro ⟨⟨k, m⟩, hm, h⟩
    cases m with
    | rule n' => simp only [Option.some.injEq] at h; subst h; exact ⟨k, hm⟩
    | direct _ _ _ => cases h
    | indirect _ _ => cases h
  · rintro ⟨k, hk⟩; exact ⟨(k, .rule n), hk, rfl⟩

theorem compileOps_cover (x : Ext) : ∀ (l : List (Str × Str)) (deps : List Str) (ops : List (Str × Match))
    (deps' : List Str) (ops' : List (Str × Match)), compileOps x l deps ops = .ok deps' ops' →
    (∀ n ∈ refs ops, n ∈ deps) → ∀ n ∈ refs ops', n ∈ deps' := by
  intro l
  induction l with
  | nil =>
    intro deps ops deps' ops' h hc
    simp only [compileOps, OpsOut.ok.injEq] at h
    obtain ⟨rfl, rfl⟩ := h; exact hc
  | cons p l ih =>
    intro deps ops deps' ops' h hc
    obtain ⟨operand, s⟩ := p
    unfold compileOps at h
    split at h
    · cases h
    · cases hm : parseMatch x s with
      | panic => rw [hm] at h; cases h
      | err => rw [hm] at h; cases h
      | ok m =>
        rw [hm] at h
        simp only at h
        apply ih _ _ _ _ h
        intro n hn
        obtain ⟨k, hk⟩ := (mem_refs_iff _ n).mp hn
        rcases btInsert_mem _ _ _ _ hk with heq | hold
        · simp only [Prod.mk.injEq] at heq
          obtain ⟨_, rfl⟩ := heq
          show n ∈ (if deps.contains n then deps else deps ++ [n])
          split
          · rename_i hc'; simpa using hc'
          · simp
        · have := hc n ((mem_refs_iff _ n).mpr ⟨k, hold⟩)
          cases m with
          | rule n' =>
            simp only
            split
            · exact this
            · exact List.mem_append_left _ this
          | direct _ _ _ => exact this
          | indirect _ _ => exact this

theorem compileInto_cover (x : Ext) (r : Rule) (cr : CompiledRule) (h : compileInto x r = .ok cr) :
    (∀ n ∈ refs cr.ops, n ∈ cr.depends) ∧ cr.severity ≤ Gen.maxSeverity := by
  unfold compileInto at h
  simp only at h
  split at h
  · cases h
  · cases h
  · split at h
    · cases h
    · split at h
      · cases h
      · cases h
      · rename_i deps ops hops
        simp only [CompileOut.ok.injEq] at h
        rw [← h]
        refine ⟨compileOps_cover x _ [] [] deps ops hops (by intro n hn; simp [refs] at hn), ?_⟩
        simp only [boundSeverity]; exact Nat.min_le_right _ _

theorem goodFrom_deps : ∀ (l pre : List Comp.Rule), Comp.GoodFrom pre l →
    ∀ (k : Nat) (r : Comp.Rule), l[k]? = some r → ∀ d ∈ r.deps, d ∈ Comp.names (pre ++ l.take k) := by
  intro l
  induction l with
  | nil => intro pre _ k r h; simp at h
  | cons a l ih =>
    intro pre hg k r hk d hd
    obtain ⟨h1, h2⟩ := hg
    cases k with
    | zero =>
      simp only [List.getElem?_cons_zero, Option.some.injEq] at hk
      subst hk
      simp only [Comp.goodAt, Bool.and_eq_true, List.all_eq_true, decide_eq_true_eq] at h1
      simpa using h1.2 d hd
    | succ k =>
      simp only [List.getElem?_cons_succ] at hk
      have := ih (pre ++ [a]) h2 k r hk d hd
      simpa [List.append_assoc] using this

/-- **C06 / C14.** The engine obtained from any reachable compiler state is well-formed: names are unique,
    every `rule(x)` names a rule loaded *before* its dependant (no unknown name, self-reference or cycle), and
    the dependency cache is the DFS of each rule. -/
theorem ofCompiler_wf (x : Ext) (c : Compiler) (hi : C14.RInv x c) (e : Engine) (h : Engine.ofCompiler x c = .ok e) :
    WfEngine e ∧ e.rules = (Compiler.compile x c).1.compiled := by
  have hok := (C14.C14_engine x c e h).1
  obtain ⟨hcomp, hnames⟩ := (C14.C14_compile x c hi).2 hok
  obtain ⟨hi', hrules, _, _, _⟩ := C14.compile_refines x c hi
  generalize hcs : (Compiler.compile x c).1.compiled = cs at hcomp hnames
  -- each compiled rule is the compilation of the rule at the same position
  have hat : ∀ (k : Nat) (cr : CompiledRule), cs[k]? = some cr →
      ∃ r, c.rules[k]? = some r ∧ C14.okOf x r = some cr := by
    intro k cr hk
    have h1 : (cs.map some)[k]? = some (some cr) := by simp [hk]
    rw [hcomp] at h1
    simp only [List.getElem?_map, Option.map_eq_some_iff] at h1
    obtain ⟨r, hr, hro⟩ := h1
    exact ⟨r, hr, hro⟩
  have hg : GoodList cs := by
    refine ⟨?_, ?_, ?_, ?_⟩
    · rw [hnames]
      have := hi.abs.nodup
      simpa [C14.absSt, C14.absNames] using this
    · intro k cr hk d hd
      obtain ⟨r, hr, hro⟩ := hat k cr hk
      -- the abstract compiled list is all the rules, all good
      have hgood := hi'.abs.good
      have hfull : (C14.absSt x (Compiler.compile x c).1).compiled = c.rules.map (C14.absRule x) := by
        have hall := (Comp.ok_iff_all_good (C14.absSt x c) hi.abs).mp
          ((C14.compile_refines x c hi).2.2.2.2.mp hok)
        have := (C14.compile_refines x c hi).2.2.2.1
        rw [this, hall]; rfl
      rw [hfull] at hgood
      have hk' : (c.rules.map (C14.absRule x))[k]? = some (C14.absRule x r) := by simp [hr]
      have hd' : d ∈ (C14.absRule x r).deps := by simp [C14.absRule, hro, hd]
      have := goodFrom_deps _ [] hgood k _ hk' d hd'
      simp only [List.nil_append, ← List.map_take, C14.absNames] at this
      obtain ⟨q, hq, hqn⟩ := List.mem_map.mp this
      obtain ⟨j, hjl, hje⟩ := List.getElem_of_mem hq
      simp only [List.length_take] at hjl
      have hjr : c.rules[j]? = some q := by
        rw [List.getElem_take] at hje
        simp [← hje]
      -- the compiled rule at position j carries that name
      have hlen : cs.length = c.rules.length := by
        have := congrArg List.length hcomp; simpa using this
      have hjc : j < cs.length := by omega
      refine ⟨j, by omega, cs[j], by simp [hjc], ?_⟩
      have : (cs.map (·.name))[j]? = (c.rules.map (·.name))[j]? := by rw [hnames]
      simp only [List.getElem?_map, hjr, Option.map_some] at this
      have hcj : cs[j]? = some cs[j] := by simp [hjc]
      rw [hcj] at this
      simp only [Option.map_some, Option.some.injEq] at this
      rw [this, hqn]
    · intro cr hcr n hn
      obtain ⟨k, hkl, hke⟩ := List.getElem_of_mem hcr
      obtain ⟨r, _, hro⟩ := hat k cr (by simp [hkl, hke])
      have hci : compileInto x r = .ok cr := by
        unfold C14.okOf at hro
        split at hro
        · rename_i cr' hc'; simp only [Option.some.injEq] at hro; subst hro; exact hc'
        · cases hro
      exact (compileInto_cover x r cr hci).1 n hn
    · intro cr hcr
      obtain ⟨k, hkl, hke⟩ := List.getElem_of_mem hcr
      obtain ⟨r, _, hro⟩ := hat k cr (by simp [hkl, hke])
      have hci : compileInto x r = .ok cr := by
        unfold C14.okOf at hro
        split at hro
        · rename_i cr' hc'; simp only [Option.some.injEq] at hro; subst hro; exact hc'
        · cases hro
      exact (compileInto_cover x r cr hci).2
  -- the fold of `insert_compiled`
  unfold Engine.ofCompiler at h
  split at h
  · cases h
  · rename_i c' hc
    have hc'cs : c'.compiled = cs := by
      have : (Compiler.compile x c).1 = c' := by rw [hc]
      rw [← this]; exact hcs
    split at h
    · rename_i e1 hf
      simp only [Except.ok.injEq] at h; subst h
      rw [hc'cs] at hf
      obtain ⟨e', hfold, hw', hr'⟩ := fold_wf cs {} [] empty_wf rfl (by simpa using hg)
      rw [hfold] at hf
      simp only [Option.some.injEq] at hf
      subst hf
      exact ⟨hw', by simpa using hr'⟩
    · cases h

/-- **C06.** A rule of type dependency is never a candidate, hence never contributes to a scan result -/
theorem C06_dependency_never_reported (e : Engine) (hw : WfEngine e) (src : Str) (id : Int) (i : Nat)
    (r : CompiledRule) (hr : e.rules[i]? = some r) (hd : r.rtype = .dependency) : i ∉ candidates e src id := by
  intro h
  obtain ⟨q, hq, hty, _⟩ := (C01.mem_candidates e hw src id i).mp h
  rw [hr] at hq; cases hq
  simp [CompiledRule.isFilter, CompiledRule.isDetection, hd] at hty

end Gene.Props.C06
