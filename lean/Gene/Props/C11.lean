import Gene.Props.C10
import Gene.Props.C17
import Gene.Props.C05
/-! C11 — same rules and same event always give the same outcome.

    The model is a pure function of (templates, rule documents, event): clones, instances, threads and
    processes cannot differ in it. What can differ in the implementation is the iteration order of hash
    maps and sets. For every place where the code iterates one (the audited iteration-site inventory),
    the observable result is shown invariant under permutation of the iterated collection:
      * operands (`matches`): the compiled operand map is the same sorted list (`compileOps_perm`), so
        quantifiers visit operands in name order (C10);
      * templates: `C17_order_independent`;
      * match-on maps: `C05_admits` is stated on any association list with unique keys — admission is
        lookup-based;
      * `depends`: `C01_scan` holds for whatever order `depends` lists the names in (the DFS list differs,
        the verdicts, the result and the error status do not);
      * `ScanResult` unions: `C07_order_free`. -/
set_option linter.unusedSimpArgs false
namespace Gene.Props.C11
open Gene M

def keyLt (a b : Str × Match) : Prop := a.1 < b.1

/-- two strictly key-sorted lists with the same elements are equal -/
theorem sorted_ext : ∀ (a b : List (Str × Match)), a.Pairwise keyLt → b.Pairwise keyLt →
    (∀ p, p ∈ a ↔ p ∈ b) → a = b := by
  intro a
  induction a with
  | nil =>
    intro b _ _ h
    cases b with
    | nil => rfl
    | cons q b => exact absurd ((h q).mpr (by simp)) (by simp)
  | cons p a ih =>
    intro b ha hb h
    cases b with
    | nil => exact absurd ((h p).mp (by simp)) (by simp)
    | cons q b =>
      rw [List.pairwise_cons] at ha hb
      have irr : ∀ s : Str, ¬ s < s := fun s => List.lt_irrefl s
      have asym : ∀ s t : Str, s < t → ¬ t < s := fun s t h1 h2 => irr s (List.lt_trans h1 h2)
      have hpq : p = q := by
        have hp : p ∈ q :: b := (h p).mp (by simp)
        have hq : q ∈ p :: a := (h q).mpr (by simp)
        rcases List.mem_cons.mp hp with rfl | hpb
        · rfl
        · rcases List.mem_cons.mp hq with rfl | hqa
          · rfl
          · exact absurd (hb.1 p hpb) (asym _ _ (ha.1 q hqa))
      subst hpq
      congr 1
      apply ih b ha.2 hb.2
      intro r
      constructor
      · intro hr
        have : r ∈ p :: b := (h r).mp (by simp [hr])
        rcases List.mem_cons.mp this with rfl | h'
        · exact absurd (ha.1 r hr) (irr _)
        · exact h'
      · intro hr
        have : r ∈ p :: a := (h r).mpr (by simp [hr])
        rcases List.mem_cons.mp this with rfl | h'
        · exact absurd (hb.1 r hr) (irr _)
        · exact h'

/-- elements of a `BTreeMap` after an insert, when the key is new -/
theorem btInsert_mem_iff (k : Str) (m : Match) (ops : List (Str × Match)) (hk : ∀ p ∈ ops, p.1 ≠ k) (q : Str × Match) :
    q ∈ btInsert k m ops ↔ q = (k, m) ∨ q ∈ ops := by
  induction ops with
  | nil => simp [btInsert]
  | cons p ops ih =>
    obtain ⟨k', m'⟩ := p
    have hne : (k == k') = false := by
      have := hk (k', m') (by simp)
      cases hb : k == k' with
      | false => rfl
      | true => exact absurd (by simpa using hb : k = k').symm this
    simp only [btInsert, hne, Bool.false_eq_true, if_false]
    split
    · simp
    · simp only [List.mem_cons]
      rw [ih (fun p hp => hk p (by simp [hp]))]
      constructor
      · rintro (h | h | h)
        · exact Or.inr (Or.inl h)
        · exact Or.inl h
        · exact Or.inr (Or.inr h)
      · rintro (h | h | h)
        · exact Or.inr (Or.inl h)
        · exact Or.inl h
        · exact Or.inr (Or.inr h)

/-- what a successful operand loop produces: every operand compiled, keyed by its name -/
theorem compileOps_elems (x : Ext) : ∀ (l : List (Str × Str)) (deps : List Str) (ops : List (Str × Match))
    (deps' : List Str) (ops' : List (Str × Match)),
    (l.map Prod.fst).Nodup → (∀ p ∈ ops, p.1 ∉ l.map Prod.fst) →
    compileOps x l deps ops = .ok deps' ops' →
    (∀ q, q ∈ ops' ↔ q ∈ ops ∨ ∃ s, (q.1, s) ∈ l ∧ parseMatch x s = .ok q.2) ∧
    (∀ n, n ∈ deps' ↔ n ∈ deps ∨ ∃ k s, (k, s) ∈ l ∧ parseMatch x s = .ok (.rule n)) := by
  intro l
  induction l with
  | nil =>
    intro deps ops deps' ops' _ _ h
    simp only [compileOps, OpsOut.ok.injEq] at h
    obtain ⟨rfl, rfl⟩ := h
    simp
  | cons p l ih =>
    intro deps ops deps' ops' hnd hfresh h
    obtain ⟨operand, s⟩ := p
    simp only [List.map_cons, List.nodup_cons] at hnd
    unfold compileOps at h
    split at h
    · cases h
    · cases hm : parseMatch x s with
      | panic => rw [hm] at h; cases h
      | err => rw [hm] at h; cases h
      | ok m =>
        rw [hm] at h
        simp only at h
        have hk : ∀ p ∈ ops, p.1 ≠ operand := by
          intro p hp heq
          exact hfresh p hp (by simp [heq])
        have hfresh' : ∀ p ∈ btInsert operand m ops, p.1 ∉ l.map Prod.fst := by
          intro p hp
          rcases (btInsert_mem_iff operand m ops hk p).mp hp with rfl | hp'
          · exact hnd.1
          · intro hmem; exact hfresh p hp' (by simp [hmem])
        obtain ⟨h1, h2⟩ := ih _ _ _ _ hnd.2 hfresh' h
        constructor
        · intro q
          rw [h1 q, btInsert_mem_iff operand m ops hk q]
          constructor
          · rintro ((rfl | hq) | ⟨s', hs', hp'⟩)
            · exact Or.inr ⟨s, by simp, hm⟩
            · exact Or.inl hq
            · exact Or.inr ⟨s', by simp [hs'], hp'⟩
          · rintro (hq | ⟨s', hs', hp'⟩)
            · exact Or.inl (Or.inr hq)
            · simp only [List.mem_cons, Prod.mk.injEq] at hs'
              rcases hs' with ⟨hq1, rfl⟩ | hs'
              · left; left
                rw [hm] at hp'
                simp only [MatchParse.ok.injEq] at hp'
                cases q; simp_all
              · exact Or.inr ⟨s', hs', hp'⟩
        · intro n
          rw [h2 n]
          constructor
          · rintro (hn | ⟨k, s', hs', hp'⟩)
            · cases m with
              | rule n' =>
                simp only at hn
                split at hn
                · exact Or.inl hn
                · rcases List.mem_append.mp hn with hn | hn
                  · exact Or.inl hn
                  · simp only [List.mem_singleton] at hn; subst hn
                    exact Or.inr ⟨operand, s, by simp, hm⟩
              | direct _ _ _ => exact Or.inl hn
              | indirect _ _ => exact Or.inl hn
            · exact Or.inr ⟨k, s', by simp [hs'], hp'⟩
          · rintro (hn | ⟨k, s', hs', hp'⟩)
            · left
              cases m with
              | rule n' =>
                simp only
                split
                · exact hn
                · exact List.mem_append_left _ hn
              | direct _ _ _ => exact hn
              | indirect _ _ => exact hn
            · simp only [List.mem_cons, Prod.mk.injEq] at hs'
              rcases hs' with ⟨rfl, rfl⟩ | hs'
              · left
                rw [hm] at hp'
                simp only [MatchParse.ok.injEq] at hp'
                subst hp'
                simp only
                split
                · rename_i hc; simpa using hc
                · simp
              · exact Or.inr ⟨k, s', hs', hp'⟩

/-- success does not depend on the order either -/
theorem compileOps_ok_iff (x : Ext) : ∀ (l : List (Str × Str)) (deps : List Str) (ops : List (Str × Match)),
    (∃ d o, compileOps x l deps ops = .ok d o) ↔
      ∀ p ∈ l, startsWith p.1 ['$'] = true ∧ ∃ m, parseMatch x p.2 = .ok m := by
  intro l
  induction l with
  | nil => intro deps ops; simp [compileOps]
  | cons p l ih =>
    intro deps ops
    obtain ⟨operand, s⟩ := p
    unfold compileOps
    by_cases hd : startsWith operand ['$'] = true
    · simp only [hd, Bool.not_true, Bool.false_eq_true, if_false]
      cases hm : parseMatch x s with
      | panic => simp [hm]
      | err => simp [hm]
      | ok m =>
        simp only
        rw [ih]
        constructor
        · intro h q hq
          rcases List.mem_cons.mp hq with rfl | hq'
          · exact ⟨hd, m, hm⟩
          · exact h q hq'
        · intro h q hq; exact h q (by simp [hq])
    · have hdf : startsWith operand ['$'] = false := by simpa using hd
      simp only [hdf, Bool.not_false, if_true]
      constructor
      · rintro ⟨d, o, h⟩; cases h
      · intro h; have := (h (operand, s) (by simp)).1; rw [hdf] at this; cases this

/-- **the compiled operands do not depend on the iteration order of the rule's `matches` map** -/
theorem compileOps_perm (x : Ext) (l l' : List (Str × Str)) (hp : l.Perm l') (hnd : (l.map Prod.fst).Nodup)
    (d d' : List Str) (o o' : List (Str × Match))
    (h : compileOps x l [] [] = .ok d o) (h' : compileOps x l' [] [] = .ok d' o') :
    o = o' ∧ ∀ n, n ∈ d ↔ n ∈ d' := by
  have hnd' : (l'.map Prod.fst).Nodup := (hp.map Prod.fst).nodup_iff.mp hnd
  obtain ⟨e1, e2⟩ := compileOps_elems x l [] [] d o hnd (by intro p hp; cases hp) h
  obtain ⟨e1', e2'⟩ := compileOps_elems x l' [] [] d' o' hnd' (by intro p hp; cases hp) h'
  have s1 := C10.compileOps_sorted x l [] [] d o h (by simp [C10.Sorted])
  have s2 := C10.compileOps_sorted x l' [] [] d' o' h' (by simp [C10.Sorted])
  constructor
  · apply sorted_ext o o' s1 s2
    intro q
    rw [e1 q, e1' q]
    simp only [List.not_mem_nil, false_or]
    exact ⟨fun ⟨s, hs, hm⟩ => ⟨s, hp.mem_iff.mp hs, hm⟩, fun ⟨s, hs, hm⟩ => ⟨s, hp.mem_iff.mpr hs, hm⟩⟩
  · intro n
    rw [e2 n, e2' n]
    simp only [List.not_mem_nil, false_or]
    exact ⟨fun ⟨k, s, hs, hm⟩ => ⟨k, s, hp.mem_iff.mp hs, hm⟩, fun ⟨k, s, hs, hm⟩ => ⟨k, s, hp.mem_iff.mpr hs, hm⟩⟩

/-- whether the operands compile at all does not depend on the order -/
theorem compileOps_ok_perm (x : Ext) (l l' : List (Str × Str)) (hp : l.Perm l') :
    (∃ d o, compileOps x l [] [] = .ok d o) ↔ (∃ d o, compileOps x l' [] [] = .ok d o) := by
  rw [compileOps_ok_iff, compileOps_ok_iff]
  exact ⟨fun h p hp' => h p (hp.mem_iff.mpr hp'), fun h p hp' => h p (hp.mem_iff.mp hp')⟩

/-- templates: `Templates::replace` on any permutation of the template map -/
theorem templates_order_free (tpls tpls' : Tpls) (hp : tpls.Perm tpls') (hnd : (tpls.map (·.1)).Nodup) (r : Rule) :
    applyTemplates tpls r = applyTemplates tpls' r := by
  unfold applyTemplates
  congr 1
  cases r.mats with
  | none => rfl
  | some ms =>
    simp only [Option.map_some]
    congr 1
    apply List.map_congr_left
    intro p _
    rw [C17.C17_order_independent tpls tpls' hp hnd]

theorem perm_lookup {β : Type} {l l' : List (Str × β)} (hp : l.Perm l') (hnd : (l.map Prod.fst).Nodup) (k : Str) :
    l.lookup k = l'.lookup k := by
  induction hp with
  | nil => rfl
  | cons x _ ih =>
    obtain ⟨a, b⟩ := x
    simp only [List.map_cons, List.nodup_cons] at hnd
    simp only [List.lookup_cons]
    cases k == a <;> simp [ih hnd.2]
  | swap x y l =>
    obtain ⟨a, b⟩ := x
    obtain ⟨c, d⟩ := y
    simp only [List.map_cons, List.nodup_cons, List.mem_cons, not_or] at hnd
    have hne : c ≠ a := hnd.1.1
    simp only [List.lookup_cons]
    cases h1 : k == c <;> cases h2 : k == a <;> simp
    have e1 : k = c := by simpa using h1
    have e2 : k = a := by simpa using h2
    exact absurd (e1.symm.trans e2) hne
  | trans h1 _ ih1 ih2 =>
    rw [ih1 hnd, ih2 ((h1.map Prod.fst).nodup_iff.mp hnd)]

/-- match-on: admission only looks keys up, so any two association lists with the same unique-key
    entries admit the same events -/
theorem matchOn_order_free (m m' : MatchOnMap) (hp : m.Perm m') (hnd : (m.map Prod.fst).Nodup) (src : Str) (id : Int)
    (hid : inI64 id = true) : M.admits (some m) src id = M.admits (some m') src id := by
  have hnd' : (m'.map Prod.fst).Nodup := (hp.map Prod.fst).nodup_iff.mp hnd
  rw [C05.C05_admits (some m) src id (fun x hx => by cases hx; exact hnd) hid,
      C05.C05_admits (some m') src id (fun x hx => by cases hx; exact hnd') hid]
  -- the statement itself is lookup-based
  unfold S.admits
  have hl : m.lookup src = m'.lookup src := perm_lookup hp hnd src
  cases m with
  | nil =>
    have : m' = [] := List.Perm.eq_nil (hp.symm)
    subst this; rfl
  | cons a as =>
    cases m' with
    | nil => exact absurd (List.Perm.eq_nil hp) (by simp)
    | cons b bs => simp only [hl]

end Gene.Props.C11
