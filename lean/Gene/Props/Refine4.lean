import Gene.Props.Refine3
/-! Refinement, part 4: candidates, the result, the error status. -/
set_option linter.unusedSimpArgs false
namespace Gene.Props.Refine
open Gene M EngineSim
open Gene.Props.C03 (resOf IsValueTok EventWf)
open Gene.Props.C01 (verdict verdict_eq candidates_lt mem_candidates isCand)
open Gene.Props.C13 (T T_inv TSorted keyLt_irrefl candidates_eq)

/-! ### lists and their index lists -/
theorem filter_range {α : Type} (p : α → Bool) : ∀ (l : List α),
    l.filter p = ((List.range l.length).filter (fun j => (l[j]?).any p)).filterMap (fun j => l[j]?)
  | [] => rfl
  | a :: t => by
    have ih := filter_range p t
    rw [List.length_cons, List.range_succ_eq_map, List.filter_cons]
    have hq0 : ((a :: t)[0]?).any p = p a := rfl
    have htail : (((List.range t.length).map Nat.succ).filter (fun j => ((a :: t)[j]?).any p)).filterMap (fun j => (a :: t)[j]?) =
        t.filter p := by
      rw [List.filter_map, List.filterMap_map, ih]
      rfl
    by_cases hp : p a = true
    · simp only [hq0, hp, if_true, List.filter_cons, List.filterMap_cons]
      show _ = a :: _
      rw [htail]
    · simp only [hq0, hp, Bool.false_eq_true, if_false, List.filter_cons]
      rw [htail]

section cand
variable {e : Engine} (hw : WfEngine e) (src : Str) (id : Int)
include hw

theorem candidates_nodup : (candidates e src id).Nodup := by
  rw [candidates_eq]
  unfold List.Nodup
  rw [List.pairwise_reverse]
  obtain ⟨hinv, hs⟩ := T_inv src id hw e.rules.length (Nat.le_refl _)
  have hs' : (T e src id).Pairwise (fun p q => keyLt p.1 q.1 = true) := hs
  -- entries with the same index carry the same key
  have : (T e src id).Pairwise (fun p q => q.2 ≠ p.2) := by
    refine List.Pairwise.imp_of_mem ?_ hs'
    intro p q hp hq hlt heq
    obtain ⟨r, hr, hk, _⟩ := hinv p hp
    obtain ⟨r', hr', hk', _⟩ := hinv q hq
    rw [heq, hr] at hr'; cases hr'
    rw [hk, hk'] at hlt
    exact keyLt_irrefl _ hlt
  exact List.pairwise_map.mpr this

end cand


theorem Rel2.imp {α β : Type} {R R' : α → β → Prop} (h : ∀ a b, R a b → R' a b) :
    ∀ {l : List α} {l' : List β}, Rel2 R l l' → Rel2 R' l l'
  | _, _, .nil => .nil
  | _, _, .cons hab t => .cons (h _ _ hab) (Rel2.imp h t)

/-- restricting two related lists to the same (valid) indices keeps them related -/
theorem Rel2.select {α β : Type} {R : α → β → Prop} {l : List α} {l' : List β} (h : Rel2 R l l') :
    ∀ (J : List Nat), (∀ j ∈ J, j < l.length) → Rel2 R (J.filterMap (fun j => l[j]?)) (J.filterMap (fun j => l'[j]?))
  | [], _ => .nil
  | j :: J, hJ => by
    have hj : j < l.length := hJ j (by simp)
    have hj' : j < l'.length := by rw [← Rel2.length_eq h]; exact hj
    have h1 : l[j]? = some l[j] := by simp [hj]
    have h2 : l'[j]? = some l'[j] := by simp [hj']
    simp only [List.filterMap_cons, h1, h2]
    exact .cons (Rel2.get h j _ _ h1 h2) (Rel2.select h J (fun k hk => hJ k (by simp [hk])))

/-- equality of results up to the order inside the sets -/
def SrEq : Option ScanResult → Option ScanResult → Prop
  | none, none => True
  | some a, some b => a.severity = b.severity ∧ a.filtered = b.filtered ∧ (∀ n, n ∈ a.rules ↔ n ∈ b.rules) ∧
      (∀ t, t ∈ a.tags ↔ t ∈ b.tags) ∧ (∀ t, t ∈ a.attack ↔ t ∈ b.attack) ∧ (∀ t, t ∈ a.actions ↔ t ∈ b.actions)
  | _, _ => False

def candS (ev : Event) (r : S.SRule) : Bool :=
  (r.rtype == .detection || r.rtype == .filter) && S.admits r.matchOn ev.source ev.id

/-- aggregation of related lists of matching candidates -/
theorem aggregate_rel (x : Ext) (ev : Event) : ∀ {ms : List S.SRule} {cs : List CompiledRule},
    Rel2 (RuleRelFull x ev) ms cs → (∀ r ∈ ms, candS ev r = true) →
    ((C07.dets cs).map (·.severity)).sum = ((ms.filter (fun r => r.rtype == .detection)).map (fun r => S.cap r.severity)).sum ∧
    (∀ n, (∃ r ∈ C07.dets cs, r.name = n) ↔ n ∈ (ms.filter (fun r => r.rtype == .detection)).map (·.name)) ∧
    (∀ t, (∃ r ∈ C07.dets cs, t ∈ r.tags) ↔ t ∈ (ms.filter (fun r => r.rtype == .detection)).flatMap (·.tags)) ∧
    (∀ t, (∃ r ∈ C07.dets cs, t ∈ r.attack) ↔
      t ∈ (ms.filter (fun r => r.rtype == .detection)).flatMap (fun r => r.attack.map asciiUpper)) ∧
    (∀ t, (∃ r ∈ cs, t ∈ r.actions) ↔ t ∈ ms.flatMap (·.actions)) ∧
    ((∃ r ∈ cs, CompiledRule.isFilter r = true) ↔ ms.any (fun r => r.rtype == .filter) = true)
  | _, _, .nil, _ => by simp [C07.dets]
  | _, _, .cons (a := sr) (b := cr) hab t, hc => by
    obtain ⟨i1, i2, i3, i4, i5, i6⟩ := aggregate_rel x ev t (fun r hr => hc r (by simp [hr]))
    have hcand := hc sr (by simp)
    simp only [candS, Bool.and_eq_true, Bool.or_eq_true, beq_iff_eq] at hcand
    have hty : cr.rtype = sr.rtype := hab.rtype
    -- a candidate is a detection exactly when it is not a filter
    have hdet : C07.isDet cr = (sr.rtype == .detection) := by
      simp only [C07.isDet, CompiledRule.isFilter, hty]
      rcases hcand.1 with h | h <;> simp [h]
    have hfil : CompiledRule.isFilter cr = (sr.rtype == .filter) := by
      simp only [CompiledRule.isFilter, hty]
    cases hd : (sr.rtype == .detection) with
    | true =>
      have hd' : C07.isDet cr = true := by rw [hdet, hd]
      simp only [C07.dets, List.filter_cons, hd', hd, if_true, List.map_cons, List.sum_cons, List.flatMap_cons,
        List.mem_cons, List.mem_append, List.any_cons, Bool.or_eq_true, exists_eq_or_imp] at i1 i2 i3 i4 i5 i6 ⊢
      refine ⟨by rw [hab.severity, ← i1], ?_, ?_, ?_, ?_, ?_⟩
      · intro n; rw [← i2 n, hab.name]
        constructor
        · rintro (h | h)
          · exact Or.inl h.symm
          · exact Or.inr h
        · rintro (h | h)
          · exact Or.inl h.symm
          · exact Or.inr h
      · intro t'; rw [← i3 t', hab.tags t']
      · intro t'; rw [← i4 t', hab.attack t']
      · intro t'; rw [← i5 t', hab.actions t']
      · rw [← i6, hfil]
    | false =>
      have hd' : C07.isDet cr = false := by rw [hdet, hd]
      simp only [C07.dets, List.filter_cons, hd', hd, Bool.false_eq_true, if_false, List.flatMap_cons,
        List.mem_cons, List.mem_append, List.any_cons, Bool.or_eq_true, exists_eq_or_imp] at i1 i2 i3 i4 i5 i6 ⊢
      refine ⟨i1, i2, i3, i4, ?_, ?_⟩
      · intro t'; rw [← i5 t', hab.actions t']
      · rw [← i6, hfil]


section scan
variable (x : Ext) (ev : Event) (hev : EventWf ev) (rules : List S.SRule) (e : Engine) (hw : WfEngine e)
  (hrel : Rel2 (RuleRelFull x ev) rules e.rules)

def okS (r : S.SRule) : Bool := (S.verdicts x ev rules).lookup r.name == Option.some (S.Res.ok true)

/-- matched candidates of the model, as indices (scan order) -/
def JM : List Nat := (candidates e ev.source ev.id).filter (fun i => verdict x ev e i == .ok true)
/-- matched candidates of the specification, as indices (load order) -/
def JS : List Nat := (List.range rules.length).filter (fun j => (rules[j]?).any (fun r => candS ev r && okS x ev rules r))

include hw hrel in
theorem cand_idx (j : Nat) (sr : S.SRule) (cr : CompiledRule) (hs : rules[j]? = some sr) (hc : e.rules[j]? = some cr) :
    j ∈ candidates e ev.source ev.id ↔ candS ev sr = true := by
  have hr := Rel2.get hrel j sr cr hs hc
  rw [mem_candidates e hw]
  simp only [isCand, candS, hc, Option.some.injEq, exists_eq_left', CompiledRule.isFilter, CompiledRule.isDetection,
    hr.rtype, hr.admits, Bool.and_eq_true, Bool.or_eq_true, beq_iff_eq]
  constructor
  · rintro ⟨h1, h2⟩; exact ⟨h1.symm, h2⟩
  · rintro ⟨h1, h2⟩; exact ⟨h1.symm, h2⟩

include hev hw hrel in
theorem ok_idx (j : Nat) (sr : S.SRule) (cr : CompiledRule) (hs : rules[j]? = some sr) (hc : e.rules[j]? = some cr) :
    (verdict x ev e j == .ok true) = okS x ev rules sr := by
  have hr := Rel2.get hrel j sr cr hs hc
  have hv := verdicts_spec x ev hev rules e hw (Rel2.imp (fun _ _ h => h.toRuleRel) hrel) j cr hc
  simp only [okS, hr.name, hv]
  cases verdict x ev e j with
  | ok b => cases b <;> rfl
  | err => rfl

include hev hw hrel in
theorem mem_JM_iff (j : Nat) : j ∈ JM x ev e ↔ j ∈ JS x ev rules := by
  have hlen := Rel2.length_eq hrel
  simp only [JM, JS, List.mem_filter, List.mem_range]
  constructor
  · rintro ⟨h1, h2⟩
    have hj := candidates_lt e hw _ _ j h1
    have hc : e.rules[j]? = some e.rules[j] := by simp [hj]
    have hs : rules[j]? = some rules[j] := by simp
    refine ⟨by omega, ?_⟩
    rw [hs]
    simp only [Option.any_some, Bool.and_eq_true]
    exact ⟨(cand_idx x ev rules e hw hrel j _ _ hs hc).mp h1, by rw [← ok_idx x ev hev rules e hw hrel j _ _ hs hc]; exact h2⟩
  · rintro ⟨h1, h2⟩
    have hc : e.rules[j]? = some e.rules[j] := by simp
    have hs : rules[j]? = some rules[j] := by simp [h1]
    rw [hs] at h2
    simp only [Option.any_some, Bool.and_eq_true] at h2
    exact ⟨(cand_idx x ev rules e hw hrel j _ _ hs hc).mpr h2.1, by rw [ok_idx x ev hev rules e hw hrel j _ _ hs hc]; exact h2.2⟩

include hev hw hrel in
theorem JM_perm_JS : (JM x ev e).Perm (JS x ev rules) :=
  (List.perm_ext_iff_of_nodup ((candidates_nodup hw _ _).filter _) ((List.nodup_range).filter _)).mpr
    (mem_JM_iff x ev hev rules e hw hrel)

/-- the matched candidates of `S.scan` -/
theorem scan_matched : (S.scan x ev rules).result =
    S.aggregate ((JS x ev rules).filterMap (fun j => rules[j]?)) := by
  have : ((rules.filter (fun r => (r.rtype == RType.detection || r.rtype == RType.filter) && S.admits r.matchOn ev.source ev.id)).filter
      (fun r => (S.verdicts x ev rules).lookup r.name == Option.some (S.Res.ok true))) =
      (JS x ev rules).filterMap (fun j => rules[j]?) := by
    rw [List.filter_filter, JS, ← filter_range]
    apply List.filter_congr
    intro r _
    simp only [candS, okS, Bool.and_comm]
  simp only [S.scan]
  rw [this]

include hev hw hrel in
/-- **the result**: what the scan reports is the specification's aggregate, field by field -/
theorem result_refines :
    SrEq (srFold ((JM x ev e).filterMap (fun i => e.rules[i]?))) (S.scan x ev rules).result := by
  rw [scan_matched]
  have hperm := JM_perm_JS x ev hev rules e hw hrel
  have hlen := Rel2.length_eq hrel
  -- M: scan order; M': load order; MS: the specification's list
  generalize hM : (JM x ev e).filterMap (fun i => e.rules[i]?) = M
  generalize hM' : (JS x ev rules).filterMap (fun i => e.rules[i]?) = M'
  generalize hMS : (JS x ev rules).filterMap (fun j => rules[j]?) = MS
  have hpM : M.Perm M' := by rw [← hM, ← hM']; exact hperm.filterMap _
  have hJS : ∀ j ∈ JS x ev rules, j < rules.length := by
    intro j hj; exact List.mem_range.mp (List.mem_filter.mp hj).1
  have hR : Rel2 (RuleRelFull x ev) MS M' := by rw [← hMS, ← hM']; exact Rel2.select hrel _ hJS
  have hcand : ∀ r ∈ MS, candS ev r = true := by
    intro r hr
    rw [← hMS] at hr
    obtain ⟨j, hj, hjr⟩ := List.mem_filterMap.mp hr
    have := (List.mem_filter.mp hj).2
    rw [hjr] at this
    simp only [Option.any_some, Bool.and_eq_true] at this
    exact this.1
  have hsev : C07.SevOk M := by
    intro r hr
    rw [← hM] at hr
    obtain ⟨j, _, hjr⟩ := List.mem_filterMap.mp hr
    exact hw.sev_ok r (List.mem_of_getElem? hjr)
  have hsev' : C07.SevOk M' := fun r hr => hsev r (hpM.mem_iff.mpr hr)
  obtain ⟨a1, a2, a3, a4, a5, a6⟩ := aggregate_rel x ev hR hcand
  obtain ⟨res, hres, hnone, hfields⟩ := C07.C07_aggregate M hsev
  have hagg := srFold_eq_agg M hsev
  rw [hres] at hagg
  simp only [Option.some.injEq] at hagg
  rw [← hagg]
  -- transport along the permutation
  have hdets : (C07.dets M).Perm (C07.dets M') := hpM.filter _
  have hsum : ((C07.dets M).map (·.severity)).sum = ((C07.dets M').map (·.severity)).sum := (hdets.map _).sum_nat
  cases hMe : MS with
  | nil =>
    have hM'e : M' = [] := by
      have := Rel2.length_eq hR; rw [hMe] at this; exact List.eq_nil_of_length_eq_zero this.symm
    have hMe' : M = [] := by rw [hM'e] at hpM; exact hpM.eq_nil
    rw [(hnone).mpr hMe']
    simp [S.aggregate, SrEq]
  | cons s0 MS0 =>
    have hMne : M ≠ [] := by
      intro h
      rw [h] at hpM
      have h' : M' = [] := hpM.symm.eq_nil
      have := Rel2.length_eq hR
      rw [h', hMe] at this; simp at this
    cases hr : res with
    | none => exact absurd (hnone.mp hr) hMne
    | some out =>
      obtain ⟨f1, f2, f3, f4, f5, f6⟩ := hfields out hr
      rw [← hMe]
      have hne : MS.isEmpty = false := by rw [hMe]; rfl
      simp only [S.aggregate, hne, Bool.false_eq_true, if_false, SrEq]
      refine ⟨?_, ?_, ?_, ?_, ?_, ?_⟩
      · rw [f1, hsum, a1]; rfl
      · have : (out.filtered = true) ↔ (MS.any (fun r => r.rtype == RType.filter) = true) := by
          rw [f6, ← a6]
          constructor
          · rintro ⟨r, hr, h⟩; exact ⟨r, hpM.mem_iff.mp hr, h⟩
          · rintro ⟨r, hr, h⟩; exact ⟨r, hpM.mem_iff.mpr hr, h⟩
        exact Bool.eq_iff_iff.mpr this
      · intro n; rw [f2 n, ← a2 n]
        constructor
        · rintro ⟨r, hr, h⟩; exact ⟨r, hdets.mem_iff.mp hr, h⟩
        · rintro ⟨r, hr, h⟩; exact ⟨r, hdets.mem_iff.mpr hr, h⟩
      · intro t; rw [f3 t, ← a3 t]
        constructor
        · rintro ⟨r, hr, h⟩; exact ⟨r, hdets.mem_iff.mp hr, h⟩
        · rintro ⟨r, hr, h⟩; exact ⟨r, hdets.mem_iff.mpr hr, h⟩
      · intro t; rw [f4 t, ← a4 t]
        constructor
        · rintro ⟨r, hr, h⟩; exact ⟨r, hdets.mem_iff.mp hr, h⟩
        · rintro ⟨r, hr, h⟩; exact ⟨r, hdets.mem_iff.mpr hr, h⟩
      · intro t; rw [f5 t, ← a5 t]
        constructor
        · rintro ⟨r, hr, h⟩; exact ⟨r, hpM.mem_iff.mp hr, h⟩
        · rintro ⟨r, hr, h⟩; exact ⟨r, hpM.mem_iff.mpr hr, h⟩

include hev hw hrel in
theorem bad_iff (y : Nat) (q : CompiledRule) (hq : e.rules[y]? = some q) :
    ((S.verdicts x ev rules).lookup q.name == Option.some S.Res.err) = true ↔ verdict x ev e y = .err := by
  have hv := verdicts_spec x ev hev rules e hw (Rel2.imp (fun _ _ h => h.toRuleRel) hrel) y q hq
  rw [hv]
  cases verdict x ev e y with
  | ok b => simp [toS]
  | err => simp [toS]

include hev hw hrel in
/-- **the error status**: the scan returns an error exactly when the specification lists a failing rule -/
theorem failing_iff :
    (∃ i ∈ candidates e ev.source ev.id, ∃ y, (y = i ∨ y ∈ Dfs.dfsDepSearch (absEng e) i) ∧ verdict x ev e y = .err) ↔
    (S.scan x ev rules).failing ≠ [] := by
  have hlen := Rel2.length_eq hrel
  have hrel' := Rel2.imp (fun _ _ (h : RuleRelFull x ev _ _) => h.toRuleRel) hrel
  simp only [S.scan]
  constructor
  · rintro ⟨i, hi, y, hy, hv⟩
    have hil := candidates_lt e hw _ _ i hi
    have hc : e.rules[i]? = some e.rules[i] := by simp [hil]
    have hs : rules[i]? = some rules[i] := by simp
    have hr := Rel2.get hrel i _ _ hs hc
    have hcs := (cand_idx x ev rules e hw hrel i _ _ hs hc).mp hi
    have hmemc : rules[i] ∈ rules.filter (fun r => (r.rtype == RType.detection || r.rtype == RType.filter) && S.admits r.matchOn ev.source ev.id) :=
      List.mem_filter.mpr ⟨List.mem_of_getElem? hs, by simpa [candS] using hcs⟩
    rcases hy with rfl | hy
    · apply List.ne_nil_of_mem (a := rules[y].name)
      rw [List.mem_filter, List.mem_eraseDups, List.mem_flatMap]
      refine ⟨⟨rules[y], hmemc, by simp⟩, ?_⟩
      rw [hr.name]; exact (bad_iff x ev hev rules e hw hrel y _ hc).mpr hv
    · obtain ⟨l, hl, hch⟩ := closures_spec x ev rules e hw hrel i _ hc
      have hyl := dfs_members_lt hw.toWfCore i y hy
      have hcy : e.rules[y]? = some e.rules[y] := by simp [hyl]
      apply List.ne_nil_of_mem (a := e.rules[y].name)
      rw [List.mem_filter, List.mem_eraseDups, List.mem_flatMap]
      refine ⟨⟨rules[i], hmemc, ?_⟩, ?_⟩
      · rw [List.mem_cons]; right
        rw [hr.name, hl]; exact (hch _).mpr ⟨y, hy, _, hcy, rfl⟩
      · exact (bad_iff x ev hev rules e hw hrel y _ hcy).mpr hv
  · intro hne
    obtain ⟨n, hn⟩ := List.exists_mem_of_ne_nil _ hne
    rw [List.mem_filter, List.mem_eraseDups, List.mem_flatMap] at hn
    obtain ⟨⟨r, hrc, hn⟩, hbad⟩ := hn
    obtain ⟨hr, hcand⟩ := List.mem_filter.mp hrc
    obtain ⟨i, hi⟩ := List.getElem?_of_mem hr
    have hil : i < rules.length := (List.getElem?_eq_some_iff.mp hi).1
    have hc : e.rules[i]? = some e.rules[i] := by simp
    have hrr := Rel2.get hrel i _ _ hi hc
    have hci : i ∈ candidates e ev.source ev.id :=
      (cand_idx x ev rules e hw hrel i _ _ hi hc).mpr (by simpa [candS] using hcand)
    refine ⟨i, hci, ?_⟩
    rcases List.mem_cons.mp hn with rfl | hn
    · refine ⟨i, Or.inl rfl, ?_⟩
      rw [hrr.name] at hbad
      exact (bad_iff x ev hev rules e hw hrel i _ hc).mp hbad
    · obtain ⟨l, hl, hch⟩ := closures_spec x ev rules e hw hrel i _ hc
      rw [hrr.name, hl] at hn
      obtain ⟨y, hy, q, hq, hqn⟩ := (hch n).mp hn
      refine ⟨y, Or.inr hy, ?_⟩
      rw [← hqn] at hbad
      exact (bad_iff x ev hev rules e hw hrel y q hq).mp hbad

include hev hw hrel in
/-- **Refinement of the specification by the model.**  For an engine whose compiled rules correspond one by
    one to the structured rules (`RuleRelFull`), and any event with well-formed numeric values, `Engine.scan`
    (the model of `Engine::scan`, with its candidate cache, dependency cache, DFS lists and per-scan memo)
    never panics and returns
      * the result `S.scan` specifies, as sets and values (`SrEq`), and
      * an error exactly when `S.scan` lists a failing rule. -/
theorem scan_refines_spec :
    ∃ c sr err, Engine.scan x e ev = ({ e with rulesCache := c }, .done sr err) ∧
      SrEq sr (S.scan x ev rules).result ∧
      (err.isSome = true ↔ (S.scan x ev rules).failing ≠ []) := by
  obtain ⟨c, sr, err, hs, _, hspec⟩ := C01.C01_scan x ev e hw
  refine ⟨c, sr, err, hs, ?_, ?_⟩
  · rw [hspec.result]
    exact result_refines x ev hev rules e hw hrel
  · rw [hspec.error_iff]
    exact failing_iff x ev hev rules e hw hrel

end scan

end Gene.Props.Refine
