import Gene.Props.C01
import Gene.Props.C07
import Gene.Props.C06
/-! C13 — a rule's verdict is unaffected by unrelated rules and by load order.

    Concrete instantiation for the model's engine.  Two engines are compared through the *compiled rules*
    they hold (`e.rules`), never through indices: everything index-based (names map, dependency cache, DFS
    lists, candidate order, memo) is internal.
      * `verdict_transfer`: a rule present in two well-formed engines, the second holding at least the
        rules of the first, has the same denotational verdict in both — whatever else the second engine
        holds and wherever the rules sit.
      * `C13_unrelated_rules`: hence it is reported (candidate with verdict `ok true`) in one iff in the other.
      * `C13_load_order`: two well-formed engines holding the same rules in different orders give, for every
        event, the same result and the same error/no-error status. -/
set_option linter.unusedSimpArgs false
namespace Gene.Props.C13
open Gene M EngineSim C01

variable (x : Ext) (event : Event)

/-- the rule a name denotes is the same in both engines -/
theorem same_rule_of_name {e1 e2 : Engine} (hw1 : WfEngine e1) (hw2 : WfEngine e2)
    (hsub : ∀ r ∈ e1.rules, r ∈ e2.rules) {n : Str} {d1 d2 : Nat}
    (h1 : e1.names.lookup n = some d1) (h2 : e2.names.lookup n = some d2) :
    ∃ q, e1.rules[d1]? = some q ∧ e2.rules[d2]? = some q ∧ q.name = n := by
  obtain ⟨q1, hq1, hn1⟩ := (hw1.names_ok n d1).mp h1
  obtain ⟨q2, hq2, hn2⟩ := (hw2.names_ok n d2).mp h2
  have hmem : q1 ∈ e2.rules := hsub q1 (List.mem_of_getElem? hq1)
  obtain ⟨k, hk⟩ := List.getElem?_of_mem hmem
  have : k = d2 := name_unique hw2.toWfCore hk hq2 (hn1.trans hn2.symm)
  subst this
  exact ⟨q1, hq1, hk, hn1⟩

/-- **a rule's verdict depends only on the rule and on what it transitively depends on** -/
theorem verdict_transfer (e1 e2 : Engine) (hw1 : WfEngine e1) (hw2 : WfEngine e2)
    (hsub : ∀ r ∈ e1.rules, r ∈ e2.rules) :
    ∀ (i : Nat) (r : CompiledRule) (j : Nat), e1.rules[i]? = some r → e2.rules[j]? = some r →
      verdict x event e1 i = verdict x event e2 j := by
  intro i
  induction i using Nat.strongRecOn with
  | _ i ih =>
    intro r j h1 h2
    rw [verdict_eq x event e1 hw1 i, verdict_eq x event e2 hw2 j]
    simp only [absEv, h1, h2, ruleEval]
    congr 1
    apply evalExpr_congr
    intro n hn
    rw [statesOf_lookup hw1, statesOf_lookup hw2]
    have hdep := hw1.deps_cover i r h1 n hn
    obtain ⟨d1, hd1lt, hd1⟩ := hw1.deps_back i r h1 n hdep
    obtain ⟨d2, _, hd2⟩ := hw2.deps_back j r h2 n hdep
    have e1' : idxOf e1 n = some d1 := hd1
    have e2' : idxOf e2 n = some d2 := hd2
    rw [e1', e2']
    simp only [Option.bind_some]
    obtain ⟨q, hq1, hq2, _⟩ := same_rule_of_name hw1 hw2 hsub hd1 hd2
    rw [ih d1 hd1lt q d2 hq1 hq2]

/-- being a candidate is a property of the rule alone -/
theorem isCand_transfer {e1 e2 : Engine} {i j : Nat} {r : CompiledRule} (h1 : e1.rules[i]? = some r)
    (h2 : e2.rules[j]? = some r) (src : Str) (id : Int) : isCand e1 src id i → isCand e2 src id j := by
  rintro ⟨r', hr', ht, hm⟩
  rw [h1] at hr'; cases hr'
  exact ⟨r, h2, ht, hm⟩

/-- rule `r` is reported for the event: it is a candidate and its verdict is `ok true` -/
def reported (e : Engine) (r : CompiledRule) : Prop :=
  ∃ i, e.rules[i]? = some r ∧ i ∈ candidates e event.source event.id ∧ verdict x event e i = .ok true

/-- **C13, unrelated rules.** Adding rules to (or removing rules other than `r` and its dependencies
    from) a rule set, in any positions, never changes whether `r` is reported. -/
theorem C13_unrelated_rules (e1 e2 : Engine) (hw1 : WfEngine e1) (hw2 : WfEngine e2)
    (hsub : ∀ r ∈ e1.rules, r ∈ e2.rules) (r : CompiledRule) (hr : r ∈ e1.rules) :
    reported x event e1 r ↔ reported x event e2 r := by
  obtain ⟨i, hi⟩ := List.getElem?_of_mem hr
  obtain ⟨j, hj⟩ := List.getElem?_of_mem (hsub r hr)
  constructor
  · rintro ⟨i', hi', hc, hv⟩
    have : i' = i := name_unique hw1.toWfCore hi' hi rfl
    subst this
    refine ⟨j, hj, ?_, ?_⟩
    · exact (mem_candidates e2 hw2 _ _ j).mpr (isCand_transfer hi hj _ _ ((mem_candidates e1 hw1 _ _ i').mp hc))
    · rw [← verdict_transfer x event e1 e2 hw1 hw2 hsub i' r j hi hj]; exact hv
  · rintro ⟨j', hj', hc, hv⟩
    have : j' = j := name_unique hw2.toWfCore hj' hj rfl
    subst this
    refine ⟨i, hi, ?_, ?_⟩
    · exact (mem_candidates e1 hw1 _ _ i).mpr (isCand_transfer hj hi _ _ ((mem_candidates e2 hw2 _ _ j').mp hc))
    · rw [verdict_transfer x event e1 e2 hw1 hw2 hsub i r j' hi hj]; exact hv


/-! ### load order -/

/-- two lists strictly sorted by an asymmetric relation and with the same elements are equal -/
theorem sorted_ext {α : Type} (lt : α → α → Prop) (asym : ∀ a b, lt a b → lt b a → False) :
    ∀ (a b : List α), a.Pairwise lt → b.Pairwise lt → (∀ p, p ∈ a ↔ p ∈ b) → a = b := by
  intro a
  induction a with
  | nil =>
    intro b _ _ h
    cases b with
    | nil => rfl
    | cons q b => exact absurd ((h q).mpr (by simp)) (by simp)
  | cons p a ih =>
    intro b ha hb h
    cases b with
    | nil => exact absurd ((h p).mp (by simp)) (by simp)
    | cons q b =>
      rw [List.pairwise_cons] at ha hb
      have irr : ∀ s, ¬ lt s s := fun s h => asym s s h h
      have hpq : p = q := by
        have hp : p ∈ q :: b := (h p).mp (by simp)
        have hq : q ∈ p :: a := (h q).mpr (by simp)
        rcases List.mem_cons.mp hp with rfl | hpb
        · rfl
        · rcases List.mem_cons.mp hq with rfl | hqa
          · rfl
          · exact absurd (hb.1 p hpb) (fun h' => asym _ _ (ha.1 q hqa) h')
      subst hpq
      congr 1
      apply ih b ha.2 hb.2
      intro r
      constructor
      · intro hr
        have : r ∈ p :: b := (h r).mp (by simp [hr])
        rcases List.mem_cons.mp this with rfl | h'
        · exact absurd (ha.1 r hr) (irr _)
        · exact h'
      · intro hr
        have : r ∈ p :: a := (h r).mpr (by simp [hr])
        rcases List.mem_cons.mp this with rfl | h'
        · exact absurd (hb.1 r hr) (irr _)
        · exact h'

/-! `(severity, name)` keys: a strict total order -/
theorem keyLt_iff (a b : Nat × Str) : keyLt a b = true ↔ a.1 < b.1 ∨ (a.1 = b.1 ∧ a.2 < b.2) := by
  simp only [keyLt, Bool.or_eq_true, Bool.and_eq_true, decide_eq_true_eq, beq_iff_eq]

theorem keyLt_trans {a b c : Nat × Str} (h1 : keyLt a b = true) (h2 : keyLt b c = true) : keyLt a c = true := by
  rw [keyLt_iff] at *
  rcases h1 with h1 | ⟨h1, h1'⟩ <;> rcases h2 with h2 | ⟨h2, h2'⟩
  · exact Or.inl (by omega)
  · exact Or.inl (by omega)
  · exact Or.inl (by omega)
  · exact Or.inr ⟨by omega, List.lt_trans h1' h2'⟩

theorem keyLt_irrefl (a : Nat × Str) : ¬ keyLt a a = true := by
  rw [keyLt_iff]
  rintro (h | ⟨_, h⟩)
  · omega
  · exact List.lt_irrefl _ h

theorem keyLt_total {a b : Nat × Str} (hne : a ≠ b) (h : ¬ keyLt a b = true) : keyLt b a = true := by
  rw [keyLt_iff] at *
  have h1 : ¬ a.1 < b.1 := fun h' => h (Or.inl h')
  by_cases he : a.1 = b.1
  · have h2 : ¬ a.2 < b.2 := fun h' => h (Or.inr ⟨he, h'⟩)
    right
    refine ⟨he.symm, ?_⟩
    rcases List.le_iff_lt_or_eq.mp (List.not_lt.mp h2) with h3 | h3
    · exact h3
    · exfalso; apply hne
      obtain ⟨a1, a2⟩ := a; obtain ⟨b1, b2⟩ := b
      simp only at he h3; subst he; subst h3; rfl
  · left; omega

abbrev Tmp := List ((Nat × Str) × Nat)
def TSorted (t : Tmp) : Prop := t.Pairwise (fun p q => keyLt p.1 q.1 = true)

theorem btInsertCand_lower (k : Nat × Str) (i : Nat) (t : Tmp) (a : Nat × Str)
    (hak : keyLt a k = true) (h : ∀ p ∈ t, keyLt a p.1 = true) : ∀ p ∈ btInsertCand k i t, keyLt a p.1 = true := by
  intro p hp
  rcases btInsertCand_keys k i t p hp with rfl | hp'
  · exact hak
  · exact h p hp'

theorem btInsertCand_sorted (k : Nat × Str) (i : Nat) (t : Tmp) (h : TSorted t) : TSorted (btInsertCand k i t) := by
  induction t with
  | nil => simp [btInsertCand, TSorted]
  | cons q t ih =>
    obtain ⟨k', i'⟩ := q
    unfold TSorted at h ⊢
    rw [List.pairwise_cons] at h
    obtain ⟨h1, h2⟩ := h
    simp only [btInsertCand]
    split
    · rename_i heq
      have : k = k' := by simpa using heq
      subst this
      rw [List.pairwise_cons]; exact ⟨h1, h2⟩
    · split
      · rename_i hlt
        rw [List.pairwise_cons]
        refine ⟨?_, by rw [List.pairwise_cons]; exact ⟨h1, h2⟩⟩
        intro p hp
        rcases List.mem_cons.mp hp with rfl | hp
        · exact hlt
        · exact keyLt_trans hlt (h1 p hp)
      · rename_i hne hnlt
        rw [List.pairwise_cons]
        refine ⟨?_, ih h2⟩
        have hne' : k ≠ k' := by simpa using hne
        exact btInsertCand_lower k i t k' (keyLt_total hne' hnlt) h1

section tmp
variable (e : Engine) (src : Str) (id : Int)

/-- the `BTreeMap` built by `cached_rules` -/
def T : Tmp := (List.range e.rules.length).foldl (candStep e src id) []

theorem candidates_eq : candidates e src id = ((T e src id).map Prod.snd).reverse := rfl

variable {e}

/-- invariant of the candidate fold: entries carry the key of the rule they point to; sorted by key -/
theorem T_inv (hw : WfEngine e) : ∀ (m : Nat), m ≤ e.rules.length →
    let tmp := (List.range m).foldl (candStep e src id) []
    (∀ p ∈ tmp, ∃ r, e.rules[p.2]? = some r ∧ p.1 = (r.severity, r.name) ∧ p.2 < m) ∧ TSorted tmp := by
  intro m
  induction m with
  | zero => intro _; simp [TSorted]
  | succ m ih =>
    intro hm
    have ihm := ih (by omega)
    simp only [List.range_succ, List.foldl_append, List.foldl_cons, List.foldl_nil]
    generalize hT : (List.range m).foldl _ [] = tmp at ihm ⊢
    obtain ⟨ih1, ih2⟩ := ihm
    have hr : e.rules[m]? = some e.rules[m] := by
      have : m < e.rules.length := by omega
      simp [this]
    simp only [candStep, hr]
    split
    · constructor
      · intro p hp
        rcases btInsertCand_keys _ _ _ p hp with rfl | hp'
        · exact ⟨e.rules[m], hr, rfl, Nat.lt_succ_self m⟩
        · obtain ⟨r, h1, h2, h3⟩ := ih1 p hp'
          exact ⟨r, h1, h2, by omega⟩
      · exact btInsertCand_sorted _ _ _ ih2
    · constructor
      · intro p hp
        obtain ⟨r, h1, h2, h3⟩ := ih1 p hp
        exact ⟨r, h1, h2, by omega⟩
      · exact ih2

/-- candidate rules with their keys, in `BTreeMap` order -/
def tmpR (e : Engine) (src : Str) (id : Int) : List ((Nat × Str) × CompiledRule) :=
  (T e src id).filterMap (fun p => (e.rules[p.2]?).map (fun r => (p.1, r)))

theorem tmpR_sorted (hw : WfEngine e) : (tmpR e src id).Pairwise (fun a b => keyLt a.1 b.1 = true) := by
  unfold tmpR
  have hs : TSorted (T e src id) := (T_inv src id hw e.rules.length (Nat.le_refl _)).2
  refine List.Pairwise.filterMap _ ?_ hs
  intro a a' hR b hb b' hb'
  cases h1 : e.rules[a.2]? with
  | none => rw [h1] at hb; cases hb
  | some r =>
    cases h2 : e.rules[a'.2]? with
    | none => rw [h2] at hb'; cases hb'
    | some r' =>
      rw [h1] at hb; rw [h2] at hb'
      simp only [Option.map_some, Option.some.injEq] at hb hb'
      subst hb; subst hb'
      exact hR

def candB (r : CompiledRule) (src : Str) (id : Int) : Bool :=
  (CompiledRule.isFilter r || CompiledRule.isDetection r) && canMatchOn r.includeEvents r.excludeEvents src id

theorem mem_tmpR (hw : WfEngine e) (k : Nat × Str) (r : CompiledRule) :
    (k, r) ∈ tmpR e src id ↔ r ∈ e.rules ∧ candB r src id = true ∧ k = (r.severity, r.name) := by
  have hinv := (T_inv src id hw e.rules.length (Nat.le_refl _)).1
  unfold tmpR
  simp only [List.mem_filterMap]
  constructor
  · rintro ⟨p, hp, hpr⟩
    obtain ⟨r', hr', hk, _⟩ := hinv p hp
    rw [hr'] at hpr
    simp only [Option.map_some, Option.some.injEq, Prod.mk.injEq] at hpr
    obtain ⟨hk', rfl⟩ := hpr
    have hc : p.2 ∈ candidates e src id := by
      rw [candidates_eq]; simp only [List.mem_reverse, List.mem_map]; exact ⟨p, hp, rfl⟩
    obtain ⟨r'', h1, h2, h3⟩ := (mem_candidates e hw src id p.2).mp hc
    rw [hr'] at h1; cases h1
    refine ⟨List.mem_of_getElem? hr', ?_, by rw [← hk', hk]⟩
    simp [candB, h2, h3]
  · rintro ⟨hr, hc, rfl⟩
    obtain ⟨i, hi⟩ := List.getElem?_of_mem hr
    have hcand : i ∈ candidates e src id := by
      apply (mem_candidates e hw src id i).mpr
      simp only [candB, Bool.and_eq_true] at hc
      exact ⟨r, hi, hc.1, hc.2⟩
    rw [candidates_eq] at hcand
    simp only [List.mem_reverse, List.mem_map] at hcand
    obtain ⟨p, hp, rfl⟩ := hcand
    obtain ⟨r', hr', hk, _⟩ := hinv p hp
    rw [hi] at hr'; cases hr'
    exact ⟨p, hp, by rw [hi, hk]; rfl⟩

end tmp

/-- same rules ⇒ same candidate rules in the same order -/
theorem tmpR_perm (e1 e2 : Engine) (hw1 : WfEngine e1) (hw2 : WfEngine e2) (hm : ∀ r, r ∈ e1.rules ↔ r ∈ e2.rules)
    (src : Str) (id : Int) : tmpR e1 src id = tmpR e2 src id := by
  apply sorted_ext (fun a b => keyLt a.1 b.1 = true)
    (fun a b h1 h2 => keyLt_irrefl a.1 (keyLt_trans h1 h2)) _ _ (tmpR_sorted src id hw1) (tmpR_sorted src id hw2)
  rintro ⟨k, r⟩
  rw [mem_tmpR src id hw1, mem_tmpR src id hw2, hm r]


/-- the verdict of a rule, looked up by its name -/
def vr (e : Engine) (r : CompiledRule) : Memo.Res :=
  match idxOf e r.name with
  | some i => verdict x event e i
  | none => .err

theorem vr_eq {e : Engine} (hw : WfEngine e) {i : Nat} {r : CompiledRule} (hi : e.rules[i]? = some r) :
    vr x event e r = verdict x event e i := by
  simp only [vr, idxOf_name hw.toWfCore hi]

/-- the matched rules of `ScanSpec.result` -/
def matched (e : Engine) : List CompiledRule :=
  ((candidates e event.source event.id).filter (fun i => verdict x event e i == .ok true)).filterMap (fun i => e.rules[i]?)

theorem matched_eq (e : Engine) (hw : WfEngine e) :
    matched x event e = (tmpR e event.source event.id).reverse.filterMap
      (fun kr => if vr x event e kr.2 == .ok true then some kr.2 else none) := by
  unfold matched tmpR
  rw [candidates_eq, ← List.map_reverse, List.filter_map, List.filterMap_map, List.filterMap_filter,
    ← List.filterMap_reverse, List.filterMap_filterMap]
  apply C06.filterMap_congr_mem
  intro p hp
  simp only [Function.comp]
  cases hr : e.rules[p.2]? with
  | none => simp
  | some r =>
    simp only [Option.map_some, Option.bind_some, vr_eq x event hw hr]

/-- a direct dependency in one engine is a direct dependency, denoting the same rule, in the other -/
theorem dep_transfer {e1 e2 : Engine} (hw1 : WfEngine e1) (hw2 : WfEngine e2) (hsub : ∀ r ∈ e1.rules, r ∈ e2.rules)
    {z z' d : Nat} {rz : CompiledRule} (h1 : e1.rules[z]? = some rz) (h2 : e2.rules[z']? = some rz)
    (hd : d ∈ Dfs.deps (absEng e1) z) :
    ∃ d' q, d' ∈ Dfs.deps (absEng e2) z' ∧ e1.rules[d]? = some q ∧ e2.rules[d']? = some q := by
  rw [deps_absEng] at hd
  simp only [depIdx, h1, List.mem_filterMap] at hd
  obtain ⟨n, hn, hidx⟩ := hd
  obtain ⟨d', _, hd'⟩ := hw2.deps_back z' rz h2 n hn
  obtain ⟨q, hq1, hq2, _⟩ := same_rule_of_name hw1 hw2 hsub (show e1.names.lookup n = some d from hidx) hd'
  refine ⟨d', q, ?_, hq1, hq2⟩
  rw [deps_absEng]
  simp only [depIdx, h2, List.mem_filterMap]
  exact ⟨n, hn, hd'⟩

theorem reach_transfer {e1 e2 : Engine} (hw1 : WfEngine e1) (hw2 : WfEngine e2) (hsub : ∀ r ∈ e1.rules, r ∈ e2.rules)
    {i y : Nat} (h : Dfs.Reach (absEng e1) i y) :
    ∀ (r : CompiledRule) (j : Nat), e1.rules[i]? = some r → e2.rules[j]? = some r →
      ∃ y' q, Dfs.Reach (absEng e2) j y' ∧ e1.rules[y]? = some q ∧ e2.rules[y']? = some q := by
  induction h with
  | direct hd =>
    intro r j h1 h2
    obtain ⟨d', q, hd', hq1, hq2⟩ := dep_transfer hw1 hw2 hsub h1 h2 hd
    exact ⟨d', q, Dfs.Reach.direct hd', hq1, hq2⟩
  | step _ hd ih =>
    intro r j h1 h2
    obtain ⟨z', qz, hz', hqz1, hqz2⟩ := ih r j h1 h2
    obtain ⟨d', q, hd', hq1, hq2⟩ := dep_transfer hw1 hw2 hsub hqz1 hqz2 hd
    exact ⟨d', q, Dfs.Reach.step hz' hd', hq1, hq2⟩

/-- the error condition of `ScanSpec` carries over from an engine to one holding at least its rules -/
theorem error_transfer (e1 e2 : Engine) (hw1 : WfEngine e1) (hw2 : WfEngine e2) (hsub : ∀ r ∈ e1.rules, r ∈ e2.rules) :
    (∃ i ∈ candidates e1 event.source event.id, ∃ y, (y = i ∨ y ∈ Dfs.dfsDepSearch (absEng e1) i) ∧
        verdict x event e1 y = .err) →
    (∃ i ∈ candidates e2 event.source event.id, ∃ y, (y = i ∨ y ∈ Dfs.dfsDepSearch (absEng e2) i) ∧
        verdict x event e2 y = .err) := by
  rintro ⟨i, hi, y, hy, hv⟩
  have hci := (mem_candidates e1 hw1 _ _ i).mp hi
  obtain ⟨r, hr, _⟩ := hci
  obtain ⟨j, hj⟩ := List.getElem?_of_mem (hsub r (List.mem_of_getElem? hr))
  have hcj : j ∈ candidates e2 event.source event.id :=
    (mem_candidates e2 hw2 _ _ j).mpr (isCand_transfer hr hj _ _ ((mem_candidates e1 hw1 _ _ i).mp hi))
  refine ⟨j, hcj, ?_⟩
  rcases hy with rfl | hy
  · exact ⟨j, Or.inl rfl, by rw [← verdict_transfer x event e1 e2 hw1 hw2 hsub y r j hr hj]; exact hv⟩
  · have hreach := (Dfs.mem_dfs_iff (absEng e1) (absEng_wf hw1.toWfCore) i y).mp hy
    obtain ⟨y', q, hr', hq1, hq2⟩ := reach_transfer hw1 hw2 hsub hreach r j hr hj
    refine ⟨y', Or.inr ((Dfs.mem_dfs_iff (absEng e2) (absEng_wf hw2.toWfCore) j y').mpr hr'), ?_⟩
    rw [← verdict_transfer x event e1 e2 hw1 hw2 hsub y q y' hq1 hq2]; exact hv

/-- **C13, load order.** Two well-formed engines holding the same compiled rules, in any two orders (each
    order necessarily dependency-respecting, or the engine would not be well-formed), give for every event
    the same result and the same error/no-error status. -/
theorem C13_load_order (e1 e2 : Engine) (hw1 : WfEngine e1) (hw2 : WfEngine e2) (hp : e1.rules.Perm e2.rules) :
    ∃ c1 c2 sr err1 err2,
      Engine.scan x e1 event = ({ e1 with rulesCache := c1 }, .done sr err1) ∧
      Engine.scan x e2 event = ({ e2 with rulesCache := c2 }, .done sr err2) ∧
      err1.isSome = err2.isSome := by
  obtain ⟨c1, sr1, err1, hs1, _, sp1⟩ := C01_scan x event e1 hw1
  obtain ⟨c2, sr2, err2, hs2, _, sp2⟩ := C01_scan x event e2 hw2
  have hm : ∀ r, r ∈ e1.rules ↔ r ∈ e2.rules := fun r => hp.mem_iff
  have hsr : sr1 = sr2 := by
    rw [sp1.result, sp2.result]
    show srFold (matched x event e1) = srFold (matched x event e2)
    rw [matched_eq x event e1 hw1, matched_eq x event e2 hw2, tmpR_perm e1 e2 hw1 hw2 hm]
    congr 1
    apply C06.filterMap_congr_mem
    rintro ⟨k, r⟩ hkr
    have hr2 : r ∈ e2.rules := ((mem_tmpR _ _ hw2 k r).mp (List.mem_reverse.mp hkr)).1
    have hr1 : r ∈ e1.rules := (hm r).mpr hr2
    obtain ⟨i, hi⟩ := List.getElem?_of_mem hr1
    obtain ⟨j, hj⟩ := List.getElem?_of_mem hr2
    simp only [vr_eq x event hw1 hi, vr_eq x event hw2 hj,
      verdict_transfer x event e1 e2 hw1 hw2 (fun r hr => (hm r).mp hr) i r j hi hj]
  refine ⟨c1, c2, sr1, err1, err2, hs1, by rw [hsr]; exact hs2, ?_⟩
  have h12 := error_transfer x event e1 e2 hw1 hw2 (fun r hr => (hm r).mp hr)
  have h21 := error_transfer x event e2 e1 hw2 hw1 (fun r hr => (hm r).mpr hr)
  have hiff : err1.isSome = true ↔ err2.isSome = true := by
    rw [sp1.error_iff, sp2.error_iff]; exact ⟨h12, h21⟩
  cases h1 : err1.isSome <;> cases h2 : err2.isSome <;> simp_all


/-- **C13 at the public entry points.** Two compilers in reachable states (`RInv`: obtained from the empty
    compiler by any sequence of template loads, rule loads and compile calls) that hold the same enabled
    rules in different load orders, and from each of which an engine is obtained, give engines that answer
    every event with the same result and the same error/no-error status. -/
theorem C13_compilers (c1 c2 : Compiler) (h1 : C14.RInv x c1) (h2 : C14.RInv x c2) (hp : c1.rules.Perm c2.rules)
    (e1 e2 : Engine) (he1 : Engine.ofCompiler x c1 = .ok e1) (he2 : Engine.ofCompiler x c2 = .ok e2) :
    ∃ k1 k2 sr err1 err2,
      Engine.scan x e1 event = ({ e1 with rulesCache := k1 }, .done sr err1) ∧
      Engine.scan x e2 event = ({ e2 with rulesCache := k2 }, .done sr err2) ∧
      err1.isSome = err2.isSome := by
  obtain ⟨hw1, hr1⟩ := C06.ofCompiler_wf x c1 h1 e1 he1
  obtain ⟨hw2, hr2⟩ := C06.ofCompiler_wf x c2 h2 e2 he2
  have hc1 := ((C14.C14_compile x c1 h1).2 (C14.C14_engine x c1 e1 he1).1).1
  have hc2 := ((C14.C14_compile x c2 h2).2 (C14.C14_engine x c2 e2 he2).1).1
  rw [← hr1] at hc1; rw [← hr2] at hc2
  have hperm : (e1.rules.map some).Perm (e2.rules.map some) := by
    rw [hc1, hc2]; exact hp.map _
  have hperm' : e1.rules.Perm e2.rules := by
    have := hperm.filterMap id
    simpa [List.filterMap_map] using this
  exact C13_load_order x event e1 e2 hw1 hw2 hperm'

end Gene.Props.C13
