import Gene.Spec.Num
import Gene.Spec.FieldTest
/-! C04 — numeric comparisons act on mathematical value, however the number is written. -/
set_option linter.unusedSimpArgs false
namespace Gene.Props.C04
open Gene M

theorem cmpI_scale (a b : Int) : cmpI (a * S) (b * S) = cmpI a b := by
  have hS := S_pos
  unfold cmpI
  by_cases h1 : a < b
  · have : a * S < b * S := Int.mul_lt_mul_of_pos_right h1 hS
    simp [h1, this]
  · by_cases h2 : a = b
    · subst h2; simp
    · have h3 : b < a := by omega
      have : b * S < a * S := Int.mul_lt_mul_of_pos_right h3 hS
      have n1 : ¬ a * S < b * S := by omega
      have n2 : a * S ≠ b * S := by omega
      simp [h1, h2, n1, n2]

/-- comparing `i·S` with `k` is comparing `i` with `trunc(k/S)`, ties broken by the remainder -/
theorem cmp_scaled (i k : Int) :
    cmpI (i * S) k = (if i < k.tdiv S then .lt else if k.tdiv S < i then .gt else cmpI (k.tdiv S * S) k) := by
  have hs := S_pos
  have hk : k.tdiv S * S + k.tmod S = k := by have := Int.tmod_add_tdiv_mul k S; omega
  have hr1 : k.tmod S < S := Int.tmod_lt_of_pos k hs
  have hr2 : -S < k.tmod S := by
    have := Int.tmod_lt_of_pos (-k) hs
    rw [Int.neg_tmod] at this; omega
  generalize k.tdiv S = q at *
  generalize k.tmod S = r at *
  by_cases h1 : i < q
  · simp only [h1, if_true]
    have : (i + 1) * S ≤ q * S := Int.mul_le_mul_of_nonneg_right (by omega) (by omega)
    rw [Int.add_mul] at this
    unfold cmpI; have : i * S < k := by omega
    simp [this]
  · simp only [h1, if_false]
    by_cases h2 : q < i
    · simp only [h2, if_true]
      have : (q + 1) * S ≤ i * S := Int.mul_le_mul_of_nonneg_right (by omega) (by omega)
      rw [Int.add_mul] at this
      unfold cmpI
      have n1 : ¬ i * S < k := by omega
      have n2 : i * S ≠ k := by omega
      simp [n1, n2]
    · simp only [h2, if_false]
      have : i = q := by omega
      subst this; rfl

theorem p127 : (2:Int)^127 = 170141183460469231731687303715884105728 := by decide
theorem p64 : (2:Int)^64 = 18446744073709551616 := by decide
theorem p63 : (2:Int)^63 = 9223372036854775808 := by decide
theorem p64n : (2:Nat)^64 = 18446744073709551616 := by decide

/-- every integer a `Number` can hold -/
def InRange (i : Int) : Prop := -(2:Int)^63 ≤ i ∧ i < 2^64

theorem cmpI_lt {a b : Int} (h : a < b) : cmpI a b = .lt := by unfold cmpI; simp [h]
theorem cmpI_gt {a b : Int} (h : b < a) : cmpI a b = .gt := by
  unfold cmpI
  have n1 : ¬ a < b := by omega
  have n2 : a ≠ b := by omega
  simp [n1, n2]
theorem cmpI_self (a : Int) : cmpI a a = .eq := by unfold cmpI; simp

theorem cmpIntFloat_exact (i : Int) (hi : InRange i) (v : FVal) :
    cmpIntFloat i v = FVal.cmp (.fin (i * S)) v := by
  obtain ⟨h1, h2⟩ := hi
  rw [p63] at h1; rw [p64] at h2
  cases v with
  | nan => rfl
  | ninf =>
    simp only [cmpIntFloat, FVal.cmp, Option.some.injEq]
    exact cmpI_gt (by rw [p127]; omega)
  | pinf =>
    simp only [cmpIntFloat, FVal.cmp, Option.some.injEq]
    exact cmpI_lt (by rw [p127]; omega)
  | fin k =>
    simp only [cmpIntFloat, FVal.cmp]
    rw [cmp_scaled i k]
    generalize k.tdiv S = q
    unfold satI128
    by_cases hlo : q < -(2:Int)^127
    · simp only [hlo, if_true]
      rw [cmpI_gt (by rw [p127]; omega)]
      rw [p127] at hlo
      have n3 : ¬ i < q := by omega
      have n4 : q < i := by omega
      simp [n3, n4]
    · simp only [hlo, if_false]
      by_cases hhi : (2:Int)^127 - 1 < q
      · simp only [hhi, if_true]
        rw [cmpI_lt (by rw [p127]; omega)]
        rw [p127] at hhi
        have n3 : i < q := by omega
        simp [n3]
      · simp only [hhi, if_false]
        by_cases a1 : i < q
        · simp [cmpI_lt a1, a1]
        · by_cases a2 : q < i
          · simp [cmpI_gt a2, a1, a2]
          · have : i = q := by omega
            subst this
            simp [cmpI_self]

theorem cmpI_swap (a b : Int) : swapO (cmpI a b) = cmpI b a := by
  unfold cmpI
  by_cases h1 : a < b
  · have : ¬ b < a := by omega
    have : b ≠ a := by omega
    simp [h1, swapO, *]
  · by_cases h2 : a = b
    · subst h2; simp [swapO]
    · have : b < a := by omega
      simp [h1, h2, swapO, this]

theorem FVal_cmp_swap (a b : FVal) : (FVal.cmp a b).map swapO = FVal.cmp b a := by
  cases a <;> cases b <;> first
    | rfl
    | (simp only [FVal.cmp, Option.map_some]; rw [cmpI_swap])

theorem wf_int {v : Int} (h : (Num.int v).wf) : InRange v := by
  obtain ⟨a, b⟩ := h
  constructor
  · exact a
  · rw [p63] at b; rw [p64]; omega
theorem wf_uint {v : Nat} (h : (Num.uint v).wf) : InRange (v : Int) := by
  have h' : v < 2^64 := h
  rw [p64n] at h'
  constructor
  · rw [p63]; omega
  · rw [p64]; omega

/-- C04 (i): `impl PartialOrd for Number` is the mathematical order, for every pair of numbers in
    every representation (the payloads being what the Rust types can hold) -/
theorem C04_partialCmp (a b : Num) (ha : a.wf) (hb : b.wf) : partialCmp a b = S.cmp a b := by
  cases a with
  | int x => cases b with
    | int y => simp only [partialCmp, S.cmp, Num.real, FVal.cmp, cmpI_scale]
    | uint y => simp only [partialCmp, S.cmp, Num.real, FVal.cmp, cmpI_scale]
    | float f => simp only [partialCmp, S.cmp, Num.real, cmpIntFloat_exact x (wf_int ha)]
  | uint x => cases b with
    | int y => simp only [partialCmp, S.cmp, Num.real, FVal.cmp, cmpI_scale]
    | uint y => simp only [partialCmp, S.cmp, Num.real, FVal.cmp, cmpI_scale]
    | float f => simp only [partialCmp, S.cmp, Num.real, cmpIntFloat_exact _ (wf_uint ha)]
  | float f => cases b with
    | int y =>
      simp only [partialCmp, S.cmp, Num.real, cmpIntFloat_exact y (wf_int hb)]; exact FVal_cmp_swap _ _
    | uint y =>
      simp only [partialCmp, S.cmp, Num.real, cmpIntFloat_exact _ (wf_uint hb)]; exact FVal_cmp_swap _ _
    | float g => simp only [partialCmp, S.cmp, Num.real]

/-- the five relational operators of the code are the spec's -/
theorem C04_ops (a b : Num) (ha : a.wf) (hb : b.wf) :
    numEq a b = S.numEq a b ∧ numLt a b = S.numLt a b ∧ numLe a b = S.numLe a b ∧
    numGt a b = S.numGt a b ∧ numGe a b = S.numGe a b := by
  simp only [numEq, numLt, numLe, numGt, numGe, S.numEq, S.numLt, S.numLe, S.numGt, S.numGe,
    C04_partialCmp a b ha hb, and_self]

/-- C04 (ii): for two non-NaN values exactly one of <, ==, > holds; <= and >= are the unions -/
theorem C04_trichotomy (a b : Num) (ha : a.real ≠ .nan) (hb : b.real ≠ .nan) :
    (S.numLt a b = true ∧ S.numEq a b = false ∧ S.numGt a b = false) ∨
    (S.numLt a b = false ∧ S.numEq a b = true ∧ S.numGt a b = false) ∨
    (S.numLt a b = false ∧ S.numEq a b = false ∧ S.numGt a b = true) := by
  unfold S.numLt S.numEq S.numGt S.cmp
  generalize a.real = x at *; generalize b.real = y at *
  have : ∃ o, FVal.cmp x y = some o := by
    cases x <;> cases y <;> simp_all [FVal.cmp]
  obtain ⟨o, ho⟩ := this
  rw [ho]
  cases o <;> simp

theorem C04_unions (a b : Num) :
    S.numLe a b = (S.numLt a b || S.numEq a b) ∧ S.numGe a b = (S.numGt a b || S.numEq a b) := ⟨rfl, rfl⟩

/-- NaN satisfies none of the comparisons -/
theorem C04_nan (a b : Num) (h : a.real = .nan ∨ b.real = .nan) :
    S.numLt a b = false ∧ S.numEq a b = false ∧ S.numGt a b = false ∧ S.numLe a b = false ∧ S.numGe a b = false := by
  have hc : S.cmp a b = none := by
    unfold S.cmp
    rcases h with h | h <;> rw [h]
    · rfl
    · cases a.real <;> rfl
  simp [S.numLt, S.numEq, S.numGt, S.numLe, S.numGe, hc]

/-- the order of values is the order of the integers they scale to: `2⁵³` vs `2⁵³+1`, non-vacuity -/
example : partialCmp (.float (.fin (9007199254740992 * S))) (.uint 9007199254740993) = some .lt := by
  rw [C04_partialCmp (.float (.fin (9007199254740992 * S))) (.uint 9007199254740993) trivial
    (by show (9007199254740993 : Nat) < 2^64; decide)]
  simp only [S.cmp, Num.real, FVal.cmp, Option.some.injEq]
  have := cmpI_scale 9007199254740992 ((9007199254740993 : Nat) : Int)
  rw [this]; decide

end Gene.Props.C04
