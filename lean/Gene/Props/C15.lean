import Gene.Compiler
import Gene.Props.C18
import Gene.Props.C02
/-! C15 — loading and compiling never panic, on any rule, template or path text.

    Every panic-capable construct on the load/compile path is an explicit `panic` outcome of the model
    (`Expr::from_str`'s Pratt arms, `XPath::from_str(..).unwrap()` in `DirectMatch::from_str`); integer
    negation in `build_exclude_events` is `checked_neg` (no overflow exists in the model: integers are
    unbounded and the `i64::MIN` case is the explicit `filter_map`). The theorems show the `panic`
    outcomes unreachable for every input string / document. -/
set_option linter.unusedSimpArgs false
namespace Gene.Props.C15
open Gene M

theorem parseDirect_fieldPath (s : Str) (gs : List Seg) (op : MOp) (tok : Str)
    (h : parseDirect s = some (gs, op, tok)) : ∃ s' r, fieldPath s' = some (gs, r) := by
  unfold parseDirect at h
  simp only at h
  split at h
  · cases h
  · rename_i gs' r' hfp
    split at h
    · cases h
    · split at h
      · cases h
      · split at h
        · simp only [Option.some.injEq, Prod.mk.injEq] at h
          obtain ⟨rfl, _, _⟩ := h
          exact ⟨_, _, hfp⟩
        · cases h

/-- `XPath::from_str(field_path.as_str()).unwrap()` cannot fail: the span re-parses -/
theorem parseMatch_no_panic (x : Ext) (s : Str) : parseMatch x s ≠ .panic := by
  unfold parseMatch
  split
  · rename_i gs op tok hd
    obtain ⟨s', r, hfp⟩ := parseDirect_fieldPath s gs op tok hd
    have hre := (C18.matched_span_reparses s' gs r hfp).2
    have : XPath.parse (gs.flatMap Seg.render) =
        some { path := gs.flatMap Seg.render, segments := gs.map Seg.text } := by
      unfold XPath.parse; rw [hre]; rfl
    rw [this]
    simp only
    split <;> (intro h; cases h)
  · split
    · split <;> (intro h; cases h)
    · split <;> (intro h; cases h)

def OpsOut.isPanic : OpsOut → Bool
  | .panic => true
  | _ => false
def CompileOut.isPanic : CompileOut → Bool
  | .panic => true
  | _ => false

theorem compileOps_no_panic (x : Ext) (l : List (Str × Str)) (deps : List Str) (ops : List (Str × Match)) :
    OpsOut.isPanic (compileOps x l deps ops) = false := by
  induction l generalizing deps ops with
  | nil => rfl
  | cons p rest ih =>
    obtain ⟨operand, s⟩ := p
    unfold compileOps
    split
    · rfl
    · have := parseMatch_no_panic x s
      cases hm : parseMatch x s with
      | panic => exact absurd hm this
      | err => rfl
      | ok m => simp only; exact ih _ _

/-- `Rule::compile_into` returns a compiled rule or an error for every rule value -/
theorem compileInto_no_panic (x : Ext) (r : Rule) : CompileOut.isPanic (compileInto x r) = false := by
  unfold compileInto
  simp only
  have hc : ∀ c, parseCond c ≠ .panic := C02.parseCond_no_panic
  cases hcond : r.condition with
  | none =>
    simp only
    split
    · rfl
    · have := compileOps_no_panic x (r.mats.getD []) [] []
      cases ho : compileOps x (r.mats.getD []) [] [] with
      | panic => rw [ho] at this; cases this
      | err => rfl
      | ok d o => rfl
  | some c =>
    simp only
    cases hp : parseCond c with
    | panic => exact absurd hp (hc c)
    | err => rfl
    | ok e =>
      simp only
      split
      · rfl
      · have := compileOps_no_panic x (r.mats.getD []) [] []
        cases ho : compileOps x (r.mats.getD []) [] [] with
        | panic => rw [ho] at this; cases this
        | err => rfl
        | ok d o => rfl

theorem compileLoop_no_panic (x : Ext) (rs : List Rule) (i : Nat) (names : List (Str × Nat))
    (compiled : List CompiledRule) : (compileLoop x rs i names compiled).2.2 ≠ some .panic := by
  induction rs generalizing i names compiled with
  | nil => intro h; cases h
  | cons r rest ih =>
    unfold compileLoop
    split
    · exact ih _ _ _
    · have := compileInto_no_panic x r
      cases hc : compileInto x r with
      | panic => rw [hc] at this; cases this
      | err => intro h; cases h
      | ok cr =>
        simp only
        split
        · intro h; cases h
        · exact ih _ _ _

/-- **C15 (compile).** `Compiler::compile` (hence `rules()`, `compiled()`) never panics, whatever was loaded -/
theorem C15_compile (x : Ext) (c : Compiler) : (Compiler.compile x c).2 ≠ some .panic := by
  unfold Compiler.compile
  split
  · intro h; cases h
  · exact compileLoop_no_panic x c.rules 0 c.names c.compiled

/-- `Compiler::load` and `load_templates` have no panic outcome at all -/
theorem C15_load (c : Compiler) (r : Rule) : Compiler.load c r ≠ .error .panic := by
  unfold Compiler.load
  split
  · intro h; cases h
  · split <;> (intro h; cases h)
theorem C15_load_templates (c : Compiler) (t : Tpls) : Compiler.loadTemplates c t ≠ .error .panic := by
  unfold Compiler.loadTemplates
  split <;> (intro h; cases h)

/-- an id list may hold `i64::MIN`: nothing is excluded by it and nothing overflows -/
theorem C15_exclude_min (ids : List Int) : i64Min ∈ ids → ∀ v ∈ excludeIds ids, v ≠ -i64Min ∨ (-v) ∈ ids ∧ v ≠ -i64Min := by
  intro _ v hv
  left
  unfold excludeIds at hv
  simp only [List.mem_filterMap, List.mem_filter] at hv
  obtain ⟨a, ⟨_, _⟩, h2⟩ := hv
  split at h2
  · cases h2
  · rename_i hne
    simp only [Option.some.injEq] at h2
    subst h2
    intro h
    have : a = i64Min := by omega
    simp [this] at hne

end Gene.Props.C15
