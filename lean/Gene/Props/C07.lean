import Gene.Engine
import Gene.Spec.Scan
/-! C07 — the scan result aggregates exactly the matching rules' metadata.

    `aggModel ms` is what `Engine::scan` builds from the list `ms` of matching candidates (detection or
    filter rules, in the order they are evaluated): `ScanResult::update` folded from `ScanResult::new()`,
    the result staying absent when nothing matched. The theorems characterise every field, show the `u8`
    addition never overflows, and that nothing depends on the order of `ms`. -/
set_option linter.unusedSimpArgs false
namespace Gene.Props.C07
open Gene M

/-- the fold performed by the candidate loop of `scan` (`None` = `u8` overflow panic) -/
def foldUpd (ms : List CompiledRule) (sr : ScanResult) : Option ScanResult :=
  ms.foldl (fun o r => o.bind (fun s => srUpdate s r)) (some sr)

def aggModel : List CompiledRule → Option (Option ScanResult)
  | [] => some none
  | r :: ms => (foldUpd (r :: ms) {}).map some

def isDet (r : CompiledRule) : Bool := !CompiledRule.isFilter r
def dets (ms : List CompiledRule) : List CompiledRule := ms.filter isDet

/-- compiled severities are capped (`bound_severity` in `compile_into`) -/
def SevOk (ms : List CompiledRule) : Prop := ∀ r ∈ ms, r.severity ≤ Gen.maxSeverity

theorem srUpdate_some (sr : ScanResult) (r : CompiledRule) (hs : sr.severity ≤ Gen.maxSeverity)
    (hr : r.severity ≤ Gen.maxSeverity) :
    ∃ sr', srUpdate sr r = some sr' ∧ sr'.severity ≤ Gen.maxSeverity ∧
      sr'.severity = (if isDet r then min (sr.severity + r.severity) Gen.maxSeverity else sr.severity) ∧
      sr'.rules = (if isDet r then r.name :: sr.rules else sr.rules) ∧
      (∀ t, t ∈ sr'.tags ↔ t ∈ sr.tags ∨ (isDet r = true ∧ t ∈ r.tags)) ∧
      (∀ t, t ∈ sr'.attack ↔ t ∈ sr.attack ∨ (isDet r = true ∧ t ∈ r.attack)) ∧
      (∀ t, t ∈ sr'.actions ↔ t ∈ sr.actions ∨ t ∈ r.actions) ∧
      sr'.filtered = (sr.filtered || CompiledRule.isFilter r) := by
  have hmax : Gen.maxSeverity = 10 := rfl
  unfold srUpdate isDet
  cases hf : CompiledRule.isFilter r with
  | true =>
    simp only [Bool.not_true, Bool.false_eq_true, if_false, Option.map_some]
    refine ⟨_, rfl, hs, rfl, rfl, ?_, ?_, ?_, by simp⟩
    · intro t; simp
    · intro t; simp
    · intro t
      by_cases he : r.actions.isEmpty = true
      · have : r.actions = [] := List.isEmpty_iff.mp he
        simp [he, this]
      · simp [he, List.mem_append, or_comm]
  | false =>
    have hno : ¬ (sr.severity + r.severity > 255) := by rw [hmax] at hs hr; omega
    simp only [Bool.not_false, if_true, hno, if_false, Option.map_some]
    refine ⟨_, rfl, ?_, rfl, rfl, ?_, ?_, ?_, by simp⟩
    · simp only [boundSeverity]; exact Nat.min_le_right _ _
    · intro t
      by_cases he : r.tags.isEmpty = true
      · have : r.tags = [] := List.isEmpty_iff.mp he
        simp [he, this]
      · simp [he, List.mem_append, or_comm]
    · intro t
      by_cases he : r.attack.isEmpty = true
      · have : r.attack = [] := List.isEmpty_iff.mp he
        simp [he, this]
      · simp [he, List.mem_append, or_comm]
    · intro t
      by_cases he : r.actions.isEmpty = true
      · have : r.actions = [] := List.isEmpty_iff.mp he
        simp [he, this]
      · simp [he, List.mem_append, or_comm]

/-- the fold, field by field, from any accumulated result -/
theorem foldUpd_spec : ∀ (ms : List CompiledRule) (sr : ScanResult), SevOk ms → sr.severity ≤ Gen.maxSeverity →
    ∃ out, foldUpd ms sr = some out ∧ out.severity ≤ Gen.maxSeverity ∧
      out.severity = min (sr.severity + ((dets ms).map (·.severity)).sum) Gen.maxSeverity ∧
      (∀ n, n ∈ out.rules ↔ n ∈ sr.rules ∨ ∃ r ∈ dets ms, r.name = n) ∧
      (∀ t, t ∈ out.tags ↔ t ∈ sr.tags ∨ ∃ r ∈ dets ms, t ∈ r.tags) ∧
      (∀ t, t ∈ out.attack ↔ t ∈ sr.attack ∨ ∃ r ∈ dets ms, t ∈ r.attack) ∧
      (∀ t, t ∈ out.actions ↔ t ∈ sr.actions ∨ ∃ r ∈ ms, t ∈ r.actions) ∧
      (out.filtered = true ↔ sr.filtered = true ∨ ∃ r ∈ ms, CompiledRule.isFilter r = true) := by
  intro ms
  induction ms with
  | nil =>
    intro sr _ hs
    have hmax : Gen.maxSeverity = 10 := rfl
    refine ⟨sr, rfl, hs, ?_, by simp [dets], by simp [dets], by simp [dets], by simp, by simp⟩
    simp [dets]; rw [hmax] at hs ⊢; omega
  | cons r ms ih =>
    intro sr hok hs
    have hr : r.severity ≤ Gen.maxSeverity := hok r (by simp)
    obtain ⟨sr1, h1, hs1, hsev1, hrules1, htags1, hatt1, hact1, hfil1⟩ := srUpdate_some sr r hs hr
    obtain ⟨out, ho, hos, hosev, horules, hotags, hoatt, hoact, hofil⟩ :=
      ih sr1 (fun q hq => hok q (by simp [hq])) hs1
    refine ⟨out, ?_, hos, ?_, ?_, ?_, ?_, ?_, ?_⟩
    · simp only [foldUpd, List.foldl_cons, Option.bind_some, h1]; exact ho
    · rw [hosev, hsev1]
      have hmax : Gen.maxSeverity = 10 := rfl
      by_cases hd : isDet r = true
      · have : dets (r :: ms) = r :: dets ms := by simp [dets, hd]
        simp only [hd, if_true, this, List.map_cons, List.sum_cons]
        rw [hmax]; omega
      · have : dets (r :: ms) = dets ms := by simp [dets, hd]
        simp only [hd, Bool.false_eq_true, if_false, this]
    · intro n
      rw [horules n, hrules1]
      by_cases hd : isDet r = true
      · have : dets (r :: ms) = r :: dets ms := by simp [dets, hd]
        simp only [hd, if_true, this, List.mem_cons]
        constructor
        · rintro ((rfl | h) | ⟨q, hq, rfl⟩)
          · exact Or.inr ⟨r, Or.inl rfl, rfl⟩
          · exact Or.inl h
          · exact Or.inr ⟨q, Or.inr hq, rfl⟩
        · rintro (h | ⟨q, (rfl | hq), rfl⟩)
          · exact Or.inl (Or.inr h)
          · exact Or.inl (Or.inl rfl)
          · exact Or.inr ⟨q, hq, rfl⟩
      · have : dets (r :: ms) = dets ms := by simp [dets, hd]
        simp only [hd, Bool.false_eq_true, if_false, this]
    · intro t
      rw [hotags t, htags1 t]
      by_cases hd : isDet r = true
      · have : dets (r :: ms) = r :: dets ms := by simp [dets, hd]
        simp only [hd, true_and, this, List.mem_cons]
        constructor
        · rintro ((h | h) | ⟨q, hq, ht⟩)
          · exact Or.inl h
          · exact Or.inr ⟨r, Or.inl rfl, h⟩
          · exact Or.inr ⟨q, Or.inr hq, ht⟩
        · rintro (h | ⟨q, (rfl | hq), ht⟩)
          · exact Or.inl (Or.inl h)
          · exact Or.inl (Or.inr ht)
          · exact Or.inr ⟨q, hq, ht⟩
      · have : dets (r :: ms) = dets ms := by simp [dets, hd]
        simp only [hd, Bool.false_eq_true, false_and, or_false, this]
    · intro t
      rw [hoatt t, hatt1 t]
      by_cases hd : isDet r = true
      · have : dets (r :: ms) = r :: dets ms := by simp [dets, hd]
        simp only [hd, true_and, this, List.mem_cons]
        constructor
        · rintro ((h | h) | ⟨q, hq, ht⟩)
          · exact Or.inl h
          · exact Or.inr ⟨r, Or.inl rfl, h⟩
          · exact Or.inr ⟨q, Or.inr hq, ht⟩
        · rintro (h | ⟨q, (rfl | hq), ht⟩)
          · exact Or.inl (Or.inl h)
          · exact Or.inl (Or.inr ht)
          · exact Or.inr ⟨q, hq, ht⟩
      · have : dets (r :: ms) = dets ms := by simp [dets, hd]
        simp only [hd, Bool.false_eq_true, false_and, or_false, this]
    · intro t
      rw [hoact t, hact1 t]
      simp only [List.mem_cons]
      constructor
      · rintro ((h | h) | ⟨q, hq, ht⟩)
        · exact Or.inl h
        · exact Or.inr ⟨r, Or.inl rfl, h⟩
        · exact Or.inr ⟨q, Or.inr hq, ht⟩
      · rintro (h | ⟨q, (rfl | hq), ht⟩)
        · exact Or.inl (Or.inl h)
        · exact Or.inl (Or.inr ht)
        · exact Or.inr ⟨q, hq, ht⟩
    · rw [hofil, hfil1]
      simp only [List.mem_cons, Bool.or_eq_true]
      constructor
      · rintro ((h | h) | ⟨q, hq, hf⟩)
        · exact Or.inl h
        · exact Or.inr ⟨r, Or.inl rfl, h⟩
        · exact Or.inr ⟨q, Or.inr hq, hf⟩
      · rintro (h | ⟨q, (rfl | hq), hf⟩)
        · exact Or.inl (Or.inl h)
        · exact Or.inl (Or.inr hf)
        · exact Or.inr ⟨q, hq, hf⟩

/-- **C07.** For the list `ms` of matching detection / filter rules (severities capped at compile time):
    the result is absent exactly when nothing matched; otherwise names, tags and ATT&CK ids are the unions
    over the matching detection rules only, actions the union over all matching rules, `filtered` is set
    exactly when a filter rule matched, severity is the capped sum of the detections' (capped) severities;
    the `u8` addition never overflows. -/
theorem C07_aggregate (ms : List CompiledRule) (hok : SevOk ms) :
    ∃ res, aggModel ms = some res ∧ (res = none ↔ ms = []) ∧
      ∀ out, res = some out →
        out.severity = min (((dets ms).map (·.severity)).sum) Gen.maxSeverity ∧
        (∀ n, n ∈ out.rules ↔ ∃ r ∈ dets ms, r.name = n) ∧
        (∀ t, t ∈ out.tags ↔ ∃ r ∈ dets ms, t ∈ r.tags) ∧
        (∀ t, t ∈ out.attack ↔ ∃ r ∈ dets ms, t ∈ r.attack) ∧
        (∀ t, t ∈ out.actions ↔ ∃ r ∈ ms, t ∈ r.actions) ∧
        (out.filtered = true ↔ ∃ r ∈ ms, CompiledRule.isFilter r = true) := by
  cases ms with
  | nil => exact ⟨none, rfl, by simp, by intro out h; cases h⟩
  | cons r ms =>
    obtain ⟨out, ho, _, hsev, hrules, htags, hatt, hact, hfil⟩ :=
      foldUpd_spec (r :: ms) {} hok (by show (0 : Nat) ≤ Gen.maxSeverity; exact Nat.zero_le _)
    refine ⟨some out, by simp [aggModel, ho], by simp, ?_⟩
    intro out' h'
    simp only [Option.some.injEq] at h'; subst h'
    refine ⟨by simpa using hsev, ?_, ?_, ?_, ?_, ?_⟩
    · intro n; simpa using hrules n
    · intro t; simpa using htags t
    · intro t; simpa using hatt t
    · intro t; simpa using hact t
    · simpa using hfil

/-- the aggregate does not depend on the order in which the matching rules are visited -/
theorem C07_order_free (ms ms' : List CompiledRule) (hp : ms.Perm ms') (hok : SevOk ms) :
    ∀ out out', aggModel ms = some (some out) → aggModel ms' = some (some out') →
      out.severity = out'.severity ∧ out.filtered = out'.filtered ∧
      (∀ n, n ∈ out.rules ↔ n ∈ out'.rules) ∧ (∀ t, t ∈ out.tags ↔ t ∈ out'.tags) ∧
      (∀ t, t ∈ out.attack ↔ t ∈ out'.attack) ∧ (∀ t, t ∈ out.actions ↔ t ∈ out'.actions) := by
  intro out out' h h'
  have hok' : SevOk ms' := fun r hr => hok r (hp.mem_iff.mpr hr)
  obtain ⟨res, hr, _, hspec⟩ := C07_aggregate ms hok
  obtain ⟨res', hr', _, hspec'⟩ := C07_aggregate ms' hok'
  rw [h] at hr; rw [h'] at hr'
  simp only [Option.some.injEq] at hr hr'
  obtain ⟨s1, r1, t1, a1, c1, f1⟩ := hspec out hr.symm
  obtain ⟨s2, r2, t2, a2, c2, f2⟩ := hspec' out' hr'.symm
  have hd : (dets ms).Perm (dets ms') := hp.filter _
  refine ⟨?_, ?_, ?_, ?_, ?_, ?_⟩
  · rw [s1, s2, (hd.map _).sum_nat]
  · have : (out.filtered = true ↔ out'.filtered = true) := by
      rw [f1, f2]; exact ⟨fun ⟨r, hr, hf⟩ => ⟨r, hp.mem_iff.mp hr, hf⟩, fun ⟨r, hr, hf⟩ => ⟨r, hp.mem_iff.mpr hr, hf⟩⟩
    cases ho : out.filtered <;> cases ho' : out'.filtered <;> simp_all
  · intro n; rw [r1, r2]
    exact ⟨fun ⟨r, hr, hn⟩ => ⟨r, hd.mem_iff.mp hr, hn⟩, fun ⟨r, hr, hn⟩ => ⟨r, hd.mem_iff.mpr hr, hn⟩⟩
  · intro t; rw [t1, t2]
    exact ⟨fun ⟨r, hr, hn⟩ => ⟨r, hd.mem_iff.mp hr, hn⟩, fun ⟨r, hr, hn⟩ => ⟨r, hd.mem_iff.mpr hr, hn⟩⟩
  · intro t; rw [a1, a2]
    exact ⟨fun ⟨r, hr, hn⟩ => ⟨r, hd.mem_iff.mp hr, hn⟩, fun ⟨r, hr, hn⟩ => ⟨r, hd.mem_iff.mpr hr, hn⟩⟩
  · intro t; rw [c1, c2]
    exact ⟨fun ⟨r, hr, hn⟩ => ⟨r, hp.mem_iff.mp hr, hn⟩, fun ⟨r, hr, hn⟩ => ⟨r, hp.mem_iff.mpr hr, hn⟩⟩

/-- the cap of the statement is 10: the generated `MAX_SEVERITY` must be that constant -/
theorem C07_cap_is_10 : Gen.maxSeverity = 10 := rfl

/-- compiled severities are capped, compiled ATT&CK ids upper-cased -/
theorem C07_compile_caps (x : Ext) (r : Rule) (cr : CompiledRule) (h : compileInto x r = .ok cr) :
    cr.severity = min (r.severity.getD 0) 10 := by
  unfold compileInto at h
  simp only at h
  split at h
  · cases h
  · cases h
  · split at h
    · cases h
    · split at h
      · cases h
      · cases h
      · simp only [CompileOut.ok.injEq] at h; rw [← h]; rfl

end Gene.Props.C07
