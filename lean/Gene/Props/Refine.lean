import Gene.Props.C03
import Gene.Props.C11
import Gene.Spec.Scan
/-! Refinement of the readable specification (`Gene/Spec/Scan.lean`) by the model — part 1: conditions.

    `S.evalForm` evaluates a formula tree over *structured* operands visited in name order (insertion sort
    of whatever order the rule lists them in); `M.evalExpr` evaluates the parsed `Expr` over the compiled
    operand map. Given that the two operand lists correspond (same names in the same order, same value for
    each operand on the event at hand — `OpsRel`) and that the formula and the expression correspond
    (`CondRel`), both evaluations agree, errors included. -/
set_option linter.unusedSimpArgs false
namespace Gene.Props.Refine
open Gene M
open Gene.Props.C03 (resOf)

/-- pointwise relation between two lists (core has no `Forall₂`) -/
inductive Rel2 {α β : Type} (R : α → β → Prop) : List α → List β → Prop
  | nil : Rel2 R [] []
  | cons {a b l l'} : R a b → Rel2 R l l' → Rel2 R (a :: l) (b :: l')

theorem Rel2.filter {α β : Type} {R : α → β → Prop} (p : α → Bool) (q : β → Bool)
    (hpq : ∀ a b, R a b → p a = q b) : ∀ {l l'}, Rel2 R l l' → Rel2 R (l.filter p) (l'.filter q)
  | _, _, .nil => .nil
  | _, _, .cons (a := a) (b := b) h t => by
    simp only [List.filter_cons, hpq a b h]
    split
    · exact .cons h (Rel2.filter p q hpq t)
    · exact Rel2.filter p q hpq t

section cond
variable (x : Ext) (ev : Event) (states : List (Str × Bool)) (val : S.Operand → S.Res)

/-- a compiled operand and a structured operand that have the same name and the same value on the event -/
def OpR (so : Str × S.Operand) (mo : Str × Match) : Prop :=
  so.1 = mo.1 ∧ resOf (matchEvent x ev states mo.2) = val so.2

theorem allLoop_ref : ∀ {sl : List (Str × S.Operand)} {ml : List (Str × Match)}, Rel2 (OpR x ev states val) sl ml →
    resOf (allLoop x ev states (ml.map Prod.snd)) = S.allL val (sl.map Prod.snd)
  | _, _, .nil => rfl
  | _, _, .cons (a := a) (b := b) h t => by
    simp only [List.map_cons, allLoop, S.allL]
    rw [← h.2]
    cases hm : matchEvent x ev states b.2 with
    | error e => rfl
    | ok v => cases v with
      | false => rfl
      | true => exact allLoop_ref t

theorem anyLoop_ref : ∀ {sl : List (Str × S.Operand)} {ml : List (Str × Match)}, Rel2 (OpR x ev states val) sl ml →
    resOf (anyLoop x ev states (ml.map Prod.snd)) = S.anyL val (sl.map Prod.snd)
  | _, _, .nil => rfl
  | _, _, .cons (a := a) (b := b) h t => by
    simp only [List.map_cons, anyLoop, S.anyL]
    rw [← h.2]
    cases hm : matchEvent x ev states b.2 with
    | error e => rfl
    | ok v => cases v with
      | true => rfl
      | false => exact anyLoop_ref t

theorem noneLoop_ref : ∀ {sl : List (Str × S.Operand)} {ml : List (Str × Match)}, Rel2 (OpR x ev states val) sl ml →
    resOf (noneLoop x ev states (ml.map Prod.snd)) = S.notR (S.anyL val (sl.map Prod.snd))
  | _, _, .nil => rfl
  | _, _, .cons (a := a) (b := b) h t => by
    simp only [List.map_cons, noneLoop, S.anyL]
    rw [← h.2]
    cases hm : matchEvent x ev states b.2 with
    | error e => rfl
    | ok v => cases v with
      | true => rfl
      | false => exact noneLoop_ref t

/-- `nLoop n c` with `c < n` still needs `n - c` true operands -/
theorem nLoop_ref (n : Nat) : ∀ {sl : List (Str × S.Operand)} {ml : List (Str × Match)}, Rel2 (OpR x ev states val) sl ml →
    ∀ c, c < n → resOf (nLoop x ev states n c (ml.map Prod.snd)) = S.atLeastL val (n - c) (sl.map Prod.snd)
  | _, _, .nil => by
    intro c hc
    have : ¬ n ≤ c := by omega
    obtain ⟨k, hk⟩ : ∃ k, n - c = k + 1 := ⟨n - c - 1, by omega⟩
    simp only [List.map_nil, nLoop, this, decide_false, hk, S.atLeastL, resOf]
  | _, _, .cons (a := a) (b := b) h t => by
    intro c hc
    obtain ⟨k, hk⟩ : ∃ k, n - c = k + 1 := ⟨n - c - 1, by omega⟩
    simp only [List.map_cons, nLoop, hk, S.atLeastL]
    rw [← h.2]
    cases hm : matchEvent x ev states b.2 with
    | error e => rfl
    | ok v => cases v with
      | false =>
        simp only [resOf]
        have := nLoop_ref n t c hc
        rw [hk] at this; exact this
      | true =>
        simp only [resOf]
        by_cases hle : n ≤ c + 1
        · have hk0 : k = 0 := by omega
          subst hk0
          simp only [hle, if_true, resOf]
          cases (List.map Prod.snd _ : List S.Operand) <;> rfl
        · simp only [hle, if_false]
          have := nLoop_ref n t (c + 1) (by omega)
          have hk' : n - (c + 1) = k := by omega
          rw [hk'] at this; exact this

end cond


/-! ### the order quantifiers visit operands in -/
theorem insertByName_perm (p : Str × S.Operand) : ∀ l, (S.insertByName p l).Perm (p :: l)
  | [] => List.Perm.refl _
  | q :: r => by
    simp only [S.insertByName]
    split
    · exact List.Perm.refl _
    · exact ((insertByName_perm p r).cons q).trans (List.Perm.swap p q r)

theorem sortByName_perm : ∀ l : List (Str × S.Operand), (S.sortByName l).Perm l
  | [] => List.Perm.refl _
  | p :: l => by
    show (S.insertByName p (S.sortByName l)).Perm (p :: l)
    exact (insertByName_perm p _).trans ((sortByName_perm l).cons p)

theorem rel2_lookup {x : Ext} {ev : Event} {states : List (Str × Bool)} {val : S.Operand → S.Res} :
    ∀ {sl : List (Str × S.Operand)} {ml : List (Str × Match)}, Rel2 (OpR x ev states val) sl ml → ∀ n,
    (sl.lookup n = Option.none ∧ ml.lookup n = Option.none) ∨
    ∃ o m, sl.lookup n = Option.some o ∧ ml.lookup n = Option.some m ∧ resOf (matchEvent x ev states m) = val o
  | _, _, .nil => fun n => Or.inl ⟨rfl, rfl⟩
  | _, _, .cons (a := a) (b := b) h t => by
    intro n
    obtain ⟨an, ao⟩ := a
    obtain ⟨bn, bm⟩ := b
    obtain ⟨h1, h2⟩ := h
    simp only at h1 h2
    subst h1
    simp only [List.lookup_cons]
    cases hb : n == an with
    | true => exact Or.inr ⟨ao, bm, rfl, rfl, h2⟩
    | false => exact rel2_lookup t n

/-- correspondence between formula trees and parsed expressions (`0 of …` is parsed to `none of …`) -/
inductive CondRel : S.Form → Expr → Prop
  | tt : CondRel .tt .none
  | opd (n : Str) : CondRel (.opd n) (.var n)
  | not {f e} : CondRel f e → CondRel (.not f) (.neg e)
  | and {f g e e'} : CondRel f e → CondRel g e' → CondRel (.and f g) (.binop e .and e')
  | or {f g e e'} : CondRel f e → CondRel g e' → CondRel (.or f g) (.binop e .or e')
  | allThem : CondRel (.allOf Option.none) .allOfThem
  | allVars (p : Str) : CondRel (.allOf (Option.some p)) (.allOfVars p)
  | anyThem : CondRel (.anyOf Option.none) .anyOfThem
  | anyVars (p : Str) : CondRel (.anyOf (Option.some p)) (.anyOfVars p)
  | noneThem : CondRel (.noneOf Option.none) .noneOfThem
  | noneVars (p : Str) : CondRel (.noneOf (Option.some p)) (.noneOfVars p)
  | zeroThem : CondRel (.nOf 0 Option.none) .noneOfThem
  | zeroVars (p : Str) : CondRel (.nOf 0 (Option.some p)) (.noneOfVars p)
  | nThem (n : Nat) : CondRel (.nOf (n + 1) Option.none) (.nOfThem (n + 1))
  | nVars (n : Nat) (p : Str) : CondRel (.nOf (n + 1) (Option.some p)) (.nOfVars (n + 1) p)

section evalform
variable (x : Ext) (ev : Event) (states : List (Str × Bool)) (val : S.Operand → S.Res)
variable (sops : List (Str × S.Operand)) (mops : List (Str × Match))
variable (hnd : (sops.map Prod.fst).Nodup) (hrel : Rel2 (OpR x ev states val) (S.sortByName sops) mops)
include hnd hrel

omit hnd hrel in
theorem selected_none : S.selected sops Option.none = (S.sortByName sops).map Prod.snd := by
  unfold S.selected
  rw [List.filter_eq_self.mpr (fun _ _ => rfl)]

omit hnd in
theorem vars_ref (p : Str) :
    Rel2 (OpR x ev states val) ((S.sortByName sops).filter (fun o => startsWith o.1 p)) (mops.filter (fun o => startsWith o.1 p)) :=
  Rel2.filter _ _ (fun a b h => by rw [h.1]) hrel

omit hnd hrel in
theorem selectOps_eq (p : Str) : selectOps mops p = (mops.filter (fun o => startsWith o.1 p)).map Prod.snd := rfl

omit hnd hrel in
theorem selected_some (p : Str) :
    S.selected sops (Option.some p) = ((S.sortByName sops).filter (fun o => startsWith o.1 p)).map Prod.snd := rfl

/-- **conditions: the model's evaluation is the specification's**, value and error alike -/
theorem evalExpr_evalForm : ∀ {f : S.Form} {e : Expr}, CondRel f e →
    resOf (evalExpr x ev states mops e) = S.evalForm sops val f := by
  intro f e h
  induction h with
  | tt => rfl
  | opd n =>
    simp only [evalExpr, S.evalForm]
    have hl : (S.sortByName sops).lookup n = sops.lookup n :=
      C11.perm_lookup (sortByName_perm sops) (by
        have := (sortByName_perm sops).map Prod.fst
        exact (this.nodup_iff).mpr hnd) n
    rcases rel2_lookup hrel n with ⟨h1, h2⟩ | ⟨o, m, h1, h2, h3⟩
    · rw [h2, ← hl, h1]; rfl
    · rw [h2, ← hl, h1]; exact h3
  | not _ ih =>
    simp only [evalExpr, S.evalForm, ← ih]
    cases evalExpr x ev states mops _ with
    | error e => rfl
    | ok b => rfl
  | and _ _ ih1 ih2 =>
    simp only [evalExpr, S.evalForm, ← ih1, ← ih2]
    cases evalExpr x ev states mops _ with
    | error e => rfl
    | ok b => cases b <;> rfl
  | or _ _ ih1 ih2 =>
    simp only [evalExpr, S.evalForm, ← ih1, ← ih2]
    cases evalExpr x ev states mops _ with
    | error e => rfl
    | ok b => cases b <;> rfl
  | allThem => simp only [evalExpr, S.evalForm]; rw [selected_none]; exact allLoop_ref x ev states val hrel
  | allVars p =>
    simp only [evalExpr, S.evalForm, selected_some, selectOps_eq]
    exact allLoop_ref x ev states val (vars_ref x ev states val sops mops hrel p)
  | anyThem => simp only [evalExpr, S.evalForm]; rw [selected_none]; exact anyLoop_ref x ev states val hrel
  | anyVars p =>
    simp only [evalExpr, S.evalForm, selected_some, selectOps_eq]
    exact anyLoop_ref x ev states val (vars_ref x ev states val sops mops hrel p)
  | noneThem => simp only [evalExpr, S.evalForm]; rw [selected_none]; exact noneLoop_ref x ev states val hrel
  | noneVars p =>
    simp only [evalExpr, S.evalForm, selected_some, selectOps_eq]
    exact noneLoop_ref x ev states val (vars_ref x ev states val sops mops hrel p)
  | zeroThem => simp only [evalExpr, S.evalForm]; rw [selected_none]; exact noneLoop_ref x ev states val hrel
  | zeroVars p =>
    simp only [evalExpr, S.evalForm, selected_some, selectOps_eq]
    exact noneLoop_ref x ev states val (vars_ref x ev states val sops mops hrel p)
  | nThem n =>
    simp only [evalExpr, S.evalForm]; rw [selected_none]
    exact nLoop_ref x ev states val (n + 1) hrel 0 (by omega)
  | nVars n p =>
    simp only [evalExpr, S.evalForm, selected_some, selectOps_eq]
    exact nLoop_ref x ev states val (n + 1) (vars_ref x ev states val sops mops hrel p) 0 (by omega)

end evalform

end Gene.Props.Refine
