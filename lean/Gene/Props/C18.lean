import Gene.Path
/-! C18 — a field path denotes exactly the segment sequence it spells. -/
set_option linter.unusedSimpArgs false
namespace Gene.Props.C18
open Gene M

theorem span_append (p : Char → Bool) (t r : Str) (ht : ∀ c ∈ t, p c = true)
    (hr : r = [] ∨ ∃ c r', r = c :: r' ∧ p c = false) : spanP p (t ++ r) = (t, r) := by
  induction t with
  | nil =>
    rcases hr with rfl | ⟨c, r', rfl, hc⟩
    · rfl
    · simp [spanP, hc]
  | cons a t ih =>
    have ha : p a = true := ht a (by simp)
    have := ih (fun c hc => ht c (by simp [hc]))
    simp [spanP, ha, this]

theorem quote_not_segws : isSegWs '"' = false := by decide
theorem dot_not_seg : isSeg '.' = false := by decide
theorem quote_not_seg : isSeg '"' = false := by decide

theorem piece_sound {s : Str} {g : Seg} {r : Str} (h : piece s = some (g, r)) :
    g.wf ∧ s = g.render ++ r := by
  unfold piece at h
  split at h
  · rename_i r0
    have sp1 := spanP_append isSegWs r0
    have sp2 := spanP_all isSegWs r0
    split at h
    · rename_i a t r' heq
      simp only [Option.some.injEq, Prod.mk.injEq] at h
      obtain ⟨rfl, rfl⟩ := h
      rw [heq] at sp1 sp2
      refine ⟨⟨by simp, sp2⟩, ?_⟩
      simp only [Seg.render]
      rw [← sp1]; simp
    · cases h
  · rename_i r0 hnq
    have sp1 := spanP_append isSeg r0
    have sp2 := spanP_all isSeg r0
    split at h
    · rename_i a t r' heq
      simp only [Option.some.injEq, Prod.mk.injEq] at h
      obtain ⟨rfl, rfl⟩ := h
      rw [heq] at sp1 sp2
      refine ⟨⟨by simp, sp2⟩, ?_⟩
      simp only [Seg.render]
      rw [← sp1]; simp
    · cases h
  · cases h

/-- what may follow a rendered piece: the end, or the next separator -/
def Follow (r : Str) : Prop := r = [] ∨ ∃ r', r = '.' :: r'

theorem piece_complete (g : Seg) (r : Str) (hg : g.wf) (hr : Follow r) :
    piece (g.render ++ r) = some (g, r) := by
  cases g with
  | plain t =>
    obtain ⟨hne, hall⟩ := hg
    have hsp : spanP isSeg (t ++ r) = (t, r) := by
      apply span_append _ _ _ hall
      rcases hr with rfl | ⟨r', rfl⟩
      · left; rfl
      · right; exact ⟨'.', r', rfl, dot_not_seg⟩
    cases t with
    | nil => exact absurd rfl hne
    | cons a t' =>
      have ha : isSeg a = true := hall a (by simp)
      have hq : a ≠ '"' := by intro h; subst h; rw [quote_not_seg] at ha; cases ha
      simp only [Seg.render, List.cons_append]
      unfold piece
      split
      · rename_i heq; simp at heq; exact absurd heq.1 hq
      · rename_i r0 _ heq
        simp only [List.cons.injEq, true_and] at heq
        subst heq
        have : spanP isSeg (a :: (t' ++ r)) = (a :: t', r) := by simpa using hsp
        simp [this]
      · rename_i h1 h2; exact absurd rfl (h2 _)
  | quoted t =>
    obtain ⟨hne, hall⟩ := hg
    have hsp : spanP isSegWs (t ++ '"' :: r) = (t, '"' :: r) :=
      span_append _ _ _ hall (Or.inr ⟨'"', r, rfl, quote_not_segws⟩)
    cases t with
    | nil => exact absurd rfl hne
    | cons a t' =>
      simp only [Seg.render, List.cons_append, List.append_assoc, List.nil_append]
      unfold piece
      have : spanP isSegWs (a :: (t' ++ '"' :: r)) = (a :: t', '"' :: r) := by simpa using hsp
      simp [this]

theorem render_follow (gs : List Seg) : Follow (gs.flatMap Seg.render) := by
  cases gs with
  | nil => left; rfl
  | cons g gs => right; cases g <;> simp [Seg.render]

theorem piece_length {s : Str} {g : Seg} {r : Str} (h : piece s = some (g, r)) :
    r.length < s.length := by
  have := (piece_sound h).2
  subst this
  cases g <;> simp [Seg.render] <;> omega

theorem pieces_sound : ∀ (f : Nat) (s : Str) (gs : List Seg) (r : Str),
    pieces f s = (gs, r) → (∀ g ∈ gs, g.wf) ∧ s = gs.flatMap Seg.render ++ r := by
  intro f
  induction f with
  | zero => intro s gs r h; simp [pieces] at h; obtain ⟨rfl, rfl⟩ := h; simp
  | succ f ih =>
    intro s gs r h
    unfold pieces at h
    split at h
    · simp at h; obtain ⟨rfl, rfl⟩ := h; simp
    · rename_i g r0 hp
      have ps := piece_sound hp
      simp only [Prod.mk.injEq] at h
      obtain ⟨rfl, rfl⟩ := h
      have := ih r0 (pieces f r0).1 (pieces f r0).2 rfl
      refine ⟨?_, ?_⟩
      · intro g' hg'; rcases List.mem_cons.mp hg' with rfl | h'
        · exact ps.1
        · exact this.1 g' h'
      · rw [ps.2]; conv => lhs; rw [this.2]
        simp [List.append_assoc]

theorem pieces_complete : ∀ (gs : List Seg) (f : Nat), gs.length < f → (∀ g ∈ gs, g.wf) →
    pieces f (gs.flatMap Seg.render) = (gs, []) := by
  intro gs
  induction gs with
  | nil => intro f hf _; cases f with | zero => omega | succ f => simp [pieces, piece]
  | cons g gs ih =>
    intro f hf hwf
    cases f with
    | zero => omega
    | succ f =>
      have hp : piece (g.render ++ gs.flatMap Seg.render) = some (g, gs.flatMap Seg.render) :=
        piece_complete g _ (hwf g (by simp)) (render_follow gs)
      have hm := ih f (by simp at hf; omega) (fun g' hg' => hwf g' (by simp [hg']))
      simp [pieces, hp, hm]

theorem render_length (l : List Seg) : l.length ≤ (l.flatMap Seg.render).length := by
  induction l with
  | nil => simp
  | cons g l ih =>
    rw [List.flatMap_cons, List.length_append, List.length_cons]
    have : 1 ≤ g.render.length := by cases g <;> simp [Seg.render]
    omega

/-- the parsed language: sound and complete for the declarative path language -/
theorem parsePath_iff (s : Str) (gs : List Seg) :
    parsePath s = some gs ↔ gs ≠ [] ∧ (∀ g ∈ gs, g.wf) ∧ s = gs.flatMap Seg.render := by
  constructor
  · intro h
    unfold parsePath fieldPath at h
    generalize hm : pieces (s.length + 1) s = res at h
    obtain ⟨l, r⟩ := res
    cases l with
    | nil => simp at h
    | cons g l =>
      cases r with
      | cons _ _ => simp at h
      | nil =>
        simp only [Option.some.injEq] at h
        subst h
        have := pieces_sound _ _ _ _ hm
        exact ⟨by simp, this.1, by simpa using this.2⟩
  · rintro ⟨hne, hwf, rfl⟩
    have hlen : gs.length < (gs.flatMap Seg.render).length + 1 := by
      have := render_length gs; omega
    have hm := pieces_complete gs _ hlen hwf
    unfold parsePath fieldPath
    rw [hm]
    cases gs with
    | nil => exact absurd rfl hne
    | cons g gs => rfl

/-- C18 (1): a path string is either rejected or parsed completely into the segments it spells; the
    original text is preserved. Soundness and completeness in one statement. -/
theorem C18_parse (s : Str) (p : XPath) :
    XPath.parse s = some p ↔
      ∃ gs, gs ≠ [] ∧ (∀ g ∈ gs, g.wf) ∧ s = gs.flatMap Seg.render ∧
            p.path = s ∧ p.segments = gs.map Seg.text := by
  unfold XPath.parse
  constructor
  · intro h
    cases hp : parsePath s with
    | none => rw [hp] at h; cases h
    | some gs =>
      rw [hp] at h
      simp only [Option.map_some, Option.some.injEq] at h
      subst h
      obtain ⟨a, b, c⟩ := (parsePath_iff s gs).mp hp
      exact ⟨gs, a, b, c, rfl, rfl⟩
  · rintro ⟨gs, a, b, c, d, e⟩
    rw [(parsePath_iff s gs).mpr ⟨a, b, c⟩]
    simp only [Option.map_some, Option.some.injEq]
    cases p; simp_all

theorem revEq_iff (a b : Str) : revEq a b = true ↔ a = b := by
  induction a generalizing b with
  | nil => cases b <;> simp [revEq]
  | cons x xs ih =>
    cases b with
    | nil => simp [revEq]
    | cons y ys => simp [revEq, ih]

/-- C18 (2): two paths are equal exactly when their texts are equal -/
theorem C18_eq (p q : XPath) : XPath.eq p q = true ↔ p.path = q.path := by
  unfold XPath.eq
  constructor
  · intro h
    split at h
    · cases h
    · exact List.reverse_inj.mp ((revEq_iff _ _).mp h)
  · intro h
    rw [h]
    simp [(revEq_iff _ _).mpr rfl]

/-- C18 (3): equal paths hash equally (the hash is fed `path` only) -/
theorem C18_hash (p q : XPath) (h : XPath.eq p q = true) : p.hashKey = q.hashKey :=
  (C18_eq p q).mp h

theorem isSegWs_ascii (c : Char) (h : isSegWs c = true) : c.toNat < 128 := by
  by_cases e1 : c = '_'
  · subst e1; decide
  by_cases e2 : c = '-'
  · subst e2; decide
  by_cases e3 : c = ' '
  · subst e3; decide
  by_cases e4 : c = '.'
  · subst e4; decide
  simp only [isSegWs, isSeg, isAsciiAlnum, isAsciiAlpha, isAsciiDigit, Bool.or_eq_true, Bool.and_eq_true,
    decide_eq_true_eq, beq_iff_eq, e1, e2, e3, e4, or_false] at h
  have : 'z'.toNat = 122 := by decide
  have : 'Z'.toNat = 90 := by decide
  have : '9'.toNat = 57 := by decide
  omega

/-- a parsed path is ASCII, so the byte-wise comparison of the Rust code is character-wise -/
theorem C18_ascii (s : Str) (p : XPath) (h : XPath.parse s = some p) : ∀ c ∈ p.path, c.toNat < 128 := by
  obtain ⟨gs, _, hwf, hs, hp, _⟩ := (C18_parse s p).mp h
  rw [hp, hs]
  intro c hc
  obtain ⟨g, hg, hcg⟩ := List.mem_flatMap.mp hc
  have := hwf g hg
  cases g with
  | plain t =>
    simp only [Seg.render, List.mem_cons] at hcg
    rcases hcg with rfl | hcg
    · decide
    · exact isSegWs_ascii c (by simp [isSegWs, this.2 c hcg])
  | quoted t =>
    simp only [Seg.render, List.mem_cons, List.mem_append, List.not_mem_nil, or_false] at hcg
    rcases hcg with rfl | rfl | hcg | rfl
    · decide
    · decide
    · exact isSegWs_ascii c (this.2 c hcg)
    · decide

/-- C15 (`XPath::from_str(field_path.as_str()).unwrap()` in `DirectMatch::from_str`): whatever span the
    un-anchored `field_path` rule matched inside a match string re-parses, to the same segments -/
theorem matched_span_reparses (s : Str) (gs : List Seg) (r : Str) (h : fieldPath s = some (gs, r)) :
    s = gs.flatMap Seg.render ++ r ∧ parsePath (gs.flatMap Seg.render) = some gs := by
  unfold fieldPath at h
  generalize hm : pieces (s.length + 1) s = res at h
  obtain ⟨l, r'⟩ := res
  cases l with
  | nil => simp at h
  | cons g l =>
    simp only [Option.some.injEq, Prod.mk.injEq] at h
    obtain ⟨rfl, rfl⟩ := h
    have ms := pieces_sound _ s (g :: l) r' hm
    exact ⟨ms.2, (parsePath_iff _ _).mpr ⟨by simp, ms.1, rfl⟩⟩

-- non-vacuity
example : XPath.parse ".a.\"b c\".d".toList =
    some { path := ".a.\"b c\".d".toList, segments := [['a'], "b c".toList, ['d']] } := by decide
example : XPath.parse ".a.b garbage".toList = none := by decide
example : XPath.parse ".a..b".toList = none := by decide
example : XPath.parse ".a.\"b".toList = none := by decide

end Gene.Props.C18
