import Gene.F64Parse
/-! `f64::from_str` on decimal texts, proved: the value returned is a finite binary64 value nearest to the decimal's
    exact rational value (no representable value is closer), infinity only at or above the IEEE overflow threshold,
    and the two shortcuts of the executable definition (huge and tiny exponents) do not change any result. Ties go
    to the even significand by construction of `roundHE` (`roundHE_tie_even`). -/
namespace Gene.Props.F64Parse
open Gene Gene.M


/-- distance between two naturals -/
def adist (a b : Nat) : Nat := if a ≤ b then b - a else a - b

theorem adist_comm (a b : Nat) : adist a b = adist b a := by unfold adist; split <;> split <;> omega

/-- `roundHE p q` is a nearest integer to `p / q`: no multiple of `q` is closer to `p` -/
theorem roundHE_nearest (p q : Nat) (hq : 0 < q) (n : Nat) :
    adist p (roundHE p q * q) ≤ adist p (n * q) := by
  have hdm : q * (p / q) + p % q = p := Nat.div_add_mod p q
  have hr : p % q < q := Nat.mod_lt _ hq
  have hcomm : q * (p / q) = p / q * q := Nat.mul_comm _ _
  -- multiples of q below and above
  have hlow : n ≤ p / q → n * q ≤ p / q * q := fun h => Nat.mul_le_mul_right q h
  have hhigh : p / q + 1 ≤ n → (p / q + 1) * q ≤ n * q := fun h => Nat.mul_le_mul_right q h
  have hsucc : (p / q + 1) * q = p / q * q + q := by rw [Nat.add_mul, Nat.one_mul]
  unfold roundHE adist
  simp only
  by_cases hn : n ≤ p / q
  · have := hlow hn
    repeat' split
    all_goals omega
  · have := hhigh (by omega)
    repeat' split
    all_goals omega

/-- and it is within half a step -/
theorem roundHE_half (p q : Nat) (hq : 0 < q) : 2 * adist p (roundHE p q * q) ≤ q := by
  have hdm : q * (p / q) + p % q = p := Nat.div_add_mod p q
  have hr : p % q < q := Nat.mod_lt _ hq
  have hcomm : q * (p / q) = p / q * q := Nat.mul_comm _ _
  have hsucc : (p / q + 1) * q = p / q * q + q := by rw [Nat.add_mul, Nat.one_mul]
  unfold roundHE adist
  simp only
  repeat' split
  all_goals omega




theorem scaleOf_lt (p q : Nat) : p / (q * 2 ^ scaleOf p q) < 2 ^ 53 := by
  rw [← Nat.div_div_eq_div_mul]
  unfold scaleOf
  by_cases hx : p / q = 0
  · rw [hx]; simp
  · have h1 : p / q < 2 ^ ((p / q).log2 + 1) := Nat.lt_log2_self
    rw [Nat.div_lt_iff_lt_mul (Nat.two_pow_pos _), ← Nat.pow_add]
    by_cases hl : (p / q).log2 + 1 ≤ 53
    · have : (p / q).log2 + 1 - 53 = 0 := by omega
      rw [this]
      exact Nat.lt_of_lt_of_le h1 (Nat.pow_le_pow_right (by decide) (by omega))
    · have : 53 + ((p / q).log2 + 1 - 53) = (p / q).log2 + 1 := by omega
      rw [this]; exact h1

theorem scaleOf_ge (p q : Nat) (hs : 0 < scaleOf p q) : 2 ^ 53 * 2 ^ (scaleOf p q - 1) ≤ p / q := by
  unfold scaleOf at *
  have hx : p / q ≠ 0 := by
    intro h; rw [h] at hs; simp at hs
  have h1 : 2 ^ (p / q).log2 ≤ p / q := Nat.log2_self_le hx
  rw [← Nat.pow_add]
  have : 53 + ((p / q).log2 + 1 - 53 - 1) = (p / q).log2 := by omega
  rw [this]; exact h1




/-- the finite binary64 values, in units of `2⁻¹⁰⁷⁴`: a significand below `2^53` at a scale up to `2^2045` -/
def Rep (k : Nat) : Prop := ∃ c s, k = c * 2 ^ s ∧ c < 2 ^ 53 ∧ s ≤ maxScale

theorem roundHE_le (p q : Nat) : roundHE p q ≤ p / q + 1 := by
  unfold roundHE; simp only; repeat' split
  all_goals omega

theorem roundHE_ge (p q : Nat) : p / q ≤ roundHE p q := by
  unfold roundHE; simp only; repeat' split
  all_goals omega

theorem nearestK_rep (p q k : Nat) (h : nearestK p q = some k) : Rep k := by
  unfold nearestK at h
  simp only at h
  split at h
  · cases h
  · rename_i hno
    simp only [Option.some.injEq] at h
    have hc : roundHE p (q * 2 ^ scaleOf p q) ≤ 2 ^ 53 := by
      have := roundHE_le p (q * 2 ^ scaleOf p q)
      have := scaleOf_lt p q
      omega
    by_cases hc53 : roundHE p (q * 2 ^ scaleOf p q) = 2 ^ 53
    · refine ⟨2 ^ 52, scaleOf p q + 1, ?_, by decide, ?_⟩
      · rw [← h, hc53, show (2:Nat) ^ 53 = 2 ^ 52 * 2 by decide, Nat.pow_succ (m := scaleOf p q)]
        ac_rfl
      · have : ¬ (scaleOf p q = maxScale) := fun he => hno (Or.inr ⟨he, hc53⟩)
        have : ¬ (scaleOf p q > maxScale) := fun hg => hno (Or.inl hg)
        omega
    · exact ⟨_, scaleOf p q, h.symm, by omega, by
        have : ¬ (scaleOf p q > maxScale) := fun hg => hno (Or.inl hg)
        omega⟩

/-- no finite binary64 value is closer to `p / q` than the one returned -/
theorem nearestK_nearest (p q k : Nat) (hq : 0 < q) (h : nearestK p q = some k) (r : Nat) (hr : Rep r) :
    adist p (k * q) ≤ adist p (r * q) := by
  unfold nearestK at h
  simp only at h
  split at h
  · cases h
  · simp only [Option.some.injEq] at h
    obtain ⟨c', s', rfl, hc', _⟩ := hr
    have hQ : 0 < q * 2 ^ scaleOf p q := Nat.mul_pos hq (Nat.two_pow_pos _)
    have hk : k * q = roundHE p (q * 2 ^ scaleOf p q) * (q * 2 ^ scaleOf p q) := by
      rw [← h]; ac_rfl
    rw [hk]
    by_cases hss : scaleOf p q ≤ s'
    · -- a multiple of the step
      have : c' * 2 ^ s' * q = (c' * 2 ^ (s' - scaleOf p q)) * (q * 2 ^ scaleOf p q) := by
        have e : 2 ^ s' = 2 ^ (s' - scaleOf p q) * 2 ^ scaleOf p q := by
          rw [← Nat.pow_add]; congr 1; omega
        rw [e]; ac_rfl
      rw [this]
      exact roundHE_nearest p _ hQ _
    · -- below the binade: the binade's lower end is a multiple of the step, and lies between
      have hs : 0 < scaleOf p q := by omega
      have hB := scaleOf_ge p q hs
      have hBq : 2 ^ 53 * 2 ^ (scaleOf p q - 1) * q ≤ p :=
        Nat.le_trans (Nat.mul_le_mul_right q hB) (by rw [Nat.mul_comm]; exact Nat.mul_div_le p q)
      have hBQ : 2 ^ 53 * 2 ^ (scaleOf p q - 1) * q = 2 ^ 52 * (q * 2 ^ scaleOf p q) := by
        have e1 : 2 ^ scaleOf p q = 2 ^ (scaleOf p q - 1) * 2 := by
          rw [← Nat.pow_succ]; congr 1; omega
        rw [e1, show (2:Nat) ^ 53 = 2 ^ 52 * 2 by decide]
        ac_rfl
      have h1 := roundHE_nearest p _ hQ (2 ^ 52)
      rw [← hBQ] at h1
      have hr_lt : c' * 2 ^ s' * q ≤ 2 ^ 53 * 2 ^ (scaleOf p q - 1) * q := by
        apply Nat.mul_le_mul_right
        have : 2 ^ s' ≤ 2 ^ (scaleOf p q - 1) := Nat.pow_le_pow_right (by decide) (by omega)
        exact Nat.mul_le_mul (Nat.le_of_lt hc') this
      refine Nat.le_trans h1 ?_
      unfold adist
      repeat' split
      all_goals omega




/-- overflow happens only at or above the IEEE threshold: the largest finite value plus half a unit in its last place -/
theorem nearestK_none (p q : Nat) (hq : 0 < q) (h : nearestK p q = none) :
    (2 ^ 54 - 1) * 2 ^ (maxScale - 1) * q ≤ p := by
  unfold nearestK at h
  simp only at h
  have hM1 : 1 ≤ maxScale := by decide
  generalize maxScale = M at *
  split at h
  · rename_i hc
    rcases hc with hgt | ⟨hs, hc53⟩
    · -- the scale itself is beyond the last binade
      have hs : 0 < scaleOf p q := by omega
      have hB := scaleOf_ge p q hs
      have h1 : 2 ^ 53 * 2 ^ (scaleOf p q - 1) * q ≤ p :=
        Nat.le_trans (Nat.mul_le_mul_right q hB) (by rw [Nat.mul_comm]; exact Nat.mul_div_le p q)
      refine Nat.le_trans (Nat.mul_le_mul_right q ?_) h1
      have e : 2 ^ (scaleOf p q - 1) = 2 ^ (scaleOf p q - 1 - M) * 2 ^ M := by
        rw [← Nat.pow_add]; congr 1; omega
      have e2 : 2 ^ M = 2 ^ (M - 1) * 2 := by
        rw [← Nat.pow_succ]; congr 1; omega
      have hp : 0 < 2 ^ (scaleOf p q - 1 - M) := Nat.two_pow_pos _
      have hp2 : 0 < 2 ^ (M - 1) := Nat.two_pow_pos _
      rw [e, e2]
      generalize 2 ^ (scaleOf p q - 1 - M) = a at *
      generalize 2 ^ (M - 1) = b at *
      have : (2 ^ 54 - 1) * b ≤ 2 ^ 53 * (1 * (b * 2)) := by
        have : (2:Nat) ^ 54 - 1 ≤ 2 ^ 53 * 2 := by decide
        calc (2 ^ 54 - 1) * b ≤ 2 ^ 53 * 2 * b := Nat.mul_le_mul_right b this
          _ = 2 ^ 53 * (1 * (b * 2)) := by ac_rfl
      refine Nat.le_trans this ?_
      apply Nat.mul_le_mul_left
      apply Nat.mul_le_mul_right
      exact hp
    · -- the last binade, rounded up past its largest significand
      have hlt := scaleOf_lt p q
      rw [hs] at hc53 hlt
      generalize hQ : q * 2 ^ M = Q at *
      have hQpos : 0 < Q := by rw [← hQ]; exact Nat.mul_pos hq (Nat.two_pow_pos _)
      have hdm : Q * (p / Q) + p % Q = p := Nat.div_add_mod p Q
      have hcomm : Q * (p / Q) = p / Q * Q := Nat.mul_comm _ _
      -- the quotient is 2^53 - 1 and the remainder at least half of Q
      have hd : p / Q = 2 ^ 53 - 1 ∧ Q ≤ 2 * (p % Q) := by
        unfold roundHE at hc53
        simp only at hc53
        repeat' split at hc53
        all_goals omega
      have e2 : 2 ^ M = 2 ^ (M - 1) * 2 := by rw [← Nat.pow_succ]; congr 1; omega
      have hQ2 : Q = 2 * (q * 2 ^ (M - 1)) := by rw [← hQ, e2]; ac_rfl
      have : (2 ^ 54 - 1) * 2 ^ (M - 1) * q = (2 ^ 54 - 1) * (q * 2 ^ (M - 1)) := by ac_rfl
      rw [this]
      generalize q * 2 ^ (M - 1) = H at *
      have hd1 := hd.1
      have hd2 := hd.2
      have h53 : (2:Nat) ^ 54 - 1 = 2 * (2 ^ 53 - 1) + 1 := by decide
      rw [h53, Nat.add_mul, Nat.one_mul]
      have : p / Q * Q = (2 ^ 53 - 1) * (2 * H) := by rw [hd1, hQ2]
      have e3 : 2 * (2 ^ 53 - 1) * H = (2 ^ 53 - 1) * (2 * H) := by ac_rfl
      rw [e3]
      omega
  · cases h



theorem digit_le (c : Char) (h : isAsciiDigit c = true) : c.toNat - 48 ≤ 9 := by
  unfold isAsciiDigit at h
  have h0 : '0'.toNat = 48 := by decide
  have h9 : '9'.toNat = 57 := by decide
  simp only [Bool.and_eq_true, decide_eq_true_eq, h0, h9] at h
  omega

theorem digitsVal_lt (s : Str) (acc : Nat) (h : ∀ c ∈ s, isAsciiDigit c = true) :
    digitsVal s acc < (acc + 1) * 10 ^ s.length := by
  induction s generalizing acc with
  | nil => simp [digitsVal]
  | cons c s ih =>
    have hc := digit_le c (h c List.mem_cons_self)
    have := ih (acc * 10 + (c.toNat - 48)) (fun c' hc' => h c' (List.mem_cons_of_mem _ hc'))
    unfold digitsVal
    refine Nat.lt_of_lt_of_le this ?_
    rw [List.length_cons, Nat.pow_succ]
    have : acc * 10 + (c.toNat - 48) + 1 ≤ (acc + 1) * 10 := by omega
    calc (acc * 10 + (c.toNat - 48) + 1) * 10 ^ s.length ≤ (acc + 1) * 10 * 10 ^ s.length := Nat.mul_le_mul_right _ this
      _ = (acc + 1) * (10 ^ s.length * 10) := by ac_rfl

theorem fracPart_digits (s : Str) : ∀ c ∈ (fracPart s).1, isAsciiDigit c = true := by
  unfold fracPart
  split
  · exact spanP_all _ _
  · intro c hc; cases hc

/-- what `decParse` returns: the mantissa has as many digits as it says -/
theorem decParse_wf (s : Str) (d : Dec) (h : decParse s = some d) : d.m < 10 ^ d.nd := by
  unfold decParse at h
  simp only at h
  split at h
  · cases h
  · split at h
    · cases h
    · simp only [Option.some.injEq] at h
      subst h
      simp only
      have := digitsVal_lt ((spanP isAsciiDigit (decSign s).2).1 ++ (fracPart (spanP isAsciiDigit (decSign s).2).2).1) 0
        (by
          intro c hc
          rcases List.mem_append.mp hc with hc | hc
          · exact spanP_all _ _ c hc
          · exact fracPart_digits _ c hc)
      simpa using this



/-- the decimal `m · 10^e` as a fraction of units `2⁻¹⁰⁷⁴` -/
def decPQ (d : Dec) : Nat × Nat :=
  if d.e ≥ 0 then (d.m * 10 ^ d.e.toNat * 2 ^ 1074, 1) else (d.m * 2 ^ 1074, 10 ^ (-d.e).toNat)

/-- the definition without the two shortcuts -/
def decToFExact (d : Dec) : FVal :=
  if d.m = 0 then .fin 0
  else match nearestK (decPQ d).1 (decPQ d).2 with
    | none => if d.neg then .ninf else .pinf
    | some k => .fin (if d.neg then -(k : Int) else k)

theorem pow10_311 : (2:Nat) ^ 1024 ≤ 10 ^ 311 := by decide +kernel
theorem pow10_331 : (2:Nat) ^ 1075 < 10 ^ 331 := by decide +kernel

theorem nearestK_huge (p : Nat) (h : 2 ^ 2098 ≤ p) : nearestK p 1 = none := by
  have hp : p ≠ 0 := by
    intro h0; rw [h0] at h; exact absurd h (by have := Nat.two_pow_pos 2098; omega)
  have hl : 2098 ≤ p.log2 := (Nat.le_log2 hp).mpr h
  unfold nearestK
  simp only
  have : scaleOf p 1 > maxScale := by
    unfold scaleOf maxScale; rw [Nat.div_one]; omega
  rw [if_pos (Or.inl this)]

theorem nearestK_tiny (p q : Nat) (h : 2 * p < q) : nearestK p q = some 0 := by
  have hpq : p / q = 0 := Nat.div_eq_of_lt (by omega)
  have hs : scaleOf p q = 0 := by unfold scaleOf; rw [hpq]; rfl
  unfold nearestK
  simp only
  rw [hs]
  have hr : roundHE p (q * 2 ^ 0) = 0 := by
    unfold roundHE
    simp only [Nat.pow_zero, Nat.mul_one]
    rw [hpq, Nat.mod_eq_of_lt (by omega)]
    rw [if_pos h]
  rw [hr]
  rw [if_neg (by unfold maxScale; intro hc; rcases hc with hc | ⟨hc, _⟩ <;> omega)]

/-- the two shortcuts of `decToF` do not change the result -/
theorem decToF_exact (d : Dec) (hm : d.m < 10 ^ d.nd) : decToF d = decToFExact d := by
  unfold decToF decToFExact
  by_cases h0 : d.m = 0
  · rw [if_pos h0, if_pos h0]
  · rw [if_neg h0, if_neg h0]
    by_cases hbig : d.e > 310
    · rw [if_pos hbig]
      have he : d.e ≥ 0 := by omega
      have : nearestK (decPQ d).1 (decPQ d).2 = none := by
        unfold decPQ; rw [if_pos he]
        apply nearestK_huge
        have h1 : 10 ^ 311 ≤ 10 ^ d.e.toNat := Nat.pow_le_pow_right (by decide) (by omega)
        have h2 : 1 ≤ d.m := by omega
        calc 2 ^ 2098 = 2 ^ 1024 * 2 ^ 1074 := by rw [← Nat.pow_add]
          _ ≤ 10 ^ 311 * 2 ^ 1074 := Nat.mul_le_mul_right _ pow10_311
          _ ≤ 10 ^ d.e.toNat * 2 ^ 1074 := Nat.mul_le_mul_right _ h1
          _ = 1 * 10 ^ d.e.toNat * 2 ^ 1074 := by rw [Nat.one_mul]
          _ ≤ d.m * 10 ^ d.e.toNat * 2 ^ 1074 := Nat.mul_le_mul_right _ (Nat.mul_le_mul_right _ h2)
      rw [this]
    · rw [if_neg hbig]
      by_cases hsmall : d.e + d.nd < -330
      · rw [if_pos hsmall]
        have he : ¬ d.e ≥ 0 := by omega
        have : nearestK (decPQ d).1 (decPQ d).2 = some 0 := by
          unfold decPQ; rw [if_neg he]
          apply nearestK_tiny
          have hexp : d.nd + 331 ≤ (-d.e).toNat := by omega
          have h1 : 10 ^ (d.nd + 331) ≤ 10 ^ (-d.e).toNat := Nat.pow_le_pow_right (by decide) hexp
          have h2 : d.m + 1 ≤ 10 ^ d.nd := hm
          calc 2 * (d.m * 2 ^ 1074) = d.m * 2 ^ 1075 := by rw [show (2:Nat) ^ 1075 = 2 ^ 1074 * 2 from Nat.pow_succ ..]; generalize (2:Nat) ^ 1074 = a; ac_rfl
            _ < (d.m + 1) * 2 ^ 1075 := Nat.mul_lt_mul_of_lt_of_le (Nat.lt_succ_self _) (Nat.le_refl _) (Nat.two_pow_pos _)
            _ ≤ 10 ^ d.nd * 2 ^ 1075 := Nat.mul_le_mul_right _ h2
            _ ≤ 10 ^ d.nd * 10 ^ 331 := Nat.mul_le_mul_left _ (Nat.le_of_lt pow10_331)
            _ = 10 ^ (d.nd + 331) := by rw [Nat.pow_add]
            _ ≤ 10 ^ (-d.e).toNat := h1
        rw [this]
        simp
      · rw [if_neg hsmall]
        rfl


theorem decPQ_pos (d : Dec) : 0 < (decPQ d).2 := by
  unfold decPQ; split
  · exact Nat.one_pos
  · exact Nat.pow_pos (by decide)

/-- on an exact tie the even neighbour is chosen -/
theorem roundHE_tie_even (p q : Nat) (h : 2 * (p % q) = q) : roundHE p q % 2 = 0 := by
  unfold roundHE; simp only
  rw [if_neg (by omega), if_neg (by omega)]
  split <;> omega

/-- **the meaning of a decimal number text**: `parseF64 s = some v` exactly when `s` is in the decimal grammar
    (`decParse`), and then — writing `p / q` for the exact value of the text in units of `2⁻¹⁰⁷⁴` — `v` is zero for a
    zero mantissa; otherwise a finite `v = ±k` where `k` is a binary64 value and no binary64 value is closer to
    `p / q`; or `±∞`, and then `p / q` is at least the largest finite value plus half a unit in its last place -/
theorem parseF64_spec (s : Str) (v : FVal) (h : parseF64 s = some v) :
    ∃ d, decParse s = some d ∧
      (d.m = 0 → v = .fin 0) ∧
      (d.m ≠ 0 →
        (∃ k : Nat, v = .fin (if d.neg then -(k : Int) else k) ∧ Rep k ∧
            ∀ r, Rep r → adist (decPQ d).1 (k * (decPQ d).2) ≤ adist (decPQ d).1 (r * (decPQ d).2)) ∨
        (v = (if d.neg then .ninf else .pinf) ∧ (2 ^ 54 - 1) * 2 ^ (maxScale - 1) * (decPQ d).2 ≤ (decPQ d).1)) := by
  unfold parseF64 at h
  cases hd : decParse s with
  | none => rw [hd] at h; cases h
  | some d =>
    rw [hd] at h
    simp only [Option.map_some, Option.some.injEq] at h
    have hwf := decParse_wf s d hd
    rw [decToF_exact d hwf] at h
    refine ⟨d, rfl, ?_, ?_⟩
    · intro h0; rw [← h]; unfold decToFExact; rw [if_pos h0]
    · intro h0
      unfold decToFExact at h
      rw [if_neg h0] at h
      cases hn : nearestK (decPQ d).1 (decPQ d).2 with
      | none =>
        rw [hn] at h
        exact .inr ⟨h.symm, nearestK_none _ _ (decPQ_pos d) hn⟩
      | some k =>
        rw [hn] at h
        exact .inl ⟨k, h.symm, nearestK_rep _ _ _ hn, fun r hr => nearestK_nearest _ _ _ (decPQ_pos d) hn r hr⟩

/-- the texts of the familiar constants mean the familiar bit patterns (and the hypotheses above are satisfiable) -/
example : parseF64 "0.1".toList = some (F64.ofBits 0x3fb999999999999a) := by decide +kernel
example : parseF64 "-2.5".toList = some (F64.ofBits 0xc004000000000000) := by decide +kernel
example : parseF64 "1.7976931348623157e308".toList = some (F64.ofBits 0x7fefffffffffffff) := by decide +kernel
example : parseF64 "1.7976931348623159e308".toList = some .pinf := by decide +kernel
example : parseF64 "4.9e-324".toList = some (F64.ofBits 1) := by decide +kernel
example : parseF64 "9007199254740993.0".toList = some (F64.ofBits 0x4340000000000000) := by decide +kernel
example : parseF64 "1.e".toList = none := by decide +kernel


theorem adist_self (a : Nat) : adist a a = 0 := by unfold adist; simp

theorem adist_eq_zero (a b : Nat) (h : adist a b = 0) : a = b := by
  unfold adist at h; split at h <;> omega

theorem rep_le_max (k : Nat) (hk : Rep k) : k ≤ (2 ^ 53 - 1) * 2 ^ maxScale := by
  obtain ⟨c, s, rfl, hc, hs⟩ := hk
  exact Nat.mul_le_mul (by omega) (Nat.pow_le_pow_right (by decide) hs)

/-- a value that is itself a binary64 value is returned as it is: reading loses nothing that can be kept -/
theorem nearestK_exact (k q : Nat) (hq : 0 < q) (hk : Rep k) : nearestK (k * q) q = some k := by
  cases h : nearestK (k * q) q with
  | none =>
    exfalso
    have h1 := nearestK_none (k * q) q hq h
    have h2 : (2 ^ 54 - 1) * 2 ^ (maxScale - 1) ≤ k := Nat.le_of_mul_le_mul_right h1 hq
    have h3 := rep_le_max k hk
    have hM1 : 1 ≤ maxScale := by decide
    generalize maxScale = M at *
    have e2 : 2 ^ M = 2 ^ (M - 1) * 2 := by rw [← Nat.pow_succ]; congr 1; omega
    rw [e2] at h3
    have hp : 0 < 2 ^ (M - 1) := Nat.two_pow_pos _
    generalize 2 ^ (M - 1) = B at *
    have h4 : (2 ^ 53 - 1) * (B * 2) = (2 ^ 54 - 2) * B := by
      have : (2:Nat) ^ 54 - 2 = (2 ^ 53 - 1) * 2 := by decide
      rw [this]; ac_rfl
    rw [h4] at h3
    have h5 : (2 ^ 54 - 2) * B < (2 ^ 54 - 1) * B := Nat.mul_lt_mul_of_pos_right (by decide) hp
    omega
  | some k' =>
    have h1 := nearestK_nearest (k * q) q k' hq h k hk
    rw [adist_self] at h1
    have h2 : k * q = k' * q := adist_eq_zero _ _ (by omega)
    have : k = k' := Nat.eq_of_mul_eq_mul_right hq h2
    rw [this]



theorem div_eq_of_cross (p1 q1 p2 q2 : Nat) (hq1 : 0 < q1) (hq2 : 0 < q2) (h : p1 * q2 = p2 * q1) :
    p1 / q1 = p2 / q2 := by
    apply Nat.le_antisymm
    · rw [Nat.le_div_iff_mul_le hq2]
      -- (p1/q1) * q2 ≤ p2  ⇐  (p1/q1)*q2*q1 ≤ p2*q1 = p1*q2
      have h1 : p1 / q1 * q1 ≤ p1 := Nat.div_mul_le_self p1 q1
      have h2 : p1 / q1 * q1 * q2 ≤ p1 * q2 := Nat.mul_le_mul_right q2 h1
      rw [h] at h2
      have h3 : p1 / q1 * q2 * q1 ≤ p2 * q1 := by
        have : p1 / q1 * q2 * q1 = p1 / q1 * q1 * q2 := by ac_rfl
        rw [this]; exact h2
      exact Nat.le_of_mul_le_mul_right h3 hq1
    · rw [Nat.le_div_iff_mul_le hq1]
      have h1 : p2 / q2 * q2 ≤ p2 := Nat.div_mul_le_self p2 q2
      have h2 : p2 / q2 * q2 * q1 ≤ p2 * q1 := Nat.mul_le_mul_right q1 h1
      rw [← h] at h2
      have h3 : p2 / q2 * q1 * q2 ≤ p1 * q2 := by
        have : p2 / q2 * q1 * q2 = p2 / q2 * q2 * q1 := by ac_rfl
        rw [this]; exact h2
      exact Nat.le_of_mul_le_mul_right h3 hq2

/-- rounding depends on the value of the fraction only -/
theorem roundHE_scale (p1 q1 p2 q2 : Nat) (hq1 : 0 < q1) (hq2 : 0 < q2) (h : p1 * q2 = p2 * q1) :
    roundHE p1 q1 = roundHE p2 q2 := by
  have hd : p1 / q1 = p2 / q2 := div_eq_of_cross p1 q1 p2 q2 hq1 hq2 h
  -- remainders are proportional: r1 * q2 = r2 * q1
  have e1 : q1 * (p1 / q1) + p1 % q1 = p1 := Nat.div_add_mod p1 q1
  have e2 : q2 * (p2 / q2) + p2 % q2 = p2 := Nat.div_add_mod p2 q2
  have hr : p1 % q1 * q2 = p2 % q2 * q1 := by
    have a1 : p1 * q2 = q1 * (p1 / q1) * q2 + p1 % q1 * q2 := by rw [← Nat.add_mul, e1]
    have a2 : p2 * q1 = q2 * (p2 / q2) * q1 + p2 % q2 * q1 := by rw [← Nat.add_mul, e2]
    have a3 : q1 * (p1 / q1) * q2 = q2 * (p2 / q2) * q1 := by rw [hd]; ac_rfl
    omega
  unfold roundHE
  simp only
  rw [hd]
  -- the three-way comparison of 2r with q is the same on both sides
  have c1 : 2 * (p1 % q1) < q1 ↔ 2 * (p2 % q2) < q2 := by
    constructor
    · intro hlt
      have : 2 * (p1 % q1) * q2 < q1 * q2 := Nat.mul_lt_mul_of_pos_right hlt hq2
      have e : 2 * (p1 % q1) * q2 = 2 * (p2 % q2) * q1 := by rw [Nat.mul_assoc, hr, ← Nat.mul_assoc]
      rw [e, Nat.mul_comm q1 q2] at this
      exact Nat.lt_of_mul_lt_mul_right this
    · intro hlt
      have : 2 * (p2 % q2) * q1 < q2 * q1 := Nat.mul_lt_mul_of_pos_right hlt hq1
      have e : 2 * (p2 % q2) * q1 = 2 * (p1 % q1) * q2 := by rw [Nat.mul_assoc, ← hr, ← Nat.mul_assoc]
      rw [e, Nat.mul_comm q2 q1] at this
      exact Nat.lt_of_mul_lt_mul_right this
  have c2 : q1 < 2 * (p1 % q1) ↔ q2 < 2 * (p2 % q2) := by
    constructor
    · intro hlt
      have : q1 * q2 < 2 * (p1 % q1) * q2 := Nat.mul_lt_mul_of_pos_right hlt hq2
      have e : 2 * (p1 % q1) * q2 = 2 * (p2 % q2) * q1 := by rw [Nat.mul_assoc, hr, ← Nat.mul_assoc]
      rw [e, Nat.mul_comm q1 q2] at this
      exact Nat.lt_of_mul_lt_mul_right this
    · intro hlt
      have : q2 * q1 < 2 * (p2 % q2) * q1 := Nat.mul_lt_mul_of_pos_right hlt hq1
      have e : 2 * (p2 % q2) * q1 = 2 * (p1 % q1) * q2 := by rw [Nat.mul_assoc, ← hr, ← Nat.mul_assoc]
      rw [e, Nat.mul_comm q2 q1] at this
      exact Nat.lt_of_mul_lt_mul_right this
  by_cases h1 : 2 * (p1 % q1) < q1
  · rw [if_pos h1, if_pos (c1.mp h1)]
  · rw [if_neg h1, if_neg (fun h' => h1 (c1.mpr h'))]
    by_cases h2 : q1 < 2 * (p1 % q1)
    · rw [if_pos h2, if_pos (c2.mp h2)]
    · rw [if_neg h2, if_neg (fun h' => h2 (c2.mpr h'))]

/-- the value read depends on the exact value of the text only, not on how the fraction is written -/
theorem nearestK_scale (p1 q1 p2 q2 : Nat) (hq1 : 0 < q1) (hq2 : 0 < q2) (h : p1 * q2 = p2 * q1) :
    nearestK p1 q1 = nearestK p2 q2 := by
  have hs : scaleOf p1 q1 = scaleOf p2 q2 := by
    unfold scaleOf; rw [div_eq_of_cross p1 q1 p2 q2 hq1 hq2 h]
  unfold nearestK
  simp only
  rw [hs]
  have hr : roundHE p1 (q1 * 2 ^ scaleOf p2 q2) = roundHE p2 (q2 * 2 ^ scaleOf p2 q2) := by
    apply roundHE_scale _ _ _ _ (Nat.mul_pos hq1 (Nat.two_pow_pos _)) (Nat.mul_pos hq2 (Nat.two_pow_pos _))
    calc p1 * (q2 * 2 ^ scaleOf p2 q2) = p1 * q2 * 2 ^ scaleOf p2 q2 := by rw [Nat.mul_assoc]
      _ = p2 * q1 * 2 ^ scaleOf p2 q2 := by rw [h]
      _ = p2 * (q1 * 2 ^ scaleOf p2 q2) := by rw [Nat.mul_assoc]
  rw [hr]

/-- **reading preserves order**: of two decimal values the smaller never reads as the larger binary64 value
    (they may read as the same one) -/
theorem nearestK_mono (p1 q1 p2 q2 k1 k2 : Nat) (hq1 : 0 < q1) (hq2 : 0 < q2) (hle : p1 * q2 ≤ p2 * q1)
    (h1 : nearestK p1 q1 = some k1) (h2 : nearestK p2 q2 = some k2) : k1 ≤ k2 := by
  by_cases hlt : k1 ≤ k2
  · exact hlt
  · exfalso
    have hk : k2 < k1 := by omega
    have A := nearestK_nearest p1 q1 k1 hq1 h1 k2 (nearestK_rep _ _ _ h2)
    have B := nearestK_nearest p2 q2 k2 hq2 h2 k1 (nearestK_rep _ _ _ h1)
    have a1 : k2 * q1 < k1 * q1 := Nat.mul_lt_mul_of_pos_right hk hq1
    have a2 : k2 * q2 < k1 * q2 := Nat.mul_lt_mul_of_pos_right hk hq2
    -- x is at or above the midpoint of k2 and k1, y at or below it
    have mx : k1 * q1 + k2 * q1 ≤ 2 * p1 := by
      unfold adist at A; repeat' split at A
      all_goals omega
    have my : 2 * p2 ≤ k1 * q2 + k2 * q2 := by
      unfold adist at B; repeat' split at B
      all_goals omega
    -- hence x = y = the midpoint
    have mx' : (k1 * q1 + k2 * q1) * q2 ≤ 2 * p1 * q2 := Nat.mul_le_mul_right q2 mx
    have my' : 2 * p2 * q1 ≤ (k1 * q2 + k2 * q2) * q1 := Nat.mul_le_mul_right q1 my
    have e1 : (k1 * q1 + k2 * q1) * q2 = (k1 * q2 + k2 * q2) * q1 := by
      rw [Nat.add_mul, Nat.add_mul]
      have : k1 * q1 * q2 = k1 * q2 * q1 := by ac_rfl
      have : k2 * q1 * q2 = k2 * q2 * q1 := by ac_rfl
      omega
    have e2 : 2 * p1 * q2 = 2 * (p1 * q2) := Nat.mul_assoc _ _ _
    have e3 : 2 * p2 * q1 = 2 * (p2 * q1) := Nat.mul_assoc _ _ _
    have heq : p1 * q2 = p2 * q1 := by omega
    have := nearestK_scale p1 q1 p2 q2 hq1 hq2 heq
    rw [h1, h2] at this
    simp only [Option.some.injEq] at this
    omega



/-- a text starts with a non-digit or is empty -/
def stops (r : Str) : Prop := ∀ c r', r = c :: r' → isAsciiDigit c = false

theorem spanP_digits (a r : Str) (ha : ∀ c ∈ a, isAsciiDigit c = true) (hr : stops r) :
    spanP isAsciiDigit (a ++ r) = (a, r) := by
  induction a with
  | nil =>
    cases r with
    | nil => rfl
    | cons c r' =>
      have := hr c r' rfl
      simp only [List.nil_append]
      unfold spanP
      rw [this]; simp
  | cons c a ih =>
    have hc : isAsciiDigit c = true := ha c List.mem_cons_self
    have := ih (fun c' h' => ha c' (List.mem_cons_of_mem _ h'))
    simp only [List.cons_append]
    unfold spanP
    rw [hc, this]; simp

def signText : Option Bool → Str
  | none => []
  | some true => ['-']
  | some false => ['+']

def expText : Option (Option Bool × Str) → Str
  | none => []
  | some (sg, ed) => 'e' :: (signText sg ++ ed)

theorem digit_not_sign (c : Char) (h : isAsciiDigit c = true) : c ≠ '-' ∧ c ≠ '+' ∧ c ≠ '.' ∧ c ≠ 'e' ∧ c ≠ 'E' := by
  refine ⟨?_, ?_, ?_, ?_, ?_⟩ <;> (intro hc; rw [hc] at h; revert h; decide)

theorem decSign_signText (sg : Option Bool) (r : Str) (hr : ∀ c r', r = c :: r' → c ≠ '-' ∧ c ≠ '+') :
    decSign (signText sg ++ r) = (sg == some true, r) := by
  cases sg with
  | none =>
    simp only [signText, List.nil_append]
    cases r with
    | nil => simp [decSign]
    | cons c r' =>
      have := hr c r' rfl
      unfold decSign
      split
      · rename_i heq; simp only [List.cons.injEq] at heq; exact absurd heq.1 this.1
      · rename_i heq; simp only [List.cons.injEq] at heq; exact absurd heq.1 this.2
      · simp
  | some b => cases b <;> simp [signText, decSign]

/-- the exponent a text spells -/
def expVal : Option (Option Bool × Str) → Int
  | none => 0
  | some (s, ed) => if (s == some true) then -(digitsVal ed 0 : Int) else digitsVal ed 0

/-- **the decimal grammar, completely**: an optional sign, digits, a dot, digits (one of the two digit runs may be
    empty, not both), an optional exponent `e`, optional sign, at least one and at most eight digits — every such
    text is read, as exactly the number it spells -/
theorem decParse_complete (sg : Option Bool) (ip fp : Str) (ex : Option (Option Bool × Str))
    (hi : ∀ c ∈ ip, isAsciiDigit c = true) (hf : ∀ c ∈ fp, isAsciiDigit c = true) (hne : ip ++ fp ≠ [])
    (hex : ∀ s ed, ex = some (s, ed) → (∀ c ∈ ed, isAsciiDigit c = true) ∧ ed ≠ [] ∧ ed.length ≤ 8) :
    decParse (signText sg ++ (ip ++ '.' :: (fp ++ expText ex))) =
      some { neg := (sg == some true), m := digitsVal (ip ++ fp) 0,
             e := expVal ex - fp.length,
             nd := (ip ++ fp).length } := by
  -- the sign
  have h1 : decSign (signText sg ++ (ip ++ '.' :: (fp ++ expText ex))) = (sg == some true, ip ++ '.' :: (fp ++ expText ex)) := by
    apply decSign_signText
    intro c r' hcr
    cases ip with
    | nil => simp only [List.nil_append, List.cons.injEq] at hcr; rw [← hcr.1]; decide
    | cons d ip' =>
      simp only [List.cons_append, List.cons.injEq] at hcr
      have := digit_not_sign d (hi d List.mem_cons_self)
      rw [← hcr.1]; exact ⟨this.1, this.2.1⟩
  -- the integer digits stop at the dot
  have h2 : spanP isAsciiDigit (ip ++ '.' :: (fp ++ expText ex)) = (ip, '.' :: (fp ++ expText ex)) := by
    apply spanP_digits _ _ hi
    intro c r' hcr; simp only [List.cons.injEq] at hcr; rw [← hcr.1]; decide
  -- the fraction digits stop at the exponent or at the end
  have h3 : fracPart ('.' :: (fp ++ expText ex)) = (fp, expText ex) := by
    show spanP isAsciiDigit (fp ++ expText ex) = (fp, expText ex)
    apply spanP_digits _ _ hf
    intro c r' hcr
    cases ex with
    | none => simp [expText] at hcr
    | some p => simp only [expText, List.cons.injEq] at hcr; rw [← hcr.1]; decide
  -- the exponent
  have h4 : expPart (expText ex) = some (expVal ex) := by
    cases ex with
    | none => simp [expText, expPart, expVal]
    | some p =>
      obtain ⟨s, ed⟩ := p
      obtain ⟨hd, hne', hlen⟩ := hex s ed rfl
      have g1 : decSign (signText s ++ ed) = (s == some true, ed) := by
        apply decSign_signText
        intro c r' hcr
        have := digit_not_sign c (hd c (by rw [hcr]; exact List.mem_cons_self))
        exact ⟨this.1, this.2.1⟩
      have g2 : spanP isAsciiDigit ed = (ed, []) := by
        have := spanP_digits ed [] hd (by intro c r' h; cases h)
        simpa using this
      simp only [expText, expPart, g1, g2]
      have hne'' : ed.isEmpty = false := by cases ed with
        | nil => exact absurd rfl hne'
        | cons _ _ => rfl
      simp [hne'', Nat.not_lt.mpr hlen, expVal]
  have hne2 : (ip ++ fp).isEmpty = false := by
    cases h : ip ++ fp with
    | nil => exact absurd h hne
    | cons _ _ => rfl
  unfold decParse
  simp only [h1, h2, h3, h4, hne2]
  simp


end Gene.Props.F64Parse
