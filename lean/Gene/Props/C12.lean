import Gene.Props.C06
/-! C12 — a scan's outcome does not depend on what was scanned before.
    C10 — errors are reported, attributed, and do not disturb other rules (corollaries of `C01_scan`). -/
set_option linter.unusedSimpArgs false
namespace Gene.Props.C12
open Gene M EngineSim

variable (x : Ext)

/-! ### the scan loop never looks at the candidate cache -/
theorem depLoop_cache (ev : Event) (e : Engine) (c : List ((Str × Int) × List Nat)) :
    ∀ (l : List Nat) (a : ScanAcc), depLoop x ev { e with rulesCache := c } l a = depLoop x ev e l a := by
  intro l
  induction l with
  | nil => intro a; rfl
  | cons ri l ih =>
    intro a
    simp only [depLoop]
    cases e.rules[ri]? with
    | none => exact ih a
    | some r =>
      simp only
      split
      · exact ih a
      · split <;> exact ih _

theorem scanStep_cache (ev : Event) (e : Engine) (c : List ((Str × Int) × List Nat)) (a : ScanAcc) (i : Nat) :
    scanStep x ev { e with rulesCache := c } a i = scanStep x ev e a i := by
  have hd : ∀ r, depPhase x ev { e with rulesCache := c } a i r = depPhase x ev e a i r := by
    intro r
    unfold depPhase
    split
    · rfl
    · show (match e.depsCache.lookup i with
            | some deps => depLoop x ev { e with rulesCache := c } deps a
            | none => a) = _
      cases e.depsCache.lookup i with
      | none => rfl
      | some deps => exact depLoop_cache x ev e c deps a
  unfold scanStep
  show (match e.rules[i]? with
        | none => _
        | some r => _) = _
  cases e.rules[i]? with
  | none => rfl
  | some r => simp only [hd]

theorem scanLoop_cache (ev : Event) (e : Engine) (c : List ((Str × Int) × List Nat)) :
    ∀ (l : List Nat) (a : ScanAcc), scanLoop x ev { e with rulesCache := c } l a = scanLoop x ev e l a := by
  intro l
  induction l with
  | nil => intro a; rfl
  | cons i l ih =>
    intro a
    simp only [scanLoop, scanStep_cache]
    cases scanStep x ev e a i with
    | error s => rfl
    | ok a' => exact ih a'

/-- the observable outcome of a scan -/
def outcome (e : Engine) (ev : Event) : ScanOut := (Engine.scan x e ev).2

/-- the outcome is the same whatever the candidate cache holds -/
theorem scan_cache_irrelevant (e : Engine) (hw : WfEngine e) (ev : Event) :
    outcome x e ev = outcome x { e with rulesCache := [] } ev := by
  obtain ⟨c1, h1, _⟩ := C01.cachedRules_spec e hw ev.source ev.id
  have hw0 : WfEngine { e with rulesCache := [] } := C01.wf_cache e hw [] (by intro k l h; cases h)
  obtain ⟨c2, h2, _⟩ := C01.cachedRules_spec { e with rulesCache := [] } hw0 ev.source ev.id
  have hcand : candidates { e with rulesCache := [] } ev.source ev.id = candidates e ev.source ev.id := rfl
  unfold outcome Engine.scan
  simp only [h1, h2, hcand]
  have e1 := scanLoop_cache x ev e c1 (candidates e ev.source ev.id) {}
  have e2 := scanLoop_cache x ev e c2 (candidates e ev.source ev.id) {}
  have e2' : scanLoop x ev { ({ e with rulesCache := [] } : Engine) with rulesCache := c2 }
      (candidates e ev.source ev.id) {} = scanLoop x ev e (candidates e ev.source ev.id) {} := e2
  rw [e1, e2']
  cases scanLoop x ev e (candidates e ev.source ev.id) {} <;> rfl

/-- scanning a sequence of events with one engine -/
def scanSeq : Engine → List Event → List ScanOut
  | _, [] => []
  | e, ev :: evs => (Engine.scan x e ev).2 :: scanSeq (Engine.scan x e ev).1 evs

/-- **C12.** For any sequence of events scanned by one (well-formed) engine, the outcome for each event
    equals the outcome a fresh engine — same rules, empty candidate cache — gives for that event alone. -/
theorem C12_history_independent (e : Engine) (hw : WfEngine e) (evs : List Event) :
    scanSeq x e evs = evs.map (fun ev => outcome x { e with rulesCache := [] } ev) := by
  induction evs generalizing e with
  | nil => rfl
  | cons ev evs ih =>
    obtain ⟨cache', sr, err, hs, hw', _⟩ := C01.C01_scan x ev e hw
    simp only [scanSeq, List.map_cons]
    have h1 : (Engine.scan x e ev).2 = outcome x { e with rulesCache := [] } ev := scan_cache_irrelevant x e hw ev
    have h2 : (Engine.scan x e ev).1 = { e with rulesCache := cache' } := by rw [hs]
    rw [h1, h2, ih _ hw']

/-! ### C10 -/
/-- **C10 (reported and attributed).** Scanning returns an error exactly when some applicable rule or a
    rule in its dependency list has an erroring verdict, and the rule named by the error is one of them. -/
theorem C10_error (e : Engine) (hw : WfEngine e) (ev : Event) :
    ∃ sr err, outcome x e ev = .done sr err ∧
      (err.isSome = true ↔ ∃ i ∈ candidates e ev.source ev.id, ∃ y,
          (y = i ∨ y ∈ Dfs.dfsDepSearch (absEng e) i) ∧ C01.verdict x ev e y = .err) ∧
      (∀ nm k, err = some (nm, k) → ∃ y r, e.rules[y]? = some r ∧ r.name = nm ∧ C01.verdict x ev e y = .err) := by
  obtain ⟨cache', sr, err, hs, _, hspec⟩ := C01.C01_scan x ev e hw
  refine ⟨sr, err, by unfold outcome; rw [hs], hspec.error_iff, ?_⟩
  intro nm k h
  obtain ⟨i, _, y, _, hv, r, hr, hn⟩ := hspec.error_names nm k h
  exact ⟨y, r, hr, hn, hv⟩

/-- **C10 (isolation).** A failing rule counts as not matched, and the result delivered — with or without an
    error — is exactly the aggregation of the candidates whose verdict is `ok true`: it does not depend on
    which other rules failed. -/
theorem C10_partial_result (e : Engine) (hw : WfEngine e) (ev : Event) :
    ∃ sr err, outcome x e ev = .done sr err ∧
      sr = srFold (((candidates e ev.source ev.id).filter (fun i => C01.verdict x ev e i == .ok true)).filterMap
            (fun i => e.rules[i]?)) := by
  obtain ⟨cache', sr, err, hs, _, hspec⟩ := C01.C01_scan x ev e hw
  exact ⟨sr, err, by unfold outcome; rw [hs], hspec.result⟩

end Gene.Props.C12
