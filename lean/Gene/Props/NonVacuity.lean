import Gene.Props.C13
/-! Non-vacuity of the engine theorems' hypotheses.

    `WfEngine` is the hypothesis of C01/C06/C07/C09/C10/C12/C13.  `ofCompiler_wf` shows that every engine
    built from a reachable compiler satisfies it; here a concrete non-trivial engine — a dependency rule, a
    detection that uses it through `rule(dep)` together with a quantifier, a filter and a match-on section —
    is built with the model's own `insertCompiled`, shown well-formed, and scanned: the theorems' hypotheses
    are met by a state in which every clause of `ScanSpec` has content. -/
namespace Gene.Props.NonVacuity
open Gene M EngineSim

def s (t : String) : Str := t.toList
def xp (t : String) (segs : List String) : M.XPath := { path := s t, segments := segs.map s }

def dep : CompiledRule :=
  { name := s "dep", rtype := .dependency, depends := [], tags := [], attack := [], includeEvents := [], excludeEvents := [],
    ops := [(s "$a", .direct (xp ".x" ["x"]) .eq (.str (s "1")))], cond := .var (s "$a"), severity := 0, actions := [] }

def det : CompiledRule :=
  { name := s "det", rtype := .detection, depends := [s "dep"], tags := [s "t"], attack := [s "T1234"],
    includeEvents := [(s "src", [1])], excludeEvents := [],
    ops := [(s "$b", .direct (xp ".y" ["y"]) .eq (.str (s "2"))), (s "$d", .rule (s "dep"))],
    cond := .binop (.var (s "$d")) .and .anyOfThem, severity := 7, actions := [s "kill"] }

def fil : CompiledRule :=
  { name := s "fil", rtype := .filter, depends := [], tags := [], attack := [], includeEvents := [], excludeEvents := [],
    ops := [(s "$c", .direct (xp ".missing" ["missing"]) .eq (.str (s "z")))], cond := .var (s "$c"), severity := 0, actions := [] }

def build (cs : List CompiledRule) : Option Engine :=
  cs.foldl (fun e? r => e?.bind (fun e => Engine.insertCompiled e r)) (some {})

def x0 : Ext := { fparse := fun _ => none, rxOk := fun _ => true, rxMatch := fun _ _ => false }

def ev : Event :=
  { source := s "src", id := 1,
    get := fun p => if p = [s "x"] then some (.str (s "1")) else if p = [s "y"] then some (.str (s "2")) else none }

theorem good : C06.GoodList [dep, det, fil] := by
  refine ⟨by decide, ?_, ?_, ?_⟩
  · intro k r hk d hd
    match k, hk with
    | 0, hk => simp at hk; subst hk; simp [dep] at hd
    | 1, hk =>
      simp at hk; subst hk
      simp only [det, List.mem_singleton] at hd
      exact ⟨0, by omega, dep, rfl, by rw [hd]; rfl⟩
    | 2, hk => simp at hk; subst hk; simp [fil] at hd
    | n + 3, hk => simp at hk
  · intro r hr n hn
    simp only [List.mem_cons, List.not_mem_nil, or_false] at hr
    rcases hr with rfl | rfl | rfl
    · simp [dep, refs] at hn
    · simp [det, refs] at hn ⊢; exact hn
    · simp [fil, refs] at hn
  · intro r hr
    simp only [List.mem_cons, List.not_mem_nil, or_false] at hr
    rcases hr with rfl | rfl | rfl <;> decide

/-- a concrete engine with a dependency, a detection and a filter exists and is well-formed -/
theorem engine_wf : ∃ e, build [dep, det, fil] = some e ∧ WfEngine e ∧ e.rules = [dep, det, fil] := by
  obtain ⟨e, h1, h2, h3⟩ := C06.fold_wf [dep, det, fil] {} [] C06.empty_wf rfl (by simpa using good)
  exact ⟨e, h1, h2, by simpa using h3⟩

/-- and the scan theorem applies to it: the result is the aggregation of the matching candidates, here the
    detection `det` (its dependency holds, one of its operands holds), while the filter's operand raises
    `FieldNotFound`: an error is reported next to a non-empty result -/
theorem scan_nontrivial : ∃ e, build [dep, det, fil] = some e ∧
    ∃ c sr err, Engine.scan x0 e ev = ({ e with rulesCache := c }, .done sr err) ∧ C01.ScanSpec x0 ev e sr err := by
  obtain ⟨e, h1, h2, _⟩ := engine_wf
  obtain ⟨c, sr, err, hs, _, hspec⟩ := C01.C01_scan x0 ev e h2
  exact ⟨e, h1, c, sr, err, hs, hspec⟩

/-- the same scan, computed: `det` is reported with its metadata, `fil` is named by the error -/
theorem scan_concrete : (build [dep, det, fil]).map (fun e => (Engine.scan x0 e ev).2) =
    some (.done (some { rules := [s "det"], tags := [s "t"], attack := [s "T1234"], actions := [s "kill"],
                        filtered := false, severity := 7 })
      (some (s "fil", .fieldNotFound))) := by rfl

end Gene.Props.NonVacuity
