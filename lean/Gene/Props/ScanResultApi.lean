import Gene.ScanResultApi
import Gene.Props.C07
/-! The public face of a scan result, stated against the rules that matched (part of C07: a user reads the
    result through these methods as much as through the fields). -/
namespace Gene.Props.ScanResultApi
open Gene Gene.M Gene.Props.C07

/-- the struct definition and the method bodies the statements below were reviewed against -/
theorem definition_reviewed :
    Gen.scanResultDerives = ["Clone", "Debug", "Default", "Deserialize", "FieldGetter", "PartialEq", "Serialize"] ∧
    Gen.scanResultStructAttrs = [] ∧
    Gen.scanResultFields = [
      ("rules", "HashSet<String>", true, ["# [getter (skip)]"]),
      ("tags", "HashSet<String>", true, ["# [getter (skip)]", "# [serde (skip_serializing_if = \"HashSet::is_empty\")]"]),
      ("attack", "HashSet<String>", true, ["# [getter (skip)]", "# [serde (skip_serializing_if = \"HashSet::is_empty\")]"]),
      ("actions", "HashSet<String>", true, ["# [getter (skip)]", "# [serde (skip_serializing_if = \"HashSet::is_empty\")]"]),
      ("filtered", "bool", true, ["# [serde (skip)]"]),
      ("severity", "u8", true, [])] ∧
    Gen.scanResultMethods = [
      ("new", "ScanResult { .. Default :: default () }"),
      ("contains_tag", "self . tags . contains (tag . as_ref ())"),
      ("contains_action", "self . actions . contains (action . as_ref ())"),
      ("contains_attack_id", "self . attack . contains (& id . as_ref () . to_ascii_uppercase ())"),
      ("is_detection", "! self . rules . is_empty ()"),
      ("is_empty", "self . rules . is_empty () && ! self . is_filtered ()"),
      ("is_only_filter", "self . rules . is_empty () && self . is_filtered ()"),
      ("is_filtered", "self . filtered")] := ⟨rfl, rfl, rfl, rfl⟩

theorem srGVal_eq (sr : ScanResult) : srGVal sr = .struct false [
   ({name := "rules".toList, attrs := [{isGetter := true, metas := [.skip]}]}, .scalar .some),
   ({name := "tags".toList, attrs := [{isGetter := true, metas := [.skip]}, {isGetter := false, metas := [.other]}]}, .scalar .some),
   ({name := "attack".toList, attrs := [{isGetter := true, metas := [.skip]}, {isGetter := false, metas := [.other]}]}, .scalar .some),
   ({name := "actions".toList, attrs := [{isGetter := true, metas := [.skip]}, {isGetter := false, metas := [.other]}]}, .scalar .some),
   ({name := "filtered".toList, attrs := [{isGetter := false, metas := [.other]}]}, .scalar (.bool sr.filtered)),
   ({name := "severity".toList, attrs := []}, .scalar (.num (.uint sr.severity)))] := rfl

theorem ggetField_skip (us : Bool) (f : FieldDef) (v : GVal) (fs : List (FieldDef × GVal)) (seg : Str) (rest : List Str)
    (h : arm us f = none) : ggetField us ((f, v) :: fs) seg rest = ggetField us fs seg rest := by
  simp [ggetField, h]

theorem ggetField_arm (us : Bool) (f : FieldDef) (v : GVal) (fs : List (FieldDef × GVal)) (seg : Str) (rest : List Str)
    (names : List Str) (h : arm us f = some names) :
    ggetField us ((f, v) :: fs) seg rest = if names.contains seg then gget v rest else ggetField us fs seg rest := by
  simp [ggetField, h]

theorem gget_scalar (fv : FieldValue) (rest : List Str) : gget (.scalar fv) rest = if rest = [] then some fv else none := by
  cases rest <;> simp [gget]

/-- the derived getter: the flag and the severity are addressable, the four sets are not, nothing else is,
    and nothing continues past a scalar -/
theorem get_spec (sr : ScanResult) (p : List Str) :
    sr.get p =
      if p = [] then some .some
      else if p = ["filtered".toList] then some (.bool sr.filtered)
      else if p = ["severity".toList] then some (.num (.uint sr.severity))
      else none := by
  unfold ScanResult.get
  rw [srGVal_eq]
  cases p with
  | nil => simp [gget]
  | cons seg rest =>
    have hne : ("filtered".toList : Str) ≠ "severity".toList := by decide
    rw [gget, ggetField_skip _ _ _ _ _ _ (by rfl), ggetField_skip _ _ _ _ _ _ (by rfl), ggetField_skip _ _ _ _ _ _ (by rfl),
      ggetField_skip _ _ _ _ _ _ (by rfl), ggetField_arm _ _ _ _ _ _ ["filtered".toList] (by rfl),
      ggetField_arm _ _ _ _ _ _ ["severity".toList] (by rfl), gget_scalar, gget_scalar]
    simp only [ggetField, List.contains_cons, List.contains_nil, Bool.or_false, beq_iff_eq, List.cons.injEq, reduceCtorEq, if_false]
    by_cases h1 : seg = "filtered".toList
    · subst h1; by_cases h2 : rest = [] <;> simp [h2]
    · by_cases h3 : seg = "severity".toList
      · subst h3; by_cases h2 : rest = [] <;> simp [h2]
      · rw [if_neg h1, if_neg h3, if_neg (fun h => h1 h.1), if_neg (fun h => h3 h.1)]

/-- serialized keys: `rules` and `severity` always, a set only when it is not empty, the flag never -/
theorem serKeys_spec (sr : ScanResult) :
    sr.serKeys = ["rules"] ++ (if sr.tags.isEmpty then [] else ["tags"]) ++ (if sr.attack.isEmpty then [] else ["attack"])
      ++ (if sr.actions.isEmpty then [] else ["actions"]) ++ ["severity"] := by
  unfold ScanResult.serKeys
  cases h1 : sr.tags.isEmpty <;> cases h2 : sr.attack.isEmpty <;> cases h3 : sr.actions.isEmpty <;>
    simp [Gen.scanResultFields]

theorem mem_dedup_aux (l acc : List Str) (a : Str) :
    a ∈ l.foldl (fun acc a => if acc.contains a then acc else acc ++ [a]) acc ↔ a ∈ acc ∨ a ∈ l := by
  induction l generalizing acc with
  | nil => simp
  | cons b l ih =>
    rw [List.foldl_cons, ih]
    by_cases hb : acc.contains b = true
    · rw [if_pos hb]
      have : b ∈ acc := by simpa using hb
      constructor
      · rintro (h | h); exact .inl h; exact .inr (List.mem_cons_of_mem _ h)
      · rintro (h | h); exact .inl h
        rcases List.mem_cons.mp h with rfl | h
        · exact .inl this
        · exact .inr h
    · rw [if_neg hb]
      simp only [List.mem_append, List.mem_cons, List.not_mem_nil, or_false]
      constructor
      · rintro ((h | h) | h); exact .inl h; exact .inr (.inl h); exact .inr (.inr h)
      · rintro (h | h | h); exact .inl (.inl h); exact .inl (.inr h); exact .inr h

theorem mem_dedup (l : List Str) (a : Str) : a ∈ dedup l ↔ a ∈ l := by
  unfold dedup; rw [mem_dedup_aux]; simp

/-- the ATT&CK ids a compiled rule carries are exactly the declared ones, upper-cased -/
theorem compiled_attack (x : Ext) (r : Rule) (cr : CompiledRule) (h : compileInto x r = .ok cr) (a : Str) :
    a ∈ cr.attack ↔ a ∈ (((r.rmeta.bind (·.attack)).getD []).map asciiUpper) := by
  unfold compileInto at h
  split at h
  · cases h
  · cases h
  · cases hm : r.rmeta.bind (·.attack) with
    | none =>
      simp only [hm] at h
      split at h
      · cases h
      · cases h
      · cases h; simp
    | some ids =>
      simp only [hm] at h
      by_cases hall : ids.all attackIdOk = true
      · simp only [hall, if_true] at h
        split at h
        · cases h
        · cases h
        · cases h; simp [mem_dedup]
      · simp only [hall] at h
        cases h

/-- what the query methods say about the rules that matched (`ms`: the matching detection / filter rules) -/
theorem queries_spec (ms : List CompiledRule) (hok : SevOk ms) (out : ScanResult) (h : aggModel ms = some (some out)) :
    (out.isDetection = true ↔ ∃ r ∈ ms, isDet r = true) ∧
    (out.isFiltered = true ↔ ∃ r ∈ ms, CompiledRule.isFilter r = true) ∧
    out.isEmpty = false ∧
    (out.isOnlyFilter = true ↔ ∀ r ∈ ms, CompiledRule.isFilter r = true) ∧
    (∀ t, out.containsTag t = true ↔ ∃ r ∈ dets ms, t ∈ r.tags) ∧
    (∀ a, out.containsAction a = true ↔ ∃ r ∈ ms, a ∈ r.actions) ∧
    (∀ id, out.containsAttackId id = true ↔ ∃ r ∈ dets ms, asciiUpper id ∈ r.attack) := by
  obtain ⟨res, hr, hnone, hspec⟩ := C07_aggregate ms hok
  rw [h] at hr
  simp only [Option.some.injEq] at hr
  obtain ⟨_, hrules, htags, hatt, hact, hfil⟩ := hspec out hr.symm
  have hne : ms ≠ [] := by
    intro hms; have := hnone.mpr hms; rw [← hr] at this; cases this
  have hdet : out.isDetection = true ↔ ∃ r ∈ ms, isDet r = true := by
    unfold ScanResult.isDetection
    constructor
    · intro hd
      cases hl : out.rules with
      | nil => simp [hl] at hd
      | cons n _ =>
        obtain ⟨r, hrm, _⟩ := (hrules n).mp (by rw [hl]; exact List.mem_cons_self)
        exact ⟨r, (List.mem_filter.mp hrm).1, (List.mem_filter.mp hrm).2⟩
    · rintro ⟨r, hrm, hd⟩
      have : r.name ∈ out.rules := (hrules r.name).mpr ⟨r, List.mem_filter.mpr ⟨hrm, hd⟩, rfl⟩
      cases hl : out.rules with
      | nil => rw [hl] at this; cases this
      | cons _ _ => simp
  have hdetF : out.rules.isEmpty = true ↔ ∀ r ∈ ms, CompiledRule.isFilter r = true := by
    constructor
    · intro he r hrm
      by_cases hf : CompiledRule.isFilter r = true
      · exact hf
      · exfalso
        have hd : out.isDetection = true := hdet.mpr ⟨r, hrm, by simp [isDet, hf]⟩
        simp [ScanResult.isDetection, he] at hd
    · intro hall
      cases hl : out.rules with
      | nil => rfl
      | cons n _ =>
        obtain ⟨r, hrm, _⟩ := (hrules n).mp (by rw [hl]; exact List.mem_cons_self)
        have h1 := (List.mem_filter.mp hrm).2
        have h2 := hall r (List.mem_filter.mp hrm).1
        simp [isDet, h2] at h1
  refine ⟨hdet, hfil, ?_, ?_, ?_, ?_, ?_⟩
  · -- a delivered result is never empty: something matched, a detection or a filter
    unfold ScanResult.isEmpty ScanResult.isFiltered
    cases he : out.rules.isEmpty with
    | false => rfl
    | true =>
      obtain ⟨r, hrm⟩ := List.exists_mem_of_ne_nil ms hne
      have := hfil.mpr ⟨r, hrm, hdetF.mp he r hrm⟩
      simp [this]
  · unfold ScanResult.isOnlyFilter ScanResult.isFiltered
    constructor
    · intro ho
      have : out.rules.isEmpty = true := by
        cases he : out.rules.isEmpty with
        | true => rfl
        | false => rw [he] at ho; cases ho
      exact hdetF.mp this
    · intro hall
      obtain ⟨r, hrm⟩ := List.exists_mem_of_ne_nil ms hne
      rw [hdetF.mpr hall, hfil.mpr ⟨r, hrm, hall r hrm⟩]; rfl
  · intro t; unfold ScanResult.containsTag; rw [List.contains_iff_mem]; exact htags t
  · intro a; unfold ScanResult.containsAction; rw [List.contains_iff_mem]; exact hact a
  · intro id; unfold ScanResult.containsAttackId; rw [List.contains_iff_mem]; exact hatt _

/-- `contains_attack_id` finds an id in whatever letter case the rule or the caller wrote it: a matching detection
    rule declaring `a` answers to every `id` that upper-cases to the same text -/
theorem attack_id_any_case (x : Ext) (rule : Rule) (cr : CompiledRule) (hc : compileInto x rule = .ok cr)
    (ms : List CompiledRule) (hok : SevOk ms) (out : ScanResult) (h : aggModel ms = some (some out))
    (hm : cr ∈ dets ms) (a id : Str) (ha : a ∈ (rule.rmeta.bind (·.attack)).getD []) (hid : asciiUpper id = asciiUpper a) :
    out.containsAttackId id = true := by
  have := (queries_spec ms hok out h).2.2.2.2.2.2 id
  rw [this]
  exact ⟨cr, hm, by rw [compiled_attack x rule cr hc, hid]; exact List.mem_map_of_mem ha⟩

/-- deserializing the serialized form: rejected when one of the three optional sets is empty (its key is not
    written and is required on the way back); otherwise the result comes back with the flag cleared (the flag is
    not serialized) -/
theorem roundTrip_spec (sr : ScanResult) :
    sr.roundTrip = if sr.tags.isEmpty || sr.attack.isEmpty || sr.actions.isEmpty then none
                   else some { sr with filtered := false } := by
  unfold ScanResult.roundTrip
  cases h1 : sr.tags.isEmpty <;> cases h2 : sr.attack.isEmpty <;> cases h3 : sr.actions.isEmpty <;>
    simp [Gen.scanResultFields]

end Gene.Props.ScanResultApi
