import Gene.Generated.Consts
import Gene.Generated.Schema
import Gene.Generated.Grammar
import Gene.Generated.Sites
import Gene.Generated.Derive
import Gene.Props.AuditExpected

/-! # Translator obligations
The declarative facts the translator extracts from /repo's *current* source are equal to the ones the
hand-written model was written against.  A change to a grammar, to the Pratt table, to a constant, or the
appearance/disappearance of a panic-capable expression, an iteration site, a hash container or shared mutable
state breaks one of these `rfl`s; the check then searches for a failing input and otherwise reports
`no-failing-input-found`. -/
namespace Gene.Audit
open Gene

/-- condition.pest (optimized AST) is the grammar `Gene/Cond.lean` transcribes -/
theorem condition_grammar : Gen.conditionGrammar = Expected.conditionGrammar := rfl
/-- match.pest (optimized AST) is the grammar `Gene/Match.lean` and `Gene/Path.lean` transcribe -/
theorem match_grammar : Gen.matchGrammar = Expected.matchGrammar := rfl
/-- the Pratt table: `or` < `and` < prefix `negate`, both infix operators left associative -/
theorem pratt_table : Gen.prattTable = [("or", "infix-left"), ("and", "infix-left"), ("negate", "prefix")] := rfl
/-- the ATT&CK id regex `Gene.M.attackIdOk` transcribes -/
theorem attack_re : Gen.attackIdRe = "^[A-Za-z]+[0-9]+(\\.[0-9]+)?$" := rfl
/-- rule type names -/
theorem type_names : Gen.typeNames =
    [("Detection", "detection"), ("Filter", "filter"), ("Dependency", "dependency")] := rfl
/-- severity bound -/
theorem max_severity : Gen.maxSeverity = 10 := rfl
/-- panic-capable expressions in the non-test code are exactly the reviewed ones -/
theorem panic_sites : Gen.panicSites = Expected.panicSites := rfl
/-- iteration sites are exactly the reviewed ones -/
theorem iter_sites : Gen.iterSites = Expected.iterSites := rfl
/-- hash containers are exactly the reviewed ones -/
theorem hash_decls : Gen.hashDecls = Expected.hashDecls := rfl
/-- no shared mutable state (static mut, cells, locks, atomics) in the crate -/
theorem no_shared_state : Gen.sharedState = [] := rfl

/-- the attribute vocabulary of the derive macros is the one `Gene/Getter.lean` models: `getter(skip)`,
    `getter(rename = ..)`, `serde(rename = ..)` under `getter(use_serde_rename)`; (`event(id, source)` belongs to
    the `Event` derive, outside C08) -/
theorem derive_vocabulary : Gen.deriveVocabulary =
    ["contains_key:skip", "contains_key:use_serde_rename", "get_key_value:id", "get_key_value:rename",
     "get_key_value:source", "is_ident:event", "is_ident:getter", "is_ident:serde"] := rfl
/-- the derive crate has no panic-capable expression of its own -/
theorem derive_no_panic_sites : Gen.derivePanicSites = [] := rfl

end Gene.Audit
