import Gene.NumApi
namespace Gene.Props.NumApi
open Gene Gene.M

/-- integers come back as they are, when the target type can hold them -/
theorem tryI64_int (v : Int) : tryI64 (.int v) = some v := rfl
theorem tryI64_uint (v : Nat) : tryI64 (.uint v) = if v < 2 ^ 63 then some (v : Int) else none := rfl
theorem tryU64_uint (v : Nat) : tryU64 (.uint v) = some v := rfl
theorem tryU64_int (v : Int) : tryU64 (.int v) = if 0 ≤ v then some v.toNat else none := rfl

/-- a float that is a whole number strictly inside the target range converts to exactly that number -/
theorem tryI64_float_exact (i : Int) (h : -(2 ^ 63) ≤ i ∧ i < 2 ^ 63) : tryI64 (.float (.fin (i * S))) = some i := by
  have hS := S_pos
  simp only [tryI64]
  have h1 : -(2 ^ 63) * S ≤ i * S := Int.mul_le_mul_of_nonneg_right h.1 (Int.le_of_lt hS)
  have h2 : i * S ≤ 2 ^ 63 * S := Int.mul_le_mul_of_nonneg_right (Int.le_of_lt h.2) (Int.le_of_lt hS)
  rw [if_pos ⟨h1, h2⟩, Int.mul_tdiv_cancel _ (Int.ne_of_gt hS)]
  unfold clampI
  rw [if_neg (by omega), if_neg (by omega)]

/-- the boundary the range test lets through: the float `2^63` converts to `i64::MAX` (one less), silently -/
theorem tryI64_float_top : tryI64 (.float (.fin (2 ^ 63 * S))) = some (2 ^ 63 - 1) := by
  have hS := S_pos
  simp only [tryI64]
  have h1 : -(2 ^ 63) * S ≤ 2 ^ 63 * S := Int.mul_le_mul_of_nonneg_right (by decide) (Int.le_of_lt hS)
  rw [if_pos ⟨h1, Int.le_refl _⟩, Int.mul_tdiv_cancel _ (Int.ne_of_gt hS)]
  rfl

/-- NaN and the infinities never convert -/
theorem try_nonfinite (x : FVal) (h : x = .nan ∨ x = .pinf ∨ x = .ninf) : tryI64 (.float x) = none ∧ tryU64 (.float x) = none := by
  rcases h with rfl | rfl | rfl <;> exact ⟨rfl, rfl⟩

theorem tryU64_float_exact (n : Nat) (h : n < 2 ^ 64) : tryU64 (.float (.fin ((n : Int) * S))) = some n := by
  have hS := S_pos
  simp only [tryU64]
  have h1 : (0 : Int) ≤ (n : Int) * S := Int.mul_nonneg (Int.natCast_nonneg n) (Int.le_of_lt hS)
  have h2 : (n : Int) * S ≤ 2 ^ 64 * S := Int.mul_le_mul_of_nonneg_right (by omega) (Int.le_of_lt hS)
  rw [if_pos ⟨h1, h2⟩, Int.mul_tdiv_cancel _ (Int.ne_of_gt hS)]
  unfold clampI
  rw [if_neg (by omega), if_neg (by omega)]
  simp

/-- exactly one representation test holds -/
theorem repr_tests (n : Num) : (numIsInt n, numIsUint n, numIsFloat n) = (true, false, false) ∨
    (numIsInt n, numIsUint n, numIsFloat n) = (false, true, false) ∨ (numIsInt n, numIsUint n, numIsFloat n) = (false, false, true) := by
  cases n <;> simp [numIsInt, numIsUint, numIsFloat]

end Gene.Props.NumApi
