import Gene.Compiler
/-! C17 — template placeholders are replaced verbatim, once, independent of order.

    `Subst` is the declarative meaning: one left-to-right pass over the text; at a position where the
    placeholder `{{name}}` of a loaded template starts (the longest such name if several do — names may
    contain braces), the template's text is emitted and the scan resumes *after the placeholder* — the
    emitted text is never scanned; elsewhere the character is copied. -/
set_option linter.unusedSimpArgs false
namespace Gene.Props.C17
open Gene M

/-- the entry chosen at a position: a template whose placeholder starts here, of maximal name length -/
def IsBest (rest : Str) (tpls : Tpls) (r : Str × Str) : Prop :=
  r ∈ tpls ∧ matchesAt r.1 rest = true ∧ ∀ x ∈ tpls, matchesAt x.1 rest = true → x.1.length ≤ r.1.length

inductive Subst (tpls : Tpls) : Str → Str → Prop
  | nil : Subst tpls [] []
  | hit (c : Char) (r : Str) (n t o : Str) : IsBest (c :: r) tpls (n, t) →
      Subst tpls ((c :: r).drop (n.length + 4)) o → Subst tpls (c :: r) (t ++ o)
  | skip (c : Char) (r o : Str) : (∀ x ∈ tpls, matchesAt x.1 (c :: r) = false) →
      Subst tpls r o → Subst tpls (c :: r) (c :: o)

theorem startsWith_same_len {a b rest : Str} (ha : startsWith rest a = true) (hb : startsWith rest b = true)
    (hl : a.length = b.length) : a = b := by
  induction rest generalizing a b with
  | nil =>
    cases a <;> cases b <;> simp_all [startsWith]
  | cons c rest ih =>
    cases a with
    | nil => cases b with
      | nil => rfl
      | cons _ _ => simp at hl
    | cons x a =>
      cases b with
      | nil => simp at hl
      | cons y b =>
        simp only [startsWith, Bool.and_eq_true, beq_iff_eq] at ha hb
        obtain ⟨rfl, ha⟩ := ha
        obtain ⟨rfl, hb⟩ := hb
        simp at hl
        rw [ih ha hb hl]

theorem ph_inj {n m : Str} (h : ph n = ph m) : n = m := by
  simp [ph] at h; exact h

theorem match_same_len {n m rest : Str} (hn : matchesAt n rest = true) (hm : matchesAt m rest = true)
    (hl : n.length = m.length) : n = m :=
  ph_inj (startsWith_same_len hn hm (by simp [ph, hl]))

theorem best_spec (rest : Str) : ∀ (tl : Tpls) (acc : Option (Str × Str)) (all : Tpls),
    (∀ x ∈ tl, x ∈ all) →
    (∀ a, acc = some a → a ∈ all ∧ matchesAt a.1 rest = true) →
    (match best rest tl acc with
     | none => acc = none ∧ ∀ x ∈ tl, matchesAt x.1 rest = false
     | some r => r ∈ all ∧ matchesAt r.1 rest = true ∧
        (∀ x ∈ tl, matchesAt x.1 rest = true → x.1.length ≤ r.1.length) ∧
        (∀ a, acc = some a → a.1.length ≤ r.1.length)) := by
  intro tl
  induction tl with
  | nil =>
    intro acc all _ hacc
    cases acc with
    | none => simp [best]
    | some a => simp [best]; exact ⟨(hacc a rfl).1, (hacc a rfl).2⟩
  | cons x tl ih =>
    intro acc all hsub hacc
    obtain ⟨n, t⟩ := x
    have hsub' : ∀ y ∈ tl, y ∈ all := fun y hy => hsub y (by simp [hy])
    have hx : (n, t) ∈ all := hsub _ (by simp)
    unfold best
    by_cases hm : matchesAt n rest = true
    · simp only [hm, if_true]
      cases acc with
      | none =>
        have := ih (some (n, t)) all hsub' (by intro a ha; cases ha; exact ⟨hx, hm⟩)
        revert this
        cases best rest tl (some (n, t)) with
        | none => intro h; exact absurd h.1 (by simp)
        | some r =>
          intro ⟨h1, h2, h3, h4⟩
          refine ⟨h1, h2, ?_, by simp⟩
          intro y hy hym
          rcases List.mem_cons.mp hy with rfl | hy'
          · exact h4 _ rfl
          · exact h3 y hy' hym
      | some b =>
        obtain ⟨bn, bt⟩ := b
        have hb := hacc (bn, bt) rfl
        by_cases hlt : bn.length < n.length
        · simp only [hlt, if_true]
          have := ih (some (n, t)) all hsub' (by intro a ha; cases ha; exact ⟨hx, hm⟩)
          revert this
          cases best rest tl (some (n, t)) with
          | none => intro h; exact absurd h.1 (by simp)
          | some r =>
            intro ⟨h1, h2, h3, h4⟩
            have h4' := h4 _ rfl
            refine ⟨h1, h2, ?_, ?_⟩
            · intro y hy hym
              rcases List.mem_cons.mp hy with rfl | hy'
              · exact h4'
              · exact h3 y hy' hym
            · intro a ha; cases ha; simp at h4' ⊢; omega
        · simp only [hlt, if_false]
          have := ih (some (bn, bt)) all hsub' (by intro a ha; cases ha; exact hb)
          revert this
          cases best rest tl (some (bn, bt)) with
          | none => intro h; exact absurd h.1 (by simp)
          | some r =>
            intro ⟨h1, h2, h3, h4⟩
            have h4' := h4 _ rfl
            refine ⟨h1, h2, ?_, ?_⟩
            · intro y hy hym
              rcases List.mem_cons.mp hy with rfl | hy'
              · simp at h4' ⊢; omega
              · exact h3 y hy' hym
            · intro a ha; cases ha; exact h4'
    · have hm' : matchesAt n rest = false := by simpa using hm
      simp only [hm', Bool.false_eq_true, if_false]
      have := ih acc all hsub' hacc
      revert this
      cases best rest tl acc with
      | none =>
        intro ⟨h1, h2⟩
        refine ⟨h1, ?_⟩
        intro y hy; rcases List.mem_cons.mp hy with rfl | hy'
        · exact hm'
        · exact h2 y hy'
      | some r =>
        intro ⟨h1, h2, h3, h4⟩
        refine ⟨h1, h2, ?_, h4⟩
        intro y hy hym
        rcases List.mem_cons.mp hy with rfl | hy'
        · rw [hm'] at hym; cases hym
        · exact h3 y hy' hym

theorem best_isBest (rest : Str) (tpls : Tpls) :
    match best rest tpls none with
    | none => ∀ x ∈ tpls, matchesAt x.1 rest = false
    | some r => IsBest rest tpls r := by
  have := best_spec rest tpls none tpls (fun _ h => h) (by intro a h; cases h)
  revert this
  cases best rest tpls none with
  | none => intro h; exact h.2
  | some r => intro ⟨h1, h2, h3, _⟩; exact ⟨h1, h2, h3⟩

theorem isBest_unique (rest : Str) (tpls : Tpls) (hnd : (tpls.map (·.1)).Nodup) (r r' : Str × Str)
    (h : IsBest rest tpls r) (h' : IsBest rest tpls r') : r = r' := by
  have hl : r.1.length = r'.1.length := Nat.le_antisymm (h'.2.2 r h.1 h.2.1) (h.2.2 r' h'.1 h'.2.1)
  have hn : r.1 = r'.1 := match_same_len h.2.1 h'.2.1 hl
  have h1 := h.1; have h2 := h'.1
  clear h h' hl
  induction tpls with
  | nil => cases h1
  | cons x xs ih =>
    simp only [List.map_cons, List.nodup_cons] at hnd
    rcases List.mem_cons.mp h1 with rfl | h1'
    · rcases List.mem_cons.mp h2 with rfl | h2'
      · rfl
      · exact absurd (List.mem_map.mpr ⟨r', h2', hn.symm⟩) hnd.1
    · rcases List.mem_cons.mp h2 with rfl | h2'
      · exact absurd (List.mem_map.mpr ⟨r, h1', hn⟩) hnd.1
      · exact ih hnd.2 h1' h2'

/-- **C17 (meaning).** `Templates::replace_str` computes the single-pass substitution -/
theorem replaceOne_subst (tpls : Tpls) : ∀ (f : Nat) (s : Str), s.length < f → Subst tpls s (replaceOne tpls f s) := by
  intro f
  induction f with
  | zero => intro s h; omega
  | succ f ih =>
    intro s hf
    cases s with
    | nil => exact Subst.nil
    | cons c r =>
      simp only [replaceOne]
      have hb := best_isBest (c :: r) tpls
      cases hbe : best (c :: r) tpls none with
      | none =>
        rw [hbe] at hb
        simp only
        exact Subst.skip c r _ hb (ih r (by simp at hf; omega))
      | some x =>
        obtain ⟨n, t⟩ := x
        rw [hbe] at hb
        simp only
        refine Subst.hit c r n t _ hb (ih _ ?_)
        simp only [List.length_drop, List.length_cons] at hf ⊢
        omega

theorem C17_subst (tpls : Tpls) (s : Str) : Subst tpls s (replaceStr tpls s) :=
  replaceOne_subst tpls _ s (by omega)

/-- the meaning is a function of the *set* of templates: with unique names, any two results agree -/
theorem Subst_functional (tpls tpls' : Tpls) (hp : tpls.Perm tpls') (hnd : (tpls.map (·.1)).Nodup)
    (s o o' : Str) (h : Subst tpls s o) (h' : Subst tpls' s o') : o = o' := by
  induction h generalizing o' with
  | nil => cases h'; rfl
  | hit c r n t o hb _ ih =>
    cases h' with
    | hit _ _ n' t' o'' hb' hs' =>
      have hb2 : IsBest (c :: r) tpls (n', t') :=
        ⟨hp.mem_iff.mpr hb'.1, hb'.2.1, fun x hx hm => hb'.2.2 x (hp.mem_iff.mp hx) hm⟩
      have := isBest_unique (c :: r) tpls hnd _ _ hb hb2
      simp only [Prod.mk.injEq] at this
      obtain ⟨rfl, rfl⟩ := this
      rw [ih _ hs']
    | skip _ _ o'' hno _ =>
      have := hno (n, t) (hp.mem_iff.mp hb.1)
      rw [hb.2.1] at this; cases this
  | skip c r o hno _ ih =>
    cases h' with
    | hit _ _ n' t' o'' hb' _ =>
      have := hno (n', t') (hp.mem_iff.mpr hb'.1)
      rw [hb'.2.1] at this; cases this
    | skip _ _ o'' _ hs' => rw [ih _ hs']

/-- **C17 (order independence).** The outcome does not depend on the order in which the templates are
    visited (the iteration order of the `HashMap`) -/
theorem C17_order_independent (tpls tpls' : Tpls) (hp : tpls.Perm tpls') (hnd : (tpls.map (·.1)).Nodup) (s : Str) :
    replaceStr tpls s = replaceStr tpls' s :=
  Subst_functional tpls tpls' hp hnd s _ _ (C17_subst tpls s) (C17_subst tpls' s)

/-- text without any occurrence of a loaded placeholder — unknown placeholders included — is left untouched -/
theorem C17_identity (tpls : Tpls) (s : Str)
    (h : ∀ pre post, s = pre ++ post → ∀ x ∈ tpls, matchesAt x.1 post = false) : replaceStr tpls s = s := by
  have : ∀ o, Subst tpls s o → o = s := by
    intro o hs
    induction hs with
    | nil => rfl
    | hit c r n t o hb _ _ =>
      have := h [] (c :: r) rfl (n, t) hb.1
      rw [hb.2.1] at this; cases this
    | skip c r o _ _ ih =>
      rw [ih (fun pre post hpp x hx => h (c :: pre) post (by rw [hpp]; rfl) x hx)]
  exact this _ (C17_subst tpls s)

/-- an occurrence at the head is replaced by the text, verbatim, and the text is not scanned again -/
theorem C17_occurrence (tpls : Tpls) (hnd : (tpls.map (·.1)).Nodup) (n t b : Str)
    (hbest : IsBest (ph n ++ b) tpls (n, t)) :
    replaceStr tpls (ph n ++ b) = t ++ replaceStr tpls b := by
  have h1 := C17_subst tpls (ph n ++ b)
  have hph : ph n ++ b = '{' :: ('{' :: (n ++ ['}', '}']) ++ b) := by simp [ph]
  have h2 : Subst tpls (ph n ++ b) (t ++ replaceStr tpls b) := by
    rw [hph]
    refine Subst.hit '{' _ n t _ (by rw [← hph]; exact hbest) ?_
    have : ('{' :: ('{' :: (n ++ ['}', '}']) ++ b)).drop (n.length + 4) = b := by
      have : '{' :: ('{' :: (n ++ ['}', '}']) ++ b) = ('{' :: '{' :: (n ++ ['}', '}'])) ++ b := by simp
      rw [this, List.drop_append_of_le_length (by simp)]
      simp
    rw [this]
    exact C17_subst tpls b
  exact Subst_functional tpls tpls (List.Perm.refl _) hnd _ _ _ h1 h2

/-- only the values of `matches` change: name, condition and everything else are untouched -/
theorem C17_only_matches (tpls : Tpls) (r : Rule) :
    (applyTemplates tpls r).name = r.name ∧ (applyTemplates tpls r).condition = r.condition ∧
    (applyTemplates tpls r).rmeta = r.rmeta ∧ (applyTemplates tpls r).actions = r.actions ∧
    (applyTemplates tpls r).severity = r.severity ∧ (applyTemplates tpls r).matchOn = r.matchOn ∧
    (applyTemplates tpls r).rtype = r.rtype ∧ (applyTemplates tpls r).disable = r.disable ∧
    ((applyTemplates tpls r).mats.map (·.map Prod.fst)) = (r.mats.map (·.map Prod.fst)) := by
  refine ⟨rfl, rfl, rfl, rfl, rfl, rfl, rfl, rfl, ?_⟩
  cases h : r.mats with
  | none => simp [applyTemplates, h]
  | some ms => simp [applyTemplates, h, List.map_map, Function.comp_def]

/-- **C17 (names are defined once).** Extending succeeds iff no name is already taken; on success
    names stay unique; on failure nothing is inserted (the function has no partial outcome) -/
theorem C17_extend (cur new : Tpls) (hc : (cur.map (·.1)).Nodup) (hn : (new.map (·.1)).Nodup) :
    (tplExtend cur new = none ↔ ∃ n, n ∈ cur.map (·.1) ∧ n ∈ new.map (·.1)) ∧
    (∀ r, tplExtend cur new = some r → r = cur ++ new ∧ (r.map (·.1)).Nodup) := by
  unfold tplExtend
  constructor
  · constructor
    · intro h
      split at h
      · rename_i hany
        simp only [List.any_eq_true, beq_iff_eq] at hany
        obtain ⟨p, hp, q, hq, hqp⟩ := hany
        exact ⟨p.1, List.mem_map.mpr ⟨q, hq, hqp⟩, List.mem_map.mpr ⟨p, hp, rfl⟩⟩
      · cases h
    · rintro ⟨n, h1, h2⟩
      obtain ⟨q, hq, rfl⟩ := List.mem_map.mp h1
      obtain ⟨p, hp, hpn⟩ := List.mem_map.mp h2
      have : (new.any fun p => cur.any fun q => q.1 == p.1) = true := by
        simp only [List.any_eq_true, beq_iff_eq]
        exact ⟨p, hp, q, hq, hpn.symm⟩
      simp [this]
  · intro r h
    split at h
    · cases h
    · rename_i hany
      simp only [Option.some.injEq] at h
      subst h
      refine ⟨rfl, ?_⟩
      rw [List.map_append, List.nodup_append]
      refine ⟨hc, hn, ?_⟩
      intro a ha b hb hab
      subst hab
      apply hany
      obtain ⟨q, hq, rfl⟩ := List.mem_map.mp ha
      obtain ⟨p, hp, hpn⟩ := List.mem_map.mp hb
      simp only [List.any_eq_true, beq_iff_eq]
      exact ⟨p, hp, q, hq, hpn.symm⟩

-- non-vacuity: inserted text is not rescanned; brace runs; unknown placeholders untouched
/-- templates apply when a rule is loaded, with the templates known at that moment: loading a rule appends its
    templated text, and template documents that arrive later change no loaded rule -/
theorem C17_load_time (c : Compiler) :
    (∀ r c', Compiler.load c r = .ok c' → Rule.isDisabled r = false →
      c'.rules = c.rules ++ [applyTemplates c.templates r] ∧ c'.templates = c.templates) ∧
    (∀ t c', Compiler.loadTemplates c t = .ok c' → c'.rules = c.rules ∧ c'.loaded = c.loaded ∧ c'.compiled = c.compiled) := by
  constructor
  · intro r c' h hd
    simp only [Compiler.load, hd, Bool.false_eq_true, if_false] at h
    split at h
    · cases h
    · simp only [Except.ok.injEq] at h
      subst h; exact ⟨rfl, rfl⟩
  · intro t c' h
    simp only [Compiler.loadTemplates] at h
    split at h
    · simp only [Except.ok.injEq] at h
      subst h; exact ⟨rfl, rfl, rfl⟩
    · cases h

/-- `Templates::insert`: a name can be defined once; a refused insert changes nothing (the caller keeps `cur`),
    an accepted one appends the definition and keeps the names distinct -/
theorem C17_insert (cur : Tpls) (name text : Str) (hc : (cur.map (·.1)).Nodup) :
    (tplInsert cur name text = none ↔ name ∈ cur.map (·.1)) ∧
    (∀ r, tplInsert cur name text = some r → r = cur ++ [(name, text)] ∧ (r.map (·.1)).Nodup) := by
  unfold tplInsert
  constructor
  · constructor
    · intro h
      split at h
      · rename_i hany
        simp only [List.any_eq_true, beq_iff_eq] at hany
        obtain ⟨q, hq, hqn⟩ := hany
        exact List.mem_map.mpr ⟨q, hq, hqn⟩
      · cases h
    · intro h
      obtain ⟨q, hq, hqn⟩ := List.mem_map.mp h
      have : cur.any (fun q => q.1 == name) = true := by
        simp only [List.any_eq_true, beq_iff_eq]; exact ⟨q, hq, hqn⟩
      simp [this]
  · intro r h
    split at h
    · cases h
    · rename_i hany
      simp only [Option.some.injEq] at h
      subst h
      refine ⟨rfl, ?_⟩
      simp only [List.map_append, List.map_cons, List.map_nil]
      rw [List.nodup_append]
      refine ⟨hc, by simp, ?_⟩
      intro a ha b hb hab
      simp only [List.mem_singleton] at hb
      subst hb; subst hab
      apply hany
      obtain ⟨q, hq, hqn⟩ := List.mem_map.mp ha
      simp only [List.any_eq_true, beq_iff_eq]; exact ⟨q, hq, hqn⟩

example : replaceStr [("a".toList, "X{{b}}".toList), ("b".toList, "Y".toList)] "{{a}}{{b}}".toList = "X{{b}}Y".toList := by decide
example : replaceStr [("b".toList, "Y".toList), ("a".toList, "X{{b}}".toList)] "{{a}}{{b}}".toList = "X{{b}}Y".toList := by decide
example : replaceStr [("a".toList, "T".toList)] "{{{a}}}{{zz}}".toList = "{T}{{zz}}".toList := by decide

end Gene.Props.C17
