import Gene.Admit
import Gene.Spec.Admit
/-! C05 — a rule is evaluated only for the event types its match-on section admits.

    `C05_admits`: for every match-on section (a map, i.e. an association list with unique keys —
    what a `HashMap` is), every source and every `i64` event id, the model of
    `build_include_events`/`build_exclude_events`/`can_match_on` decides exactly what the
    property states. -/
set_option linter.unusedSimpArgs false
namespace Gene.Props.C05
open Gene

theorem lookup_map (mo : MatchOnMap) (f : List Int → List Int) (src : Str) :
    (mo.map (fun p => (p.1, f p.2))).lookup src = (mo.lookup src).map f := by
  induction mo with
  | nil => rfl
  | cons x xs ih =>
    obtain ⟨s, ids⟩ := x
    simp only [List.map_cons, List.lookup_cons]
    cases h : src == s <;> simp [ih]

theorem lookup_exclude_absent (mo : MatchOnMap) (src : Str) (h : src ∉ mo.map Prod.fst) :
    (M.buildExclude mo).lookup src = none := by
  induction mo with
  | nil => rfl
  | cons x xs ih =>
    obtain ⟨s, ids⟩ := x
    simp only [List.map_cons, List.mem_cons, not_or] at h
    have hne : (src == s) = false := by simpa using h.1
    have ih' := ih h.2
    unfold M.buildExclude at *
    simp only [List.filterMap_cons]
    by_cases he : (M.excludeIds ids).isEmpty
    · simp only [he, if_true]; exact ih'
    · simp only [he, Bool.false_eq_true, if_false, List.lookup_cons, hne]; exact ih'

theorem lookup_exclude (mo : MatchOnMap) (src : Str) (hnd : (mo.map Prod.fst).Nodup) :
    (M.buildExclude mo).lookup src =
      (mo.lookup src).bind
        (fun ids => if (M.excludeIds ids).isEmpty then none else some (M.excludeIds ids)) := by
  induction mo with
  | nil => rfl
  | cons x xs ih =>
    obtain ⟨s, ids⟩ := x
    simp only [List.map_cons, List.nodup_cons] at hnd
    have ih' := ih hnd.2
    by_cases hs : src = s
    · have habs := lookup_exclude_absent xs src (hs ▸ hnd.1)
      have hb : (src == s) = true := by simp [hs]
      unfold M.buildExclude at *
      simp only [List.filterMap_cons, List.lookup_cons, hb, Option.bind_some]
      by_cases he : (M.excludeIds ids).isEmpty
      · simp only [he, if_true]; exact habs
      · simp only [he, Bool.false_eq_true, if_false, List.lookup_cons, hb]
    · have hne : (src == s) = false := by simpa using hs
      unfold M.buildExclude at *
      simp only [List.filterMap_cons, List.lookup_cons, hne]
      by_cases he : (M.excludeIds ids).isEmpty
      · simp only [he, if_true]; exact ih'
      · simp only [he, Bool.false_eq_true, if_false, List.lookup_cons, hne]; exact ih'

theorem neg_min_ne (id : Int) (hid : inI64 id = true) : (-i64Min == id) = false := by
  have h1 : id ≤ 9223372036854775807 := by
    simp only [inI64, i64Max, Bool.and_eq_true, decide_eq_true_eq] at hid; exact of_decide_eq_true hid.2
  have : -i64Min = 9223372036854775808 := by decide
  rw [this]
  simp only [beq_eq_false_iff_ne, ne_eq]; omega

/-- the excluded set of a source contains `id` iff the source lists `-id` (as an `i64`) -/
theorem excludeIds_contains (ids : List Int) (id : Int) (hid : inI64 id = true) :
    (M.excludeIds ids).contains id = S.negated ids id := by
  induction ids with
  | nil => rfl
  | cons a as ih =>
    unfold M.excludeIds S.negated at *
    simp only [List.filter_cons, List.any_cons]
    by_cases hneg : a < 0
    · simp only [hneg, decide_true, if_true, List.filterMap_cons, Bool.true_and]
      by_cases hmin : a = i64Min
      · subst hmin
        simp only [beq_self_eq_true, if_true]
        rw [ih, neg_min_ne id hid]; rfl
      · have : (a == i64Min) = false := by simpa using hmin
        simp only [this, Bool.false_eq_true, if_false, List.contains_cons]
        rw [ih]
        have : (id == -a) = (-a == id) := by
          cases h : (-a == id)
          · simp only [beq_eq_false_iff_ne, ne_eq] at h ⊢; exact fun e => h e.symm
          · simp only [beq_iff_eq] at h ⊢; exact h.symm
        rw [this]
    · simp only [hneg, decide_false, Bool.false_and, Bool.false_or]
      exact ih

theorem lookup_mem {β : Type} (l : List (Str × β)) (src : Str) (v : β) (h : l.lookup src = some v) :
    ∃ p ∈ l, p.2 = v := by
  induction l with
  | nil => simp at h
  | cons y ys ih =>
    obtain ⟨s, j⟩ := y
    simp only [List.lookup_cons] at h
    cases hb : src == s
    · simp only [hb] at h
      obtain ⟨p, hp, hq⟩ := ih h
      exact ⟨p, List.mem_cons_of_mem _ hp, hq⟩
    · simp only [hb, Option.some.injEq] at h
      exact ⟨(s, j), List.mem_cons_self, h⟩

/-- C05. The event id is an `i64`; keys are unique (it is a map). -/
theorem C05_admits (mo : Option MatchOnMap) (src : Str) (id : Int)
    (hnd : ∀ m, mo = some m → (m.map Prod.fst).Nodup)
    (hid : inI64 id = true) :
    M.admits mo src id = S.admits mo src id := by
  cases mo with
  | none => rfl
  | some m =>
    cases m with
    | nil => rfl
    | cons x xs =>
      have hnd' := hnd _ rfl
      unfold M.admits S.admits M.canMatchOn
      simp only [Option.getD_some]
      have hinc : (M.buildInclude (x :: xs)).isEmpty = false := by simp [M.buildInclude]
      simp only [hinc, Bool.false_and, Bool.false_eq_true, if_false]
      rw [lookup_exclude _ _ hnd']
      unfold M.buildInclude
      rw [lookup_map (x :: xs) M.includeIds src]
      cases hl : List.lookup src (x :: xs) with
      | none => simp
      | some ids =>
        have hex := excludeIds_contains ids id hid
        simp only [Option.bind_some, Option.map_some]
        have hinc2 : M.includeIds ids = S.nonNeg ids := rfl
        rw [hinc2]
        by_cases he : (M.excludeIds ids).isEmpty
        · have : (M.excludeIds ids).contains id = false := by
            have := List.isEmpty_iff.mp he; simp [this]
          rw [this] at hex
          simp [he, ← hex]
        · simp only [he, Bool.false_eq_true, if_false]
          rw [hex]
          cases S.negated ids id <;> simp

/-- non-vacuity: a concrete map meeting the hypotheses, on which both sides say "admitted" -/
example : M.admits (some [("a".toList, []), ("b".toList, [1])]) "a".toList 5 = true
        ∧ S.admits (some [("a".toList, []), ("b".toList, [1])]) "a".toList 5 = true := by decide

/-- `i64::MIN` in a list excludes nothing and does not panic (`checked_neg`) -/
example : M.admits (some [("a".toList, [i64Min])]) "a".toList i64Min = true := by decide

end Gene.Props.C05
