import Gene.Props.Refine5
/-! Sanity of the specification itself: facts `S.scan` must satisfy for the property statements to make sense,
    proved on the specification (and therefore, through `scan_refines_spec_full`, true of the model's scans). -/
set_option linter.unusedSimpArgs false
namespace Gene.Props.SpecSanity
open Gene
open Gene.Props.Refine (isBadS badS named_unfold scanOrder_perm)

variable (x : Ext) (ev : Event) (rules : List S.SRule)

/-- the candidates of the specification -/
def cands : List S.SRule :=
  rules.filter (fun r => (r.rtype == RType.detection || r.rtype == RType.filter) && S.admits r.matchOn ev.source ev.id)

theorem failing_unfold : (S.scan x ev rules).failing =
    ((cands ev rules).flatMap (fun r => r.name :: ((S.closures rules).lookup r.name).getD [])).eraseDups.filter (isBadS x ev rules) := rfl

theorem mem_failing (n : Str) : n ∈ (S.scan x ev rules).failing ↔
    (∃ r ∈ cands ev rules, n = r.name ∨ n ∈ ((S.closures rules).lookup r.name).getD []) ∧ isBadS x ev rules n = true := by
  rw [failing_unfold, List.mem_filter, List.mem_eraseDups, List.mem_flatMap]
  simp only [List.mem_cons]

/-- **the rule an error names is one of the failing rules** -/
theorem named_subset_failing (n : Str) (h : n ∈ (S.scan x ev rules).named) : n ∈ (S.scan x ev rules).failing := by
  rw [named_unfold] at h
  split at h
  · cases h
  · rename_i c hc
    have hcm := List.mem_of_getLast? hc
    obtain ⟨hcs, hbad⟩ := List.mem_filter.mp hcm
    have hcc : c ∈ cands ev rules := (scanOrder_perm _).mem_iff.mp hcs
    rw [mem_failing]
    split at h
    · rename_i hb
      simp only [List.mem_singleton] at h
      subst h
      exact ⟨⟨c, hcc, Or.inl rfl⟩, hb⟩
    · obtain ⟨h1, h2⟩ := List.mem_filter.mp h
      exact ⟨⟨c, hcc, Or.inr h1⟩, h2⟩

/-- **an error names a rule exactly when some rule fails** -/
theorem named_nonempty_iff : (S.scan x ev rules).named ≠ [] ↔ (S.scan x ev rules).failing ≠ [] := by
  constructor
  · intro h
    obtain ⟨n, hn⟩ := List.exists_mem_of_ne_nil _ h
    exact List.ne_nil_of_mem (named_subset_failing x ev rules n hn)
  · intro h
    obtain ⟨n, hn⟩ := List.exists_mem_of_ne_nil _ h
    obtain ⟨⟨r, hr, hnr⟩, hb⟩ := (mem_failing x ev rules n).mp hn
    -- `r` is a candidate with a failure among itself and its closure
    have hrbad : badS x ev rules r = true := by
      simp only [badS, Bool.or_eq_true, List.any_eq_true]
      rcases hnr with rfl | hnr
      · exact Or.inl hb
      · exact Or.inr ⟨n, hnr, hb⟩
    have hmem : r ∈ (S.scanOrder (cands ev rules)).filter (badS x ev rules) :=
      List.mem_filter.mpr ⟨(scanOrder_perm _).mem_iff.mpr hr, hrbad⟩
    rw [named_unfold]
    cases hl : ((S.scanOrder (cands ev rules)).filter (badS x ev rules)).getLast? with
    | none => rw [List.getLast?_eq_none_iff] at hl; rw [hl] at hmem; cases hmem
    | some c =>
      have hl' : ((S.scanOrder (rules.filter (fun r => (r.rtype == RType.detection || r.rtype == RType.filter) &&
          S.admits r.matchOn ev.source ev.id))).filter (badS x ev rules)).getLast? = some c := hl
      simp only [hl']
      have hcbad := (List.mem_filter.mp (List.mem_of_getLast? hl)).2
      split
      · simp
      · rename_i hnb
        simp only [badS, hnb, Bool.false_or, List.any_eq_true] at hcbad
        obtain ⟨m, hm, hmb⟩ := hcbad
        exact List.ne_nil_of_mem (List.mem_filter.mpr ⟨hm, hmb⟩)

/-- **the reported severity never exceeds 10** -/
theorem result_severity_le (sr : ScanResult) (h : (S.scan x ev rules).result = some sr) : sr.severity ≤ 10 := by
  simp only [S.scan, S.aggregate] at h
  split at h
  · cases h
  · simp only [Option.some.injEq] at h
    rw [← h]
    exact Nat.min_le_right _ _

/-- **only detection rules are named in the result, and only candidates whose verdict is `ok true`** -/
theorem result_rules (sr : ScanResult) (h : (S.scan x ev rules).result = some sr) (n : Str) (hn : n ∈ sr.rules) :
    ∃ r ∈ cands ev rules, r.name = n ∧ r.rtype = .detection ∧
      (S.verdicts x ev rules).lookup r.name = some (.ok true) := by
  simp only [S.scan, S.aggregate] at h
  split at h
  · cases h
  · simp only [Option.some.injEq] at h
    rw [← h] at hn
    simp only [List.mem_map, List.mem_filter, beq_iff_eq] at hn
    obtain ⟨r, ⟨⟨hr, hv⟩, hd⟩, rfl⟩ := hn
    exact ⟨r, List.mem_filter.mpr hr, rfl, hd, by simpa using hv⟩

theorem verdicts_append (l l' : List S.SRule) :
    ∃ tail, S.verdicts x ev (l ++ l') = S.verdicts x ev l ++ tail := by
  induction l' using List.rec generalizing l with
  | nil => exact ⟨[], by simp⟩
  | cons r l' ih =>
    have h1 : S.verdicts x ev (l ++ [r]) = S.verdicts x ev l ++ [(r.name, S.ruleVerdict x ev (S.verdicts x ev l) r)] := by
      simp [S.verdicts, List.foldl_append]
    obtain ⟨t, ht⟩ := ih (l ++ [r])
    refine ⟨(r.name, S.ruleVerdict x ev (S.verdicts x ev l) r) :: t, ?_⟩
    have : l ++ r :: l' = (l ++ [r]) ++ l' := by simp
    rw [this, ht, h1]; simp

/-- **rules loaded later cannot change the verdict recorded for an earlier rule** (the spec-level core of C13) -/
theorem verdict_stable (l l' : List S.SRule) (n : Str) (v : S.Res) (h : (S.verdicts x ev l).lookup n = some v) :
    (S.verdicts x ev (l ++ l')).lookup n = some v := by
  obtain ⟨t, ht⟩ := verdicts_append x ev l l'
  rw [ht, List.lookup_append, h]; rfl

end Gene.Props.SpecSanity
