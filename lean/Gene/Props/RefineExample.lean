import Gene.Props.Refine5
import Gene.Props.NonVacuity
/-! Non-vacuity of the refinement theorem: a concrete rule set in structured form, a concrete engine, the
    relation `RuleRelFull` between them established constructor by constructor, and the theorem applied. -/
namespace Gene.Props.RefineExample
open Gene M EngineSim Gene.Props.Refine
open Gene.Props.NonVacuity (s xp x0 build)

def mo : MatchOnMap := [(s "src", [1])]

def depS : S.SRule :=
  { name := s "dep", rtype := .dependency, ops := [(s "$a", .test [s "x"] .eq (.text (s "a")))], cond := .opd (s "$a") }
def detS : S.SRule :=
  { name := s "det", rtype := .detection, matchOn := some mo,
    ops := [(s "$d", .rule (s "dep")), (s "$b", .test [s "y"] .eq (.text (s "b")))],     -- listed out of name order
    cond := .and (.opd (s "$d")) (.anyOf none), severity := 77, tags := [s "t"], attack := [s "t1234"], actions := [s "kill"] }
def filS : S.SRule :=
  { name := s "fil", rtype := .filter, ops := [(s "$c", .test [s "missing"] .eq (.text (s "z")))], cond := .opd (s "$c") }

def dep : CompiledRule :=
  { name := s "dep", rtype := .dependency, depends := [], tags := [], attack := [], includeEvents := [], excludeEvents := [],
    ops := [(s "$a", .direct (xp ".x" ["x"]) .eq (.str (s "a")))], cond := .var (s "$a"), severity := 0, actions := [] }
def det : CompiledRule :=
  { name := s "det", rtype := .detection, depends := [s "dep"], tags := [s "t"], attack := [s "T1234"],
    includeEvents := buildInclude mo, excludeEvents := buildExclude mo,
    ops := [(s "$b", .direct (xp ".y" ["y"]) .eq (.str (s "b"))), (s "$d", .rule (s "dep"))],
    cond := .binop (.var (s "$d")) .and .anyOfThem, severity := 10, actions := [s "kill"] }
def fil : CompiledRule :=
  { name := s "fil", rtype := .filter, depends := [], tags := [], attack := [], includeEvents := [], excludeEvents := [],
    ops := [(s "$c", .direct (xp ".missing" ["missing"]) .eq (.str (s "z")))], cond := .var (s "$c"), severity := 0, actions := [] }

def ev : Event :=
  { source := s "src", id := 1,
    get := fun p => if p = [s "x"] then some (.str (s "a")) else if p = [s "y"] then some (.str (s "b")) else none }

theorem ev_wf : C03.EventWf ev := by
  intro segs fv h
  simp only [ev] at h
  split at h
  · cases h; trivial
  · split at h
    · cases h; trivial
    · cases h

theorem rel_dep : RuleRelFull x0 ev depS dep := by
  refine { name := rfl, nodup := by decide, ops := ?_, cond := CondRel.opd _, rtype := rfl, admits := rfl, severity := rfl,
           tags := by intro t; simp [dep, depS], attack := by intro t; simp [dep, depS], actions := by intro t; simp [dep, depS],
           deps := by intro n; simp [dep, depS, S.directDeps] }
  exact .cons ⟨rfl, MatchOf.test ('\'' :: (s "a" ++ ['\''])) rfl (C03.IsValueTok.sq _) rfl rfl⟩ .nil

theorem rel_fil : RuleRelFull x0 ev filS fil := by
  refine { name := rfl, nodup := by decide, ops := ?_, cond := CondRel.opd _, rtype := rfl, admits := rfl, severity := rfl,
           tags := by intro t; simp [fil, filS], attack := by intro t; simp [fil, filS], actions := by intro t; simp [fil, filS],
           deps := by intro n; simp [fil, filS, S.directDeps] }
  exact .cons ⟨rfl, MatchOf.test ('\'' :: (s "z" ++ ['\''])) rfl (C03.IsValueTok.sq _) rfl rfl⟩ .nil

theorem rel_det : RuleRelFull x0 ev detS det := by
  refine { name := rfl, nodup := by decide, ops := ?_, cond := CondRel.and (CondRel.opd _) CondRel.anyThem, rtype := rfl,
           admits := ?_, severity := rfl,
           tags := by intro t; simp [det, detS], attack := by
             intro t
             have : (detS.attack.map asciiUpper) = det.attack := by decide
             rw [this],
           actions := by intro t; simp [det, detS],
           deps := by intro n; simp [det, detS, S.directDeps] }
  · -- the specification sorts the operands by name: `$b` before `$d`
    have hsort : S.sortByName detS.ops = [(s "$b", .test [s "y"] .eq (.text (s "b"))), (s "$d", .rule (s "dep"))] := by decide
    rw [hsort]
    exact .cons ⟨rfl, MatchOf.test ('\'' :: (s "b" ++ ['\''])) rfl (C03.IsValueTok.sq _) rfl rfl⟩
      (.cons ⟨rfl, MatchOf.rule _⟩ .nil)
  · -- admission of a compiled match-on section is C05
    exact C05.C05_admits (some mo) ev.source ev.id (by intro m h; cases h; decide) (by decide)

theorem good : C06.GoodList [dep, det, fil] := by
  refine ⟨by decide, ?_, ?_, ?_⟩
  · intro k r hk d hd
    match k, hk with
    | 0, hk => simp at hk; subst hk; simp [dep] at hd
    | 1, hk =>
      simp at hk; subst hk
      simp only [det, List.mem_singleton] at hd
      exact ⟨0, by omega, dep, rfl, by rw [hd]; rfl⟩
    | 2, hk => simp at hk; subst hk; simp [fil] at hd
    | n + 3, hk => simp at hk
  · intro r hr n hn
    simp only [List.mem_cons, List.not_mem_nil, or_false] at hr
    rcases hr with rfl | rfl | rfl
    · simp [dep, refs] at hn
    · simp [det, refs] at hn ⊢; exact hn
    · simp [fil, refs] at hn
  · intro r hr
    simp only [List.mem_cons, List.not_mem_nil, or_false] at hr
    rcases hr with rfl | rfl | rfl <;> decide

/-- the refinement theorem applies to this engine and rule set … -/
theorem applies : ∃ e, build [dep, det, fil] = some e ∧
    ∃ c sr err, Engine.scan x0 e ev = ({ e with rulesCache := c }, .done sr err) ∧
      SrEq sr (S.scan x0 ev [depS, detS, filS]).result ∧
      (err.isSome = true ↔ (S.scan x0 ev [depS, detS, filS]).failing ≠ []) ∧
      (∀ nm k, err = some (nm, k) → nm ∈ (S.scan x0 ev [depS, detS, filS]).named) := by
  obtain ⟨e, h1, hw, hr⟩ := C06.fold_wf [dep, det, fil] {} [] C06.empty_wf rfl (by simpa using good)
  refine ⟨e, h1, ?_⟩
  apply scan_refines_spec_full x0 ev ev_wf [depS, detS, filS] e hw
  have : e.rules = [dep, det, fil] := by simpa using hr
  rw [this]
  exact .cons rel_dep (.cons rel_det (.cons rel_fil .nil))

/-- … and what the specification says there has content: `det` is reported with capped severity and upper-cased
    ATT&CK id, `fil` fails (its field is missing) and is the rule named -/
theorem spec_outcome :
    (S.scan x0 ev [depS, detS, filS]).result =
      some { rules := [s "det"], tags := [s "t"], attack := [s "T1234"], actions := [s "kill"], filtered := false, severity := 10 } ∧
    (S.scan x0 ev [depS, detS, filS]).failing = [s "fil"] ∧
    (S.scan x0 ev [depS, detS, filS]).named = [s "fil"] := by
  refine ⟨by rfl, by rfl, by rfl⟩

end Gene.Props.RefineExample
