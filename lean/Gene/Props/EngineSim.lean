import Gene.Engine
import Gene.Lemmas.ScanAbs
import Gene.Props.C07
/-! The concrete engine model (`Gene/Engine.lean`: name-keyed memo, dependency cache, DFS over rule
    names) simulates the abstract, index-based theory of `Gene/Lemmas/{Dfs,Memo,Scan}Abs.lean`.
    This file is glue: definitions of the abstraction and the simulation lemmas. The property statements
    are in `Gene/Props/C01.lean` (and C06, C09, C10, C12). -/
set_option linter.unusedSimpArgs false
namespace Gene.Props.EngineSim
open Gene M

/-! ### evaluation depends on the memo only through the rule references of the operands -/
section congr
variable (x : Ext) (ev : Event)

theorem matchEvent_congr (s1 s2 : List (Str × Bool)) (m : Match)
    (h : ∀ n, m = .rule n → s1.lookup n = s2.lookup n) :
    matchEvent x ev s1 m = matchEvent x ev s2 m := by
  cases m with
  | direct p op v => rfl
  | indirect p q => rfl
  | rule n => simp only [matchEvent, h n rfl]

theorem allLoop_congr (s1 s2 : List (Str × Bool)) (ms : List Match)
    (h : ∀ m ∈ ms, ∀ n, m = .rule n → s1.lookup n = s2.lookup n) :
    allLoop x ev s1 ms = allLoop x ev s2 ms := by
  induction ms with
  | nil => rfl
  | cons m ms ih =>
    simp only [allLoop]
    rw [matchEvent_congr x ev s1 s2 m (h m (by simp)), ih (fun m' hm' => h m' (by simp [hm']))]

theorem anyLoop_congr (s1 s2 : List (Str × Bool)) (ms : List Match)
    (h : ∀ m ∈ ms, ∀ n, m = .rule n → s1.lookup n = s2.lookup n) :
    anyLoop x ev s1 ms = anyLoop x ev s2 ms := by
  induction ms with
  | nil => rfl
  | cons m ms ih =>
    simp only [anyLoop]
    rw [matchEvent_congr x ev s1 s2 m (h m (by simp)), ih (fun m' hm' => h m' (by simp [hm']))]

theorem noneLoop_congr (s1 s2 : List (Str × Bool)) (ms : List Match)
    (h : ∀ m ∈ ms, ∀ n, m = .rule n → s1.lookup n = s2.lookup n) :
    noneLoop x ev s1 ms = noneLoop x ev s2 ms := by
  induction ms with
  | nil => rfl
  | cons m ms ih =>
    simp only [noneLoop]
    rw [matchEvent_congr x ev s1 s2 m (h m (by simp)), ih (fun m' hm' => h m' (by simp [hm']))]

theorem nLoop_congr (s1 s2 : List (Str × Bool)) (k : Nat) (ms : List Match) (c : Nat)
    (h : ∀ m ∈ ms, ∀ n, m = .rule n → s1.lookup n = s2.lookup n) :
    nLoop x ev s1 k c ms = nLoop x ev s2 k c ms := by
  induction ms generalizing c with
  | nil => rfl
  | cons m ms ih =>
    simp only [nLoop]
    rw [matchEvent_congr x ev s1 s2 m (h m (by simp))]
    have ih' := fun c => ih c (fun m' hm' => h m' (by simp [hm']))
    simp only [ih']

/-- the rule names an operand list refers to -/
def refs (ops : List (Str × Match)) : List Str :=
  ops.filterMap (fun o => match o.2 with
    | .rule n => some n
    | _ => none)

theorem mem_refs (ops : List (Str × Match)) (k : Str) (n : Str) (h : (k, Match.rule n) ∈ ops) : n ∈ refs ops := by
  simp only [refs, List.mem_filterMap]
  exact ⟨(k, .rule n), h, rfl⟩

theorem evalExpr_congr (s1 s2 : List (Str × Bool)) (ops : List (Str × Match))
    (h : ∀ n ∈ refs ops, s1.lookup n = s2.lookup n) (c : Expr) :
    evalExpr x ev s1 ops c = evalExpr x ev s2 ops c := by
  have hall : ∀ m ∈ ops.map Prod.snd, ∀ n, m = Match.rule n → s1.lookup n = s2.lookup n := by
    intro m hm n hn
    obtain ⟨o, ho, rfl⟩ := List.mem_map.mp hm
    obtain ⟨k, m'⟩ := o
    simp only at hn; subst hn
    exact h n (mem_refs ops k n ho)
  have hsel : ∀ p, ∀ m ∈ selectOps ops p, ∀ n, m = Match.rule n → s1.lookup n = s2.lookup n := by
    intro p m hm n hn
    simp only [selectOps, List.mem_map, List.mem_filter] at hm
    obtain ⟨o, ⟨ho, _⟩, rfl⟩ := hm
    obtain ⟨k, m'⟩ := o
    simp only at hn; subst hn
    exact h n (mem_refs ops k n ho)
  induction c with
  | var v =>
    simp only [evalExpr]
    cases hl : ops.lookup v with
    | none => rfl
    | some m =>
      simp only
      apply matchEvent_congr
      intro n hn; subst hn
      have : (v, Match.rule n) ∈ ops := by
        clear hall hsel h
        induction ops with
        | nil => simp at hl
        | cons o ops ih =>
          obtain ⟨k, m'⟩ := o
          simp only [List.lookup_cons] at hl
          cases hb : v == k
          · simp only [hb] at hl; exact List.mem_cons_of_mem _ (ih hl)
          · simp only [hb, Option.some.injEq] at hl
            have : v = k := by simpa using hb
            subst this; subst hl; exact List.mem_cons_self
      exact h n (mem_refs ops v n this)
  | allOfThem => simp only [evalExpr]; exact allLoop_congr x ev s1 s2 _ hall
  | allOfVars p => simp only [evalExpr]; exact allLoop_congr x ev s1 s2 _ (hsel p)
  | anyOfThem => simp only [evalExpr]; exact anyLoop_congr x ev s1 s2 _ hall
  | anyOfVars p => simp only [evalExpr]; exact anyLoop_congr x ev s1 s2 _ (hsel p)
  | noneOfThem => simp only [evalExpr]; exact noneLoop_congr x ev s1 s2 _ hall
  | noneOfVars p => simp only [evalExpr]; exact noneLoop_congr x ev s1 s2 _ (hsel p)
  | nOfThem k => simp only [evalExpr]; exact nLoop_congr x ev s1 s2 k _ 0 hall
  | nOfVars k p => simp only [evalExpr]; exact nLoop_congr x ev s1 s2 k _ 0 (hsel p)
  | binop l o r ihl ihr =>
    cases o <;> simp only [evalExpr, ihl, ihr]
  | neg c ih => simp only [evalExpr, ih]
  | none => rfl
end congr


/-! ### the abstraction of an engine -/
section abs
variable (e : Engine)

def idxOf (name : Str) : Option Nat := e.names.lookup name

/-- dependency indices of rule `i`, in the iteration order of `depends` -/
def depIdx (i : Nat) : List Nat :=
  match e.rules[i]? with
  | some r => r.depends.filterMap (idxOf e)
  | none => []

def absEng : Dfs.Eng := (List.range e.rules.length).map (depIdx e)

theorem deps_absEng (i : Nat) : Dfs.deps (absEng e) i = depIdx e i := by
  unfold Dfs.deps absEng
  by_cases h : i < e.rules.length
  · simp [List.getD, h]
  · have h1 : e.rules[i]? = none := by simp; omega
    simp [List.getD, h, depIdx, h1]

/-- the part of the invariant the dependency search needs -/
structure WfCore : Prop where
  /-- `names` maps exactly each rule's name to its index (hence names are unique) -/
  names_ok : ∀ (name : Str) (i : Nat), e.names.lookup name = some i ↔ ∃ r, e.rules[i]? = some r ∧ r.name = name
  /-- every dependency names a rule inserted earlier -/
  deps_back : ∀ (i : Nat) (r : CompiledRule), e.rules[i]? = some r → ∀ d ∈ r.depends,
    ∃ j, j < i ∧ e.names.lookup d = some j

/-- invariant of an engine built by `Engine::try_from(Compiler)` (`C06.ofCompiler_wf`) -/
structure WfEngine : Prop extends WfCore e where
  /-- `depends` covers the `rule(x)` operands (it is built from them) -/
  deps_cover : ∀ (i : Nat) (r : CompiledRule), e.rules[i]? = some r → ∀ n ∈ refs r.ops, n ∈ r.depends
  /-- the dependency cache holds the DFS list of every rule with dependencies -/
  deps_cache : ∀ (i : Nat) (r : CompiledRule), e.rules[i]? = some r → r.depends ≠ [] →
    e.depsCache.lookup i = some (Dfs.dfsDepSearch (absEng e) i)
  /-- the candidate cache only holds what `candidates` computes -/
  cache_ok : ∀ k l, e.rulesCache.lookup k = some l → l = candidates e k.1 k.2
  sev_ok : ∀ r ∈ e.rules, r.severity ≤ Gen.maxSeverity

variable {e}

theorem name_unique (hw : WfCore e) {i j : Nat} {r q : CompiledRule}
    (hi : e.rules[i]? = some r) (hj : e.rules[j]? = some q) (h : r.name = q.name) : i = j := by
  have h1 := (hw.names_ok r.name i).mpr ⟨r, hi, rfl⟩
  have h2 := (hw.names_ok r.name j).mpr ⟨q, hj, h.symm⟩
  rw [h1] at h2; exact Option.some.inj h2

theorem idxOf_name (hw : WfCore e) {i : Nat} {r : CompiledRule} (hi : e.rules[i]? = some r) :
    idxOf e r.name = some i := (hw.names_ok r.name i).mpr ⟨r, hi, rfl⟩

theorem absEng_wf (hw : WfCore e) : Dfs.WF (absEng e) := by
  intro i d hd
  rw [deps_absEng] at hd
  unfold depIdx at hd
  cases hr : e.rules[i]? with
  | none => rw [hr] at hd; cases hd
  | some r =>
    rw [hr] at hd
    simp only [List.mem_filterMap] at hd
    obtain ⟨nm, hnm, hidx⟩ := hd
    obtain ⟨j, hj, hl⟩ := hw.deps_back i r hr nm hnm
    unfold idxOf at hidx
    rw [hl] at hidx
    simp only [Option.some.injEq] at hidx
    omega

/-- indices listed by the DFS are valid -/
theorem lt_of_mem_deps (hw : WfCore e) {i d : Nat} (hd : d ∈ Dfs.deps (absEng e) i) : d < e.rules.length := by
  have := absEng_wf hw i d hd
  rw [deps_absEng] at hd
  unfold depIdx at hd
  cases hr : e.rules[i]? with
  | none => rw [hr] at hd; cases hd
  | some r =>
    have hi : i < e.rules.length := by
      have := List.getElem?_eq_some_iff.mp hr; exact this.1
    omega


/-! ### the DFS of the model is the abstract DFS -/
def absStep (f : Nat) (st : Dfs.St) (dep : Nat) : Dfs.St :=
  if dep ∈ st.mark then st else
  let st' := Dfs.rec (absEng e) f dep st
  if dep ∈ st'.mark then st' else { dfs := st'.dfs ++ [dep], mark := dep :: st'.mark }

theorem rec_succ (f idx : Nat) (st : Dfs.St) :
    Dfs.rec (absEng e) (f + 1) idx st = (Dfs.deps (absEng e) idx).foldl (absStep (e := e) f) st := rfl

theorem dfsRec_sim (hw : WfCore e) : ∀ (f idx : Nat) (dfs mark : List Nat), idx < e.rules.length →
    dfsRec e f idx (dfs, mark) =
      some ((Dfs.rec (absEng e) f idx ⟨dfs, mark⟩).dfs, (Dfs.rec (absEng e) f idx ⟨dfs, mark⟩).mark) := by
  intro f
  induction f with
  | zero => intro idx dfs mark _; rfl
  | succ f ih =>
    intro idx dfs mark hidx
    have hr : ∃ r, e.rules[idx]? = some r := ⟨e.rules[idx], by simp [hidx]⟩
    obtain ⟨r, hr⟩ := hr
    rw [rec_succ, deps_absEng]
    unfold dfsRec
    simp only [hr, depIdx]
    -- fold over any list of names that resolve to valid indices
    have key : ∀ (l : List Str) (d m : List Nat), (∀ nm ∈ l, ∀ j, e.names.lookup nm = some j → j < e.rules.length) →
        l.foldl (fun st? req =>
          match st? with
          | none => none
          | some st =>
            match e.names.lookup req with
            | none => some st
            | some dep =>
              if st.2.contains dep then some st else
              match dfsRec e f dep st with
              | none => none
              | some (dfs, mark) =>
                if mark.contains dep then some (dfs, mark) else some (dfs ++ [dep], dep :: mark)) (some (d, m)) =
        some (((l.filterMap (idxOf e)).foldl (absStep (e := e) f) ⟨d, m⟩).dfs,
              ((l.filterMap (idxOf e)).foldl (absStep (e := e) f) ⟨d, m⟩).mark) := by
      intro l
      induction l with
      | nil => intro d m _; rfl
      | cons nm l ihl =>
        intro d m hv
        simp only [List.foldl_cons]
        cases hl : e.names.lookup nm with
        | none =>
          have : idxOf e nm = none := hl
          simp only [List.filterMap_cons, this]
          exact ihl d m (fun n' hn' => hv n' (by simp [hn']))
        | some dep =>
          have hdep : dep < e.rules.length := hv nm (by simp) dep hl
          have : idxOf e nm = some dep := hl
          simp only [List.filterMap_cons, this, List.foldl_cons]
          by_cases hpre : m.contains dep = true
          · have hstep0 : absStep (e := e) f ⟨d, m⟩ dep = ⟨d, m⟩ := by
              simp only [absStep, List.contains_iff_mem] at hpre ⊢
              rw [if_pos hpre]
            simp only [hpre, if_true]
            rw [hstep0]
            exact ihl d m (fun n' hn' => hv n' (by simp [hn']))
          simp only [hpre, Bool.false_eq_true, if_false]
          rw [ih dep d m hdep]
          simp only
          have hpre' : ¬ dep ∈ m := by simpa [List.contains_iff_mem] using hpre
          have hstep : absStep (e := e) f ⟨d, m⟩ dep =
              (if (Dfs.rec (absEng e) f dep ⟨d, m⟩).mark.contains dep then Dfs.rec (absEng e) f dep ⟨d, m⟩
               else { dfs := (Dfs.rec (absEng e) f dep ⟨d, m⟩).dfs ++ [dep], mark := dep :: (Dfs.rec (absEng e) f dep ⟨d, m⟩).mark }) := by
            simp only [absStep, List.contains_iff_mem]
            rw [if_neg hpre']
          by_cases hc : (Dfs.rec (absEng e) f dep ⟨d, m⟩).mark.contains dep = true
          · simp only [hc, if_true]
            have := ihl (Dfs.rec (absEng e) f dep ⟨d, m⟩).dfs (Dfs.rec (absEng e) f dep ⟨d, m⟩).mark
              (fun n' hn' => hv n' (by simp [hn']))
            rw [this, hstep]; simp only [hc, if_true]
          · simp only [hc, Bool.false_eq_true, if_false]
            have := ihl ((Dfs.rec (absEng e) f dep ⟨d, m⟩).dfs ++ [dep]) (dep :: (Dfs.rec (absEng e) f dep ⟨d, m⟩).mark)
              (fun n' hn' => hv n' (by simp [hn']))
            rw [this, hstep]; simp only [hc, Bool.false_eq_true, if_false]
    apply key
    intro nm hnm j hj
    obtain ⟨j', hj', hl'⟩ := hw.deps_back idx r hr nm hnm
    rw [hl'] at hj; cases hj; omega

/-- the abstract DFS does not depend on the fuel, once it exceeds the index -/
theorem foldl_congr_mem {α β : Type} (f g : β → α → β) (l : List α) (b : β) (h : ∀ b a, a ∈ l → f b a = g b a) :
    l.foldl f b = l.foldl g b := by
  induction l generalizing b with
  | nil => rfl
  | cons a l ih =>
    simp only [List.foldl_cons]
    rw [h b a (by simp)]
    exact ih _ (fun b' a' ha' => h b' a' (by simp [ha']))

theorem rec_fuel (hw : WfCore e) : ∀ (f f' idx : Nat) (st : Dfs.St), idx < f → idx < f' →
    Dfs.rec (absEng e) f idx st = Dfs.rec (absEng e) f' idx st := by
  intro f
  induction f with
  | zero => intro f' idx st h; omega
  | succ f ih =>
    intro f' idx st h1 h2
    obtain ⟨g, rfl⟩ : ∃ g, f' = g + 1 := ⟨f' - 1, by omega⟩
    rw [rec_succ, rec_succ]
    apply foldl_congr_mem
    intro b d hd
    have hlt := absEng_wf hw idx d hd
    simp only [absStep]
    rw [ih g d b (by omega) (by omega)]

/-- **`Engine::dfs_dep_search` is the abstract DFS** -/
theorem dfsDepSearch_sim (hw : WfCore e) (idx : Nat) (h : idx < e.rules.length) :
    dfsDepSearch e idx = some (Dfs.dfsDepSearch (absEng e) idx) := by
  unfold dfsDepSearch Dfs.dfsDepSearch
  rw [dfsRec_sim hw _ idx [] [] h]
  simp only [Option.map_some]
  rw [rec_fuel hw (e.rules.length + 1) (idx + 1) idx ⟨[], []⟩ (by omega) (by omega)]


theorem rec_mem (f : Nat) : ∀ (idx : Nat) (st : Dfs.St) (y : Nat), y ∈ (Dfs.rec (absEng e) f idx st).dfs →
    y ∈ st.dfs ∨ ∃ j, y ∈ Dfs.deps (absEng e) j := by
  induction f with
  | zero => intro idx st y h; exact Or.inl h
  | succ f ih =>
    intro idx st y h
    rw [rec_succ] at h
    have key : ∀ (l : List Nat) (st : Dfs.St), (∀ d ∈ l, ∃ j, d ∈ Dfs.deps (absEng e) j) →
        y ∈ (l.foldl (absStep (e := e) f) st).dfs → y ∈ st.dfs ∨ ∃ j, y ∈ Dfs.deps (absEng e) j := by
      intro l
      induction l with
      | nil => intro st _ h; exact Or.inl h
      | cons d l ihl =>
        intro st hd h
        simp only [List.foldl_cons] at h
        rcases ihl _ (fun d' hd' => hd d' (by simp [hd'])) h with h1 | h1
        · simp only [absStep] at h1
          split at h1
          · exact Or.inl h1
          split at h1
          · exact ih d st y h1
          · simp only [List.mem_append, List.mem_singleton] at h1
            rcases h1 with h1 | rfl
            · exact ih d st y h1
            · exact Or.inr (hd y (by simp))
        · exact Or.inr h1
    exact key _ st (fun d hd => ⟨idx, hd⟩) h

theorem dfs_members_lt (hw : WfCore e) (i y : Nat) (h : y ∈ Dfs.dfsDepSearch (absEng e) i) : y < e.rules.length := by
  unfold Dfs.dfsDepSearch at h
  rcases rec_mem _ _ _ _ h with h1 | ⟨j, hj⟩
  · cases h1
  · exact lt_of_mem_deps hw hj

end abs

/-! ### the memo and the candidate loop -/
section scan
variable (x : Ext) (event : Event) (e : Engine)

def toRes : Except EvalErr Bool → Memo.Res
  | .ok b => .ok b
  | .error _ => .err

/-- a name-keyed memo built from an index-keyed lookup -/
def statesOf (look : Nat → Option Bool) : List (Str × Bool) :=
  (List.range e.rules.length).filterMap (fun j =>
    match e.rules[j]?, look j with
    | some r, some b => some (r.name, b)
    | _, _ => none)

/-- the abstract evaluator: rule `i` against an index-keyed memo -/
def absEv : Memo.EvalRule := fun i look =>
  match e.rules[i]? with
  | some r => toRes (ruleEval x event (statesOf e look) r)
  | none => .err

variable {e}

theorem statesOf_lookup (hw : WfEngine e) (look : Nat → Option Bool) (name : Str) :
    (statesOf e look).lookup name = (idxOf e name).bind look := by
  unfold statesOf
  -- generalise over the list of indices
  have key : ∀ (l : List Nat), (∀ j ∈ l, j < e.rules.length) →
      (l.filterMap (fun j =>
        match e.rules[j]?, look j with
        | some r, some b => some (r.name, b)
        | _, _ => none)).lookup name =
      (match idxOf e name with
       | some i => if i ∈ l then look i else none
       | none => none) := by
    intro l
    induction l with
    | nil => intro _; cases idxOf e name <;> rfl
    | cons j l ih =>
      intro hl
      have hj : j < e.rules.length := hl j (by simp)
      have ih' := ih (fun j' hj' => hl j' (by simp [hj']))
      have hrj : e.rules[j]? = some e.rules[j] := by simp [hj]
      simp only [List.filterMap_cons, hrj]
      cases hlk : look j with
      | none =>
        simp only
        rw [ih']
        cases hi : idxOf e name with
        | none => rfl
        | some i =>
          simp only [List.mem_cons]
          by_cases hij : i = j
          · subst hij; simp [hlk]
          · simp [hij]
      | some b =>
        simp only [List.lookup_cons]
        cases hi : idxOf e name with
        | none =>
          have hne : (name == e.rules[j].name) = false := by
            cases hb : name == e.rules[j].name with
            | false => rfl
            | true =>
              have hnm : name = e.rules[j].name := by simpa using hb
              have hsome := idxOf_name hw.toWfCore hrj
              rw [← hnm, hi] at hsome; cases hsome
          simp only [hne]
          rw [ih', hi]
        | some i =>
          obtain ⟨ri, hri, hname⟩ := (hw.names_ok name i).mp hi
          by_cases hij : i = j
          · subst hij
            rw [hrj] at hri; cases hri
            simp [hname, hlk]
          · have hne : (name == e.rules[j].name) = false := by
              cases hb : name == e.rules[j].name with
              | false => rfl
              | true =>
                have hnm : name = e.rules[j].name := by simpa using hb
                exact absurd (name_unique hw.toWfCore hri hrj (by rw [hname, hnm])) hij
            simp only [hne]
            rw [ih', hi]
            simp [List.mem_cons, hij]
  rw [key _ (fun j hj => List.mem_range.mp hj)]
  cases hi : idxOf e name with
  | none => rfl
  | some i =>
    obtain ⟨ri, hri, _⟩ := (hw.names_ok name i).mp hi
    have : i < e.rules.length := (List.getElem?_eq_some_iff.mp hri).1
    simp [List.mem_range, this]

/-- simulation relation between the abstract memo and the concrete one -/
def R (e : Engine) (s : Memo.States) (cs : List (Str × Bool)) : Prop :=
  ∀ name, cs.lookup name = (idxOf e name).bind (Memo.look s)

theorem R_nil : R e [] [] := by
  intro name; cases idxOf e name <;> rfl

theorem R_eval (hw : WfEngine e) {s : Memo.States} {cs : List (Str × Bool)} (hR : R e s cs)
    {i : Nat} {r : CompiledRule} (hr : e.rules[i]? = some r) :
    toRes (ruleEval x event cs r) = absEv x event e i (Memo.look s) := by
  simp only [absEv, hr, ruleEval]
  congr 1
  apply evalExpr_congr
  intro n _
  rw [hR n, statesOf_lookup hw]

theorem R_cons (hw : WfEngine e) {s : Memo.States} {cs : List (Str × Bool)} (hR : R e s cs)
    {i : Nat} {r : CompiledRule} (hr : e.rules[i]? = some r) (b : Bool) :
    R e ((i, b) :: s) ((r.name, b) :: cs) := by
  intro name
  simp only [List.lookup_cons]
  cases hi : idxOf e name with
  | none =>
    have hne : (name == r.name) = false := by
      cases hb : name == r.name with
      | false => rfl
      | true =>
        have : name = r.name := by simpa using hb
        rw [this, idxOf_name hw.toWfCore hr] at hi; cases hi
    simp only [hne, Option.bind_none]
    have := hR name; rw [hi] at this; exact this
  | some j =>
    obtain ⟨rj, hrj, hname⟩ := (hw.names_ok name j).mp hi
    simp only [Option.bind_some, Memo.look_cons]
    by_cases hij : i = j
    · subst hij
      rw [hr] at hrj; cases hrj
      simp [hname]
    · have hne : (name == r.name) = false := by
        cases hb : name == r.name with
        | false => rfl
        | true =>
          have hnm : name = r.name := by simpa using hb
          exact absurd (name_unique hw.toWfCore hr hrj (by rw [hname, hnm])) hij
      simp only [hne, hij, if_false]
      have := hR name; rw [hi] at this; exact this

theorem R_lookup (hw : WfEngine e) {s : Memo.States} {cs : List (Str × Bool)} (hR : R e s cs)
    {i : Nat} {r : CompiledRule} (hr : e.rules[i]? = some r) : cs.lookup r.name = Memo.look s i := by
  rw [hR r.name, idxOf_name hw.toWfCore hr]; rfl

/-- `absEv` consults the memo only at the dependencies of the rule -/
theorem absEv_local (hw : WfEngine e) : Memo.Local (absEng e) (absEv x event e) := by
  intro i m m' h
  simp only [absEv]
  cases hr : e.rules[i]? with
  | none => rfl
  | some r =>
    simp only [ruleEval]
    congr 1
    apply evalExpr_congr
    intro n hn
    rw [statesOf_lookup hw, statesOf_lookup hw]
    have hdep := hw.deps_cover i r hr n hn
    obtain ⟨j, _, hj⟩ := hw.deps_back i r hr n hdep
    have : idxOf e n = some j := hj
    rw [this]
    simp only [Option.bind_some]
    apply h
    rw [deps_absEng]
    simp only [depIdx, hr, List.mem_filterMap]
    exact ⟨n, hdep, this⟩

/-- what the concrete error slot records about the abstract error list -/
def ErrRel (e : Engine) (errs : List Nat) (le : Option (Str × EvalErr)) : Prop :=
  (le.isSome = true ↔ errs ≠ []) ∧
  ∀ nm k, le = some (nm, k) → ∃ i, errs.getLast? = some i ∧ ∃ r, e.rules[i]? = some r ∧ r.name = nm

theorem depLoop_sim (hw : WfEngine e) : ∀ (l : List Nat), (∀ i ∈ l, i < e.rules.length) →
    ∀ (s : Memo.States) (errs : List Nat) (c : ScanAcc), R e s c.states → ErrRel e errs c.lastErr →
      R e (Scan.depLoopE (absEv x event e) l (s, errs)).1 (depLoop x event e l c).states ∧
      ErrRel e (Scan.depLoopE (absEv x event e) l (s, errs)).2 (depLoop x event e l c).lastErr ∧
      (depLoop x event e l c).sr = c.sr := by
  intro l
  induction l with
  | nil => intro _ s errs c hR hE; exact ⟨hR, hE, rfl⟩
  | cons ri l ih =>
    intro hl s errs c hR hE
    have hri : ri < e.rules.length := hl ri (by simp)
    have hr : e.rules[ri]? = some e.rules[ri] := by simp [hri]
    have hl' : ∀ i ∈ l, i < e.rules.length := fun i hi => hl i (by simp [hi])
    simp only [depLoop, hr, Scan.depLoopE]
    have hlk := R_lookup hw hR hr
    cases hlook : Memo.look s ri with
    | some b =>
      have : (c.states.lookup e.rules[ri].name).isSome = true := by rw [hlk, hlook]; rfl
      simp only [this, if_true]
      exact ih hl' s errs c hR hE
    | none =>
      have : (c.states.lookup e.rules[ri].name).isSome = false := by rw [hlk, hlook]; rfl
      simp only [this, Bool.false_eq_true, if_false]
      have hev := R_eval x event hw hR hr
      cases hre : ruleEval x event c.states e.rules[ri] with
      | ok ok =>
        rw [hre] at hev
        simp only [toRes] at hev
        simp only [← hev]
        have := ih hl' ((ri, ok) :: s) errs { c with states := (e.rules[ri].name, ok) :: c.states }
          (R_cons hw hR hr ok) hE
        exact this
      | error err =>
        rw [hre] at hev
        simp only [toRes] at hev
        simp only [← hev]
        have hE' : ErrRel e (errs ++ [ri]) (some (e.rules[ri].name, err)) := by
          refine ⟨by simp, ?_⟩
          intro nm k h
          simp only [Option.some.injEq, Prod.mk.injEq] at h
          exact ⟨ri, by simp, e.rules[ri], hr, h.1⟩
        have := ih hl' s (errs ++ [ri]) { c with lastErr := some (e.rules[ri].name, err) } hR hE'
        exact this


/-- the result slot of the candidate loop, as a fold of `ScanResult::update` -/
def srFold (ms : List CompiledRule) : Option ScanResult :=
  ms.foldl (fun o r => srUpdate (o.getD {}) r) none

def SrRel (e : Engine) (matched : List Nat) (sr : Option ScanResult) : Prop :=
  sr = srFold (matched.filterMap (fun i => e.rules[i]?)) ∧ ∀ s, sr = some s → s.severity ≤ Gen.maxSeverity

theorem dfs_nil_of_no_deps (i : Nat) (h : Dfs.deps (absEng e) i = []) : Dfs.dfsDepSearch (absEng e) i = [] := by
  unfold Dfs.dfsDepSearch
  rw [rec_succ, h]; rfl

theorem scanStep_sim (hw : WfEngine e) (i : Nat) (hi : i < e.rules.length) (a : Scan.Acc) (c : ScanAcc)
    (hR : R e a.states c.states) (hE : ErrRel e a.errs c.lastErr) (hS : SrRel e a.matched c.sr) :
    ∃ c', scanStep x event e c i = .ok c' ∧
      R e (Scan.scanStep (absEng e) (absEv x event e) a i).states c'.states ∧
      ErrRel e (Scan.scanStep (absEng e) (absEv x event e) a i).errs c'.lastErr ∧
      SrRel e (Scan.scanStep (absEng e) (absEv x event e) a i).matched c'.sr := by
  have hr : e.rules[i]? = some e.rules[i] := by simp [hi]
  unfold scanStep
  simp only [hr]
  -- dependency loop
  have hdep : R e (Scan.depLoopE (absEv x event e) (Dfs.dfsDepSearch (absEng e) i) (a.states, a.errs)).1
        (depPhase x event e c i e.rules[i]).states ∧
      ErrRel e (Scan.depLoopE (absEv x event e) (Dfs.dfsDepSearch (absEng e) i) (a.states, a.errs)).2
        (depPhase x event e c i e.rules[i]).lastErr ∧
      (depPhase x event e c i e.rules[i]).sr = c.sr := by
    unfold depPhase
    by_cases hemp : e.rules[i].depends.isEmpty = true
    · have hnil : e.rules[i].depends = [] := List.isEmpty_iff.mp hemp
      have hd : Dfs.deps (absEng e) i = [] := by
        rw [deps_absEng]; simp [depIdx, hr, hnil]
      rw [dfs_nil_of_no_deps i hd]
      simp only [hemp, if_true]
      exact ⟨hR, hE, trivial⟩
    · have hne : e.rules[i].depends ≠ [] := by
        intro h; apply hemp; simp [h]
      have hc := hw.deps_cache i _ hr hne
      simp only [hemp, Bool.false_eq_true, if_false, hc]
      exact depLoop_sim x event hw _ (fun y hy => dfs_members_lt hw.toWfCore i y hy) a.states a.errs c hR hE
  generalize depPhase x event e c i e.rules[i] = c1 at hdep
  obtain ⟨hR1, hE1, hsr1⟩ := hdep
  unfold Scan.scanStep
  generalize hdl : Scan.depLoopE (absEv x event e) (Dfs.dfsDepSearch (absEng e) i) (a.states, a.errs) = dl at hR1 hE1
  obtain ⟨s', errs'⟩ := dl
  simp only at hR1 hE1 ⊢
  have hlk := R_lookup hw hR1 hr
  -- bookkeeping for a match
  have hmatch : ∀ (c2 : ScanAcc), c2.sr = c.sr →
      ∃ sr', srUpdate (c2.sr.getD {}) e.rules[i] = some sr' ∧ SrRel e (a.matched ++ [i]) (some sr') := by
    intro c2 h2
    have hsev : (c2.sr.getD {}).severity ≤ Gen.maxSeverity := by
      rw [h2]
      cases hc : c.sr with
      | none => exact Nat.zero_le _
      | some s0 => exact hS.2 s0 hc
    obtain ⟨sr', h1, h2', _⟩ := C07.srUpdate_some (c2.sr.getD {}) e.rules[i] hsev (hw.sev_ok _ (List.getElem_mem hi))
    refine ⟨sr', h1, ?_, fun s hs => by cases hs; exact h2'⟩
    rw [List.filterMap_append]
    simp only [List.filterMap_cons, hr, List.filterMap_nil, srFold, List.foldl_append, List.foldl_cons, List.foldl_nil]
    rw [← h1, h2, hS.1]; rfl
  cases hlook : Memo.look s' i with
  | some b =>
    have hv : verdictPhase x event c1 e.rules[i] = (b, c1) := by
      simp only [verdictPhase, hlk, hlook]
    simp only [hv]
    cases b with
    | false =>
      simp only [Bool.false_eq_true, if_false]
      exact ⟨c1, rfl, hR1, hE1, by rw [hsr1]; exact hS⟩
    | true =>
      simp only [if_true]
      obtain ⟨sr', h1, h2⟩ := hmatch c1 hsr1
      rw [h1]
      exact ⟨_, rfl, hR1, hE1, h2⟩
  | none =>
    have hev := R_eval x event hw hR1 hr
    cases hre : ruleEval x event c1.states e.rules[i] with
    | ok b =>
      have hv : verdictPhase x event c1 e.rules[i] = (b, c1) := by
        simp only [verdictPhase, hlk, hlook, hre]
      rw [hre] at hev; simp only [toRes] at hev
      simp only [hv, ← hev]
      cases b with
      | false =>
        simp only [Bool.false_eq_true, if_false]
        exact ⟨c1, rfl, hR1, hE1, by rw [hsr1]; exact hS⟩
      | true =>
        simp only [if_true]
        obtain ⟨sr', h1, h2⟩ := hmatch c1 hsr1
        rw [h1]
        exact ⟨_, rfl, hR1, hE1, h2⟩
    | error err =>
      have hv : verdictPhase x event c1 e.rules[i] = (false, { c1 with lastErr := some (e.rules[i].name, err) }) := by
        simp only [verdictPhase, hlk, hlook, hre]
      rw [hre] at hev; simp only [toRes] at hev
      simp only [hv, ← hev, Bool.false_eq_true, if_false]
      refine ⟨_, rfl, hR1, ?_, by rw [hsr1]; exact hS⟩
      refine ⟨by simp, ?_⟩
      intro nm k h
      simp only [Option.some.injEq, Prod.mk.injEq] at h
      exact ⟨i, by simp, e.rules[i], hr, h.1⟩

/-- **the candidate loop of the model is the abstract scan** -/
theorem scanLoop_sim (hw : WfEngine e) : ∀ (cands : List Nat), (∀ i ∈ cands, i < e.rules.length) →
    ∀ (a : Scan.Acc) (c : ScanAcc), R e a.states c.states → ErrRel e a.errs c.lastErr → SrRel e a.matched c.sr →
    ∃ c', scanLoop x event e cands c = .ok c' ∧
      R e (cands.foldl (Scan.scanStep (absEng e) (absEv x event e)) a).states c'.states ∧
      ErrRel e (cands.foldl (Scan.scanStep (absEng e) (absEv x event e)) a).errs c'.lastErr ∧
      SrRel e (cands.foldl (Scan.scanStep (absEng e) (absEv x event e)) a).matched c'.sr := by
  intro cands
  induction cands with
  | nil => intro _ a c hR hE hS; exact ⟨c, rfl, hR, hE, hS⟩
  | cons i cands ih =>
    intro hl a c hR hE hS
    obtain ⟨c1, h1, hR1, hE1, hS1⟩ := scanStep_sim x event hw i (hl i (by simp)) a c hR hE hS
    simp only [scanLoop, h1, List.foldl_cons]
    exact ih (fun j hj => hl j (by simp [hj])) _ c1 hR1 hE1 hS1

end scan

end Gene.Props.EngineSim
