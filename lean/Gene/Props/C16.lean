import Gene.Cond
import Gene.Props.C02
import Gene.Props.C18
/-! C16 — accepted condition and match text is interpreted in full, nothing ignored.

    `C16_cond_accounts`: if a condition string is accepted with CST `c`, the non-space characters of the
    string are exactly the concatenation of the tokens of `c`, in order (`yieldE c`): nothing trailing,
    nothing interleaved is dropped; the count of `N of …` is all the digits matched, the prefix exactly the
    `var` token. `C16_match_accounts`: the same for the three forms of match strings. -/
set_option linter.unusedSimpArgs false
namespace Gene.Props.C16
open Gene M

def noSp (s : Str) : Str := s.filter (fun c => c != ' ')

@[simp] theorem noSp_nil : noSp [] = [] := rfl
theorem noSp_append (a b : Str) : noSp (a ++ b) = noSp a ++ noSp b := by simp [noSp]
theorem noSp_cons_sp (s : Str) : noSp (' ' :: s) = noSp s := by simp [noSp]
theorem noSp_cons_ne (c : Char) (s : Str) (h : c ≠ ' ') : noSp (c :: s) = c :: noSp s := by simp [noSp, h]

theorem noSp_skipWs (s : Str) : noSp (skipWs s) = noSp s := by
  induction s with
  | nil => rfl
  | cons c s ih =>
    by_cases h : c = ' '
    · subst h; simp only [skipWs, noSp_cons_sp, ih]
    · have : skipWs (c :: s) = c :: s := by
        unfold skipWs
        split
        · rename_i heq; simp at heq; exact absurd heq.1 h
        · rfl
      rw [this]

theorem noSp_id (s : Str) (h : ∀ c ∈ s, c ≠ ' ') : noSp s = s := by
  induction s with
  | nil => rfl
  | cons c s ih =>
    rw [noSp_cons_ne c s (h c (by simp)), ih (fun d hd => h d (by simp [hd]))]

theorem skipWs_nil_noSp (s : Str) (h : skipWs s = []) : noSp s = [] := by
  rw [← noSp_skipWs, h]; rfl

theorem stripPrefix_eq (s p r : Str) (h : stripPrefix s p = some r) : s = p ++ r := by
  induction p generalizing s with
  | nil => simp [stripPrefix] at h; subst h; rfl
  | cons a p ih =>
    cases s with
    | nil => simp [stripPrefix] at h
    | cons c s =>
      simp only [stripPrefix] at h
      split at h
      · rename_i hc; have hc' := beq_iff_eq.mp hc; subst hc'; rw [ih s h]; rfl
      · cases h

/-! ### tokens -/
theorem isVarChar_ne_sp (c : Char) (h : isVarChar c = true) : c ≠ ' ' := by
  intro hc; subst hc; revert h; decide
theorem isDigit_ne_sp (c : Char) (h : isAsciiDigit c = true) : c ≠ ' ' := by
  intro hc; subst hc; revert h; decide

theorem varTok_spec (s v r : Str) (h : varTok s = some (v, r)) : s = v ++ r ∧ noSp v = v := by
  unfold varTok at h
  split at h
  · rename_i r0
    have sp := spanP_append isVarChar r0
    have sa := spanP_all isVarChar r0
    split at h
    · rename_i a n r' heq
      simp only [Option.some.injEq, Prod.mk.injEq] at h
      obtain ⟨rfl, rfl⟩ := h
      rw [heq] at sp sa
      refine ⟨by rw [← sp]; simp, ?_⟩
      apply noSp_id
      intro c hc
      simp only [List.mem_cons] at hc
      rcases hc with rfl | hc
      · decide
      · exact isVarChar_ne_sp c (sa c (by simpa using hc))
    · cases h
  · cases h

theorem countTok_spec (s d r : Str) (h : countTok s = some (d, r)) : s = d ++ r ∧ noSp d = d := by
  unfold countTok at h
  have sp := spanP_append isAsciiDigit s
  have sa := spanP_all isAsciiDigit s
  split at h
  · rename_i a n r' heq
    simp only [Option.some.injEq, Prod.mk.injEq] at h
    obtain ⟨rfl, rfl⟩ := h
    rw [heq] at sp sa
    exact ⟨sp.symm, noSp_id _ (fun c hc => isDigit_ne_sp c (sa c hc))⟩
  · cases h

theorem ofThem_spec (s r : Str) (h : ofThem s = some r) : noSp s = "ofthem".toList ++ noSp r := by
  unfold ofThem at h
  split at h
  · cases h
  · rename_i r1 h1
    have e1 := stripPrefix_eq _ _ _ h1
    have e2 := stripPrefix_eq _ _ _ h
    rw [← noSp_skipWs s, e1, noSp_append, ← noSp_skipWs r1, e2, noSp_append]
    rfl

theorem ofVars_spec (s v r : Str) (h : ofVars s = some (v, r)) : noSp s = "of".toList ++ v ++ noSp r := by
  unfold ofVars at h
  split at h
  · cases h
  · rename_i r1 h1
    have e1 := stripPrefix_eq _ _ _ h1
    obtain ⟨e2, e3⟩ := varTok_spec _ _ _ h
    rw [← noSp_skipWs s, e1, noSp_append, ← noSp_skipWs r1, e2, noSp_append, e3]
    simp only [List.append_assoc]
    rfl

def leafYield : Leaf → Str
  | .var v => v
  | .allOfThem => "allofthem".toList
  | .allOfVars p => "allof".toList ++ p
  | .anyOfThem => "anyofthem".toList
  | .anyOfVars p => "anyof".toList ++ p
  | .noneOfThem => "noneofthem".toList
  | .noneOfVars p => "noneof".toList ++ p
  | .nOfThem d => d ++ "ofthem".toList
  | .nOfVars d p => d ++ "of".toList ++ p

theorem kwGroup_spec (kw : Str) (them : Leaf) (vars : Str → Leaf) (s : Str) (l : Leaf) (r : Str)
    (hkw : noSp kw = kw)
    (ht : leafYield them = kw ++ "ofthem".toList) (hv : ∀ v, leafYield (vars v) = kw ++ "of".toList ++ v)
    (h : kwGroup kw them vars s = some (l, r)) : noSp s = leafYield l ++ noSp r := by
  unfold kwGroup at h
  split at h
  · cases h
  · rename_i r1 h1
    have e1 := stripPrefix_eq _ _ _ h1
    split at h
    · rename_i r' h2
      simp only [Option.some.injEq, Prod.mk.injEq] at h
      obtain ⟨rfl, rfl⟩ := h
      rw [e1, noSp_append, hkw, ofThem_spec _ _ h2, ht]; simp only [List.append_assoc]
    · split at h
      · rename_i v r' h3
        simp only [Option.some.injEq, Prod.mk.injEq] at h
        obtain ⟨rfl, rfl⟩ := h
        rw [e1, noSp_append, hkw, ofVars_spec _ _ _ h3, hv]; simp only [List.append_assoc]
      · cases h

theorem countGroup_spec (s : Str) (l : Leaf) (r : Str) (h : countGroup s = some (l, r)) :
    noSp s = leafYield l ++ noSp r := by
  unfold countGroup at h
  split at h
  · cases h
  · rename_i d r1 hd
    obtain ⟨e1, e2⟩ := countTok_spec _ _ _ hd
    split at h
    · rename_i r' h2
      simp only [Option.some.injEq, Prod.mk.injEq] at h
      obtain ⟨rfl, rfl⟩ := h
      rw [e1, noSp_append, e2, ofThem_spec _ _ h2]
      show d ++ ("ofthem".toList ++ noSp r') = (d ++ "ofthem".toList) ++ noSp r'
      rw [List.append_assoc]
    · split at h
      · rename_i v r' h3
        simp only [Option.some.injEq, Prod.mk.injEq] at h
        obtain ⟨rfl, rfl⟩ := h
        rw [e1, noSp_append, e2, ofVars_spec _ _ _ h3]
        show d ++ ("of".toList ++ v ++ noSp r') = (d ++ "of".toList ++ v) ++ noSp r'
        simp only [List.append_assoc]
      · cases h

theorem kw_all : noSp "all".toList = "all".toList := by decide
theorem kw_any : noSp "any".toList = "any".toList := by decide
theorem kw_none : noSp "none".toList = "none".toList := by decide

theorem groupTok_spec (s : Str) (l : Leaf) (r : Str) (h : groupTok s = some (l, r)) :
    noSp s = leafYield l ++ noSp r := by
  unfold groupTok at h
  split at h
  · rename_i x hx
    simp only [Option.some.injEq] at h; subst h
    exact countGroup_spec _ _ _ hx
  · split at h
    · rename_i x hx
      simp only [Option.some.injEq] at h; subst h
      exact kwGroup_spec "all".toList .allOfThem .allOfVars s _ _ kw_all rfl (fun _ => rfl) hx
    · split at h
      · rename_i x hx
        simp only [Option.some.injEq] at h; subst h
        exact kwGroup_spec "any".toList .anyOfThem .anyOfVars s _ _ kw_any rfl (fun _ => rfl) hx
      · exact kwGroup_spec "none".toList .noneOfThem .noneOfVars s _ _ kw_none rfl (fun _ => rfl) h

theorem leafTok_spec (s : Str) (l : Leaf) (r : Str) (h : leafTok s = some (l, r)) :
    noSp s = leafYield l ++ noSp r := by
  unfold leafTok at h
  split at h
  · rename_i v r' hv
    simp only [Option.some.injEq, Prod.mk.injEq] at h
    obtain ⟨rfl, rfl⟩ := h
    obtain ⟨e1, e2⟩ := varTok_spec _ _ _ hv
    rw [e1, noSp_append, e2]; rfl
  · exact groupTok_spec _ _ _ h

theorem negTok_spec (s sp r : Str) (h : negTok s = some (sp, r)) : s = sp ++ r ∧ noSp sp = sp := by
  unfold negTok at h
  split at h
  · simp only [Option.some.injEq, Prod.mk.injEq] at h
    obtain ⟨rfl, rfl⟩ := h; exact ⟨rfl, by decide⟩
  · simp only [Option.some.injEq, Prod.mk.injEq] at h
    obtain ⟨rfl, rfl⟩ := h; exact ⟨rfl, by decide⟩
  · cases h

theorem bopTok_spec (s : Str) (o : BOp) (sp r : Str) (h : bopTok s = some (o, sp, r)) :
    s = sp ++ r ∧ noSp sp = sp := by
  unfold bopTok at h
  split at h
  all_goals first
    | (simp only [Option.some.injEq, Prod.mk.injEq] at h
       obtain ⟨_, rfl, rfl⟩ := h; exact ⟨rfl, by decide⟩)
    | cases h

/-! ### the token sequence of a CST -/
mutual
def yieldE : CExpr → Str
  | .mk h t => yieldA h ++ yieldT t
def yieldT : CTail → Str
  | .nil => []
  | .cons _ sp a t => sp ++ yieldA a ++ yieldT t
def yieldA : CAtom → Str
  | .mk n p => n.getD [] ++ yieldP p
def yieldP : CPrim → Str
  | .leaf l => leafYield l
  | .paren e => '(' :: (yieldE e ++ [')'])
end

theorem parse_accounts : ∀ f : Nat,
    (∀ s c r, parseExprC f s = some (c, r) → noSp s = yieldE c ++ noSp r) ∧
    (∀ s t r, parseTail f s = (t, r) → noSp s = yieldT t ++ noSp r) ∧
    (∀ s a r, parseAtom f s = some (a, r) → noSp s = yieldA a ++ noSp r) ∧
    (∀ s p r, parsePrimary f s = some (p, r) → noSp s = yieldP p ++ noSp r) := by
  intro f
  induction f with
  | zero =>
    refine ⟨?_, ?_, ?_, ?_⟩
    · intro s c r h; simp [parseExprC] at h
    · intro s t r h; simp only [parseTail, Prod.mk.injEq] at h; obtain ⟨rfl, rfl⟩ := h; rfl
    · intro s a r h; simp [parseAtom] at h
    · intro s p r h; simp [parsePrimary] at h
  | succ f ih =>
    obtain ⟨ihE, ihT, ihA, ihP⟩ := ih
    refine ⟨?_, ?_, ?_, ?_⟩
    · intro s c r h
      unfold parseExprC at h
      split at h
      · cases h
      · rename_i a r1 ha
        split at h
        rename_i t r2 ht
        simp only [Option.some.injEq, Prod.mk.injEq] at h
        obtain ⟨rfl, rfl⟩ := h
        rw [ihA _ _ _ ha, ihT _ _ _ ht]; simp [yieldE, List.append_assoc]
    · intro s t r h
      unfold parseTail at h
      split at h
      · simp only [Prod.mk.injEq] at h; obtain ⟨rfl, rfl⟩ := h; rfl
      · rename_i o sp r1 hb
        obtain ⟨e1, e2⟩ := bopTok_spec _ _ _ _ hb
        split at h
        · simp only [Prod.mk.injEq] at h; obtain ⟨rfl, rfl⟩ := h; rfl
        · rename_i a r2 ha
          split at h
          rename_i t' r3 ht
          simp only [Prod.mk.injEq] at h
          obtain ⟨rfl, rfl⟩ := h
          have := ihA _ _ _ ha
          rw [noSp_skipWs] at this
          rw [← noSp_skipWs s, e1, noSp_append, e2, this, ihT _ _ _ ht]
          simp [yieldT, List.append_assoc]
    · intro s a r h
      unfold parseAtom at h
      split at h
      · rename_i sp r1 hn
        obtain ⟨e1, e2⟩ := negTok_spec _ _ _ hn
        split at h
        · rename_i p r2 hp
          simp only [Option.some.injEq, Prod.mk.injEq] at h
          obtain ⟨rfl, rfl⟩ := h
          have := ihP _ _ _ hp
          rw [noSp_skipWs] at this
          rw [e1, noSp_append, e2, this]; simp [yieldA, List.append_assoc]
        · cases h
      · split at h
        · rename_i p r2 hp
          simp only [Option.some.injEq, Prod.mk.injEq] at h
          obtain ⟨rfl, rfl⟩ := h
          rw [ihP _ _ _ hp]; simp [yieldA]
        · cases h
    · intro s p r h
      unfold parsePrimary at h
      split at h
      · rename_i l r1 hl
        simp only [Option.some.injEq, Prod.mk.injEq] at h
        obtain ⟨rfl, rfl⟩ := h
        rw [leafTok_spec _ _ _ hl]; rfl
      · rename_i hl
        cases s with
        | nil => simp at h
        | cons ch r0 =>
          by_cases hch : ch = '('
          · subst hch
            simp only at h
            split at h
            · cases h
            · rename_i e r2 he
              split at h
              · rename_i r3 hr
                simp only [Option.some.injEq, Prod.mk.injEq] at h
                obtain ⟨hp, hr3⟩ := h
                subst hp
                have h1 := ihE _ _ _ he
                rw [noSp_skipWs] at h1
                have h2 : noSp r2 = ')' :: noSp r := by
                  rw [← noSp_skipWs r2, hr, hr3]; exact noSp_cons_ne ')' r (by decide)
                rw [noSp_cons_ne '(' _ (by decide), h1, h2]
                simp [yieldP, List.append_assoc]
              · cases h
          · split at h
            · rename_i heq; simp only [List.cons.injEq] at heq; exact absurd heq.1 hch
            · cases h

/-- **C16 (conditions).** An accepted condition is accounted for token by token: its non-space
    characters are exactly the tokens of the CST the meaning is computed from — nothing trailing or
    interleaved is dropped. -/
theorem C16_cond_accounts (s : Str) (c : CExpr) (h : parseCondCst s = some c) : noSp s = yieldE c := by
  unfold parseCondCst at h
  split at h
  · rename_i e r he
    split at h
    · rename_i hr
      simp only [Option.some.injEq] at h; subst h
      have := (parse_accounts _).1 _ _ _ he
      rw [noSp_skipWs] at this
      have hr' : skipWs r = [] := by simpa using hr
      rw [this, skipWs_nil_noSp r hr']; simp
    · cases h
  · cases h

/-- the count of `N of …` is the value of *all* the digits matched and the prefix exactly the `var` token:
    both are read from the CST leaf that `C16_cond_accounts` accounts for -/
theorem C16_leaf_meaning (d p : Str) :
    (leafExpr (.nOfVars d p) = .noneOfVars p ∨ leafExpr (.nOfVars d p) = .nOfVars (countVal d) p) ∧
    leafExpr (.allOfVars p) = .allOfVars p ∧ leafExpr (.anyOfVars p) = .anyOfVars p ∧
    leafExpr (.noneOfVars p) = .noneOfVars p := by
  refine ⟨?_, rfl, rfl, rfl⟩
  cases hcv : (countVal d == 0) with
  | true => left; simp [leafExpr, hcv]
  | false => right; simp [leafExpr, hcv]


/-! ### match strings: every character is a token character or a separating space -/
def Gap (g : Str) : Prop := ∀ c ∈ g, c = ' '

theorem skipWs_gap (s : Str) : ∃ g, s = g ++ skipWs s ∧ Gap g := by
  induction s with
  | nil => exact ⟨[], rfl, by intro c hc; cases hc⟩
  | cons c s ih =>
    by_cases h : c = ' '
    · subst h
      obtain ⟨g, hg, hgap⟩ := ih
      refine ⟨' ' :: g, ?_, ?_⟩
      · simp only [skipWs, List.cons_append]; rw [← hg]
      · intro d hd; rcases List.mem_cons.mp hd with rfl | hd
        · rfl
        · exact hgap d hd
    · have : skipWs (c :: s) = c :: s := by
        unfold skipWs
        split
        · rename_i heq; simp at heq; exact absurd heq.1 h
        · rfl
      exact ⟨[], by rw [this]; rfl, by intro d hd; cases hd⟩

theorem optQuote_spec (s : Str) : ∃ q, s = q ++ optQuote s ∧ (q = [] ∨ q = ['"']) := by
  unfold optQuote
  split
  · exact ⟨['"'], rfl, Or.inr rfl⟩
  · exact ⟨[], rfl, Or.inl rfl⟩

def opSpellings : MOp → List Str
  | .eq => ["==".toList, "is".toList]
  | .lt => ["<".toList]
  | .lte => ["<=".toList]
  | .gt => [">".toList]
  | .gte => [">=".toList]
  | .rex => ["~=".toList]
  | .flag => ["&=".toList]

theorem opTok_spec (s : Str) (op : MOp) (r : Str) (h : opTok s = some (op, r)) :
    ∃ sp ∈ opSpellings op, s = sp ++ r := by
  unfold opTok at h
  split at h
  all_goals first
    | (simp only [Option.some.injEq, Prod.mk.injEq] at h
       obtain ⟨rfl, rfl⟩ := h
       first
         | exact ⟨_, List.mem_cons_self, rfl⟩
         | exact ⟨_, List.mem_cons_of_mem _ List.mem_cons_self, rfl⟩)
    | cases h

theorem eqTok_spec (s r : Str) (h : eqTok s = some r) : ∃ sp ∈ opSpellings .eq, s = sp ++ r := by
  unfold eqTok at h
  split at h
  · simp only [Option.some.injEq] at h; subst h; exact ⟨_, List.mem_cons_self, rfl⟩
  · simp only [Option.some.injEq] at h; subst h; exact ⟨_, List.mem_cons_of_mem _ List.mem_cons_self, rfl⟩
  · cases h

theorem valueTok_spec (s tok r : Str) (h : valueTok s = some (tok, r)) : s = tok ++ r := by
  unfold valueTok at h
  split at h
  · rename_i r0
    have sp := spanP_append (fun c => c != '"') r0
    split at h
    · rename_i body r' heq
      simp only [Option.some.injEq, Prod.mk.injEq] at h
      obtain ⟨rfl, rfl⟩ := h
      rw [heq] at sp; simp only at sp
      rw [← sp]; simp
    · cases h
  · rename_i r0
    have sp := spanP_append (fun c => c != '\'') r0
    split at h
    · rename_i body r' heq
      simp only [Option.some.injEq, Prod.mk.injEq] at h
      obtain ⟨rfl, rfl⟩ := h
      rw [heq] at sp; simp only at sp
      rw [← sp]; simp
    · cases h
  · split at h
    · rename_i r' hp
      simp only [Option.some.injEq, Prod.mk.injEq] at h
      obtain ⟨rfl, rfl⟩ := h; exact stripPrefix_eq _ _ _ hp
    · split at h
      · rename_i r' hp
        simp only [Option.some.injEq, Prod.mk.injEq] at h
        obtain ⟨rfl, rfl⟩ := h; exact stripPrefix_eq _ _ _ hp
      · split at h
        · rename_i r' hp
          simp only [Option.some.injEq, Prod.mk.injEq] at h
          obtain ⟨rfl, rfl⟩ := h; exact stripPrefix_eq _ _ _ hp
        · split at h
          · rename_i r' hp
            simp only [Option.some.injEq, Prod.mk.injEq] at h
            obtain ⟨rfl, rfl⟩ := h; exact stripPrefix_eq _ _ _ hp
          · cases h

def render (gs : List Seg) : Str := gs.flatMap Seg.render

/-- **C16 (direct matches).** An accepted `path op value` string is, from its first to its last
    character: spaces, an optional quote, spaces, the rendering of the parsed path, spaces, an optional
    quote, spaces, a spelling of the parsed operator, spaces, the value token, spaces. Nothing else. -/
theorem C16_direct_accounts (s : Str) (gs : List Seg) (op : MOp) (tok : Str)
    (h : parseDirect s = some (gs, op, tok)) :
    ∃ g0 q0 g1 g2 q1 g3 sp g4 g5,
      s = g0 ++ q0 ++ g1 ++ render gs ++ g2 ++ q1 ++ g3 ++ sp ++ g4 ++ tok ++ g5 ∧
      Gap g0 ∧ Gap g1 ∧ Gap g2 ∧ Gap g3 ∧ Gap g4 ∧ Gap g5 ∧
      (q0 = [] ∨ q0 = ['"']) ∧ (q1 = [] ∨ q1 = ['"']) ∧ sp ∈ opSpellings op := by
  unfold parseDirect at h
  simp only at h
  obtain ⟨g0, e0, hg0⟩ := skipWs_gap s
  obtain ⟨q0, eq0, hq0⟩ := optQuote_spec (skipWs s)
  obtain ⟨g1, e1, hg1⟩ := skipWs_gap (optQuote (skipWs s))
  split at h
  · cases h
  · rename_i gs' r1 hfp
    have efp := (C18.matched_span_reparses _ _ _ hfp).1
    obtain ⟨g2, e2, hg2⟩ := skipWs_gap r1
    obtain ⟨q1, eq1, hq1⟩ := optQuote_spec (skipWs r1)
    obtain ⟨g3, e3, hg3⟩ := skipWs_gap (optQuote (skipWs r1))
    split at h
    · cases h
    · rename_i op' r2 hop
      obtain ⟨sp, hsp, eop⟩ := opTok_spec _ _ _ hop
      obtain ⟨g4, e4, hg4⟩ := skipWs_gap r2
      split at h
      · cases h
      · rename_i tok' r3 hv
        have ev := valueTok_spec _ _ _ hv
        obtain ⟨g5, e5, hg5⟩ := skipWs_gap r3
        split at h
        · rename_i hend
          simp only [Option.some.injEq, Prod.mk.injEq] at h
          obtain ⟨rfl, rfl, rfl⟩ := h
          have hend' : skipWs r3 = [] := by simpa using hend
          refine ⟨g0, q0, g1, g2, q1, g3, sp, g4, g5, ?_, hg0, hg1, hg2, hg3, hg4, hg5, hq0, hq1, hsp⟩
          rw [hend', List.append_nil] at e5
          calc s = g0 ++ skipWs s := e0
            _ = g0 ++ (q0 ++ optQuote (skipWs s)) := by rw [← eq0]
            _ = g0 ++ (q0 ++ (g1 ++ skipWs (optQuote (skipWs s)))) := by rw [← e1]
            _ = g0 ++ (q0 ++ (g1 ++ (render gs' ++ r1))) := by rw [efp]; rfl
            _ = g0 ++ (q0 ++ (g1 ++ (render gs' ++ (g2 ++ skipWs r1)))) := by rw [← e2]
            _ = g0 ++ (q0 ++ (g1 ++ (render gs' ++ (g2 ++ (q1 ++ optQuote (skipWs r1)))))) := by rw [← eq1]
            _ = g0 ++ (q0 ++ (g1 ++ (render gs' ++ (g2 ++ (q1 ++ (g3 ++ skipWs (optQuote (skipWs r1)))))))) := by rw [← e3]
            _ = g0 ++ (q0 ++ (g1 ++ (render gs' ++ (g2 ++ (q1 ++ (g3 ++ (sp ++ r2))))))) := by rw [eop]
            _ = g0 ++ (q0 ++ (g1 ++ (render gs' ++ (g2 ++ (q1 ++ (g3 ++ (sp ++ (g4 ++ skipWs r2)))))))) := by rw [← e4]
            _ = g0 ++ (q0 ++ (g1 ++ (render gs' ++ (g2 ++ (q1 ++ (g3 ++ (sp ++ (g4 ++ (tok' ++ r3))))))))) := by rw [ev]
            _ = g0 ++ (q0 ++ (g1 ++ (render gs' ++ (g2 ++ (q1 ++ (g3 ++ (sp ++ (g4 ++ (tok' ++ g5))))))))) := by rw [← e5]
            _ = _ := by simp only [List.append_assoc]
        · cases h

/-- **C16 (rule matches).** `rule(name)`: spaces, `rule(`, spaces, the name, spaces, `)`, spaces -/
theorem C16_rule_accounts (s n : Str) (h : parseRuleMatch s = some n) :
    ∃ g0 g1 g2 g3, s = g0 ++ "rule(".toList ++ g1 ++ n ++ g2 ++ [')'] ++ g3 ∧ Gap g0 ∧ Gap g1 ∧ Gap g2 ∧ Gap g3 ∧
      n ≠ [] ∧ ∀ c ∈ n, isRuleNameChar c = true := by
  unfold parseRuleMatch at h
  obtain ⟨g0, e0, hg0⟩ := skipWs_gap s
  split at h
  · cases h
  · rename_i r1 hp
    have ep := stripPrefix_eq _ _ _ hp
    obtain ⟨g1, e1, hg1⟩ := skipWs_gap r1
    have sp := spanP_append isRuleNameChar (skipWs r1)
    have sa := spanP_all isRuleNameChar (skipWs r1)
    split at h
    · rename_i a n' r2 heq
      rw [heq] at sp sa; simp only at sp sa
      obtain ⟨g2, e2, hg2⟩ := skipWs_gap r2
      split at h
      · rename_i r3 hr
        obtain ⟨g3, e3, hg3⟩ := skipWs_gap r3
        split at h
        · rename_i hend
          simp only [Option.some.injEq] at h; subst h
          have hend' : skipWs r3 = [] := by simpa using hend
          rw [hend', List.append_nil] at e3
          refine ⟨g0, g1, g2, g3, ?_, hg0, hg1, hg2, hg3, by simp, sa⟩
          calc s = g0 ++ skipWs s := e0
            _ = g0 ++ ("rule(".toList ++ r1) := by rw [ep]
            _ = g0 ++ ("rule(".toList ++ (g1 ++ skipWs r1)) := by rw [← e1]
            _ = g0 ++ ("rule(".toList ++ (g1 ++ ((a :: n') ++ r2))) := by rw [sp]
            _ = g0 ++ ("rule(".toList ++ (g1 ++ ((a :: n') ++ (g2 ++ skipWs r2)))) := by rw [← e2]
            _ = g0 ++ ("rule(".toList ++ (g1 ++ ((a :: n') ++ (g2 ++ (')' :: r3))))) := by rw [hr]
            _ = g0 ++ ("rule(".toList ++ (g1 ++ ((a :: n') ++ (g2 ++ (')' :: g3))))) := by rw [← e3]
            _ = _ := by simp only [List.append_assoc, List.cons_append, List.nil_append]
        · cases h
      · cases h
    · cases h

/-- **C16 (indirect matches).** `path == @path`, with optional spaces between the four tokens only -/
theorem C16_indirect_accounts (s : Str) (gs hs : List Seg) (h : parseIndirect s = some (gs, hs)) :
    ∃ g0 g1 sp g2 g3, s = g0 ++ render gs ++ g1 ++ sp ++ g2 ++ ['@'] ++ render hs ++ g3 ∧
      Gap g0 ∧ Gap g1 ∧ Gap g2 ∧ Gap g3 ∧ sp ∈ opSpellings .eq := by
  unfold parseIndirect at h
  obtain ⟨g0, e0, hg0⟩ := skipWs_gap s
  split at h
  · cases h
  · rename_i gs' r1 hfp
    have efp := (C18.matched_span_reparses _ _ _ hfp).1
    obtain ⟨g1, e1, hg1⟩ := skipWs_gap r1
    split at h
    · cases h
    · rename_i r2 heq
      obtain ⟨sp, hsp, eop⟩ := eqTok_spec _ _ heq
      obtain ⟨g2, e2, hg2⟩ := skipWs_gap r2
      split at h
      · rename_i r3 hat
        split at h
        · cases h
        · rename_i hs' r4 hfp2
          have efp2 := (C18.matched_span_reparses _ _ _ hfp2).1
          obtain ⟨g3, e3, hg3⟩ := skipWs_gap r4
          split at h
          · rename_i hend
            simp only [Option.some.injEq, Prod.mk.injEq] at h
            obtain ⟨rfl, rfl⟩ := h
            have hend' : skipWs r4 = [] := by simpa using hend
            rw [hend', List.append_nil] at e3
            refine ⟨g0, g1, sp, g2, g3, ?_, hg0, hg1, hg2, hg3, hsp⟩
            calc s = g0 ++ skipWs s := e0
              _ = g0 ++ (render gs' ++ r1) := by rw [efp]; rfl
              _ = g0 ++ (render gs' ++ (g1 ++ skipWs r1)) := by rw [← e1]
              _ = g0 ++ (render gs' ++ (g1 ++ (sp ++ r2))) := by rw [eop]
              _ = g0 ++ (render gs' ++ (g1 ++ (sp ++ (g2 ++ skipWs r2)))) := by rw [← e2]
              _ = g0 ++ (render gs' ++ (g1 ++ (sp ++ (g2 ++ ('@' :: r3))))) := by rw [hat]
              _ = g0 ++ (render gs' ++ (g1 ++ (sp ++ (g2 ++ ('@' :: (render hs' ++ r4)))))) := by rw [efp2]; rfl
              _ = g0 ++ (render gs' ++ (g1 ++ (sp ++ (g2 ++ ('@' :: (render hs' ++ g3)))))) := by rw [← e3]
              _ = _ := by simp only [List.append_assoc, List.cons_append, List.nil_append]
          · cases h
      · cases h

end Gene.Props.C16
