import Gene.Cond
