import Gene.Cond
/-! C02 — conditions follow boolean algebra, precedence and quantifier meaning.

    Part A: pest's Pratt parser with gene's table, on any atom sequence `a₀ o₁ a₁ … oₙ aₙ` (atoms
            optionally negated): consumes everything, never panics, and the resulting AST evaluates — in
            the lazy, three-valued semantics of `compute_for_event` — to the disjunction over the
            `or`-separated blocks of the conjunction of their atoms.
    Part B: lifted through parenthesised nesting: `parse_expr` on every CST.
    Part C: quantifiers count the true operands (no erroring operand): all / any / none / N of.
    Part D: the statement on condition *strings*. -/
set_option linter.unusedSimpArgs false
namespace Gene.Props.C02
open Gene M

/-! ### the three-valued, lazy connectives -/
abbrev R := Except EvalErr Bool

def andR (a b : R) : R :=
  match a with
  | .error e => .error e
  | .ok false => .ok false
  | .ok true => b
def orR (a b : R) : R :=
  match a with
  | .error e => .error e
  | .ok true => .ok true
  | .ok false => b
def notR (a : R) : R :=
  match a with
  | .error e => .error e
  | .ok b => .ok (!b)

theorem andR_assoc (a b c : R) : andR (andR a b) c = andR a (andR b c) := by
  cases a with
  | error e => rfl
  | ok x => cases x <;> rfl
theorem orR_assoc (a b c : R) : orR (orR a b) c = orR a (orR b c) := by
  cases a with
  | error e => rfl
  | ok x => cases x <;> rfl

/-- an evaluation of ASTs that is a homomorphism for the three connectives (as `compute_for_event` is) -/
structure Hom (ev : Expr → R) : Prop where
  and_ : ∀ l r, ev (.binop l .and r) = andR (ev l) (ev r)
  or_ : ∀ l r, ev (.binop l .or r) = orR (ev l) (ev r)
  neg_ : ∀ e, ev (.neg e) = notR (ev e)

/-! ### Part A -/
structure Atom where
  negd : Bool
  p : Expr

def atomToks (a : Atom) : List Tok := (if a.negd then [Tok.neg] else []) ++ [Tok.prim a.p]
def atomE (a : Atom) : Expr := if a.negd then .neg a.p else a.p
def atomVal (ev : Expr → R) (a : Atom) : R := if a.negd then notR (ev a.p) else ev a.p

theorem ev_atomE {ev : Expr → R} (h : Hom ev) (a : Atom) : ev (atomE a) = atomVal ev a := by
  unfold atomE atomVal; split
  · exact h.neg_ _
  · rfl

abbrev Item := BOp × Atom

def tailToks (rest : List Item) : List Tok := rest.flatMap (fun p => Tok.op p.1 :: atomToks p.2)

@[simp] theorem tailToks_nil : tailToks ([] : List Item) = [] := rfl
@[simp] theorem tailToks_cons (o : BOp) (b : Atom) (r : List Item) :
    tailToks ((o, b) :: r) = Tok.op o :: (atomToks b ++ tailToks r) := by
  simp [tailToks]

/-- reference meaning: disjunction of conjunctions, evaluated lazily left to right;
    `acc` = value of the current and-chain -/
def dnf (ev : Expr → R) (acc : R) : List Item → R
  | [] => acc
  | (.and, b) :: rest => dnf ev (andR acc (atomVal ev b)) rest
  | (.or, b) :: rest => orR acc (dnf ev (atomVal ev b) rest)

theorem lbp_tail (rest : List Item) :
    lbp (tailToks rest) = some (match rest with | [] => 0 | (o, _) :: _ => prec o) := by
  cases rest with
  | nil => rfl
  | cons x r => obtain ⟨o, b⟩ := x; simp [lbp]

theorem loop_stop (g rbp : Nat) (lhs : Expr) (rest : List Item)
    (h : ∀ o b r, rest = (o, b) :: r → prec o ≤ rbp) :
    prattLoop (g+1) rbp lhs (tailToks rest) = some (lhs, tailToks rest) := by
  unfold prattLoop
  rw [lbp_tail]
  cases rest with
  | nil => simp
  | cons x r =>
    obtain ⟨o, b⟩ := x
    have : ¬ rbp < prec o := by have := h o b r rfl; omega
    simp [this]

theorem prec_le (o : BOp) : prec o ≤ 20 := by cases o <;> simp [prec]

/-- an atom parsed at rbp ≥ 20 is just the atom -/
theorem expr_atom_hi (f rbp : Nat) (h : 20 ≤ rbp) (a : Atom) (rest : List Item) :
    prattExpr (f + 3) rbp (atomToks a ++ tailToks rest) = some (atomE a, tailToks rest) := by
  have hl : ∀ g r' lhs, 20 ≤ r' → prattLoop (g+1) r' lhs (tailToks rest) = some (lhs, tailToks rest) :=
    fun g r' lhs hr => loop_stop g r' lhs rest (fun o _ _ _ => by have := prec_le o; omega)
  cases hn : a.negd with
  | false =>
    simp only [atomToks, atomE, hn, Bool.false_eq_true, if_false, List.nil_append, List.singleton_append]
    unfold prattExpr
    exact hl _ _ _ h
  | true =>
    simp only [atomToks, atomE, hn, if_true, List.cons_append, List.nil_append]
    unfold prattExpr
    simp only
    have : prattExpr (f + 2) (negPrec - 1) (Tok.prim a.p :: tailToks rest) = some (a.p, tailToks rest) := by
      unfold prattExpr
      exact hl _ _ _ (by decide)
    rw [this]
    exact hl _ _ _ h

/-- nud on an atom, then the loop -/
theorem nud_atom (g rbp : Nat) (a : Atom) (rest : List Item) :
    prattExpr (g + 4) rbp (atomToks a ++ tailToks rest) = prattLoop (g + 3) rbp (atomE a) (tailToks rest) := by
  cases hn : a.negd with
  | false =>
    simp only [atomToks, atomE, hn, Bool.false_eq_true, if_false, List.nil_append, List.singleton_append]
    unfold prattExpr
    rfl
  | true =>
    have h29 : prattExpr (g + 3) (negPrec - 1) (Tok.prim a.p :: tailToks rest) = some (a.p, tailToks rest) := by
      have := expr_atom_hi g (negPrec - 1) (by decide) ⟨false, a.p⟩ rest
      simpa [atomToks, atomE] using this
    simp only [atomToks, atomE, hn, if_true, List.cons_append, List.nil_append]
    unfold prattExpr
    simp only
    rw [h29]

def andItems (bs : List Atom) : List Item := bs.map (fun b => (BOp.and, b))
def chain (lhs : Expr) (bs : List Atom) : Expr := bs.foldl (fun l b => .binop l .and (atomE b)) lhs

/-- `tl` does not start with `and` -/
def NoAndHead (tl : List Item) : Prop := ∀ o b r, tl = (o, b) :: r → o = .or

theorem loop10 (bs : List Atom) : ∀ (tl : List Item) (lhs : Expr) (f : Nat), NoAndHead tl →
    bs.length + 4 ≤ f →
    prattLoop f 10 lhs (tailToks (andItems bs ++ tl)) = some (chain lhs bs, tailToks tl) := by
  induction bs with
  | nil =>
    intro tl lhs f hna hf
    obtain ⟨g, rfl⟩ : ∃ g, f = g + 1 := ⟨f - 1, by omega⟩
    simp only [andItems, List.map_nil, List.nil_append, chain, List.foldl_nil]
    exact loop_stop g 10 lhs tl (fun o b r h => by rw [hna o b r h]; simp [prec])
  | cons b bs ih =>
    intro tl lhs f hna hf
    obtain ⟨g, rfl⟩ : ∃ g, f = g + 4 := ⟨f - 4, by simp at hf; omega⟩
    have hstep : prattExpr (g + 3) 20 (atomToks b ++ tailToks (andItems bs ++ tl)) =
        some (atomE b, tailToks (andItems bs ++ tl)) := expr_atom_hi g 20 (by omega) b _
    have hrec := ih tl (.binop lhs .and (atomE b)) (g + 3) hna (by simp at hf; omega)
    show prattLoop (g + 3 + 1) 10 lhs (tailToks (andItems (b :: bs) ++ tl)) = _
    unfold prattLoop
    simp only [andItems, List.map_cons, List.cons_append, tailToks_cons, lbp, prec]
    simp only [show (10 : Nat) < 20 by omega, if_true]
    rw [show andItems bs = bs.map (fun b => (BOp.and, b)) from rfl] at hstep hrec
    rw [hstep]
    simp only [chain, List.foldl_cons]
    exact hrec

theorem expr10 (a : Atom) (bs : List Atom) (tl : List Item) (f : Nat) (hna : NoAndHead tl)
    (hf : bs.length + 8 ≤ f) :
    prattExpr f 10 (atomToks a ++ tailToks (andItems bs ++ tl)) = some (chain (atomE a) bs, tailToks tl) := by
  obtain ⟨g, rfl⟩ : ∃ g, f = g + 4 := ⟨f - 4, by omega⟩
  rw [nud_atom]
  exact loop10 bs tl (atomE a) (g + 3) hna (by omega)

def splitAnds : List Item → List Atom × List Item
  | (.and, b) :: r => ((splitAnds r).1.cons b, (splitAnds r).2)
  | tl => ([], tl)

theorem splitAnds_spec (r : List Item) :
    r = andItems (splitAnds r).1 ++ (splitAnds r).2 ∧ NoAndHead (splitAnds r).2 ∧
      (splitAnds r).1.length + (splitAnds r).2.length = r.length := by
  induction r with
  | nil => simp [splitAnds, andItems, NoAndHead]
  | cons x r ih =>
    obtain ⟨o, b⟩ := x
    cases o with
    | and =>
      simp only [splitAnds]
      refine ⟨?_, ih.2.1, ?_⟩
      · simp only [andItems, List.map_cons, List.cons_append]; congr 1; exact ih.1
      · simp; omega
    | or =>
      simp only [splitAnds]
      refine ⟨by simp [andItems], ?_, by simp⟩
      intro o' b' r' h; simp at h; exact h.1.1.symm

theorem dnf_chain (ev : Expr → R) (acc : R) (bs : List Atom) (tl : List Item) :
    dnf ev acc (andItems bs ++ tl) = dnf ev (bs.foldl (fun x b => andR x (atomVal ev b)) acc) tl := by
  induction bs generalizing acc with
  | nil => simp [andItems]
  | cons b bs ih => simp only [andItems, List.map_cons, List.cons_append, dnf, List.foldl_cons]; exact ih _

theorem ev_chain {ev : Expr → R} (h : Hom ev) (lhs : Expr) (bs : List Atom) :
    ev (chain lhs bs) = bs.foldl (fun x b => andR x (atomVal ev b)) (ev lhs) := by
  induction bs generalizing lhs with
  | nil => rfl
  | cons b bs ih =>
    simp only [chain, List.foldl_cons]; rw [← chain, ih]; rw [h.and_, ev_atomE h]

theorem dnf_or_out (ev : Expr → R) (x c : R) (tl : List Item) (h : NoAndHead tl) :
    dnf ev (orR x c) tl = orR x (dnf ev c tl) := by
  cases tl with
  | nil => rfl
  | cons y r =>
    obtain ⟨o, b⟩ := y
    have := h o b r rfl; subst this
    simp [dnf, orR_assoc]

/-- the top-level loop (rbp = 0): consumes everything; value = DNF meaning -/
theorem loop0 : ∀ (n : Nat) (rest : List Item) (lhs : Expr) (f : Nat),
    rest.length ≤ n → 2 * rest.length + 10 ≤ f →
    ∃ e, prattLoop f 0 lhs (tailToks rest) = some (e, []) ∧
      ∀ ev : Expr → R, Hom ev → ev e = dnf ev (ev lhs) rest := by
  intro n
  induction n with
  | zero =>
    intro rest lhs f hn hf
    have : rest = [] := List.eq_nil_of_length_eq_zero (by omega)
    subst this
    obtain ⟨g, rfl⟩ : ∃ g, f = g + 1 := ⟨f - 1, by omega⟩
    exact ⟨lhs, by simp [prattLoop, lbp], fun _ _ => rfl⟩
  | succ n ih =>
    intro rest lhs f hn hf
    cases rest with
    | nil =>
      obtain ⟨g, rfl⟩ : ∃ g, f = g + 1 := ⟨f - 1, by omega⟩
      exact ⟨lhs, by simp [prattLoop, lbp], fun _ _ => rfl⟩
    | cons x r =>
      obtain ⟨o, b⟩ := x
      obtain ⟨g, rfl⟩ : ∃ g, f = g + 1 := ⟨f - 1, by omega⟩
      simp only [List.length_cons] at hn hf
      cases o with
      | and =>
        have hstep : prattExpr g 20 (atomToks b ++ tailToks r) = some (atomE b, tailToks r) := by
          obtain ⟨g', rfl⟩ : ∃ g', g = g' + 3 := ⟨g - 3, by omega⟩
          exact expr_atom_hi g' 20 (by omega) b r
        obtain ⟨e, he, hv⟩ := ih r (.binop lhs .and (atomE b)) g (by omega) (by omega)
        refine ⟨e, ?_, ?_⟩
        · unfold prattLoop
          simp only [tailToks_cons, lbp, prec, show (0 : Nat) < 20 by omega, if_true]
          rw [hstep]; exact he
        · intro ev hev
          rw [hv ev hev]; simp only [dnf]; rw [hev.and_, ev_atomE hev]
      | or =>
        have sp := splitAnds_spec r
        generalize hbs : (splitAnds r).1 = bs at sp
        generalize htl : (splitAnds r).2 = tl at sp
        obtain ⟨hr, hna, hlen⟩ := sp
        have hstep : prattExpr g 10 (atomToks b ++ tailToks (andItems bs ++ tl)) =
            some (chain (atomE b) bs, tailToks tl) := expr10 b bs tl g hna (by omega)
        obtain ⟨e, he, hv⟩ := ih tl (.binop lhs .or (chain (atomE b) bs)) g (by omega) (by omega)
        refine ⟨e, ?_, ?_⟩
        · unfold prattLoop
          simp only [tailToks_cons, lbp, prec, show (0 : Nat) < 10 by omega, if_true]
          rw [hr, hstep]; exact he
        · intro ev hev
          rw [hv ev hev]
          simp only [dnf]
          rw [hev.or_, dnf_or_out ev _ _ tl hna, hr, dnf_chain, ev_chain hev, ev_atomE hev]

/-- **Part A.** Any atom sequence is parsed completely, without panic, into one AST whose value — under
    every evaluation that treats `and`/`or`/`not` as the lazy three-valued connectives — is the lazy
    disjunction of the lazy conjunctions of the (possibly negated) atoms. -/
theorem pratt_correct (a : Atom) (rest : List Item) :
    ∃ e, prattExpr (2 * rest.length + 20) 0 (atomToks a ++ tailToks rest) = some (e, []) ∧
      ∀ ev : Expr → R, Hom ev → ev e = dnf ev (atomVal ev a) rest := by
  obtain ⟨e, he, hv⟩ := loop0 rest.length rest (atomE a) (2 * rest.length + 16 + 3) (Nat.le_refl _) (by omega)
  refine ⟨e, ?_, fun ev hev => by rw [hv ev hev, ev_atomE hev]⟩
  rw [show 2 * rest.length + 20 = (2 * rest.length + 16) + 4 by omega, nud_atom]
  exact he


/-! ### Part B: nesting -/
mutual
/-- the meaning the property gives a CST: at every level a (lazy) disjunction of conjunctions of
    possibly negated primaries, a parenthesised primary meaning its content -/
def denE (ev : Expr → R) : CExpr → R
  | .mk h t => denT ev (denA ev h) t
def denT (ev : Expr → R) : R → CTail → R
  | acc, .nil => acc
  | acc, .cons .and _ a t => denT ev (andR acc (denA ev a)) t
  | acc, .cons .or _ a t => orR acc (denT ev (denA ev a) t)
def denA (ev : Expr → R) : CAtom → R
  | .mk n p => if n.isSome then notR (denP ev p) else denP ev p
def denP (ev : Expr → R) : CPrim → R
  | .leaf l => ev (leafExpr l)
  | .paren e => denE ev e
end

mutual
theorem astE_ok : ∀ c : CExpr, ∃ e, astE c = some e ∧ ∀ ev : Expr → R, Hom ev → ev e = denE ev c
  | .mk h t => by
    obtain ⟨a, ha, hva⟩ := astA_ok h
    obtain ⟨items, ht, hlen, hvt⟩ := astT_ok t
    obtain ⟨e, he, hve⟩ := pratt_correct a items
    refine ⟨e, ?_, ?_⟩
    · simp only [astE, ha, ht]
      rw [← hlen, he]
    · intro ev hev
      rw [hve ev hev, hva ev hev]
      simp only [denE]
      exact hvt ev hev _
theorem astT_ok : ∀ t : CTail, ∃ items : List Item, astT t = some (tailToks items) ∧ items.length = tailLen t ∧
    ∀ ev : Expr → R, Hom ev → ∀ acc, dnf ev acc items = denT ev acc t
  | .nil => ⟨[], rfl, rfl, fun _ _ _ => rfl⟩
  | .cons o sp a t => by
    obtain ⟨b, hb, hvb⟩ := astA_ok a
    obtain ⟨items, ht, hlen, hvt⟩ := astT_ok t
    refine ⟨(o, b) :: items, ?_, ?_, ?_⟩
    · simp only [astT, hb, ht, tailToks_cons]
    · simp [tailLen, hlen]
    · intro ev hev acc
      cases o with
      | and => simp only [dnf, denT]; rw [hvb ev hev]; exact hvt ev hev _
      | or => simp only [dnf, denT]; rw [hvb ev hev, hvt ev hev _]
theorem astA_ok : ∀ a : CAtom, ∃ b : Atom, astA a = some (atomToks b) ∧
    ∀ ev : Expr → R, Hom ev → atomVal ev b = denA ev a
  | .mk n p => by
    obtain ⟨e, he, hv⟩ := astP_ok p
    refine ⟨⟨n.isSome, e⟩, ?_, ?_⟩
    · simp only [astA, he, atomToks]
    · intro ev hev
      simp only [atomVal, denA, hv ev hev]
theorem astP_ok : ∀ p : CPrim, ∃ e, astP p = some e ∧ ∀ ev : Expr → R, Hom ev → ev e = denP ev p
  | .leaf l => ⟨leafExpr l, rfl, fun _ _ => rfl⟩
  | .paren c => by
    obtain ⟨e, he, hv⟩ := astE_ok c
    exact ⟨e, by simp only [astP, he], fun ev hev => by simp only [denP]; exact hv ev hev⟩
end

/-- `compute_for_event` is a homomorphism for the lazy connectives -/
theorem evalExpr_hom (x : Ext) (ev : Event) (states : List (Str × Bool)) (ops : List (Str × Match)) :
    Hom (evalExpr x ev states ops) := by
  refine ⟨?_, ?_, ?_⟩
  · intro l r
    simp only [evalExpr, andR]
    cases evalExpr x ev states ops l with
    | error e => rfl
    | ok b => cases b <;> rfl
  · intro l r
    simp only [evalExpr, orR]
    cases evalExpr x ev states ops l with
    | error e => rfl
    | ok b => cases b <;> rfl
  · intro e
    simp only [evalExpr, notR]
    cases evalExpr x ev states ops e <;> rfl

/-- **Part B.** `parse_expr` never panics on a CST, and the expression it builds evaluates to the CST's
    meaning: negation binds tighter than conjunction, which binds tighter than disjunction; parentheses group. -/
theorem C02_precedence (c : CExpr) :
    ∃ e, astE c = some e ∧
      ∀ (x : Ext) (ev : Event) (states : List (Str × Bool)) (ops : List (Str × Match)),
        evalExpr x ev states ops e = denE (evalExpr x ev states ops) c := by
  obtain ⟨e, he, hv⟩ := astE_ok c
  exact ⟨e, he, fun x ev states ops => hv _ (evalExpr_hom x ev states ops)⟩

/-- every spelling of an operator is the same CST node (`parse_expr` reads `as_rule()` only) -/
theorem C02_spelling (r : Str) :
    bopTok ("and".toList ++ r) = some (.and, "and".toList, r) ∧ bopTok ("AND".toList ++ r) = some (.and, "AND".toList, r) ∧
    bopTok ("&&".toList ++ r) = some (.and, "&&".toList, r) ∧ bopTok ("or".toList ++ r) = some (.or, "or".toList, r) ∧
    bopTok ("OR".toList ++ r) = some (.or, "OR".toList, r) ∧ bopTok ("||".toList ++ r) = some (.or, "||".toList, r) ∧
    negTok ("not".toList ++ r) = some ("not".toList, r) ∧ negTok ("!".toList ++ r) = some ("!".toList, r) :=
  ⟨rfl, rfl, rfl, rfl, rfl, rfl, rfl, rfl⟩


/-! ### Part C: quantifiers count the true operands -/
def allOf : List R → R
  | [] => .ok true
  | .error e :: _ => .error e
  | .ok false :: _ => .ok false
  | .ok true :: r => allOf r
def anyOf : List R → R
  | [] => .ok false
  | .error e :: _ => .error e
  | .ok true :: _ => .ok true
  | .ok false :: r => anyOf r
def noneOf : List R → R
  | [] => .ok true
  | .error e :: _ => .error e
  | .ok true :: _ => .ok false
  | .ok false :: r => noneOf r
def nOfGo (n : Nat) : Nat → List R → R
  | c, [] => .ok (decide (n ≤ c))
  | _, .error e :: _ => .error e
  | c, .ok true :: r => if n ≤ c + 1 then .ok true else nOfGo n (c + 1) r
  | c, .ok false :: r => nOfGo n c r

section loops
variable (x : Ext) (ev : Event) (states : List (Str × Bool))

/-- the loops evaluate operands one by one and stop early; evaluation is pure, so this is folding the
    list of the operands' outcomes -/
theorem allLoop_eq (ms : List Match) : allLoop x ev states ms = allOf (ms.map (matchEvent x ev states)) := by
  induction ms with
  | nil => rfl
  | cons m ms ih =>
    simp only [allLoop, List.map_cons]
    cases h : matchEvent x ev states m with
    | error e => rfl
    | ok b => cases b <;> simp [allOf, ih]
theorem anyLoop_eq (ms : List Match) : anyLoop x ev states ms = anyOf (ms.map (matchEvent x ev states)) := by
  induction ms with
  | nil => rfl
  | cons m ms ih =>
    simp only [anyLoop, List.map_cons]
    cases h : matchEvent x ev states m with
    | error e => rfl
    | ok b => cases b <;> simp [anyOf, ih]
theorem noneLoop_eq (ms : List Match) : noneLoop x ev states ms = noneOf (ms.map (matchEvent x ev states)) := by
  induction ms with
  | nil => rfl
  | cons m ms ih =>
    simp only [noneLoop, List.map_cons]
    cases h : matchEvent x ev states m with
    | error e => rfl
    | ok b => cases b <;> simp [noneOf, ih]
theorem nLoop_eq (n : Nat) (ms : List Match) (c : Nat) :
    nLoop x ev states n c ms = nOfGo n c (ms.map (matchEvent x ev states)) := by
  induction ms generalizing c with
  | nil => rfl
  | cons m ms ih =>
    simp only [nLoop, List.map_cons]
    cases h : matchEvent x ev states m with
    | error e => rfl
    | ok b => cases b <;> simp [nOfGo, ih]
end loops

def NoErr (l : List R) : Prop := ∀ r ∈ l, ∃ b, r = .ok b
def isTrue : R → Bool
  | .ok true => true
  | _ => false
/-- number of true operands -/
def trues (l : List R) : Nat := l.countP isTrue

theorem trues_cons_true (l : List R) : trues (.ok true :: l) = trues l + 1 := by
  unfold trues; rw [List.countP_cons_of_pos (by rfl)]
theorem trues_cons_false (l : List R) : trues (.ok false :: l) = trues l := by
  unfold trues; rw [List.countP_cons_of_neg (by simp [isTrue])]
theorem trues_le (l : List R) : trues l ≤ l.length := List.countP_le_length

theorem allOf_count (l : List R) (h : NoErr l) : allOf l = .ok (trues l == l.length) := by
  induction l with
  | nil => rfl
  | cons r l ih =>
    obtain ⟨b, rfl⟩ := h r (by simp)
    have ih := ih (fun r hr => h r (by simp [hr]))
    have hle := trues_le l
    cases b with
    | true => simp [allOf, ih, trues_cons_true]
    | false =>
      simp only [allOf, trues_cons_false, List.length_cons]
      have : (trues l == l.length + 1) = false := by simp; omega
      rw [this]

theorem anyOf_count (l : List R) (h : NoErr l) : anyOf l = .ok (decide (1 ≤ trues l)) := by
  induction l with
  | nil => rfl
  | cons r l ih =>
    obtain ⟨b, rfl⟩ := h r (by simp)
    have ih := ih (fun r hr => h r (by simp [hr]))
    cases b with
    | true => simp [anyOf, trues_cons_true]
    | false => simp only [anyOf, ih, trues_cons_false]

theorem noneOf_count (l : List R) (h : NoErr l) : noneOf l = .ok (trues l == 0) := by
  induction l with
  | nil => rfl
  | cons r l ih =>
    obtain ⟨b, rfl⟩ := h r (by simp)
    have ih := ih (fun r hr => h r (by simp [hr]))
    cases b with
    | true => simp [noneOf, trues_cons_true]
    | false => simp only [noneOf, ih, trues_cons_false]

theorem nOfGo_count (n : Nat) (l : List R) (h : NoErr l) (c : Nat) (hc : c < n) :
    nOfGo n c l = .ok (decide (n ≤ c + trues l)) := by
  induction l generalizing c with
  | nil =>
    simp only [nOfGo, trues, List.countP_nil, Nat.add_zero]
    congr 1
  | cons r l ih =>
    obtain ⟨b, rfl⟩ := h r (by simp)
    have ih := ih (fun r hr => h r (by simp [hr]))
    cases b with
    | true =>
      simp only [nOfGo, trues_cons_true]
      by_cases hcn : n ≤ c + 1
      · have h2 : n ≤ c + (trues l + 1) := by omega
        simp [hcn, h2]
      · simp only [hcn, if_false]
        rw [ih (c + 1) (by omega)]
        have : c + 1 + trues l = c + (trues l + 1) := by omega
        rw [this]
    | false =>
      simp only [nOfGo, trues_cons_false]
      exact ih c hc

/-- **Part C.** With no erroring operand, the quantifiers count the true operands among the selected ones:
    `all` = every one (true on an empty group), `any` = at least one, `none` = zero, `N ≥ 1` = at least N
    (false when N exceeds the group). `them` selects all operands, `$prefix` those whose name starts with it. -/
theorem C02_quantifiers (x : Ext) (ev : Event) (states : List (Str × Bool)) (ops : List (Str × Match)) :
    let vals := fun (ms : List Match) => ms.map (matchEvent x ev states)
    let them := ops.map Prod.snd
    (NoErr (vals them) →
      evalExpr x ev states ops .allOfThem = .ok (trues (vals them) == (vals them).length) ∧
      evalExpr x ev states ops .anyOfThem = .ok (decide (1 ≤ trues (vals them))) ∧
      evalExpr x ev states ops .noneOfThem = .ok (trues (vals them) == 0) ∧
      ∀ n, 1 ≤ n → evalExpr x ev states ops (.nOfThem n) = .ok (decide (n ≤ trues (vals them)))) ∧
    (∀ p, NoErr (vals (selectOps ops p)) →
      evalExpr x ev states ops (.allOfVars p) = .ok (trues (vals (selectOps ops p)) == (vals (selectOps ops p)).length) ∧
      evalExpr x ev states ops (.anyOfVars p) = .ok (decide (1 ≤ trues (vals (selectOps ops p)))) ∧
      evalExpr x ev states ops (.noneOfVars p) = .ok (trues (vals (selectOps ops p)) == 0) ∧
      ∀ n, 1 ≤ n → evalExpr x ev states ops (.nOfVars n p) = .ok (decide (n ≤ trues (vals (selectOps ops p))))) := by
  intro vals them
  refine ⟨fun h => ⟨?_, ?_, ?_, ?_⟩, fun p h => ⟨?_, ?_, ?_, ?_⟩⟩
  · simp only [evalExpr, allLoop_eq]; exact allOf_count _ h
  · simp only [evalExpr, anyLoop_eq]; exact anyOf_count _ h
  · simp only [evalExpr, noneLoop_eq]; exact noneOf_count _ h
  · intro n hn; simp only [evalExpr, nLoop_eq]; rw [nOfGo_count n _ h 0 (by omega)]; simp
  · simp only [evalExpr, allLoop_eq]; exact allOf_count _ h
  · simp only [evalExpr, anyLoop_eq]; exact anyOf_count _ h
  · simp only [evalExpr, noneLoop_eq]; exact noneOf_count _ h
  · intro n hn; simp only [evalExpr, nLoop_eq]; rw [nOfGo_count n _ h 0 (by omega)]; simp

/-- `0 of …` means none; the prefix is exactly the `var` token, the count the value of all its digits -/
theorem C02_zero_is_none (d p : Str) (h : countVal d = 0) :
    leafExpr (.nOfThem d) = .noneOfThem ∧ leafExpr (.nOfVars d p) = .noneOfVars p := by
  simp [leafExpr, h]
theorem C02_count_pos (d p : Str) (h : countVal d ≠ 0) :
    leafExpr (.nOfThem d) = .nOfThem (countVal d) ∧ leafExpr (.nOfVars d p) = .nOfVars (countVal d) p := by
  simp [leafExpr, h]

/-- prefix selection: exactly the operands whose name starts with the prefix -/
theorem C02_select (ops : List (Str × Match)) (p : Str) (m : Match) :
    m ∈ selectOps ops p ↔ ∃ n, (n, m) ∈ ops ∧ startsWith n p = true := by
  simp only [selectOps, List.mem_map, List.mem_filter]
  constructor
  · rintro ⟨⟨n, m'⟩, ⟨hm, hs⟩, rfl⟩; exact ⟨n, hm, hs⟩
  · rintro ⟨n, hm, hs⟩; exact ⟨(n, m), ⟨hm, hs⟩, rfl⟩

/-! ### Part D: on condition strings -/
/-- an absent or empty condition is true -/
theorem C02_empty (x : Ext) (ev : Event) (states : List (Str × Bool)) (ops : List (Str × Match)) :
    parseCond [] = .ok .none ∧ evalExpr x ev states ops .none = .ok true := ⟨rfl, rfl⟩

/-- **C02 on strings.** Whatever string the grammar accepts (CST `c`), `Expr::from_str` returns — without
    panicking — an expression whose value on every event is the meaning of `c`. -/
theorem C02_condition (s : Str) (c : CExpr) (hs : s ≠ []) (h : parseCondCst s = some c) :
    ∃ e, parseCond s = .ok e ∧
      ∀ (x : Ext) (ev : Event) (states : List (Str × Bool)) (ops : List (Str × Match)),
        evalExpr x ev states ops e = denE (evalExpr x ev states ops) c := by
  obtain ⟨e, he, hv⟩ := C02_precedence c
  refine ⟨e, ?_, hv⟩
  unfold parseCond
  have : (s == []) = false := by
    cases s with
    | nil => exact absurd rfl hs
    | cons _ _ => rfl
  simp only [this, Bool.false_eq_true, if_false, h, he]

/-- `Expr::from_str` never panics (the `unreachable!`/`panic!` arms of the Pratt parser are dead) -/
theorem parseCond_no_panic (s : Str) : parseCond s ≠ .panic := by
  cases s with
  | nil => intro h; cases h
  | cons a r =>
    cases hc : parseCondCst (a :: r) with
    | none =>
      have : parseCond (a :: r) = .err := by
        unfold parseCond
        simp only [hc]
        rfl
      rw [this]; intro h; cases h
    | some c =>
      obtain ⟨e, he, _⟩ := C02_condition (a :: r) c (by simp) hc
      rw [he]; intro h; cases h

end Gene.Props.C02
