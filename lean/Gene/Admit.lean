import Gene.Text
import Gene.Outcome
/-! Model of `Rule::build_include_events`, `Rule::build_exclude_events` (rules.rs) and
    `CompiledRule::can_match_on`. A `HashMap<String, HashSet<i64>>` is an association list with the
    list order standing for the iteration order; lookups are by key. Ids are mathematical integers
    with the `i64` range made explicit where the code can overflow (`checked_neg`). -/
namespace Gene

/-- `match-on.events`: source ↦ ids (unique keys: the YAML loader rejects duplicates) -/
abbrev MatchOnMap := List (Str × List Int)

def i64Min : Int := -9223372036854775808
def i64Max : Int := 9223372036854775807
def inI64 (i : Int) : Bool := decide (i64Min ≤ i) && decide (i ≤ i64Max)

namespace M

/-- `events.iter().filter(|&&id| id >= 0)` -/
def includeIds (ids : List Int) : List Int := ids.filter (fun i => decide (0 ≤ i))

/-- `events.iter().filter(|&&id| id < 0).filter_map(|id| id.checked_neg())`;
    `checked_neg` fails exactly on `i64::MIN` -/
def excludeIds (ids : List Int) : List Int :=
  (ids.filter (fun i => decide (i < 0))).filterMap (fun i => if i == i64Min then none else some (-i))

/-- `build_include_events`: every listed source is kept, with its non-negative ids (maybe none) -/
def buildInclude (mo : MatchOnMap) : MatchOnMap := mo.map (fun p => (p.1, includeIds p.2))

/-- `build_exclude_events`: sources with at least one negated id -/
def buildExclude (mo : MatchOnMap) : MatchOnMap :=
  mo.filterMap (fun p => if (excludeIds p.2).isEmpty then none else some (p.1, excludeIds p.2))

/-- `can_match_on` over the two compiled maps -/
def canMatchOn (inc exc : MatchOnMap) (src : Str) (id : Int) : Bool :=
  if inc.isEmpty && exc.isEmpty then true
  else if (match exc.lookup src with
           | some ex => ex.contains id
           | none => false) then false
  else match inc.lookup src with
    | some i => i.isEmpty || i.contains id
    | none => false

/-- admission of an event type by a rule's `match-on` section (`None`, or `events: None`, give the
    empty map through `unwrap_or_default`) -/
def admits (mo : Option MatchOnMap) (src : Str) (id : Int) : Bool :=
  let filters := mo.getD []
  canMatchOn (buildInclude filters) (buildExclude filters) src id

end M
end Gene
