import Gene.Spec.Scan
import Gene.Engine
import Gene.Getter
/-! Executable decision procedure for the hypothesis of the refinement theorem (`Gene/Props/RelCheck.lean`
    proves it sound).  Run by the driver on every scenario between the structured rules and the rules the
    model compiled from the rendered text. -/
namespace Gene.Props.Refine
open Gene M

/-- a `value` token whose reading is the given literal -/
def tokOf : S.Lit → Str
  | .none => "none".toList
  | .some => "some".toList
  | .bool true => "true".toList
  | .bool false => "false".toList
  | .text t => '\'' :: (t ++ ['\''])

def matchOfB (x : Ext) : S.Operand → Match → Bool
  | .test segs op lit, .direct p op' v => p.segments == segs && op == op' && (classify x op (tokOf lit) == Option.some v)
  | .indirect a b, .indirect p q => p.segments == a && q.segments == b
  | .rule n, .rule m => n == m
  | _, _ => false

def condRelB : S.Form → Expr → Bool
  | .tt, .none => true
  | .opd n, .var m => n == m
  | .not f, .neg e => condRelB f e
  | .and f g, .binop e .and e' => condRelB f e && condRelB g e'
  | .or f g, .binop e .or e' => condRelB f e && condRelB g e'
  | .allOf Option.none, .allOfThem => true
  | .allOf (Option.some p), .allOfVars q => p == q
  | .anyOf Option.none, .anyOfThem => true
  | .anyOf (Option.some p), .anyOfVars q => p == q
  | .noneOf Option.none, .noneOfThem => true
  | .noneOf (Option.some p), .noneOfVars q => p == q
  | .nOf 0 Option.none, .noneOfThem => true
  | .nOf 0 (Option.some p), .noneOfVars q => p == q
  | .nOf (n + 1) Option.none, .nOfThem m => n + 1 == m
  | .nOf (n + 1) (Option.some p), .nOfVars m q => n + 1 == m && p == q
  | _, _ => false

def setEqB (a b : List Str) : Bool := a.all (fun t => b.contains t) && b.all (fun t => a.contains t)

def opsRelB (x : Ext) : List (Str × S.Operand) → List (Str × Match) → Bool
  | [], [] => true
  | so :: sl, mo :: ml => so.1 == mo.1 && matchOfB x so.2 mo.2 && opsRelB x sl ml
  | _, _ => false

/-- the decision procedure run by the driver on every scenario -/
def ruleRelB (x : Ext) (ev : Event) (sr : S.SRule) (cr : CompiledRule) : Bool :=
  (sr.name == cr.name) && decide ((sr.ops.map Prod.fst).Nodup) && opsRelB x (S.sortByName sr.ops) cr.ops &&
  condRelB sr.cond cr.cond && (cr.rtype == sr.rtype) &&
  (canMatchOn cr.includeEvents cr.excludeEvents ev.source ev.id == S.admits sr.matchOn ev.source ev.id) &&
  (cr.severity == S.cap sr.severity) && setEqB cr.tags sr.tags && setEqB cr.attack (sr.attack.map asciiUpper) &&
  setEqB cr.actions sr.actions && setEqB cr.depends (S.directDeps sr)

def rulesRelB (x : Ext) (ev : Event) : List S.SRule → List CompiledRule → Bool
  | [], [] => true
  | sr :: rs, cr :: cs => ruleRelB x ev sr cr && rulesRelB x ev rs cs
  | _, _ => false

/-- numbers that fit their Rust types (always the case for values built by Rust code) -/
def numWfB : Num → Bool
  | .int v => decide (-(2:Int)^63 ≤ v) && decide (v < 2^63)
  | .uint v => decide (v < 2^64)
  | .float _ => true

def fvWfB : FieldValue → Bool
  | .num n => numWfB n
  | _ => true

/-- an event given by a finite list of fields (what the driver decodes) -/
def eventOfFields (source : Str) (id : Int) (fields : List (List Str × FieldValue)) : Event :=
  { source := source, id := id, get := fun segs => fields.lookup segs }

def fieldsWfB (fields : List (List Str × FieldValue)) : Bool := fields.all (fun p => fvWfB p.2)

mutual
def gvalWfB : GVal → Bool
  | .scalar fv => fvWfB fv
  | .optNone => true
  | .optSome v => gvalWfB v
  | .map kvs => kvs.all (fun p => fvWfB p.2)
  | .struct _ fs => gfieldsWfB fs
def gfieldsWfB : List (FieldDef × GVal) → Bool
  | [] => true
  | (_, v) :: fs => gvalWfB v && gfieldsWfB fs
end

/-- an event served by a derived getter: its lookups are the model of the macro on the value -/
def eventOfGVal (source : Str) (id : Int) (v : GVal) : Event :=
  { source := source, id := id, get := fun segs => gget v segs }

end Gene.Props.Refine
