import Gene.Text
/-! Model of `template.rs`: `Templates` (a map name ↦ text, list order = iteration order),
    `insert`, `extend`, `replace`. -/
namespace Gene

abbrev Tpls := List (Str × Str)

namespace M

/-- `{{name}}` -/
def ph (name : Str) : Str := '{' :: '{' :: (name ++ ['}', '}'])

def matchesAt (name : Str) (rest : Str) : Bool := startsWith rest (ph name)

/-- scan the templates (in map order), keep the strictly longest name whose placeholder starts here -/
def best (rest : Str) : Tpls → Option (Str × Str) → Option (Str × Str)
  | [], acc => acc
  | (n, t) :: tl, acc =>
    if matchesAt n rest then
      match acc with
      | some (bn, bt) => if bn.length < n.length then best rest tl (some (n, t)) else best rest tl (some (bn, bt))
      | none => best rest tl (some (n, t))
    else best rest tl acc

/-- `Templates::replace_str`: one left-to-right pass; inserted text is not scanned again -/
def replaceOne (tpls : Tpls) : Nat → Str → Str
  | 0, s => s
  | _, [] => []
  | f+1, c :: r =>
    match best (c :: r) tpls none with
    | some (n, t) => t ++ replaceOne tpls f ((c :: r).drop (n.length + 4))
    | none => c :: replaceOne tpls f r

def replaceStr (tpls : Tpls) (s : Str) : Str := replaceOne tpls (s.length + 1) s

/-- `Templates::insert`: a name already defined is refused and the templates are unchanged -/
def tplInsert (cur : Tpls) (name text : Str) : Option Tpls :=
  if cur.any (fun q => q.1 == name) then none else some (cur ++ [(name, text)])

/-- `Templates::extend`: nothing is inserted if any name is already defined -/
def tplExtend (cur new : Tpls) : Option Tpls :=
  if new.any (fun p => cur.any (fun q => q.1 == p.1)) then none else some (cur ++ new)

end M
end Gene
