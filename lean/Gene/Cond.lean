import Gene.Match
/-! Model of `rules/condition.rs` and `condition.pest`:

      ident = _{ var | group }
      var   = @{ "$" ~ (ASCII_ALPHANUMERIC | "_")+ }
      count = @{ ASCII_DIGIT+ }
      group =  { n_of_them | n_of_vars | all_of_them | all_of_vars | any_of_them | any_of_vars
               | none_of_them | none_of_vars }
      of_them = _{ "of" ~ "them" }      of_vars = _{ "of" ~ var }
      n_of_them = { count ~ of_them }   … all/any/none likewise with the keyword
      negate =  { "!" | "not" }   and = { "and" | "AND" | "&&" }   or = { "or" | "OR" | "||" }
      primary = _{ ident | "(" ~ expr ~ ")" }      atom = _{ negate? ~ primary }
      expr      =  { atom ~ (op ~ atom)* }         condition = _{ SOI ~ expr ~ EOI }

    Char-level recursive descent with pest's semantics (implicit `" "*` between the elements of a
    sequence in non-atomic rules, ordered choice, greedy repetition that backtracks only over its
    last, failed iteration). The result is the CST pest hands to `parse_expr`; `parse_expr` maps the
    primaries and runs pest's Pratt parser (transcribed from `pratt_parser.rs`) at every nesting level. -/
namespace Gene

inductive BOp where
  | and | or
  deriving DecidableEq, Repr

/-- `condition::Expr` -/
inductive Expr where
  | var (name : Str)
  | allOfThem | allOfVars (p : Str)
  | anyOfThem | anyOfVars (p : Str)
  | noneOfThem | noneOfVars (p : Str)
  | nOfThem (n : Nat) | nOfVars (n : Nat) (p : Str)
  | binop (l : Expr) (op : BOp) (r : Expr)
  | neg (e : Expr)
  | none
  deriving DecidableEq, Repr

/-- the non-recursive primaries of the grammar, as matched (digits kept as text) -/
inductive Leaf where
  | var (name : Str)
  | allOfThem | allOfVars (p : Str)
  | anyOfThem | anyOfVars (p : Str)
  | noneOfThem | noneOfVars (p : Str)
  | nOfThem (digits : Str) | nOfVars (digits : Str) (p : Str)
  deriving DecidableEq, Repr

-- the CST: purely mutual, so structural recursion and induction are available
mutual
inductive CExpr where
  | mk (head : CAtom) (tail : CTail)
inductive CTail where
  | nil
  | cons (o : BOp) (sp : Str) (a : CAtom) (t : CTail)    -- `sp`: the operator as spelled
inductive CAtom where
  | mk (neg : Option Str) (p : CPrim)                     -- the negation as spelled, if any
inductive CPrim where
  | leaf (l : Leaf)
  | paren (e : CExpr)
end

namespace M

/-! ### lexical level -/
def isVarChar (c : Char) : Bool := isAsciiAlnum c || c == '_'

/-- `var`: `$` followed by the longest non-empty run of `[A-Za-z0-9_]`; the name includes the `$` -/
def varTok : Str → Option (Str × Str)
  | '$' :: r =>
    match spanP isVarChar r with
    | (a :: n, r') => some ('$' :: a :: n, r')
    | _ => none
  | _ => none

/-- `count`: the longest non-empty run of digits -/
def countTok (s : Str) : Option (Str × Str) :=
  match spanP isAsciiDigit s with
  | (a :: n, r) => some (a :: n, r)
  | _ => none

/-- `"of" ~ "them"` after a skip -/
def ofThem (s : Str) : Option Str :=
  match stripPrefix (skipWs s) "of".toList with
  | none => none
  | some r => stripPrefix (skipWs r) "them".toList

/-- `"of" ~ var` after a skip -/
def ofVars (s : Str) : Option (Str × Str) :=
  match stripPrefix (skipWs s) "of".toList with
  | none => none
  | some r => varTok (skipWs r)

/-- `kw ~ of_them | kw ~ of_vars` for a keyword quantifier -/
def kwGroup (kw : Str) (them : Leaf) (vars : Str → Leaf) (s : Str) : Option (Leaf × Str) :=
  match stripPrefix s kw with
  | none => none
  | some r =>
    match ofThem r with
    | some r' => some (them, r')
    | none =>
      match ofVars r with
      | some (v, r') => some (vars v, r')
      | none => none

/-- `n_of_them | n_of_vars` -/
def countGroup (s : Str) : Option (Leaf × Str) :=
  match countTok s with
  | none => none
  | some (d, r) =>
    match ofThem r with
    | some r' => some (Leaf.nOfThem d, r')
    | none =>
      match ofVars r with
      | some (v, r') => some (Leaf.nOfVars d v, r')
      | none => none

/-- `group`, ordered choice -/
def groupTok (s : Str) : Option (Leaf × Str) :=
  match countGroup s with
  | some x => some x
  | none =>
    match kwGroup "all".toList .allOfThem .allOfVars s with
    | some x => some x
    | none =>
      match kwGroup "any".toList .anyOfThem .anyOfVars s with
      | some x => some x
      | none => kwGroup "none".toList .noneOfThem .noneOfVars s

/-- `ident = _{ var | group }` -/
def leafTok (s : Str) : Option (Leaf × Str) :=
  match varTok s with
  | some (v, r) => some (.var v, r)
  | none => groupTok s

/-- `negate = { "!" | "not" }` -/
def negTok : Str → Option (Str × Str)
  | '!' :: r => some (['!'], r)
  | 'n' :: 'o' :: 't' :: r => some (['n', 'o', 't'], r)
  | _ => none

/-- `op = _{ or | and }` -/
def bopTok : Str → Option (BOp × Str × Str)
  | 'o' :: 'r' :: r => some (.or, ['o', 'r'], r)
  | 'O' :: 'R' :: r => some (.or, ['O', 'R'], r)
  | '|' :: '|' :: r => some (.or, ['|', '|'], r)
  | 'a' :: 'n' :: 'd' :: r => some (.and, ['a', 'n', 'd'], r)
  | 'A' :: 'N' :: 'D' :: r => some (.and, ['A', 'N', 'D'], r)
  | '&' :: '&' :: r => some (.and, ['&', '&'], r)
  | _ => none

/-! ### recursive descent (fuel bounds the number of nested calls; `4·|s| + 8` always suffices) -/
mutual
def parseExprC : Nat → Str → Option (CExpr × Str)
  | 0, _ => none
  | f+1, s =>
    match parseAtom f s with
    | none => none
    | some (a, r) =>
      match parseTail f r with
      | (t, r') => some (.mk a t, r')

/-- `(op ~ atom)*` : each iteration is `skip ~ op ~ skip ~ atom`; a failed iteration is undone -/
def parseTail : Nat → Str → CTail × Str
  | 0, s => (.nil, s)
  | f+1, s =>
    match bopTok (skipWs s) with
    | none => (.nil, s)
    | some (o, sp, r) =>
      match parseAtom f (skipWs r) with
      | none => (.nil, s)
      | some (a, r') =>
        match parseTail f r' with
        | (t, r'') => (.cons o sp a t, r'')

/-- `atom = _{ negate? ~ primary }` -/
def parseAtom : Nat → Str → Option (CAtom × Str)
  | 0, _ => none
  | f+1, s =>
    match negTok s with
    | some (sp, r) =>
      match parsePrimary f (skipWs r) with
      | some (p, r') => some (.mk (some sp) p, r')
      | none => none
    | none =>
      match parsePrimary f s with
      | some (p, r') => some (.mk none p, r')
      | none => none

/-- `primary = _{ ident | "(" ~ expr ~ ")" }` -/
def parsePrimary : Nat → Str → Option (CPrim × Str)
  | 0, _ => none
  | f+1, s =>
    match leafTok s with
    | some (l, r) => some (.leaf l, r)
    | none =>
      match s with
      | '(' :: r =>
        match parseExprC f (skipWs r) with
        | none => none
        | some (e, r') =>
          match skipWs r' with
          | ')' :: r'' => some (.paren e, r'')
          | _ => none
      | _ => none
end

/-- `ConditionParser::parse(Rule::condition, s)`: the CST of the top-level `expr` -/
def parseCondCst (s : Str) : Option CExpr :=
  match parseExprC (4 * s.length + 8) (skipWs s) with
  | some (e, r) => if skipWs r == [] then some e else none
  | none => none

/-! ### pest's `PrattParser` with gene's table: `or` = 10 < `and` = 20 < prefix `negate` = 30 -/
inductive Tok where
  | prim (e : Expr)
  | neg
  | op (o : BOp)

def prec : BOp → Nat
  | .or => 10
  | .and => 20

def negPrec : Nat := 30

/-- `lbp`: binding power of the next token; a primary here is pest's `panic!("Expected operator")` -/
def lbp : List Tok → Option Nat
  | [] => some 0
  | .op o :: _ => some (prec o)
  | .neg :: _ => some negPrec
  | .prim _ :: _ => none

mutual
/-- `expr(rbp)`: `nud` then `led` while the next operator binds tighter; `none` = panic / out of fuel -/
def prattExpr : Nat → Nat → List Tok → Option (Expr × List Tok)
  | 0, _, _ => none
  | f+1, rbp, toks =>
    match toks with
    | [] => none                      -- "Pratt parser called with empty input"
    | .neg :: rest =>
      match prattExpr f (negPrec - 1) rest with
      | some (e, r) => prattLoop f rbp (.neg e) r
      | none => none
    | .prim p :: rest => prattLoop f rbp p rest
    | .op _ :: _ => none              -- "Expected prefix or primary expression"
def prattLoop : Nat → Nat → Expr → List Tok → Option (Expr × List Tok)
  | 0, _, _, _ => none
  | f+1, rbp, lhs, toks =>
    match lbp toks with
    | none => none
    | some l =>
      if rbp < l then
        match toks with
        | .op o :: rest =>
          match prattExpr f (prec o) rest with
          | none => none
          | some (rhs, rest') => prattLoop f rbp (.binop lhs o rhs) rest'
        | _ => none                   -- a prefix operator in infix position: "Expected postfix or infix"
      else some (lhs, toks)
end

/-- `count.parse::<usize>()`, saturating (the digits may denote more than `usize::MAX`) -/
def countVal (ds : Str) : Nat := min (ofDigits (ds.map dval)) (2^64 - 1)

/-- `map_primary` on a leaf -/
def leafExpr : Leaf → Expr
  | .var v => .var v
  | .allOfThem => .allOfThem
  | .allOfVars p => .allOfVars p
  | .anyOfThem => .anyOfThem
  | .anyOfVars p => .anyOfVars p
  | .noneOfThem => .noneOfThem
  | .noneOfVars p => .noneOfVars p
  | .nOfThem d => if countVal d == 0 then .noneOfThem else .nOfThem (countVal d)
  | .nOfVars d p => if countVal d == 0 then .noneOfVars p else .nOfVars (countVal d) p

def tailLen : CTail → Nat
  | .nil => 0
  | .cons _ _ _ t => tailLen t + 1

-- `parse_expr`: map primaries recursively, then Pratt at this level
mutual
def astE : CExpr → Option Expr
  | .mk h t =>
    match astA h, astT t with
    | some ht, some tt =>
      match prattExpr (2 * tailLen t + 20) 0 (ht ++ tt) with
      | some (e, []) => some e
      | _ => none
    | _, _ => none
def astT : CTail → Option (List Tok)
  | .nil => some []
  | .cons o _ a t =>
    match astA a, astT t with
    | some at', some tt => some (.op o :: (at' ++ tt))
    | _, _ => none
def astA : CAtom → Option (List Tok)
  | .mk n p =>
    match astP p with
    | some e => some ((if n.isSome then [Tok.neg] else []) ++ [Tok.prim e])
    | none => none
def astP : CPrim → Option Expr
  | .leaf l => some (leafExpr l)
  | .paren e => astE e
end

/-- outcome of `Expr::from_str`: `ok`, a parse error, or a panic inside `parse_expr` -/
inductive CondParse where
  | ok (e : Expr)
  | err
  | panic
  deriving DecidableEq, Repr

def parseCond (s : Str) : CondParse :=
  if s == [] then .ok .none
  else match parseCondCst s with
    | none => .err
    | some c => match astE c with
      | some e => .ok e
      | none => .panic

/-! ### evaluation: `Expr::compute_for_event`. Operands are a `BTreeMap`, iterated in key order:
    the list is iterated as given (the compile step builds it sorted). -/
section eval
variable (x : Ext) (ev : Event) (states : List (Str × Bool))

def allLoop : List Match → Except EvalErr Bool
  | [] => .ok true
  | m :: ms =>
    match matchEvent x ev states m with
    | .error e => .error e
    | .ok false => .ok false
    | .ok true => allLoop ms

def anyLoop : List Match → Except EvalErr Bool
  | [] => .ok false
  | m :: ms =>
    match matchEvent x ev states m with
    | .error e => .error e
    | .ok true => .ok true
    | .ok false => anyLoop ms

def noneLoop : List Match → Except EvalErr Bool
  | [] => .ok true
  | m :: ms =>
    match matchEvent x ev states m with
    | .error e => .error e
    | .ok true => .ok false
    | .ok false => noneLoop ms

def nLoop (n : Nat) : Nat → List Match → Except EvalErr Bool
  | c, [] => .ok (decide (n ≤ c))
  | c, m :: ms =>
    match matchEvent x ev states m with
    | .error e => .error e
    | .ok true => if n ≤ c + 1 then .ok true else nLoop n (c + 1) ms
    | .ok false => nLoop n c ms

def selectOps (ops : List (Str × Match)) (p : Str) : List Match :=
  (ops.filter (fun o => startsWith o.1 p)).map Prod.snd

def evalExpr (ops : List (Str × Match)) : Expr → Except EvalErr Bool
  | .allOfThem => allLoop x ev states (ops.map Prod.snd)
  | .allOfVars p => allLoop x ev states (selectOps ops p)
  | .nOfThem n => nLoop x ev states n 0 (ops.map Prod.snd)
  | .nOfVars n p => nLoop x ev states n 0 (selectOps ops p)
  | .anyOfThem => anyLoop x ev states (ops.map Prod.snd)
  | .anyOfVars p => anyLoop x ev states (selectOps ops p)
  | .noneOfThem => noneLoop x ev states (ops.map Prod.snd)
  | .noneOfVars p => noneLoop x ev states (selectOps ops p)
  | .var v =>
    match ops.lookup v with
    | some m => matchEvent x ev states m
    | none => .error .unknownOperand
  | .binop l .and r =>
    match evalExpr ops l with
    | .error e => .error e
    | .ok false => .ok false
    | .ok true => evalExpr ops r
  | .binop l .or r =>
    match evalExpr ops l with
    | .error e => .error e
    | .ok true => .ok true
    | .ok false => evalExpr ops r
  | .neg e =>
    match evalExpr ops e with
    | .error e => .error e
    | .ok b => .ok (!b)
  | .none => .ok true
end eval

end M
end Gene
