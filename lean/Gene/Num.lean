import Gene.Text
/-! Model of `values.rs`: `Number` (parse, comparison, bit test, conversions, printing).

    Floats are carried by their exact mathematical value: every finite binary64 is `k · 2⁻¹⁰⁷⁴` for an
    integer `k` (`FVal.fin k`), so the order of numbers is integer order. Rust's primitive float
    operations used by the code (`is_nan`, `trunc`, `as i128`, `partial_cmp`) are modelled by their
    IEEE-754 meaning on this value (trusted, DESIGN.md §4). `f64::from_str` is a parameter `fparse`
    (std's; supplied to the driver as a table computed by the real `f64::from_str`). -/
namespace Gene

/-- `2¹⁰⁷⁴`: the scale of the smallest subnormal -/
def S : Int := 2 ^ 1074
theorem S_pos : 0 < S := by unfold S; exact Int.pow_pos (by decide)

inductive FVal where
  | nan | ninf | pinf
  | fin (k : Int)       -- the real number k · 2⁻¹⁰⁷⁴
  deriving DecidableEq, Repr

def cmpI (a b : Int) : Ordering := if a < b then .lt else if a = b then .eq else .gt

/-- IEEE-754 `partial_cmp` on values (`None` iff a NaN is involved; −0 = +0 since both are `fin 0`) -/
def FVal.cmp : FVal → FVal → Option Ordering
  | .nan, _ | _, .nan => none
  | .ninf, .ninf => some .eq | .ninf, _ => some .lt | _, .ninf => some .gt
  | .pinf, .pinf => some .eq | .pinf, _ => some .gt | _, .pinf => some .lt
  | .fin a, .fin b => some (cmpI a b)

/-- decoding of a binary64 bit pattern -/
def F64.ofBits (bits : Nat) : FVal :=
  let sign := bits / 2^63 % 2 == 1
  let expo := bits / 2^52 % 2^11
  let frac := bits % 2^52
  if expo = 2047 then (if frac = 0 then (if sign then .ninf else .pinf) else .nan)
  else
    let m : Nat := if expo = 0 then frac else (2^52 + frac) * 2^(expo - 1)
    .fin (if sign then -(m : Int) else m)

inductive Num where
  | int (v : Int)      -- `Number::Int(i64)`
  | uint (v : Nat)     -- `Number::Uint(u64)`
  | float (x : FVal)   -- `Number::Float(f64)`
  deriving DecidableEq, Repr

/-- the payloads fit their Rust types (always true of a Rust `Number`) -/
def Num.wf : Num → Prop
  | .int v => -(2:Int)^63 ≤ v ∧ v < 2^63
  | .uint v => v < 2^64
  | .float _ => True

/-- what `From<iN>/From<uN>` and `parse` produce: `Int` exactly for negatives -/
def Num.canonical : Num → Prop
  | .int v => -(2:Int)^63 ≤ v ∧ v < 0
  | .uint v => v < 2^64
  | .float _ => True

namespace M

/-- `f as i128` for an integer-valued or infinite `f` (saturating cast) -/
def satI128 (x : Int) : Int := if x < -(2^127) then -(2^127) else if 2^127 - 1 < x then 2^127 - 1 else x

/-- `cmp_int_float(i, f)` (values.rs): `None` for NaN; otherwise compare `i` with `trunc(f) as i128`
    and break the tie by comparing `trunc(f)` with `f` -/
def cmpIntFloat (i : Int) : FVal → Option Ordering
  | .nan => none
  | .pinf => some (cmpI i (2^127 - 1))     -- `inf as i128 = i128::MAX`
  | .ninf => some (cmpI i (-(2^127)))      -- `-inf as i128 = i128::MIN`
  | .fin k =>
    let q := k.tdiv S                        -- `f.trunc()`, an integer
    match cmpI i (satI128 q) with
    | .eq => some (cmpI (q * S) k)           -- `t.partial_cmp(&f)`
    | o => some o

def swapO : Ordering → Ordering | .lt => .gt | .eq => .eq | .gt => .lt

/-- `Number::as_i128` -/
def asInt : Num → Option Int
  | .int v => some v
  | .uint v => some v
  | .float _ => none

/-- `impl PartialOrd for Number` -/
def partialCmp : Num → Num → Option Ordering
  | .float a, .float b => FVal.cmp a b
  | .float a, .int b => (cmpIntFloat b a).map swapO
  | .float a, .uint b => (cmpIntFloat b a).map swapO
  | .int a, .float b => cmpIntFloat a b
  | .uint a, .float b => cmpIntFloat a b
  | .int a, .int b => some (cmpI a b)
  | .int a, .uint b => some (cmpI a b)
  | .uint a, .int b => some (cmpI a b)
  | .uint a, .uint b => some (cmpI a b)

def numEq (a b : Num) : Bool := partialCmp a b == some .eq
def numLt (a b : Num) : Bool := partialCmp a b == some .lt
def numLe (a b : Num) : Bool := partialCmp a b == some .lt || partialCmp a b == some .eq
def numGt (a b : Num) : Bool := partialCmp a b == some .gt
def numGe (a b : Num) : Bool := partialCmp a b == some .gt || partialCmp a b == some .eq

/-- `Number::as_bits`: the 64-bit two's complement pattern of an integer, nothing for a float -/
def asBits : Num → Option Nat
  | .int v => some (v % 2^64).toNat
  | .uint v => some v
  | .float _ => none

/-! ### parsing -/
def dval (c : Char) : Nat := c.toNat - 48

def ofDigits (ds : List Nat) : Nat := ds.foldl (fun acc d => acc * 10 + d) 0

/-- digits part of `uN::from_str` / `iN::from_str`: non-empty, ASCII digits only, value ≤ max -/
def parseDigits (max : Nat) (s : Str) : Option Nat :=
  if s.isEmpty || !s.all isAsciiDigit then none
  else let v := ofDigits (s.map dval); if v ≤ max then some v else none

def hexVal (c : Char) : Option Nat :=
  if isAsciiDigit c then some (c.toNat - 48)
  else if 'a'.toNat ≤ c.toNat ∧ c.toNat ≤ 'f'.toNat then some (c.toNat - 87)
  else if 'A'.toNat ≤ c.toNat ∧ c.toNat ≤ 'F'.toNat then some (c.toNat - 55)
  else none

def hexBody : Str → Str
  | '+' :: r => r
  | s => s
def hexFold (ds : List Nat) : Nat := ds.foldl (fun acc d => acc * 16 + d) 0

/-- `u64::from_str_radix(s, 16)`: optional `+`, at least one hex digit, value < 2⁶⁴ -/
def parseHexU64 (s : Str) : Option Nat :=
  if (hexBody s).isEmpty then none
  else match (hexBody s).mapM hexVal with
    | none => none
    | some ds => if hexFold ds < 2^64 then some (hexFold ds) else none

def parseU64 : Str → Option Nat
  | '+' :: r => parseDigits (2^64 - 1) r
  | s => parseDigits (2^64 - 1) s

def parseI64 : Str → Option Int
  | '-' :: r => (parseDigits (2^63) r).map (fun n => -(Int.ofNat n))
  | '+' :: r => (parseDigits (2^63 - 1) r).map Int.ofNat
  | s => (parseDigits (2^63 - 1) s).map Int.ofNat

/-- `From<i64> for Number` -/
def fromI64 (v : Int) : Num := if v < 0 then .int v else .uint v.toNat

/-- `Number::parse`; `fparse` stands for `f64::from_str` -/
def numParse (fparse : Str → Option FVal) (s : Str) : Option Num :=
  if startsWith s "0x".toList then (parseHexU64 (s.drop 2)).map Num.uint
  else if startsWith s "-".toList then
    if s.contains '.' then (fparse s).map Num.float else (parseI64 s).map fromI64
  else if s.contains '.' then (fparse s).map Num.float
  else (parseU64 s).map Num.uint

/-! ### printing of integers (`Display`) -/
def toDigitsRev : Nat → Nat → List Nat
  | 0, _ => []
  | f+1, n => if n < 10 then [n] else (n % 10) :: toDigitsRev f (n / 10)
def digits (n : Nat) : List Nat := (toDigitsRev (n + 1) n).reverse
def dch (d : Nat) : Char := Char.ofNat (48 + d)
def showNat (n : Nat) : Str := (digits n).map dch
def displayInt : Num → Option Str
  | .uint v => some (showNat v)
  | .int v => some (if v < 0 then '-' :: showNat v.natAbs else showNat v.toNat)
  | .float _ => none

end M
end Gene
