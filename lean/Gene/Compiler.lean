import Gene.Rule
/-! Model of `compiler.rs`: the `Compiler` state machine (`load`, `load_templates`, `compile`,
    `rules`, `compiled`). -/
namespace Gene

structure Compiler where
  templates : Tpls := []
  names : List (Str × Nat) := []      -- compiled rule name ↦ index in `rules`
  loaded : List Str := []
  rules : List Rule := []
  compiled : List CompiledRule := []

inductive CompErr where
  | duplicateRule (n : Str)
  | unknownDep (n : Str)
  | rule
  | template
  | serde
  | panic
  deriving DecidableEq, Repr

namespace M

/-- `Compiler::load_templates` -/
def Compiler.loadTemplates (c : Compiler) (t : Tpls) : Except CompErr Compiler :=
  match tplExtend c.templates t with
  | some ts => .ok { c with templates := ts }
  | none => .error .template

/-- `Compiler::load` -/
def Compiler.load (c : Compiler) (r : Rule) : Except CompErr Compiler :=
  if Rule.isDisabled r then .ok c
  else if c.loaded.contains r.name then .error (.duplicateRule r.name)
  else
    let r' := applyTemplates c.templates r
    .ok { c with loaded := c.loaded ++ [r'.name], rules := c.rules ++ [r'] }

/-- the loop of `Compiler::compile` over `rules.iter().enumerate()` from position `i` -/
def compileLoop (x : Ext) : List Rule → Nat → List (Str × Nat) → List CompiledRule →
    (List (Str × Nat) × List CompiledRule × Option CompErr)
  | [], _, names, compiled => (names, compiled, none)
  | r :: rest, i, names, compiled =>
    if (names.lookup r.name).isSome then compileLoop x rest (i + 1) names compiled
    else match compileInto x r with
      | .panic => (names, compiled, some .panic)
      | .err => (names, compiled, some .rule)
      | .ok cr =>
        match cr.depends.find? (fun d => (names.lookup d).isNone) with
        | some d => (names, compiled, some (.unknownDep d))
        | none => compileLoop x rest (i + 1) (names ++ [(cr.name, i)]) (compiled ++ [cr])

def Compiler.isReady (c : Compiler) : Bool := c.rules.length == c.compiled.length

/-- `Compiler::compile`: the state after the call, and the error if any -/
def Compiler.compile (x : Ext) (c : Compiler) : Compiler × Option CompErr :=
  if Compiler.isReady c then (c, none)
  else
    match compileLoop x c.rules 0 c.names c.compiled with
    | (names, compiled, e) => ({ c with names := names, compiled := compiled }, e)

end M
end Gene
