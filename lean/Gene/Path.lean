import Gene.Text
/-! Model of `paths.rs` (`XPath`) and of the `field_path` rule of `match.pest`:

      sep             = _{ "." }
      segment         =  { (ASCII_ALPHANUMERIC | "_" | "-")+ }
      segment_with_ws =  { (ASCII_ALPHANUMERIC | WHITESPACE | "." | "_" | "-")+ }
      field_path      = ${ sep ~ ("\"" ~ segment_with_ws ~ "\"" | segment) ~ field_path* }
      xpath           = _{ SOI ~ field_path ~ EOI }

    `field_path` is compound-atomic, so no implicit whitespace is skipped inside it. PEG repetition is
    greedy and never backtracks, hence a segment is the longest run of its character class (`spanP`).
    `field_path*` nests to the right; `parse_path_segments` flattens the nesting, so the result is the
    list of the pieces' texts. -/
namespace Gene

def isSeg (c : Char) : Bool := isAsciiAlnum c || c == '_' || c == '-'
def isSegWs (c : Char) : Bool := isSeg c || c == ' ' || c == '.'

inductive Seg where
  | plain (t : Str)
  | quoted (t : Str)
  deriving DecidableEq, Repr

def Seg.text : Seg → Str
  | .plain t => t
  | .quoted t => t

/-- the declarative path language of C18: `.seg` with seg ∈ [A-Za-z0-9_-]+ or `."seg"` with
    seg ∈ [A-Za-z0-9 ._-]+ -/
def Seg.wf : Seg → Prop
  | .plain t => t ≠ [] ∧ ∀ c ∈ t, isSeg c = true
  | .quoted t => t ≠ [] ∧ ∀ c ∈ t, isSegWs c = true

def Seg.render : Seg → Str
  | .plain t => '.' :: t
  | .quoted t => '.' :: '"' :: (t ++ ['"'])

namespace M

/-- one `sep ~ ("\"" ~ segment_with_ws ~ "\"" | segment)` -/
def piece : Str → Option (Seg × Str)
  | '.' :: '"' :: r =>
      match spanP isSegWs r with
      | (a :: t, '"' :: r') => some (.quoted (a :: t), r')
      | _ => none          -- the second alternative `segment` cannot start with a quote
  | '.' :: r =>
      match spanP isSeg r with
      | (a :: t, r') => some (.plain (a :: t), r')
      | _ => none
  | _ => none

/-- the (right-nested, here flattened) greedy `field_path*`; fuel ≥ |s| + 1 is always enough -/
def pieces : Nat → Str → List Seg × Str
  | 0, s => ([], s)
  | f+1, s =>
    match piece s with
    | none => ([], s)
    | some (g, r) => ((pieces f r).1.cons g, (pieces f r).2)

/-- the un-anchored `field_path` rule as used inside match strings: at least one piece -/
def fieldPath (s : Str) : Option (List Seg × Str) :=
  match pieces (s.length + 1) s with
  | (g :: gs, r) => some (g :: gs, r)
  | _ => none

/-- `MatchParser::parse_path` with the end-anchored `xpath` rule -/
def parsePath (s : Str) : Option (List Seg) :=
  match fieldPath s with
  | some (gs, []) => some gs
  | _ => none

structure XPath where
  path : Str
  segments : List Str
  deriving DecidableEq, Repr

/-- `XPath::parse` -/
def XPath.parse (s : Str) : Option XPath :=
  (parsePath s).map (fun gs => { path := s, segments := gs.map Seg.text })

/-- `impl PartialEq for XPath`: equal lengths, then the reversed sequences compared element-wise.
    (The Rust compares bytes; a parsed path is ASCII — `C18_ascii` — so bytes are characters.) -/
def revEq : Str → Str → Bool
  | [], [] => true
  | a :: as, b :: bs => a == b && revEq as bs
  | _, _ => false

def XPath.eq (p q : XPath) : Bool :=
  if p.path.length != q.path.length then false else revEq p.path.reverse q.path.reverse

/-- `impl Hash for XPath` feeds `path` only; modelled as a function of `path` -/
def XPath.hashKey (p : XPath) : Str := p.path

end M
end Gene
