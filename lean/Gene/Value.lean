import Gene.Num
/-! `FieldValue` (values.rs) and events. -/
namespace Gene

inductive FieldValue where
  | str (s : Str)
  | num (n : Num)
  | bool (b : Bool)
  | some
  | none
  deriving DecidableEq, Repr

namespace M

/-- derived `PartialEq for FieldValue`, with `Number`'s hand-written `eq` underneath -/
def fvEq : FieldValue → FieldValue → Bool
  | .str a, .str b => a == b
  | .num a, .num b => numEq a b
  | .bool a, .bool b => a == b
  | .some, .some => true
  | .none, .none => true
  | _, _ => false

/-- `FieldValue::try_into_number` restricted to the only call site (a `String` target) -/
def strToNum (fparse : Str → Option FVal) (s : Str) : Option Num := numParse fparse s

end M

/-- An event as the engine sees it: a source, an id, and a getter answering *anything* for a segment
    list (present with any `FieldValue`, or absent). -/
structure Event where
  source : Str
  id : Int
  get : List Str → Option FieldValue

end Gene
