import Gene.Num
/-! Model of the way numbers leave the engine's value domain again: `TryFrom<Number> for i64 / u64 / f64` and the
    representation tests `is_int / is_uint / is_float` (values.rs). -/
namespace Gene.M

def clampI (x lo hi : Int) : Int := if x < lo then lo else if hi < x then hi else x

/-- `i64::try_from(Number)`: a float is accepted when `i64::MIN as f64 ≤ v ≤ i64::MAX as f64` — the upper bound is
    `2^63`, one more than `i64::MAX` — and is then cast (`v as i64`: truncation toward zero, saturating) -/
def tryI64 : Num → Option Int
  | .int v => some v
  | .uint v => if v < 2 ^ 63 then some v else none
  | .float (.fin k) =>
    if -(2 ^ 63) * S ≤ k ∧ k ≤ 2 ^ 63 * S then some (clampI (k.tdiv S) (-(2 ^ 63)) (2 ^ 63 - 1)) else none
  | .float _ => none

/-- `u64::try_from(Number)`: a float is accepted when `0.0 ≤ v ≤ u64::MAX as f64` (`= 2^64`), then `v as u64` -/
def tryU64 : Num → Option Nat
  | .uint v => some v
  | .int v => if 0 ≤ v then some v.toNat else none
  | .float (.fin k) =>
    if 0 ≤ k ∧ k ≤ 2 ^ 64 * S then some (clampI (k.tdiv S) 0 (2 ^ 64 - 1)).toNat else none
  | .float _ => none

/-- `f64::try_from(Number)`: floats only -/
def tryF64 : Num → Option FVal
  | .float x => some x
  | _ => none

def numIsInt : Num → Bool | .int _ => true | _ => false
def numIsUint : Num → Bool | .uint _ => true | _ => false
def numIsFloat : Num → Bool | .float _ => true | _ => false

end Gene.M
