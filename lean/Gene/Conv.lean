import Gene.Value
/-! Model of the `From` conversions of `values.rs` and of the scalar `FieldGetter` impls of `event.rs`. -/
namespace Gene.M

/-- `impl_signed_number!`: `if value < 0 { Int(value as i64) } else { Uint(value as u64) }`; the casts
    from a narrower signed type preserve the value -/
def fromSigned (v : Int) : Num := if v < 0 then .int v else .uint v.toNat

/-- `impl_unsigned_number!`: `Uint(value as u64)` -/
def fromUnsigned (v : Nat) : Num := .uint v

/-- `impl<T: Into<FieldValue>> From<Option<T>> for FieldValue` -/
def fromOption (o : Option FieldValue) : FieldValue :=
  match o with
  | some v => v
  | none => .none

/-- the scalar `FieldGetter` impls: the value for the empty remaining path, nothing otherwise -/
def scalarGet (v : FieldValue) (rest : List Str) : Option FieldValue :=
  if rest.length > 0 then none else some v

/-- `impl FieldGetter for Option<T>` -/
def optionGet (inner : List Str → Option FieldValue) (present : Bool) (rest : List Str) : Option FieldValue :=
  if present then inner rest else some .none

/-- bit-level `f32 as f64` (sign, exponent, fraction fields) -/
def widenBits (b : Nat) : Nat :=
  let s := b / 2^31 % 2
  let e := b / 2^23 % 2^8
  let m := b % 2^23
  let (e', f') : Nat × Nat :=
    if e = 255 then (2047, m * 2 ^ 29)
    else if e = 0 then
      (if m = 0 then (0, 0) else (m.log2 + 874, m * 2 ^ (52 - m.log2) - 2 ^ 52))
    else (e + 896, m * 2 ^ 29)
  s * 2^63 + e' * 2^52 + f'

end Gene.M
