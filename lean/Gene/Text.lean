/-! Text conventions: `Str = List Char` (Rust `char` = Unicode scalar value = Lean `Char`).
    Mirrors of the `std::str` calls the modelled code uses, with their Rust semantics. -/
namespace Gene

abbrev Str := List Char

/-- `str::starts_with(&str)` -/
def startsWith : Str → Str → Bool
  | _, [] => true
  | [], _ :: _ => false
  | c :: s, p :: ps => c == p && startsWith s ps

/-- `str::strip_prefix` -/
def stripPrefix : Str → Str → Option Str
  | s, [] => some s
  | [], _ :: _ => none
  | c :: s, p :: ps => if c == p then stripPrefix s ps else none

/-- ASCII upper-casing (`to_uppercase` restricted to the ASCII input the ATT&CK regex admits). -/
def asciiUpperChar (c : Char) : Char :=
  if 'a'.toNat ≤ c.toNat ∧ c.toNat ≤ 'z'.toNat then Char.ofNat (c.toNat - 32) else c

def asciiUpper (s : Str) : Str := s.map asciiUpperChar

def isAsciiAlpha (c : Char) : Bool :=
  ('a'.toNat ≤ c.toNat && c.toNat ≤ 'z'.toNat) || ('A'.toNat ≤ c.toNat && c.toNat ≤ 'Z'.toNat)
def isAsciiDigit (c : Char) : Bool := '0'.toNat ≤ c.toNat && c.toNat ≤ '9'.toNat
def isAsciiAlnum (c : Char) : Bool := isAsciiAlpha c || isAsciiDigit c

/-- own `span` (take while / rest) so that unfolding is predictable in proofs -/
def spanP (p : Char → Bool) : Str → Str × Str
  | [] => ([], [])
  | c :: s => if p c then ((spanP p s).1.cons c, (spanP p s).2) else ([], c :: s)

theorem spanP_append (p : Char → Bool) (s : Str) : (spanP p s).1 ++ (spanP p s).2 = s := by
  induction s with
  | nil => rfl
  | cons c s ih => unfold spanP; split <;> simp [ih]

theorem spanP_all (p : Char → Bool) (s : Str) : ∀ c ∈ (spanP p s).1, p c = true := by
  induction s with
  | nil => intro c h; simp [spanP] at h
  | cons a s ih =>
    intro c h; unfold spanP at h; split at h
    · simp at h; rcases h with rfl | h
      · assumption
      · exact ih c h
    · simp at h

theorem spanP_rest (p : Char → Bool) (s : Str) :
    (spanP p s).2 = [] ∨ ∃ c r, (spanP p s).2 = c :: r ∧ p c = false := by
  induction s with
  | nil => left; rfl
  | cons a s ih =>
    unfold spanP; split
    · simpa using ih
    · rename_i h; right; exact ⟨a, s, rfl, by simpa using h⟩

end Gene
