/-! Results of modelled Rust functions: `ok`, an error value, or a panic at an identified site. -/
namespace Gene

inductive Outcome (ε α : Type) where
  | ok (a : α)
  | err (e : ε)
  | panic (site : String)
  deriving Repr, DecidableEq

namespace Outcome
def isPanic {ε α} : Outcome ε α → Bool
  | panic _ => true
  | _ => false
def bind {ε α β} (x : Outcome ε α) (f : α → Outcome ε β) : Outcome ε β :=
  match x with
  | ok a => f a
  | err e => err e
  | panic s => panic s
def map {ε α β} (f : α → β) (x : Outcome ε α) : Outcome ε β := x.bind (fun a => ok (f a))
end Outcome

end Gene
