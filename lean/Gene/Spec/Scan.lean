import Gene.Spec.FieldTest
import Gene.Spec.Admit
import Gene.Rule
/-! The documented meaning of a rule set on an event (C01, C02, C06, C07, C10), written on structured
    rules — operands as (path, operator, literal) triples and conditions as formula trees — never on
    DSL text, and by recursion over the load order rather than with caches, memo tables or DFS lists. -/
namespace Gene.S

inductive Operand where
  | test (segs : List Str) (op : MOp) (lit : Lit)
  | indirect (a b : List Str)
  | rule (name : Str)
  deriving DecidableEq, Repr

/-- condition formulas; `group pfx` selects the operands whose name starts with `pfx` (`none` = them) -/
inductive Form where
  | tt                                   -- absent or empty condition
  | opd (name : Str)
  | not (f : Form)
  | and (f g : Form)
  | or (f g : Form)
  | allOf (pfx : Option Str)
  | anyOf (pfx : Option Str)
  | noneOf (pfx : Option Str)
  | nOf (n : Nat) (pfx : Option Str)
  deriving DecidableEq, Repr

structure SRule where
  name : Str
  rtype : RType := .detection
  matchOn : Option (List (Str × List Int)) := none
  ops : List (Str × Operand) := []        -- in any order; names unique
  cond : Form := .tt
  severity : Nat := 0
  tags : List Str := []
  attack : List Str := []
  actions : List Str := []

/-- verdicts of the rules loaded so far: name ↦ result -/
abbrev Verdicts := List (Str × Res)

def operandVal (x : Ext) (ev : Event) (vs : Verdicts) : Operand → Res
  | .test segs op lit => fieldTest x op lit (ev.get segs)
  | .indirect a b => indirectTest (ev.get a) (ev.get b)
  | .rule n => match vs.lookup n with
    | Option.some (.ok b) => .ok b
    | _ => .err                            -- a failed (or unknown) dependency fails its dependants

/-- insertion sort by operand name: the order quantifiers visit operands in -/
def insertByName (p : Str × Operand) : List (Str × Operand) → List (Str × Operand)
  | [] => [p]
  | q :: r => if p.1 < q.1 then p :: q :: r else q :: insertByName p r
def sortByName (l : List (Str × Operand)) : List (Str × Operand) := l.foldr insertByName []

def selected (ops : List (Str × Operand)) (pfx : Option Str) : List Operand :=
  ((sortByName ops).filter (fun o => match pfx with
    | Option.none => true
    | Option.some p => startsWith o.1 p)).map Prod.snd

/-- lazy, in order: the first operand that decides the outcome (or raises) ends the evaluation -/
def allL (val : Operand → Res) : List Operand → Res
  | [] => .ok true
  | o :: r => match val o with
    | .err => .err
    | .ok false => .ok false
    | .ok true => allL val r
def anyL (val : Operand → Res) : List Operand → Res
  | [] => .ok false
  | o :: r => match val o with
    | .err => .err
    | .ok true => .ok true
    | .ok false => anyL val r
/-- at least `n` true operands, stopping as soon as `n` are seen (`need` = how many are still needed) -/
def atLeastL (val : Operand → Res) : Nat → List Operand → Res
  | 0, _ => .ok true
  | _ + 1, [] => .ok false
  | need + 1, o :: r => match val o with
    | .err => .err
    | .ok true => atLeastL val need r
    | .ok false => atLeastL val (need + 1) r

def notR : Res → Res
  | .ok b => .ok (!b)
  | .err => .err

def evalForm (ops : List (Str × Operand)) (val : Operand → Res) : Form → Res
  | .tt => .ok true
  | .opd n => match ops.lookup n with
    | Option.some o => val o
    | Option.none => .err                  -- unknown operand
  | .not f => notR (evalForm ops val f)
  | .and f g => match evalForm ops val f with
    | .err => .err
    | .ok false => .ok false
    | .ok true => evalForm ops val g
  | .or f g => match evalForm ops val f with
    | .err => .err
    | .ok true => .ok true
    | .ok false => evalForm ops val g
  | .allOf p => allL val (selected ops p)
  | .anyOf p => anyL val (selected ops p)
  | .noneOf p => notR (anyL val (selected ops p))
  | .nOf 0 p => notR (anyL val (selected ops p))      -- "0 of" means none
  | .nOf (n + 1) p => atLeastL val (n + 1) (selected ops p)

def ruleVerdict (x : Ext) (ev : Event) (vs : Verdicts) (r : SRule) : Res :=
  evalForm r.ops (operandVal x ev vs) r.cond

/-- verdicts by a left fold over the load order -/
def verdicts (x : Ext) (ev : Event) (rules : List SRule) : Verdicts :=
  rules.foldl (fun vs r => vs ++ [(r.name, ruleVerdict x ev vs r)]) []

/-- names a rule transitively depends on (through `rule(x)` operands), given the rules loaded before it -/
def directDeps (r : SRule) : List Str :=
  r.ops.filterMap (fun o => match o.2 with
    | .rule n => Option.some n
    | _ => Option.none)

/-- closure by a fold over the load order: closureOf[name] = its transitive dependencies -/
def closures (rules : List SRule) : List (Str × List Str) :=
  rules.foldl (fun cs r =>
    let ds := directDeps r
    cs ++ [(r.name, (ds ++ ds.flatMap (fun d => (cs.lookup d).getD [])).eraseDups)]) []

structure Outcome where
  result : Option ScanResult      -- compared as sets / values
  failing : List Str              -- rules whose failure makes the scan return an error; empty = no error
  named : List Str                -- the rules the error may name (one, unless several dependencies of the
                                  -- last failing candidate fail: their order follows a hash set)
  deriving Repr

def cap (n : Nat) : Nat := min n 10

/-- C07: aggregation of the matching detection / filter rules -/
def aggregate (ms : List SRule) : Option ScanResult :=
  if ms.isEmpty then Option.none else
  let dets := ms.filter (fun r => r.rtype == .detection)
  Option.some {
    rules := dets.map (·.name)
    tags := dets.flatMap (·.tags)
    attack := dets.flatMap (fun r => r.attack.map asciiUpper)
    actions := ms.flatMap (·.actions)
    filtered := ms.any (fun r => r.rtype == .filter)
    severity := cap ((dets.map (fun r => cap r.severity)).sum) }

/-- candidates are visited by decreasing (severity as capped at compile time, name) -/
def visitedBefore (a b : SRule) : Bool :=
  cap b.severity < cap a.severity || (cap a.severity == cap b.severity && b.name < a.name)
def insertCand (r : SRule) : List SRule → List SRule
  | [] => [r]
  | q :: l => if visitedBefore r q then r :: q :: l else q :: insertCand r l
def scanOrder (l : List SRule) : List SRule := l.foldr insertCand []

/-- C01/C06/C10: what a scan must deliver -/
def scan (x : Ext) (ev : Event) (rules : List SRule) : Outcome :=
  let vs := verdicts x ev rules
  let cands := rules.filter (fun r => (r.rtype == .detection || r.rtype == .filter)
                                      && admits r.matchOn ev.source ev.id)
  let matched := cands.filter (fun r => vs.lookup r.name == Option.some (.ok true))
  let cl := closures rules
  let involved := (cands.flatMap (fun r => r.name :: (cl.lookup r.name).getD [])).eraseDups
  let failing := involved.filter (fun n => vs.lookup n == Option.some .err)
  -- the error returned is the last one raised: the last visited candidate that fails or has a failing
  -- dependency decides; it is named itself if it fails (its own evaluation comes after its dependencies')
  let isBad := fun (n : Str) => vs.lookup n == Option.some .err
  let lastBad := ((scanOrder cands).filter (fun r => isBad r.name || ((cl.lookup r.name).getD []).any isBad)).getLast?
  let named := match lastBad with
    | Option.none => []
    | Option.some c => if isBad c.name then [c.name] else ((cl.lookup c.name).getD []).filter isBad
  { result := aggregate matched, failing := failing, named := named }

end Gene.S
