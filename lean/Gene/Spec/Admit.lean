import Gene.Text
/-! C05, as the property text states it. Independent of how the code computes it. -/
namespace Gene.S

/-- ids a source negates: `-n` listed means `n` is excluded -/
def negated (ids : List Int) (id : Int) : Bool := ids.any (fun i => decide (i < 0) && (-i == id))
def nonNeg (ids : List Int) : List Int := ids.filter (fun i => decide (0 ≤ i))

/-- no filter (or an empty map) ⇒ every event; a listed source ⇒ id not negated and, if the source
    lists any non-negative ids, among them; unlisted source ⇒ not admitted -/
def admits (mo : Option (List (Str × List Int))) (src : Str) (id : Int) : Bool :=
  match mo with
  | none => true
  | some [] => true
  | some m =>
    match m.lookup src with
    | none => false
    | some ids => !negated ids id && ((nonNeg ids).isEmpty || (nonNeg ids).contains id)

end Gene.S
