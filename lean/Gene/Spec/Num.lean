import Gene.Num
/-! C04 as stated: numbers compare by mathematical value, whatever their representation. -/
namespace Gene

/-- the mathematical value of a number, as an extended real `k · 2⁻¹⁰⁷⁴` -/
def Num.real : Num → FVal
  | .int v => .fin (v * S)
  | .uint v => .fin ((v : Int) * S)
  | .float x => x

namespace S

/-- mathematical order; `none` iff a NaN is involved -/
def cmp (a b : Num) : Option Ordering := FVal.cmp a.real b.real

def numEq (a b : Num) : Bool := cmp a b == some .eq
def numLt (a b : Num) : Bool := cmp a b == some .lt
def numGt (a b : Num) : Bool := cmp a b == some .gt
def numLe (a b : Num) : Bool := numLt a b || numEq a b
def numGe (a b : Num) : Bool := numGt a b || numEq a b

/-- the integer a number holds (bit tests are about integers only) -/
def intOf : Num → Option Int
  | .int v => some v
  | .uint v => some v
  | .float _ => none

/-- the 64-bit two's-complement pattern of an integer, as a natural number -/
def pattern (v : Int) : Nat := (v % 2^64).toNat

/-- every bit (0..63) of the literal's pattern is set in the field's pattern -/
def allBitsSet (lit field : Int) : Bool :=
  (List.range 64).all (fun i => !(pattern lit).testBit i || (pattern field).testBit i)

end S
end Gene
