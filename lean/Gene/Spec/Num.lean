import Gene.Num
/-! C04 as stated: numbers compare by mathematical value, whatever their representation. -/
namespace Gene

/-- the mathematical value of a number, as an extended real `k · 2⁻¹⁰⁷⁴` -/
def Num.real : Num → FVal
  | .int v => .fin (v * S)
  | .uint v => .fin ((v : Int) * S)
  | .float x => x

namespace S

/-- mathematical order; `none` iff a NaN is involved -/
def cmp (a b : Num) : Option Ordering := FVal.cmp a.real b.real

def numEq (a b : Num) : Bool := cmp a b == some .eq
def numLt (a b : Num) : Bool := cmp a b == some .lt
def numGt (a b : Num) : Bool := cmp a b == some .gt
def numLe (a b : Num) : Bool := numLt a b || numEq a b
def numGe (a b : Num) : Bool := numGt a b || numEq a b

/-- the integer a number holds (bit tests are about integers only) -/
def intOf : Num → Option Int
  | .int v => some v
  | .uint v => some v
  | .float _ => none

/-- bit `i` of the 64-bit two's-complement pattern of an integer -/
def bit (v : Int) (i : Nat) : Bool := (v / 2^i) % 2 == 1

/-- every bit (0..63) of the literal is set in the field -/
def allBitsSet (lit field : Int) : Bool := (List.range 64).all (fun i => !bit lit i || bit field i)

end S
end Gene
