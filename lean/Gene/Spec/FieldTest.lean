import Gene.Spec.Num
import Gene.Match
/-! C03 as stated: what a field test means, as an explicit table over
    operator × literal kind × kind of field value. Independent of how `matcher.rs` dispatches. -/
namespace Gene.S

/-- a literal as the rule author wrote it: a keyword, or the characters between the outer quotes -/
inductive Lit where
  | none | some | bool (b : Bool)
  | text (s : Str)
  deriving DecidableEq, Repr

inductive Res where
  | ok (b : Bool)
  | err
  deriving DecidableEq, Repr

/-- the reading of the `value` token: keyword, or the text strictly between its first and last character -/
def literal (tok : Str) : Lit :=
  if tok == "none".toList then .none
  else if tok == "some".toList then .some
  else if tok == "true".toList then .bool true
  else if tok == "false".toList then .bool false
  else .text ((tok.drop 1).dropLast)

/-- Is the test well-formed at all (otherwise the rule does not compile)? -/
def litOk (x : Ext) (op : MOp) (l : Lit) : Bool :=
  match op, l with
  | .eq, _ => true
  | .rex, .text p => x.rxOk p
  | .rex, .none => x.rxOk "none".toList
  | .rex, .some => x.rxOk "some".toList
  | .rex, .bool true => x.rxOk "true".toList
  | .rex, .bool false => x.rxOk "false".toList
  | _, .text t => (M.numParse x.fparse t).isSome
  | _, _ => false

def litText : Lit → Str
  | .none => "none".toList
  | .some => "some".toList
  | .bool true => "true".toList
  | .bool false => "false".toList
  | .text t => t

/-- the number a field carries for ordering and bit tests: a numeric field, or text that reads as a number -/
def fieldNum (x : Ext) : FieldValue → Option Num
  | .num n => Option.some n
  | .str s => M.numParse x.fparse s
  | _ => Option.none

def ordTest (x : Ext) (rel : Num → Num → Bool) (l : Lit) (v : FieldValue) : Res :=
  match M.numParse x.fparse (litText l), fieldNum x v with
  | Option.some m, Option.some n => .ok (rel n m)
  | _, _ => .err

/-- `&=`: both are integers and every bit of the literal is set in the field -/
def bitTest (lit field : Num) : Res :=
  match intOf lit, intOf field with
  | Option.some a, Option.some b => .ok (allBitsSet a b)
  | _, _ => .err

/-- the meaning of `field op literal` on the addressed field's value (`none` = the field is missing) -/
def fieldTest (x : Ext) (op : MOp) (l : Lit) (v? : Option FieldValue) : Res :=
  match v? with
  | Option.none => .err                          -- missing field: an error, never a match
  | Option.some v =>
    match op with
    | .eq =>
      match l with
      | .none => .ok (v == FieldValue.none)      -- absent optional
      | .some => .ok (v != FieldValue.none)      -- any present value
      | .bool b => match v with
        | .bool c => .ok (b == c)
        | _ => .err
      | .text t =>
        match v with
        | .str s => .ok (s == t)                 -- exact, case-sensitive
        | .num n => match M.numParse x.fparse t with
          | Option.some m => .ok (numEq n m)     -- a numeric literal equals a numeric field of the same value
          | Option.none => .err
        | _ => .err
    | .lt => ordTest x numLt l v
    | .lte => ordTest x numLe l v
    | .gt => ordTest x numGt l v
    | .gte => ordTest x numGe l v
    | .rex =>
      match v with
      | .str s => .ok (x.rxMatch (litText l) s)  -- unanchored search over text
      | _ => .err
    | .flag =>
      match M.numParse x.fparse (litText l), fieldNum x v with
      | Option.some m, Option.some n => bitTest m n
      | _, _ => .err

/-- `== @.other`: both fields present and carrying equal values -/
def fvEqual : FieldValue → FieldValue → Bool
  | .str a, .str b => a == b
  | .num a, .num b => numEq a b
  | .bool a, .bool b => a == b
  | .some, .some => true
  | .none, .none => true
  | _, _ => false

def indirectTest (a? b? : Option FieldValue) : Res :=
  match a?, b? with
  | Option.some a, Option.some b => .ok (fvEqual a b)
  | _, _ => .err

end Gene.S
