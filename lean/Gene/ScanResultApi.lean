import Gene.Rule
import Gene.Getter
import Gene.Generated.ScanResult
/-! Model of the public face of `engine::ScanResult` beyond its fields: the query methods, the getter the
    `FieldGetter` derive generates for it (a scan result can itself be an event member and be addressed by
    rules), and the shape of its serialized form. The struct definition and the token text of the methods
    are regenerated from engine.rs on every run (`Gene.Gen.scanResult*`). -/
namespace Gene
open M

def ScanResult.containsTag (sr : ScanResult) (t : Str) : Bool := sr.tags.contains t
def ScanResult.containsAction (sr : ScanResult) (a : Str) : Bool := sr.actions.contains a
/-- `self.attack.contains(&id.to_ascii_uppercase())` -/
def ScanResult.containsAttackId (sr : ScanResult) (id : Str) : Bool := sr.attack.contains (asciiUpper id)
def ScanResult.isDetection (sr : ScanResult) : Bool := !sr.rules.isEmpty
def ScanResult.isFiltered (sr : ScanResult) : Bool := sr.filtered
def ScanResult.isEmpty (sr : ScanResult) : Bool := sr.rules.isEmpty && !sr.isFiltered
def ScanResult.isOnlyFilter (sr : ScanResult) : Bool := sr.rules.isEmpty && sr.isFiltered

/-- one attribute of the generated struct definition as the derive macro's `MetaParser` reads it -/
def attrOfText (t : String) : FieldAttr :=
  if t = "# [getter (skip)]" then { isGetter := true, metas := [.skip] }
  else { isGetter := startsWith t.toList "# [getter (".toList, metas := [.other] }

/-- the struct as `#[derive(FieldGetter)]` sees it: every field of the generated definition with its
    attributes; the set-typed fields have no `FieldGetter` impl of their own (they are skipped: their value
    is never reached), the two scalar fields carry the result's values -/
def srGVal (sr : ScanResult) : GVal :=
  .struct (Gen.scanResultStructAttrs.any (· = "# [getter (use_serde_rename)]"))
    (Gen.scanResultFields.map (fun (n, _ty, _pub, attrs) =>
      ({ name := n.toList, attrs := attrs.map attrOfText },
       if n = "filtered" then GVal.scalar (.bool sr.filtered)
       else if n = "severity" then GVal.scalar (.num (.uint sr.severity))
       else GVal.scalar .some)))

/-- `<ScanResult as FieldGetter>::get_from_iter` -/
def ScanResult.get (sr : ScanResult) (p : List Str) : Option FieldValue := gget (srGVal sr) p

/-- keys of the serialized map, in field order: `skip_serializing_if = "HashSet::is_empty"` drops an empty
    set, `serde(skip)` drops the field always -/
def ScanResult.serKeys (sr : ScanResult) : List String :=
  Gen.scanResultFields.filterMap (fun (n, _ty, _pub, attrs) =>
    if attrs.any (· = "# [serde (skip)]") then none
    else if attrs.any (· = "# [serde (skip_serializing_if = \"HashSet::is_empty\")]") then
      (if (if n = "tags" then sr.tags.isEmpty else if n = "attack" then sr.attack.isEmpty
           else if n = "actions" then sr.actions.isEmpty else false) then none else some n)
    else some n)

/-- what deserializing the serialized form gives back. A set that was empty is not written
    (`skip_serializing_if`) and, the field carrying no `serde(default)`, its key is then missing for the
    derived `Deserialize`: the text is rejected. Otherwise: every serialized field, the skipped flag at its default -/
def ScanResult.roundTrip (sr : ScanResult) : Option ScanResult :=
  if Gen.scanResultFields.any (fun (n, _ty, _pub, attrs) =>
      attrs.any (· = "# [serde (skip_serializing_if = \"HashSet::is_empty\")]") && !attrs.any (· = "# [serde (default)]") &&
      (if n = "tags" then sr.tags.isEmpty else if n = "attack" then sr.attack.isEmpty
       else if n = "actions" then sr.actions.isEmpty else false))
  then none else some { sr with filtered := false }

end Gene
