import Gene.Lemmas.MemoAbs
/-! abstract theory (index-based; instantiated by Gene/Props/C01.lean): the whole `Engine::scan` loop (engine.rs:343-402) over the candidate list,
    threading the memo and the error record: reported rules = candidates whose denotational verdict is
    `ok true`; an error is returned iff some candidate or listed dependency has an erroring verdict, and
    every recorded error names a rule whose verdict really is an error -/
namespace Gene.Scan
open Gene.Dfs Gene.Memo

/-- dependency loop, also recording which rules raised -/
def depLoopE (ev : EvalRule) : List Nat → States × List Nat → States × List Nat
  | [], st => st
  | d :: ds, (s, errs) =>
    match look s d with
    | some _ => depLoopE ev ds (s, errs)
    | none =>
      match ev d (look s) with
      | .ok b => depLoopE ev ds ((d, b) :: s, errs)
      | .err => depLoopE ev ds (s, errs ++ [d])

theorem depLoopE_fst (ev : EvalRule) (l : List Nat) (s : States) (errs : List Nat) :
    (depLoopE ev l (s, errs)).1 = depLoop ev l s := by
  induction l generalizing s errs with
  | nil => rfl
  | cons d ds ih =>
    simp only [depLoopE, depLoop]
    cases look s d with
    | some _ => exact ih s errs
    | none =>
      cases ev d (look s) with
      | ok b => exact ih _ errs
      | err => exact ih s _

/-- errors recorded by the loop are exactly the listed rules with an erroring verdict that were not
    already memoised (they never are: a sound memo only holds `ok` verdicts) -/
theorem depLoopE_errs (e : Eng) (ev : EvalRule) (hwf : WF e) (hloc : Local e ev) :
    ∀ (post pre : List Nat) (s : States) (errs : List Nat), Closed e (pre ++ post) → Sound ev s →
      (∀ x, x ∈ pre → Settled ev s x) →
      (∀ x, x ∈ (depLoopE ev post (s, errs)).2 ↔ x ∈ errs ∨ (x ∈ post ∧ specV ev x = .err)) := by
  intro post
  induction post with
  | nil => intro pre s errs _ _ _ x; simp [depLoopE]
  | cons d ds ih =>
    intro pre s errs hc hs hp x
    have hc' : Closed e ((pre ++ [d]) ++ ds) := by simpa [List.append_assoc] using hc
    have hdeps : ∀ y, y ∈ deps e d → Settled ev s y := fun y hy => hp y (hc pre d ds rfl y hy)
    unfold depLoopE
    cases hl : look s d with
    | some b =>
      simp only
      have hp' : ∀ x, x ∈ pre ++ [d] → Settled ev s x := by
        intro x hx; rcases List.mem_append.mp hx with h | h
        · exact hp x h
        · simp at h; subst h; left; simp [hl]
      rw [ih (pre ++ [d]) s errs hc' hs hp' x]
      have hok : specV ev d = .ok b := hs d b hl
      constructor
      · rintro (h | ⟨h1, h2⟩)
        · exact Or.inl h
        · exact Or.inr ⟨by simp [h1], h2⟩
      · rintro (h | ⟨h1, h2⟩)
        · exact Or.inl h
        · rcases List.mem_cons.mp h1 with rfl | h1'
          · rw [hok] at h2; cases h2
          · exact Or.inr ⟨h1', h2⟩
    | none =>
      simp only
      have heq := eval_eq_spec e ev hwf hloc s d hs hdeps
      cases hv : ev d (look s) with
      | ok b =>
        simp only
        have hsd : specV ev d = .ok b := by rw [← heq, hv]
        have hp' : ∀ x, x ∈ pre ++ [d] → Settled ev ((d, b) :: s) x := by
          intro x hx; rcases List.mem_append.mp hx with h | h
          · exact settled_mono (hp x h)
          · simp at h; subst h; left; simp [look_cons]
        rw [ih (pre ++ [d]) ((d, b) :: s) errs hc' (sound_cons hs hsd) hp' x]
        constructor
        · rintro (h | ⟨h1, h2⟩)
          · exact Or.inl h
          · exact Or.inr ⟨by simp [h1], h2⟩
        · rintro (h | ⟨h1, h2⟩)
          · exact Or.inl h
          · rcases List.mem_cons.mp h1 with rfl | h1'
            · rw [hsd] at h2; cases h2
            · exact Or.inr ⟨h1', h2⟩
      | err =>
        simp only
        have hsd : specV ev d = .err := by rw [← heq, hv]
        have hp' : ∀ x, x ∈ pre ++ [d] → Settled ev s x := by
          intro x hx; rcases List.mem_append.mp hx with h | h
          · exact hp x h
          · simp at h; subst h; right; exact hsd
        rw [ih (pre ++ [d]) s (errs ++ [d]) hc' hs hp' x]
        constructor
        · rintro (h | ⟨h1, h2⟩)
          · rcases List.mem_append.mp h with h | h
            · exact Or.inl h
            · simp at h; subst h; exact Or.inr ⟨by simp, hsd⟩
          · exact Or.inr ⟨by simp [h1], h2⟩
        · rintro (h | ⟨h1, h2⟩)
          · exact Or.inl (by simp [h])
          · rcases List.mem_cons.mp h1 with rfl | h1'
            · exact Or.inl (by simp)
            · exact Or.inr ⟨h1', h2⟩

/-- scan state: memo, matched candidates (in evaluation order), rules that raised -/
structure Acc where
  states : States
  matched : List Nat
  errs : List Nat

def scanStep (e : Eng) (ev : EvalRule) (a : Acc) (i : Nat) : Acc :=
  let (s', errs') := depLoopE ev (dfsDepSearch e i) (a.states, a.errs)
  match look s' i with
  | some b => { states := s', matched := if b then a.matched ++ [i] else a.matched, errs := errs' }
  | none =>
    match ev i (look s') with
    | .ok b => { states := s', matched := if b then a.matched ++ [i] else a.matched, errs := errs' }
    | .err => { states := s', matched := a.matched, errs := errs' ++ [i] }

def scan (e : Eng) (ev : EvalRule) (cands : List Nat) : Acc := cands.foldl (scanStep e ev) ⟨[], [], []⟩

structure ScanInv (e : Eng) (ev : EvalRule) (done : List Nat) (a : Acc) : Prop where
  sound : Sound ev a.states
  matched : a.matched = done.filter (fun i => specV ev i == .ok true)
  errs : ∀ x, x ∈ a.errs ↔ ∃ i ∈ done, (x = i ∨ x ∈ dfsDepSearch e i) ∧ specV ev x = .err

theorem scanStep_inv (e : Eng) (ev : EvalRule) (hwf : WF e) (hloc : Local e ev) (done : List Nat) (a : Acc)
    (i : Nat) (h : ScanInv e ev done a) : ScanInv e ev (done ++ [i]) (scanStep e ev a i) := by
  have hcl := dfs_closed e hwf i
  have hcl' : Closed e ([] ++ dfsDepSearch e i) := by simpa using hcl.1
  have inv := depLoop_inv e ev hwf hloc (dfsDepSearch e i) [] a.states hcl' h.sound (by simp)
  have herr := depLoopE_errs e ev hwf hloc (dfsDepSearch e i) [] a.states a.errs hcl' h.sound (by simp)
  have hfst := depLoopE_fst ev (dfsDepSearch e i) a.states a.errs
  have hv := (cand_correct e ev hwf hloc a.states i h.sound).2
  unfold scanStep
  generalize hd : depLoopE ev (dfsDepSearch e i) (a.states, a.errs) = res at herr hfst
  obtain ⟨s', errs'⟩ := res
  simp only at hfst herr ⊢
  subst hfst
  -- error bookkeeping shared by the branches that add no candidate error
  have errs_same : ∀ x, x ∈ errs' ↔ (∃ j ∈ done, (x = j ∨ x ∈ dfsDepSearch e j) ∧ specV ev x = .err) ∨
      (x ∈ dfsDepSearch e i ∧ specV ev x = .err) := by
    intro x; rw [herr x, h.errs x]
  have filt : ∀ b : Bool, specV ev i = .ok b →
      (if b then a.matched ++ [i] else a.matched) = (done ++ [i]).filter (fun i => specV ev i == .ok true) := by
    intro b hb
    rw [List.filter_append, ← h.matched]
    cases b <;> simp [hb]
  unfold candVerdict at hv
  cases hl : look (depLoop ev (dfsDepSearch e i) a.states) i with
  | some b =>
    rw [hl] at hv
    simp only at hv ⊢
    refine ⟨inv.1, filt b hv.symm, ?_⟩
    intro x; rw [errs_same x]
    constructor
    · rintro (⟨j, hj, h1, h2⟩ | ⟨h1, h2⟩)
      · exact ⟨j, by simp [hj], h1, h2⟩
      · exact ⟨i, by simp, Or.inr h1, h2⟩
    · rintro ⟨j, hj, h1, h2⟩
      rcases List.mem_append.mp hj with hj | hj
      · exact Or.inl ⟨j, hj, h1, h2⟩
      · simp at hj; subst hj
        rcases h1 with rfl | h1
        · rw [← hv] at h2; cases h2
        · exact Or.inr ⟨h1, h2⟩
  | none =>
    rw [hl] at hv
    simp only at hv ⊢
    cases hr : ev i (look (depLoop ev (dfsDepSearch e i) a.states)) with
    | ok b =>
      rw [hr] at hv
      simp only
      refine ⟨inv.1, filt b hv.symm, ?_⟩
      intro x; rw [errs_same x]
      constructor
      · rintro (⟨j, hj, h1, h2⟩ | ⟨h1, h2⟩)
        · exact ⟨j, by simp [hj], h1, h2⟩
        · exact ⟨i, by simp, Or.inr h1, h2⟩
      · rintro ⟨j, hj, h1, h2⟩
        rcases List.mem_append.mp hj with hj | hj
        · exact Or.inl ⟨j, hj, h1, h2⟩
        · simp at hj; subst hj
          rcases h1 with rfl | h1
          · rw [← hv] at h2; cases h2
          · exact Or.inr ⟨h1, h2⟩
    | err =>
      rw [hr] at hv
      simp only
      refine ⟨inv.1, ?_, ?_⟩
      · rw [List.filter_append, ← h.matched]; simp [← hv]
      · intro x
        rw [List.mem_append, errs_same x]
        constructor
        · rintro ((⟨j, hj, h1, h2⟩ | ⟨h1, h2⟩) | hx)
          · exact ⟨j, by simp [hj], h1, h2⟩
          · exact ⟨i, by simp, Or.inr h1, h2⟩
          · simp at hx; subst hx; exact ⟨x, by simp, Or.inl rfl, hv.symm⟩
        · rintro ⟨j, hj, h1, h2⟩
          rcases List.mem_append.mp hj with hj | hj
          · exact Or.inl (Or.inl ⟨j, hj, h1, h2⟩)
          · simp at hj; subst hj
            rcases h1 with rfl | h1
            · exact Or.inr (by simp)
            · exact Or.inl (Or.inr ⟨h1, h2⟩)

/-- C01 / C10 core, for any candidate order and any sharing of dependencies -/
-- (statement below; the ordered error record is `scan_errs_eq`)
theorem scan_correct (e : Eng) (ev : EvalRule) (hwf : WF e) (hloc : Local e ev) (cands : List Nat) :
    ScanInv e ev cands (scan e ev cands) := by
  unfold scan
  have : ∀ (l done : List Nat) (a : Acc), ScanInv e ev done a →
      ScanInv e ev (done ++ l) (l.foldl (scanStep e ev) a) := by
    intro l
    induction l with
    | nil => intro done a h; simpa using h
    | cons i l ih =>
      intro done a h
      have := ih (done ++ [i]) _ (scanStep_inv e ev hwf hloc done a i h)
      simpa [List.append_assoc] using this
  have h0 : ScanInv e ev [] ⟨[], [], []⟩ := ⟨by intro d b h; simp [look] at h, by simp, by simp⟩
  simpa using this cands [] _ h0
/-! ### the error record as a list: which rule is recorded last -/

/-- the errors one candidate contributes, in the order they are raised: its listed dependencies with an
    erroring verdict (in list order), then the candidate itself -/
def errsOf (e : Eng) (ev : EvalRule) (i : Nat) : List Nat :=
  (dfsDepSearch e i).filter (fun x => specV ev x == .err) ++ (if specV ev i == .err then [i] else [])

theorem depLoopE_errs_eq (e : Eng) (ev : EvalRule) (hwf : WF e) (hloc : Local e ev) :
    ∀ (post pre : List Nat) (s : States) (errs : List Nat), Closed e (pre ++ post) → Sound ev s →
      (∀ x, x ∈ pre → Settled ev s x) →
      (depLoopE ev post (s, errs)).2 = errs ++ post.filter (fun x => specV ev x == .err) := by
  intro post
  induction post with
  | nil => intro pre s errs _ _ _; simp [depLoopE]
  | cons d ds ih =>
    intro pre s errs hc hs hp
    have hc' : Closed e ((pre ++ [d]) ++ ds) := by simpa [List.append_assoc] using hc
    have hdeps : ∀ y, y ∈ deps e d → Settled ev s y := fun y hy => hp y (hc pre d ds rfl y hy)
    unfold depLoopE
    cases hl : look s d with
    | some b =>
      simp only
      have hp' : ∀ x, x ∈ pre ++ [d] → Settled ev s x := by
        intro x hx; rcases List.mem_append.mp hx with h | h
        · exact hp x h
        · simp at h; subst h; left; simp [hl]
      rw [ih (pre ++ [d]) s errs hc' hs hp']
      have hok : specV ev d = .ok b := hs d b hl
      simp [List.filter_cons, hok]
    | none =>
      simp only
      have heq := eval_eq_spec e ev hwf hloc s d hs hdeps
      cases hv : ev d (look s) with
      | ok b =>
        simp only
        have hsd : specV ev d = .ok b := by rw [← heq, hv]
        have hp' : ∀ x, x ∈ pre ++ [d] → Settled ev ((d, b) :: s) x := by
          intro x hx; rcases List.mem_append.mp hx with h | h
          · exact settled_mono (hp x h)
          · simp at h; subst h; left; simp [look_cons]
        rw [ih (pre ++ [d]) ((d, b) :: s) errs hc' (sound_cons hs hsd) hp']
        simp [List.filter_cons, hsd]
      | err =>
        simp only
        have hsd : specV ev d = .err := by rw [← heq, hv]
        have hp' : ∀ x, x ∈ pre ++ [d] → Settled ev s x := by
          intro x hx; rcases List.mem_append.mp hx with h | h
          · exact hp x h
          · simp at h; subst h; right; exact hsd
        rw [ih (pre ++ [d]) s (errs ++ [d]) hc' hs hp']
        simp [List.filter_cons, hsd]

theorem scanStep_errs (e : Eng) (ev : EvalRule) (hwf : WF e) (hloc : Local e ev) (a : Acc) (i : Nat)
    (hs : Sound ev a.states) : (scanStep e ev a i).errs = a.errs ++ errsOf e ev i := by
  have hcl := dfs_closed e hwf i
  have hcl' : Closed e ([] ++ dfsDepSearch e i) := by simpa using hcl.1
  have herr := depLoopE_errs_eq e ev hwf hloc (dfsDepSearch e i) [] a.states a.errs hcl' hs (by simp)
  have hfst := depLoopE_fst ev (dfsDepSearch e i) a.states a.errs
  have hv := (cand_correct e ev hwf hloc a.states i hs).2
  unfold scanStep errsOf
  generalize hd : depLoopE ev (dfsDepSearch e i) (a.states, a.errs) = res at herr hfst
  obtain ⟨s', errs'⟩ := res
  simp only at hfst herr ⊢
  subst hfst
  unfold candVerdict at hv
  cases hl : look (depLoop ev (dfsDepSearch e i) a.states) i with
  | some b =>
    rw [hl] at hv
    simp only at hv ⊢
    rw [herr, ← hv]; simp
  | none =>
    rw [hl] at hv
    simp only at hv ⊢
    cases hr : ev i (look (depLoop ev (dfsDepSearch e i) a.states)) with
    | ok b => rw [hr] at hv; simp only; rw [herr, ← hv]; simp
    | err => rw [hr] at hv; simp only; rw [herr, ← hv]; simp [List.append_assoc]

/-- the whole error record, in order -/
theorem scan_errs_eq (e : Eng) (ev : EvalRule) (hwf : WF e) (hloc : Local e ev) (cands : List Nat) :
    (scan e ev cands).errs = cands.flatMap (errsOf e ev) := by
  unfold scan
  have : ∀ (l done : List Nat) (a : Acc), ScanInv e ev done a →
      (l.foldl (scanStep e ev) a).errs = a.errs ++ l.flatMap (errsOf e ev) := by
    intro l
    induction l with
    | nil => intro done a _; simp
    | cons i l ih =>
      intro done a h
      have h' := scanStep_inv e ev hwf hloc done a i h
      rw [List.foldl_cons, ih (done ++ [i]) _ h', scanStep_errs e ev hwf hloc a i h.sound]
      simp [List.append_assoc]
  have h0 : ScanInv e ev [] ⟨[], [], []⟩ := ⟨by intro d b h; simp [look] at h, by simp, by simp⟩
  simpa using this cands [] _ h0

end Gene.Scan
