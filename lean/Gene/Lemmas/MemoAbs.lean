import Gene.Lemmas.DfsAbs
/-! abstract theory (index-based; instantiated by Gene/Props/C01.lean): the per-scan verdict memo (engine.rs:341-390) agrees with a denotational verdict -/
namespace Gene.Memo
open Gene.Dfs

inductive Res | ok (b : Bool) | err
  deriving DecidableEq, Repr

def Res.toOpt : Res → Option Bool | .ok b => some b | .err => none

/-- abstract rule evaluation: index, lookup of rule(x) operands -/
abbrev EvalRule := Nat → (Nat → Option Bool) → Res

/-- evaluation only consults the memo at the rule's dependencies (true of compile_into: depends = rule(x) operands) -/
def Local (e : Eng) (ev : EvalRule) : Prop :=
  ∀ i m m', (∀ d, d ∈ deps e i → m d = m' d) → ev i m = ev i m'

/-- denotational verdicts, in load order -/
def build (ev : EvalRule) : Nat → List Res
  | 0 => []
  | k+1 => build ev k ++ [ev k (fun d => ((build ev k)[d]?).bind Res.toOpt)]

def specV (ev : EvalRule) (i : Nat) : Res := ((build ev (i+1))[i]?).getD .err

theorem build_length (ev : EvalRule) (k : Nat) : (build ev k).length = k := by
  induction k with
  | zero => rfl
  | succ k ih => simp [build, ih]

theorem build_get (ev : EvalRule) : ∀ k j, j < k → (build ev k)[j]? = some (specV ev j) := by
  intro k
  induction k with
  | zero => intro j h; omega
  | succ k ih =>
    intro j hj
    by_cases hjk : j < k
    · have := ih j hjk
      have hlen : j < (build ev k).length := by rw [build_length]; exact hjk
      rw [build, List.getElem?_append_left hlen]; exact this
    · have hjeq : j = k := by omega
      subst hjeq
      unfold specV
      have hl : (build ev (j+1)).length = j + 1 := build_length ev (j+1)
      have : j < (build ev (j+1)).length := by omega
      simp [List.getElem?_eq_getElem, this]

/-- the recursive equation the spec satisfies for well-founded engines -/
theorem specV_eq (e : Eng) (ev : EvalRule) (hwf : WF e) (hloc : Local e ev) (i : Nat) :
    specV ev i = ev i (fun d => (specV ev d).toOpt) := by
  have h1 : specV ev i = ev i (fun d => ((build ev i)[d]?).bind Res.toOpt) := by
    unfold specV
    have : (build ev (i+1))[i]? = some (ev i (fun d => ((build ev i)[d]?).bind Res.toOpt)) := by
      simp [build, build_length]
    simp [this]
  rw [h1]
  apply hloc
  intro d hd
  have : d < i := hwf i d hd
  simp [build_get ev i d this]

/-! ### the implementation's loops -/

abbrev States := List (Nat × Bool)
def look (s : States) (d : Nat) : Option Bool := (s.find? (fun p => p.1 == d)).map (·.2)

/-- dependency loop of `scan` -/
def depLoop (ev : EvalRule) : List Nat → States → States
  | [], s => s
  | d :: ds, s =>
    match look s d with
    | some _ => depLoop ev ds s
    | none =>
      match ev d (look s) with
      | .ok b => depLoop ev ds ((d, b) :: s)
      | .err => depLoop ev ds s

/-- memo soundness -/
def Sound (ev : EvalRule) (s : States) : Prop := ∀ d b, look s d = some b → specV ev d = .ok b

theorem look_cons (s : States) (d x : Nat) (b : Bool) :
    look ((d, b) :: s) x = if d = x then some b else look s x := by
  unfold look
  by_cases h : d = x <;> simp [List.find?_cons, h]

theorem sound_cons {ev : EvalRule} {s : States} {d : Nat} {b : Bool}
    (hs : Sound ev s) (hd : specV ev d = .ok b) : Sound ev ((d, b) :: s) := by
  intro x c h
  rw [look_cons] at h
  by_cases hx : d = x
  · simp [hx] at h; subst hx; subst h; exact hd
  · simp [hx] at h; exact hs x c h

/-- a rule is *settled* in s: memoised, or its denotational verdict is an error -/
def Settled (ev : EvalRule) (s : States) (x : Nat) : Prop := (look s x).isSome ∨ specV ev x = .err

theorem settled_mono {ev : EvalRule} {s : States} {x d : Nat} {b : Bool} (h : Settled ev s x) :
    Settled ev ((d, b) :: s) x := by
  rcases h with h | h
  · left; rw [look_cons]; split <;> simp_all
  · right; exact h

/-- if all deps of x are settled in a sound memo, evaluating x against the memo gives the spec verdict -/
theorem eval_eq_spec (e : Eng) (ev : EvalRule) (hwf : WF e) (hloc : Local e ev) (s : States) (x : Nat)
    (hs : Sound ev s) (hset : ∀ y, y ∈ deps e x → Settled ev s y) : ev x (look s) = specV ev x := by
  rw [specV_eq e ev hwf hloc x]
  apply hloc
  intro y hy
  rcases hset y hy with h | h
  · obtain ⟨b, hb⟩ := Option.isSome_iff_exists.mp h
    rw [hb, hs y b hb]; rfl
  · rw [h]
    cases hl : look s y with
    | none => rfl
    | some b => have := hs y b hl; rw [h] at this; cases this

theorem depLoop_inv (e : Eng) (ev : EvalRule) (hwf : WF e) (hloc : Local e ev) :
    ∀ (post pre : List Nat) (s : States), Closed e (pre ++ post) → Sound ev s →
      (∀ x, x ∈ pre → Settled ev s x) →
      Sound ev (depLoop ev post s) ∧ (∀ x, x ∈ pre ++ post → Settled ev (depLoop ev post s) x)
        ∧ (∀ x, Settled ev s x → Settled ev (depLoop ev post s) x) := by
  intro post
  induction post with
  | nil => intro pre s _ hs hp; simp [depLoop]; exact ⟨hs, hp⟩
  | cons d ds ih =>
    intro pre s hc hs hp
    have hc' : Closed e ((pre ++ [d]) ++ ds) := by simpa [List.append_assoc] using hc
    have hdeps : ∀ y, y ∈ deps e d → Settled ev s y := fun y hy => hp y (hc pre d ds rfl y hy)
    unfold depLoop
    cases hl : look s d with
    | some b =>
      simp only
      have hp' : ∀ x, x ∈ pre ++ [d] → Settled ev s x := by
        intro x hx; rcases List.mem_append.mp hx with h | h
        · exact hp x h
        · simp at h; subst h; left; simp [hl]
      have := ih (pre ++ [d]) s hc' hs hp'
      simpa [List.append_assoc] using this
    | none =>
      simp only
      have heq := eval_eq_spec e ev hwf hloc s d hs hdeps
      cases hv : ev d (look s) with
      | ok b =>
        simp only
        have hsd : specV ev d = .ok b := by rw [← heq, hv]
        have hs' := sound_cons hs hsd
        have hp' : ∀ x, x ∈ pre ++ [d] → Settled ev ((d, b) :: s) x := by
          intro x hx; rcases List.mem_append.mp hx with h | h
          · exact settled_mono (hp x h)
          · simp at h; subst h; left; simp [look_cons]
        have := ih (pre ++ [d]) ((d, b) :: s) hc' hs' hp'
        refine ⟨this.1, by simpa [List.append_assoc] using this.2.1, fun x hx => this.2.2 x (settled_mono hx)⟩
      | err =>
        simp only
        have hsd : specV ev d = .err := by rw [← heq, hv]
        have hp' : ∀ x, x ∈ pre ++ [d] → Settled ev s x := by
          intro x hx; rcases List.mem_append.mp hx with h | h
          · exact hp x h
          · simp at h; subst h; right; exact hsd
        have := ih (pre ++ [d]) s hc' hs hp'
        simpa [List.append_assoc] using this

/-- verdict of one candidate after its dependency loop (engine.rs:376-390): equals the spec verdict -/
def candVerdict (ev : EvalRule) (s : States) (i : Nat) : Res :=
  match look s i with
  | some b => .ok b
  | none => ev i (look s)

theorem cand_correct (e : Eng) (ev : EvalRule) (hwf : WF e) (hloc : Local e ev) (s : States) (i : Nat)
    (hs : Sound ev s) :
    let s' := depLoop ev (dfsDepSearch e i) s
    Sound ev s' ∧ candVerdict ev s' i = specV ev i := by
  have hcl := dfs_closed e hwf i
  have inv := depLoop_inv e ev hwf hloc (dfsDepSearch e i) [] s (by simpa using hcl.1) hs (by simp)
  refine ⟨inv.1, ?_⟩
  unfold candVerdict
  cases hl : look (depLoop ev (dfsDepSearch e i) s) i with
  | some b => simp only; exact (inv.1 i b hl).symm
  | none =>
    simp only
    exact eval_eq_spec e ev hwf hloc _ i inv.1 (fun y hy => inv.2.1 y (by simpa using hcl.2 y hy))

end Gene.Memo