/-! abstract theory (index-based; instantiated by Gene/Props/C01.lean) for C13: the denotational verdict of a rule is the same in any two well-founded
    load orders that contain it (so unrelated rules and reordering cannot change it) -/
namespace Gene.Closure

abbrev Name := Nat
inductive Res | ok (b : Bool) | err  deriving DecidableEq, Repr
def Res.toOpt : Res → Option Bool | .ok b => some b | .err => none

/-- the rule definitions: dependencies and evaluation given verdicts of rule(x) operands -/
structure U where
  deps : Name → List Name
  ev : Name → (Name → Option Bool) → Res

def U.Local (u : U) : Prop := ∀ n m m', (∀ d ∈ u.deps n, m d = m' d) → u.ev n m = u.ev n m'

abbrev Memo := List (Name × Res)
def look (m : Memo) (d : Name) : Option Res := (m.find? (fun p => p.1 == d)).map (·.2)
def lk (m : Memo) (d : Name) : Option Bool := (look m d).bind Res.toOpt

def stepV (u : U) (acc : Memo) (n : Name) : Memo := acc ++ [(n, u.ev n (lk acc))]
def verdicts (u : U) (L : List Name) : Memo := L.foldl (stepV u) []
def specV (u : U) (L : List Name) (n : Name) : Res := (look (verdicts u L) n).getD .err

/-- dependencies are loaded strictly earlier; names unique -/
def WF (u : U) (L : List Name) : Prop :=
  L.Nodup ∧ ∀ pre n post, L = pre ++ n :: post → ∀ d ∈ u.deps n, d ∈ pre

theorem foldl_stepV_keys (u : U) (L : List Name) (acc : Memo) :
    (L.foldl (stepV u) acc).map (·.1) = acc.map (·.1) ++ L := by
  induction L generalizing acc with
  | nil => simp
  | cons n L ih => simp [List.foldl_cons, ih, stepV]

theorem look_append_left (m m' : Memo) (d : Name) (h : d ∈ m.map (·.1)) : look (m ++ m') d = look m d := by
  unfold look
  rw [List.find?_append]
  obtain ⟨p, hp, rfl⟩ := List.mem_map.mp h
  have : (m.find? (fun q => q.1 == p.1)).isSome := by
    rw [List.find?_isSome]; exact ⟨p, hp, by simp⟩
  cases hf : m.find? (fun q => q.1 == p.1) with
  | none => rw [hf] at this; cases this
  | some x => simp

theorem look_append_right (m m' : Memo) (d : Name) (h : d ∉ m.map (·.1)) : look (m ++ m') d = look m' d := by
  unfold look
  rw [List.find?_append]
  have : m.find? (fun q => q.1 == d) = none := by
    rw [List.find?_eq_none]; intro x hx hxd
    exact h (List.mem_map.mpr ⟨x, hx, by simpa using hxd⟩)
  simp [this]

/-- extending the fold never changes entries already present -/
theorem foldl_stepV_stable (u : U) (L : List Name) (acc : Memo) (d : Name) (h : d ∈ acc.map (·.1)) :
    look (L.foldl (stepV u) acc) d = look acc d := by
  induction L generalizing acc with
  | nil => rfl
  | cons n L ih =>
    simp only [List.foldl_cons]
    rw [ih (stepV u acc n) (by simp [stepV, h])]
    exact look_append_left _ _ _ h

theorem verdicts_split (u : U) (pre : List Name) (n : Name) (post : List Name) :
    verdicts u (pre ++ n :: post) = (post.foldl (stepV u) (stepV u (verdicts u pre) n)) := by
  simp [verdicts, List.foldl_append]

/-- the verdict of the rule at a split point, and of everything before it -/
theorem specV_at (u : U) (pre : List Name) (n : Name) (post : List Name) (hnd : (pre ++ n :: post).Nodup) :
    specV u (pre ++ n :: post) n = u.ev n (lk (verdicts u pre)) ∧
    ∀ d ∈ pre, look (verdicts u (pre ++ n :: post)) d = look (verdicts u pre) d := by
  have hkeys : (verdicts u pre).map (·.1) = pre := by simpa [verdicts] using foldl_stepV_keys u pre []
  have hn : n ∉ pre := by
    have := List.nodup_append.mp hnd
    intro h; exact this.2.2 n h n (by simp) rfl
  constructor
  · unfold specV
    rw [verdicts_split, foldl_stepV_stable u post _ n (by simp [stepV])]
    unfold stepV
    rw [look_append_right _ _ _ (by rw [hkeys]; exact hn)]
    simp [look]
  · intro d hd
    rw [verdicts_split, foldl_stepV_stable u post _ d (by simp [stepV, hkeys, hd])]
    unfold stepV
    exact look_append_left _ _ _ (by rw [hkeys]; exact hd)

theorem split_of_mem {L : List Name} {n : Name} (h : n ∈ L) : ∃ pre post, L = pre ++ n :: post :=
  List.append_of_mem h

/-- recursive equation of the denotational verdict in a well-founded order -/
theorem specV_eq (u : U) (hloc : u.Local) (L : List Name) (hwf : WF u L) (n : Name) (hn : n ∈ L) :
    specV u L n = u.ev n (fun d => (specV u L d).toOpt) := by
  obtain ⟨pre, post, rfl⟩ := split_of_mem hn
  have sp := specV_at u pre n post hwf.1
  rw [sp.1]
  apply hloc
  intro d hd
  have hdpre : d ∈ pre := hwf.2 pre n post rfl d hd
  have hkeys : (verdicts u pre).map (·.1) = pre := by simpa [verdicts] using foldl_stepV_keys u pre []
  have hl := sp.2 d hdpre
  -- d is present in the memo of `pre`
  have hpres : (look (verdicts u pre) d).isSome := by
    unfold look; rw [Option.isSome_map, List.find?_isSome]
    obtain ⟨p, hp, hpd⟩ := List.mem_map.mp (by rw [hkeys]; exact hdpre : d ∈ (verdicts u pre).map (·.1))
    exact ⟨p, hp, by simp [hpd]⟩
  obtain ⟨r, hr⟩ := Option.isSome_iff_exists.mp hpres
  simp only [lk, specV, hl, hr]; rfl

/-- position of a name in a list, for the induction -/
theorem closure_independent (u : U) (hloc : u.Local) (L1 L2 : List Name) (h1 : WF u L1) (h2 : WF u L2) :
    ∀ (k : Nat) (pre post : List Name) (n : Name), pre.length ≤ k → L1 = pre ++ n :: post → n ∈ L2 →
      (∀ d, d ∈ pre → d ∈ u.deps n → d ∈ L2) →   -- dependencies are loaded in L2 as well (implied by WF L2, kept explicit)
      specV u L1 n = specV u L2 n := by
  intro k
  induction k with
  | zero =>
    intro pre post n hk hL hn2 _
    have : pre = [] := List.eq_nil_of_length_eq_zero (by omega)
    subst this
    rw [specV_eq u hloc L1 h1 n (by rw [hL]; simp), specV_eq u hloc L2 h2 n hn2]
    apply hloc; intro d hd
    have := h1.2 [] n post (by simpa using hL) d hd
    cases this
  | succ k ih =>
    intro pre post n hk hL hn2 _
    rw [specV_eq u hloc L1 h1 n (by rw [hL]; simp), specV_eq u hloc L2 h2 n hn2]
    apply hloc; intro d hd
    have hdpre : d ∈ pre := h1.2 pre n post hL d hd
    obtain ⟨p1, p2, hp⟩ := split_of_mem hdpre
    -- d in L2: by WF of L2
    obtain ⟨q1, q2, hq⟩ := split_of_mem hn2
    have hd2 : d ∈ L2 := by rw [hq]; exact List.mem_append_left _ (h2.2 q1 n q2 hq d hd)
    have hlen : p1.length ≤ k := by
      have := congrArg List.length hp; simp at this; omega
    have := ih p1 (p2 ++ n :: post) d hlen (by rw [hL, hp]; simp [List.append_assoc]) hd2
      (fun x _ hx => by
        obtain ⟨r1, r2, hr⟩ := split_of_mem hd2
        rw [hr]; exact List.mem_append_left _ (h2.2 r1 d r2 hr x hx))
    show (specV u L1 d).toOpt = (specV u L2 d).toOpt
    rw [this]

/-- C13: same rule, two dependency-respecting load orders (possibly with different unrelated rules):
    same verdict -/
theorem verdict_order_independent (u : U) (hloc : u.Local) (L1 L2 : List Name)
    (h1 : WF u L1) (h2 : WF u L2) (n : Name) (hn1 : n ∈ L1) (hn2 : n ∈ L2) :
    specV u L1 n = specV u L2 n := by
  obtain ⟨pre, post, hL⟩ := split_of_mem hn1
  exact closure_independent u hloc L1 L2 h1 h2 pre.length pre post n (Nat.le_refl _) hL hn2
    (fun d _ hd => by
      obtain ⟨q1, q2, hq⟩ := split_of_mem hn2
      rw [hq]; exact List.mem_append_left _ (h2.2 q1 n q2 hq d hd))
end Gene.Closure