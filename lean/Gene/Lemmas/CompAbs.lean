/-! Abstract theory of `Compiler::load` / `Compiler::compile` (compiler.rs) as a state machine.
    Rules are abstract: a name, a disabled flag, "compiles in isolation", dependency names.
    `Gene/Props/C14.lean` shows that the concrete model refines this machine. -/
namespace Gene.Comp

abbrev Name := List Char

structure Rule where
  name : Name
  disabled : Bool
  valid : Bool            -- Rule::compile_into succeeds
  deps : List Name        -- rule(x) operands
  deriving DecidableEq, Repr

structure St where
  rules : List Rule       -- Compiler.rules (load order)
  compiled : List Rule    -- Compiler.compiled (abstracting the compiled form by its source)
  deriving Repr
-- `loaded` = names of `rules`, `names` = names of `compiled` with their index (kept as derived data here;
-- the full model keeps them as separate fields with the alignment invariant)

inductive Out | ok | dup | bad   deriving DecidableEq, Repr

def names (l : List Rule) : List Name := l.map (·.name)

def load (s : St) (r : Rule) : St × Out :=
  if r.disabled then (s, .ok)
  else if r.name ∈ names s.rules then (s, .dup)
  else ({ s with rules := s.rules ++ [r] }, .ok)

/-- the per-rule check of `compile`: compiles, and every dependency is already compiled -/
def goodAt (pre : List Rule) (r : Rule) : Bool := r.valid && r.deps.all (fun d => decide (d ∈ names pre))

/-- the loop of `compile`: skip what is already in `names`, stop at the first failure -/
def compLoop : List Rule → List Rule → List Rule × Out
  | compiled, [] => (compiled, .ok)
  | compiled, r :: rs =>
    if r.name ∈ names compiled then compLoop compiled rs
    else if goodAt compiled r then compLoop (compiled ++ [r]) rs
    else (compiled, .bad)

def compile (s : St) : St × Out :=
  if s.rules.length = s.compiled.length then (s, .ok)        -- is_ready
  else let (c, o) := compLoop s.compiled s.rules; ({ s with compiled := c }, o)

/-! ### specification: the longest valid prefix -/
def vp : List Rule → List Rule → List Rule
  | pre, [] => pre
  | pre, r :: rs => if goodAt pre r then vp (pre ++ [r]) rs else pre

def vpOk : List Rule → List Rule → Bool
  | _, [] => true
  | pre, r :: rs => if goodAt pre r then vpOk (pre ++ [r]) rs else false

/-- every element of `l` passed its check against what precedes it (after `pre`) -/
def GoodFrom : List Rule → List Rule → Prop
  | _, [] => True
  | pre, r :: rs => goodAt pre r = true ∧ GoodFrom (pre ++ [r]) rs

structure Inv (s : St) : Prop where
  nodup : (names s.rules).Nodup
  pref : ∃ rest, s.rules = s.compiled ++ rest
  good : GoodFrom [] s.compiled
  enabled : ∀ r ∈ s.rules, r.disabled = false

theorem vp_good_prefix : ∀ (c pre rest : List Rule), GoodFrom pre c →
    vp pre (c ++ rest) = vp (pre ++ c) rest ∧ vpOk pre (c ++ rest) = vpOk (pre ++ c) rest := by
  intro c
  induction c with
  | nil => intro pre rest _; simp
  | cons r c ih =>
    intro pre rest h
    obtain ⟨h1, h2⟩ := h
    have := ih (pre ++ [r]) rest h2
    simp only [List.cons_append, vp, vpOk, h1, if_true]
    simpa [List.append_assoc] using this

/-- skipping: the loop walks over an already compiled prefix without changing anything -/
theorem compLoop_skip : ∀ (p compiled rs : List Rule), (∀ r ∈ p, r.name ∈ names compiled) →
    compLoop compiled (p ++ rs) = compLoop compiled rs := by
  intro p
  induction p with
  | nil => intros; rfl
  | cons r p ih =>
    intro compiled rs h
    simp only [List.cons_append, compLoop, h r (by simp), if_true]
    exact ih compiled rs (fun x hx => h x (by simp [hx]))

/-- on fresh names the loop is exactly `vp` -/
theorem compLoop_fresh : ∀ (rs compiled : List Rule), (names (compiled ++ rs)).Nodup →
    compLoop compiled rs = (vp compiled rs, if vpOk compiled rs then .ok else .bad) := by
  intro rs
  induction rs with
  | nil => intro compiled _; simp [compLoop, vp, vpOk]
  | cons r rs ih =>
    intro compiled hnd
    have hfresh : r.name ∉ names compiled := by
      simp only [names, List.map_append, List.map_cons] at hnd
      have := (List.nodup_append.mp hnd).2.2
      intro hc
      exact this _ hc _ (by simp) rfl
    simp only [compLoop, hfresh, if_false, vp, vpOk]
    by_cases hg : goodAt compiled r = true
    · simp only [hg, if_true]
      exact ih (compiled ++ [r]) (by simpa [List.append_assoc] using hnd)
    · simp [hg]

theorem compile_spec (s : St) (h : Inv s) :
    (compile s).1.rules = s.rules ∧ (compile s).1.compiled = vp [] s.rules ∧
      ((compile s).2 = .ok ↔ vpOk [] s.rules = true) := by
  obtain ⟨rest, hr⟩ := h.pref
  have hv := vp_good_prefix s.compiled [] rest h.good
  simp only [List.nil_append] at hv
  by_cases hready : s.rules.length = s.compiled.length
  · -- is_ready: everything is compiled already
    have hrest : rest = [] := by
      have := congrArg List.length hr; simp at this; exact List.eq_nil_of_length_eq_zero (by omega)
    subst hrest
    have e1 : vp [] s.rules = s.compiled := by rw [hr, hv.1]; rfl
    have e2 : vpOk [] s.rules = true := by rw [hr, hv.2]; rfl
    have hc : compile s = (s, .ok) := by unfold compile; simp [hready]
    rw [hc, e1, e2]; simp
  · have hskip := compLoop_skip s.compiled s.compiled rest (fun r hr => List.mem_map.mpr ⟨r, hr, rfl⟩)
    have hfresh := compLoop_fresh rest s.compiled (by rw [← hr]; exact h.nodup)
    have hc : compile s = ({ s with compiled := vp s.compiled rest }, if vpOk s.compiled rest then .ok else .bad) := by
      unfold compile
      simp only [hready, if_false]
      rw [show compLoop s.compiled s.rules = compLoop s.compiled (s.compiled ++ rest) by rw [← hr]]
      rw [hskip, hfresh]
    rw [hc, hr, hv.1, hv.2]
    refine ⟨hr.symm ▸ rfl, rfl, ?_⟩
    cases vpOk s.compiled rest <;> simp

theorem goodFrom_vp : ∀ (rs pre : List Rule), GoodFrom [] pre → GoodFrom [] (vp pre rs) := by
  intro rs
  induction rs with
  | nil => intro pre h; exact h
  | cons r rs ih =>
    intro pre h
    simp only [vp]
    by_cases hg : goodAt pre r = true
    · simp only [hg, if_true]
      apply ih
      -- GoodFrom [] (pre ++ [r])
      have : ∀ (a b : List Rule), GoodFrom a b → goodAt (a ++ b) r = true → GoodFrom a (b ++ [r]) := by
        intro a b
        induction b generalizing a with
        | nil => intro _ h2; simpa [GoodFrom] using h2
        | cons x b ihb =>
          intro h1 h2
          exact ⟨h1.1, ihb (a ++ [x]) h1.2 (by simpa [List.append_assoc] using h2)⟩
      exact this [] pre h (by simpa using hg)
    · simp only [hg]; exact h

theorem vp_prefix : ∀ (rs pre : List Rule), ∃ a b, vp pre rs = pre ++ a ∧ rs = a ++ b := by
  intro rs
  induction rs with
  | nil => intro pre; exact ⟨[], [], by simp [vp], rfl⟩
  | cons r rs ih =>
    intro pre
    simp only [vp]
    by_cases hg : goodAt pre r = true
    · simp only [hg, if_true]
      obtain ⟨a, b, h1, h2⟩ := ih (pre ++ [r])
      exact ⟨r :: a, b, by simp [h1, List.append_assoc], by simp [h2]⟩
    · simp only [hg]; exact ⟨[], r :: rs, by simp, rfl⟩

theorem compile_inv (s : St) (h : Inv s) : Inv (compile s).1 := by
  have sp := compile_spec s h
  obtain ⟨a, b, h1, h2⟩ := vp_prefix s.rules []
  refine ⟨by rw [sp.1]; exact h.nodup, ⟨b, by rw [sp.1, sp.2.1, h1, h2]; simp⟩, ?_, by rw [sp.1]; exact h.enabled⟩
  rw [sp.2.1]; exact goodFrom_vp s.rules [] trivial

theorem load_inv (s : St) (r : Rule) (h : Inv s) : Inv (load s r).1 := by
  unfold load
  by_cases hd : r.disabled = true
  · simp [hd]; exact h
  · by_cases hdup : r.name ∈ names s.rules
    · simp [hd, hdup]; exact h
    · simp only [hd, hdup, if_false, Bool.false_eq_true]
      obtain ⟨rest, hr⟩ := h.pref
      refine ⟨?_, ⟨rest ++ [r], by simp [hr, List.append_assoc]⟩, h.good, ?_⟩
      · simp only [names, List.map_append, List.map_cons, List.map_nil]
        rw [List.nodup_append]
        refine ⟨h.nodup, by simp, ?_⟩
        intro a ha b hb; simp at hb; subst hb; intro heq; subst heq; exact hdup ha
      · intro x hx; rcases List.mem_append.mp hx with hx | hx
        · exact h.enabled x hx
        · simp at hx; subst hx; simpa using hd

/-! ### histories -/
inductive Op | load (r : Rule) | compile

def step (s : St) : Op → St
  | .load r => (load s r).1
  | .compile => (compile s).1

def run (s : St) (ops : List Op) : St := ops.foldl step s

def init : St := ⟨[], []⟩
theorem init_inv : Inv init := ⟨by simp [init, names], ⟨[], rfl⟩, trivial, by simp [init]⟩

theorem run_inv (ops : List Op) (s : St) (h : Inv s) : Inv (run s ops) := by
  induction ops generalizing s with
  | nil => exact h
  | cons o ops ih =>
    cases o with
    | load r => exact ih _ (load_inv s r h)
    | compile => exact ih _ (compile_inv s h)

def loadsOnly : List Op → List Op := List.filter (fun o => match o with | .load _ => true | .compile => false)

theorem run_rules (ops : List Op) (s : St) (h : Inv s) :
    (run s ops).rules = (run s (loadsOnly ops)).rules := by
  induction ops generalizing s with
  | nil => rfl
  | cons o ops ih =>
    cases o with
    | load r =>
      simp only [loadsOnly, List.filter_cons, run, List.foldl_cons] at ih ⊢
      exact ih _ (load_inv s r h)
    | compile =>
      simp only [loadsOnly, List.filter_cons, run, List.foldl_cons, step] at ih ⊢
      rw [ih _ (compile_inv s h)]
      -- `load` only looks at `rules`; compile leaves `rules` unchanged: generalise over states with equal rules
      have key : ∀ (l : List Op) (s1 s2 : St), s1.rules = s2.rules →
          (List.foldl step s1 (loadsOnly l)).rules = (List.foldl step s2 (loadsOnly l)).rules := by
        intro l
        induction l with
        | nil => intro s1 s2 h; exact h
        | cons o l ihl =>
          intro s1 s2 h12
          cases o with
          | load r =>
            simp only [loadsOnly, List.filter_cons, List.foldl_cons] at ihl ⊢
            apply ihl
            simp only [step, load, h12]
            split
            · exact h12
            · split
              · exact h12
              · simp [h12]
          | compile => simp only [loadsOnly, List.filter_cons] at ihl ⊢; exact ihl s1 s2 h12
      exact key ops _ _ (compile_spec s h).1

/-- C14: wherever `compile`s are interleaved, a final `compile` yields the same rules, the same compiled
    list (the longest valid prefix of the loaded rules) and the same verdict as one batch compile -/
theorem compile_placement_irrelevant (ops : List Op) :
    let a := compile (run init ops)
    let b := compile (run init (loadsOnly ops))
    a.1.rules = b.1.rules ∧ a.1.compiled = b.1.compiled ∧ a.2 = b.2 := by
  have ia := run_inv ops init init_inv
  have ib := run_inv (loadsOnly ops) init init_inv
  have sa := compile_spec _ ia
  have sb := compile_spec _ ib
  have hr := run_rules ops init init_inv
  refine ⟨by rw [sa.1, sb.1, hr], by rw [sa.2.1, sb.2.1, hr], ?_⟩
  have : ((compile (run init ops)).2 = .ok) ↔ ((compile (run init (loadsOnly ops))).2 = .ok) := by
    rw [sa.2.2, sb.2.2, hr]
  -- outputs are ok/bad only
  have out2 : ∀ s : St, (compile s).2 = .ok ∨ (compile s).2 = .bad := by
    intro s; unfold compile
    split
    · left; rfl
    · have : ∀ (rs c : List Rule), (compLoop c rs).2 = .ok ∨ (compLoop c rs).2 = .bad := by
        intro rs; induction rs with
        | nil => intro c; left; rfl
        | cons r rs ih =>
          intro c; simp only [compLoop]
          split
          · exact ih _
          · split
            · exact ih _
            · right; rfl
      exact this _ _
  rcases out2 (run init ops) with h1 | h1 <;> rcases out2 (run init (loadsOnly ops)) with h2 | h2
  · rw [h1, h2]
  · rw [this] at h1; rw [h1] at h2; cases h2
  · rw [← this] at h2; rw [h2] at h1; cases h1
  · rw [h1, h2]

/-- an engine is obtainable only when every loaded rule is valid with earlier dependencies -/
theorem ok_iff_all_good (s : St) (h : Inv s) :
    (compile s).2 = .ok ↔ (compile s).1.compiled = s.rules := by
  have sp := compile_spec s h
  rw [sp.2.2, sp.2.1]
  have : ∀ (rs pre : List Rule), vpOk pre rs = true ↔ vp pre rs = pre ++ rs := by
    intro rs; induction rs with
    | nil => intro pre; simp [vp, vpOk]
    | cons r rs ih =>
      intro pre; simp only [vp, vpOk]
      by_cases hg : goodAt pre r = true
      · simp only [hg, if_true]; rw [ih]; simp [List.append_assoc]
      · simp only [hg]; simp
  simpa using this s.rules []
end Gene.Comp
