/-! abstract theory (index-based; instantiated by Gene/Props/C01.lean): dfs_dep_search (engine.rs:304-327) post-order invariant -/
namespace Gene.Dfs

/-- engine abstracted to: for each rule index, its list of dependency indexes (hash order = list order) -/
abbrev Eng := List (List Nat)

def deps (e : Eng) (i : Nat) : List Nat := e.getD i []

/-- dependencies point strictly backwards (what Compiler::compile guarantees) -/
def WF (e : Eng) : Prop := ∀ i d, d ∈ deps e i → d < i

structure St where
  dfs : List Nat
  mark : List Nat

/-- transcription of rule_dep_search_rec with fuel -/
def rec (e : Eng) : Nat → Nat → St → St
  | 0, _, st => st
  | f+1, idx, st =>
    (deps e idx).foldl (fun st dep =>
      -- a dependency already listed is not walked again (its own dependencies are listed before it)
      if dep ∈ st.mark then st else
      let st' := rec e f dep st
      if dep ∈ st'.mark then st' else { dfs := st'.dfs ++ [dep], mark := dep :: st'.mark }) st

/-- every element's direct deps occur earlier in the list -/
def Closed (e : Eng) (l : List Nat) : Prop :=
  ∀ pre x post, l = pre ++ x :: post → ∀ y, y ∈ deps e x → y ∈ pre

def MarkInv (st : St) : Prop := ∀ x, x ∈ st.mark ↔ x ∈ st.dfs

theorem closed_append {e : Eng} {l : List Nat} {x : Nat}
    (hc : Closed e l) (hx : ∀ y, y ∈ deps e x → y ∈ l) : Closed e (l ++ [x]) := by
  intro pre z post h y hy
  rcases List.eq_nil_or_concat post with rfl | ⟨post', w, rfl⟩
  · -- z is the last element
    have h' : l ++ [x] = pre ++ [z] := h
    have := List.append_inj' h' rfl
    obtain ⟨rfl, hz⟩ := this
    simp at hz; subst hz
    exact hx y hy
  · have h' : l ++ [x] = (pre ++ z :: post') ++ [w] := by simpa [List.append_assoc] using h
    have := List.append_inj' h' rfl
    obtain ⟨hl, _⟩ := this
    exact hc pre z post' hl y hy

/-- postcondition of one call -/
structure Post (e : Eng) (idx : Nat) (st st' : St) : Prop where
  closed : Closed e st'.dfs
  mark : MarkInv st'
  ext : ∃ t, st'.dfs = st.dfs ++ t
  direct : ∀ d, d ∈ deps e idx → d ∈ st'.dfs

theorem rec_post (e : Eng) (hwf : WF e) :
    ∀ (f idx : Nat) (st : St), idx < f → Closed e st.dfs → MarkInv st → Post e idx st (rec e f idx st) := by
  intro f
  induction f with
  | zero => intro idx st h; omega
  | succ f ih =>
    intro idx st hlt hc hm
    unfold rec
    -- generalise the fold over a suffix of deps
    have key : ∀ (ds : List Nat) (s : St), (∀ d, d ∈ ds → d < idx) → Closed e s.dfs → MarkInv s →
        (∃ t, s.dfs = st.dfs ++ t) →
        let s' := ds.foldl (fun st dep =>
          if dep ∈ st.mark then st else
          let st' := rec e f dep st
          if dep ∈ st'.mark then st' else { dfs := st'.dfs ++ [dep], mark := dep :: st'.mark }) s
        Closed e s'.dfs ∧ MarkInv s' ∧ (∃ t, s'.dfs = st.dfs ++ t) ∧ (∀ d, d ∈ ds → d ∈ s'.dfs) ∧ (∀ x, x ∈ s.dfs → x ∈ s'.dfs) := by
      intro ds
      induction ds with
      | nil => intro s _ hc hm hext; exact ⟨hc, hm, hext, by simp, fun x h => h⟩
      | cons d ds ihd =>
        intro s hd hc hm hext
        simp only [List.foldl_cons]
        by_cases hpre : d ∈ s.mark
        · simp only [hpre, if_true]
          have r := ihd s (fun x hx => hd x (by simp [hx])) hc hm hext
          obtain ⟨r1, r2, r3, r4, r5⟩ := r
          refine ⟨r1, r2, r3, ?_, r5⟩
          intro x hx
          rcases List.mem_cons.mp hx with rfl | hx
          · exact r5 _ ((hm _).mp hpre)
          · exact r4 x hx
        simp only [hpre, if_false]
        have hdl : d < f := by have := hd d (by simp); omega
        have p := ih d s hdl hc hm
        -- state after processing d
        generalize hs1 : rec e f d s = s1 at p
        by_cases hmem : d ∈ s1.mark
        · simp only [hmem, if_true]
          obtain ⟨t1, ht1⟩ := p.ext
          obtain ⟨t0, ht0⟩ := hext
          have r := ihd s1 (fun x hx => hd x (by simp [hx])) p.closed p.mark ⟨t0 ++ t1, by rw [ht1, ht0, List.append_assoc]⟩
          obtain ⟨r1, r2, r3, r4, r5⟩ := r
          refine ⟨r1, r2, r3, ?_, ?_⟩
          · intro x hx
            rcases List.mem_cons.mp hx with rfl | hx
            · exact r5 _ ((p.mark _).mp hmem)
            · exact r4 x hx
          · intro x hx; exact r5 x (by rw [ht1]; simp [hx])
        · simp only [hmem, if_false]
          obtain ⟨t1, ht1⟩ := p.ext
          obtain ⟨t0, ht0⟩ := hext
          let s2 : St := { dfs := s1.dfs ++ [d], mark := d :: s1.mark }
          have hc2 : Closed e s2.dfs := closed_append p.closed p.direct
          have hm2 : MarkInv s2 := by
            intro x; simp [s2, (p.mark x)]; constructor <;> (intro h; rcases h with h | h <;> simp [h])
          have r := ihd s2 (fun x hx => hd x (by simp [hx])) hc2 hm2
            ⟨t0 ++ t1 ++ [d], by simp [s2, ht1, ht0, List.append_assoc]⟩
          obtain ⟨r1, r2, r3, r4, r5⟩ := r
          refine ⟨r1, r2, r3, ?_, ?_⟩
          · intro x hx
            rcases List.mem_cons.mp hx with rfl | hx
            · exact r5 _ (by simp [s2])
            · exact r4 x hx
          · intro x hx; exact r5 x (by simp [s2, ht1, hx])
    have := key (deps e idx) st (fun d hd => hwf idx d hd) hc hm ⟨[], by simp⟩
    obtain ⟨k1, k2, k3, k4, _⟩ := this
    exact ⟨k1, k2, k3, k4⟩

/-- top level: dfs_dep_search -/
def dfsDepSearch (e : Eng) (idx : Nat) : List Nat := (rec e (idx + 1) idx ⟨[], []⟩).dfs

theorem dfs_closed (e : Eng) (hwf : WF e) (idx : Nat) :
    Closed e (dfsDepSearch e idx) ∧ ∀ d, d ∈ deps e idx → d ∈ dfsDepSearch e idx := by
  have p := rec_post e hwf (idx + 1) idx ⟨[], []⟩ (by omega)
    (by intro pre x post h; cases pre <;> simp at h) (by intro x; simp)
  exact ⟨p.closed, p.direct⟩

/-! ### the DFS list is exactly the set of transitive dependencies -/

/-- `Reach e i y`: `y` is a transitive dependency of `i` -/
inductive Reach (e : Eng) : Nat → Nat → Prop
  | direct {i d : Nat} : d ∈ deps e i → Reach e i d
  | step {i z d : Nat} : Reach e i z → d ∈ deps e z → Reach e i d

theorem reach_head {e : Eng} {i d y : Nat} (hd : d ∈ deps e i) (h : Reach e d y) : Reach e i y := by
  induction h with
  | direct h' => exact Reach.step (Reach.direct hd) h'
  | step _ h' ih => exact Reach.step ih h'

/-- soundness of one call: what it adds to the list is reachable from `idx` -/
theorem rec_sound (e : Eng) : ∀ (f idx : Nat) (st : St) (y : Nat), y ∈ (rec e f idx st).dfs → y ∈ st.dfs ∨ Reach e idx y := by
  intro f
  induction f with
  | zero => intro idx st y h; exact Or.inl h
  | succ f ih =>
    intro idx st y h
    unfold rec at h
    have key : ∀ (ds : List Nat) (s : St), (∀ d, d ∈ ds → d ∈ deps e idx) →
        ∀ y, y ∈ (ds.foldl (fun st dep =>
          if dep ∈ st.mark then st else
          let st' := rec e f dep st
          if dep ∈ st'.mark then st' else { dfs := st'.dfs ++ [dep], mark := dep :: st'.mark }) s).dfs →
        y ∈ s.dfs ∨ Reach e idx y := by
      intro ds
      induction ds with
      | nil => intro s _ y h; exact Or.inl h
      | cons d ds ihd =>
        intro s hd y hy
        simp only [List.foldl_cons] at hy
        have hdi : d ∈ deps e idx := hd d (by simp)
        have hrest := ihd _ (fun z hz => hd z (by simp [hz])) y hy
        rcases hrest with h1 | h1
        · by_cases hpre : d ∈ s.mark
          · simp only [hpre, if_true] at h1; exact Or.inl h1
          simp only [hpre, if_false] at h1
          -- y is in the state after processing d
          have hin : y ∈ (rec e f d s).dfs ∨ y = d := by
            by_cases hm : d ∈ (rec e f d s).mark
            · simp only [hm, if_true] at h1; exact Or.inl h1
            · simp only [hm, if_false, List.mem_append, List.mem_singleton] at h1; exact h1
          rcases hin with h2 | rfl
          · rcases ih d s y h2 with h3 | h3
            · exact Or.inl h3
            · exact Or.inr (reach_head hdi h3)
          · exact Or.inr (Reach.direct hdi)
        · exact Or.inr h1
    exact key (deps e idx) st (fun d h => h) y h

theorem mem_dfs_iff (e : Eng) (hwf : WF e) (idx y : Nat) : y ∈ dfsDepSearch e idx ↔ Reach e idx y := by
  constructor
  · intro h
    rcases rec_sound e (idx + 1) idx ⟨[], []⟩ y h with h' | h'
    · cases h'
    · exact h'
  · intro h
    obtain ⟨hc, hd⟩ := dfs_closed e hwf idx
    induction h with
    | direct h' => exact hd _ h'
    | step _ h' ih =>
      obtain ⟨pre, post, hsplit⟩ := List.append_of_mem ih
      have := hc pre _ post hsplit _ h'
      rw [hsplit]; simp [this]

-- non-vacuity: a diamond  0 ; 1→0 ; 2→0 ; 3→{2,1}
example : dfsDepSearch [[], [0], [0], [2, 1]] 3 = [0, 2, 1] := by decide
example : WF [[], [0], [0], [2, 1]] := by
  intro i d h
  match i, h with
  | 1, h => simp [deps] at h; omega
  | 2, h => simp [deps] at h; omega
  | 3, h => simp [deps] at h; omega
  | 0, h => simp [deps] at h
  | n+4, h => simp [deps] at h
end Gene.Dfs