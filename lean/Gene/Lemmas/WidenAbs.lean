/-! abstract bit-field theory for C19: `f32 as f64` (values.rs:134-139) is exact. Bit-level model of the widening
    and of both formats' values (finite values as scaled naturals + sign) -/
namespace Gene.Widen

inductive V | nan | inf (neg : Bool) | fin (neg : Bool) (mag : Nat)   -- magnitude in units of 2⁻¹⁰⁷⁴
  deriving DecidableEq, Repr

/-- fields of a binary64 pattern and its value -/
def val64 (s : Bool) (e f : Nat) : V :=
  if e = 2047 then (if f = 0 then .inf s else .nan)
  else .fin s (if e = 0 then f else (2 ^ 52 + f) * 2 ^ (e - 1))

/-- fields of a binary32 pattern and its value, rescaled from units of 2⁻¹⁴⁹ to units of 2⁻¹⁰⁷⁴ -/
def val32 (s : Bool) (e m : Nat) : V :=
  if e = 255 then (if m = 0 then .inf s else .nan)
  else .fin s ((if e = 0 then m else (2 ^ 23 + m) * 2 ^ (e - 1)) * 2 ^ 925)

/-- the widening on fields (what `fpext`/`cvtss2sd` does): returns (exp64, frac64) -/
def widen (e m : Nat) : Nat × Nat :=
  if e = 255 then (2047, m * 2 ^ 29)
  else if e = 0 then
    (if m = 0 then (0, 0)
     else (m.log2 + 874, m * 2 ^ (52 - m.log2) - 2 ^ 52))     -- normalise the subnormal
  else (e + 896, m * 2 ^ 29)

theorem widen_fields_ok (e m : Nat) (he : e < 256) (hm : m < 2 ^ 23) :
    (widen e m).1 < 2 ^ 11 ∧ (widen e m).2 < 2 ^ 52 := by
  unfold widen
  by_cases h255 : e = 255
  · simp only [h255, if_true]; constructor
    · decide
    · have : (2:Nat) ^ 52 = 2 ^ 23 * 2 ^ 29 := by decide
      rw [this]; exact Nat.mul_lt_mul_of_lt_of_le hm (Nat.le_refl _) (Nat.two_pow_pos _)
  · simp only [h255, if_false]
    by_cases h0 : e = 0
    · simp only [h0, if_true]
      by_cases hm0 : m = 0
      · simp [hm0]
      · simp only [hm0, if_false]
        have hl : m.log2 < 23 := (Nat.log2_lt hm0).mpr hm
        have hlt : m < 2 ^ (m.log2 + 1) := Nat.lt_log2_self
        constructor
        · have : (2:Nat)^11 = 2048 := by decide
          omega
        · have hp : 2 ^ (m.log2 + 1) * 2 ^ (52 - m.log2) = 2 ^ 53 := by
            rw [← Nat.pow_add]; congr 1; omega
          have : m * 2 ^ (52 - m.log2) < 2 ^ 53 := by
            rw [← hp]; exact Nat.mul_lt_mul_of_lt_of_le hlt (Nat.le_refl _) (Nat.two_pow_pos _)
          have e53 : (2:Nat) ^ 53 = 2 ^ 52 + 2 ^ 52 := by decide
          omega
    · simp only [h0, if_false]; constructor
      · have : (2:Nat)^11 = 2048 := by decide
        omega
      · have : (2:Nat) ^ 52 = 2 ^ 23 * 2 ^ 29 := by decide
        rw [this]; exact Nat.mul_lt_mul_of_lt_of_le hm (Nat.le_refl _) (Nat.two_pow_pos _)

/-- C19: every 32-bit float widens to the 64-bit float of exactly the same value -/
theorem widen_exact (s : Bool) (e m : Nat) (he : e < 256) (hm : m < 2 ^ 23) :
    val64 s (widen e m).1 (widen e m).2 = val32 s e m := by
  unfold widen val32 val64
  by_cases h255 : e = 255
  · subst h255
    simp only [if_true]
    by_cases hm0 : m = 0
    · simp [hm0]
    · have : m * 2 ^ 29 ≠ 0 := Nat.mul_ne_zero hm0 (by decide)
      simp [hm0, this]
  · simp only [h255, if_false]
    by_cases h0 : e = 0
    · subst h0
      simp only [if_true]
      by_cases hm0 : m = 0
      · simp [hm0]
      · simp only [hm0, if_false]
        have hl : m.log2 < 23 := (Nat.log2_lt hm0).mpr hm
        have hge : 2 ^ m.log2 ≤ m := Nat.log2_self_le hm0
        have e1 : m.log2 + 874 ≠ 2047 := by omega
        have e2 : m.log2 + 874 ≠ 0 := by omega
        simp only [e1, e2, if_false]
        -- 2^52 ≤ m * 2^(52 - h)
        have hp : 2 ^ m.log2 * 2 ^ (52 - m.log2) = 2 ^ 52 := by
          rw [← Nat.pow_add]; congr 1; omega
        have hle : 2 ^ 52 ≤ m * 2 ^ (52 - m.log2) := by
          rw [← hp]; exact Nat.mul_le_mul_right _ hge
        have hadd : 2 ^ 52 + (m * 2 ^ (52 - m.log2) - 2 ^ 52) = m * 2 ^ (52 - m.log2) := by omega
        rw [hadd]
        have hexp : 52 - m.log2 + (m.log2 + 874 - 1) = 925 := by omega
        have hk : m * 2 ^ (52 - m.log2) * 2 ^ (m.log2 + 874 - 1) = m * 2 ^ 925 := by
          rw [Nat.mul_assoc, ← Nat.pow_add, hexp]
        rw [hk]
    · simp only [h0, if_false]
      have e1 : e + 896 ≠ 2047 := by omega
      have e2 : e + 896 ≠ 0 := by omega
      simp only [e1, e2, if_false]
      have h52 : (2:Nat) ^ 52 = 2 ^ 23 * 2 ^ 29 := by decide
      have hsum : (2:Nat) ^ 52 + m * 2 ^ 29 = (2 ^ 23 + m) * 2 ^ 29 := by rw [Nat.add_mul, ← h52]
      have hexp : 29 + (e + 896 - 1) = e - 1 + 925 := by omega
      have hk : (2 ^ 52 + m * 2 ^ 29) * 2 ^ (e + 896 - 1) = (2 ^ 23 + m) * 2 ^ (e - 1) * 2 ^ 925 := by
        rw [hsum, Nat.mul_assoc, Nat.mul_assoc, ← Nat.pow_add, ← Nat.pow_add, hexp]
      rw [hk]

-- 1.5f32 (e=127, m=2^22) widens to 1.5f64 (e=1023, f=2^51); smallest subnormal 2^-149
example : widen 127 (2 ^ 22) = (1023, 2 ^ 51) := by decide
example : widen 0 1 = (874, 0) := by decide
end Gene.Widen
