import Gene.Compiler
/-! Model of `engine.rs`: `ScanResult::update`, `Engine::{insert_compiled, dfs_dep_search,
    cached_rules, scan}`, `Engine::try_from(Compiler)`. -/
namespace Gene

structure Engine where
  names : List (Str × Nat) := []
  rules : List CompiledRule := []
  rulesCache : List ((Str × Int) × List Nat) := []
  depsCache : List (Nat × List Nat) := []

/-- outcome of a scan: result, last error (name of the rule it is wrapped with, kind), or a panic -/
inductive ScanOut where
  | done (sr : Option ScanResult) (err : Option (Str × EvalErr))
  | panic (site : String)

namespace M

def CompiledRule.isFilter (r : CompiledRule) : Bool := r.rtype == .filter
def CompiledRule.isDetection (r : CompiledRule) : Bool := r.rtype == .detection

/-- `ScanResult::update`; `none` = `u8` overflow in `self.severity + r.severity` -/
def srUpdate (sr : ScanResult) (r : CompiledRule) : Option ScanResult :=
  let sr1? : Option ScanResult :=
    if !CompiledRule.isFilter r then
      if sr.severity + r.severity > 255 then none
      else some { sr with rules := r.name :: sr.rules,
                          tags := if r.tags.isEmpty then sr.tags else r.tags ++ sr.tags,
                          attack := if r.attack.isEmpty then sr.attack else r.attack ++ sr.attack,
                          severity := boundSeverity (sr.severity + r.severity) }
    else some sr
  sr1?.map (fun sr1 =>
    { sr1 with actions := if r.actions.isEmpty then sr1.actions else r.actions ++ sr1.actions,
               filtered := sr1.filtered || CompiledRule.isFilter r })

/-- `rule_dep_search_rec` with fuel (recursion depth ≤ number of rules for a well-founded engine);
    `none` = indexing `eng.rules[rule_idx]` out of bounds -/
def dfsRec (e : Engine) : Nat → Nat → (List Nat × List Nat) → Option (List Nat × List Nat)
  | 0, _, st => some st
  | f+1, idx, st =>
    match e.rules[idx]? with
    | none => none
    | some r =>
      r.depends.foldl (fun st? req =>
        match st? with
        | none => none
        | some st =>
          match e.names.lookup req with
          | none => some st
          | some dep =>
            -- a dependency already listed is not walked again
            if st.2.contains dep then some st else
            match dfsRec e f dep st with
            | none => none
            | some (dfs, mark) =>
              if mark.contains dep then some (dfs, mark) else some (dfs ++ [dep], dep :: mark)) (some st)

def dfsDepSearch (e : Engine) (idx : Nat) : Option (List Nat) :=
  (dfsRec e (e.rules.length + 1) idx ([], [])).map Prod.fst

/-- `Engine::insert_compiled` -/
def Engine.insertCompiled (e : Engine) (r : CompiledRule) : Option Engine :=
  let idx := e.rules.length
  let e1 : Engine := { e with names := (r.name, idx) :: e.names.filter (fun p => p.1 != r.name),
                              rules := e.rules ++ [r] }
  if r.depends.isEmpty then some { e1 with rulesCache := [] }
  else match dfsDepSearch e1 idx with
    | none => none
    | some d => some { e1 with depsCache := (idx, d) :: e1.depsCache.filter (fun p => p.1 != idx), rulesCache := [] }

/-- `Engine::try_from(Compiler)` -/
def Engine.ofCompiler (x : Ext) (c : Compiler) : Except CompErr Engine :=
  match Compiler.compile x c with
  | (_, some e) => .error e
  | (c', none) =>
    match c'.compiled.foldl (fun e? r => e?.bind (fun e => Engine.insertCompiled e r)) (some {}) with
    | some e => .ok e
    | none => .error .panic

/-- `(severity, name)` keys of the `BTreeMap` in `cached_rules`, compared lexicographically -/
def keyLt (a b : Nat × Str) : Bool := a.1 < b.1 || (a.1 == b.1 && a.2 < b.2)

def btInsertCand (k : Nat × Str) (i : Nat) : List ((Nat × Str) × Nat) → List ((Nat × Str) × Nat)
  | [] => [(k, i)]
  | (k', i') :: r =>
    if k == k' then (k, i) :: r
    else if keyLt k k' then (k, i) :: (k', i') :: r
    else (k', i') :: btInsertCand k i r

/-- one rule of the candidate scan: detection and filter rules admitted by their match-on section enter
    the `BTreeMap` under the key `(severity, name)` -/
def candStep (e : Engine) (src : Str) (id : Int) (tmp : List ((Nat × Str) × Nat)) (i : Nat) :
    List ((Nat × Str) × Nat) :=
  match e.rules[i]? with
  | some r =>
    if (CompiledRule.isFilter r || CompiledRule.isDetection r)
        && canMatchOn r.includeEvents r.excludeEvents src id
    then btInsertCand (r.severity, r.name) i tmp else tmp
  | none => tmp

/-- candidates for `(src, id)`: detection and filter rules admitted by match-on, by `(severity,
    name)` descending -/
def candidates (e : Engine) (src : Str) (id : Int) : List Nat :=
  (((List.range e.rules.length).foldl (candStep e src id) []).map Prod.snd).reverse

/-- `Engine::cached_rules` -/
def Engine.cachedRules (e : Engine) (src : Str) (id : Int) : Engine × List Nat :=
  match e.rulesCache.lookup (src, id) with
  | some l => (e, l)
  | none =>
    let l := candidates e src id
    ({ e with rulesCache := ((src, id), l) :: e.rulesCache }, l)

def ruleEval (x : Ext) (ev : Event) (states : List (Str × Bool)) (r : CompiledRule) : Except EvalErr Bool :=
  evalExpr x ev states r.ops r.cond

structure ScanAcc where
  states : List (Str × Bool) := []
  sr : Option ScanResult := none
  lastErr : Option (Str × EvalErr) := none

/-- dependency loop of `scan` for one candidate -/
def depLoop (x : Ext) (ev : Event) (e : Engine) : List Nat → ScanAcc → ScanAcc
  | [], a => a
  | ri :: rest, a =>
    match e.rules[ri]? with
    | none => depLoop x ev e rest a
    | some r =>
      if (a.states.lookup r.name).isSome then depLoop x ev e rest a
      else match ruleEval x ev a.states r with
        | .ok ok => depLoop x ev e rest { a with states := (r.name, ok) :: a.states }
        | .error err => depLoop x ev e rest { a with lastErr := some (r.name, err) }

/-- the dependencies of candidate `i` are matched first, through the dependency cache -/
def depPhase (x : Ext) (ev : Event) (e : Engine) (a : ScanAcc) (i : Nat) (r : CompiledRule) : ScanAcc :=
  if r.depends.isEmpty then a
  else match e.depsCache.lookup i with
    | some deps => depLoop x ev e deps a
    | none => a      -- `debug_assert!` fails in debug builds only; release skips the dependencies

/-- the candidate's own verdict: from the memo if a dependency loop already computed it -/
def verdictPhase (x : Ext) (ev : Event) (a1 : ScanAcc) (r : CompiledRule) : Bool × ScanAcc :=
  match a1.states.lookup r.name with
  | some ok => (ok, a1)
  | none =>
    match ruleEval x ev a1.states r with
    | .ok ok => (ok, a1)
    | .error err => (false, { a1 with lastErr := some (r.name, err) })

/-- one iteration of the candidate loop; an error string = panic -/
def scanStep (x : Ext) (ev : Event) (e : Engine) (a : ScanAcc) (i : Nat) : Except String ScanAcc :=
  match e.rules[i]? with
  | none => .error "engine.rs: self.rules.get(i).unwrap()"
  | some r =>
    let a1 := depPhase x ev e a i r
    let v := verdictPhase x ev a1 r
    if v.1 then
      match srUpdate (v.2.sr.getD {}) r with
      | some sr => .ok { v.2 with sr := some sr }
      | none => .error "engine.rs: self.severity + r.severity overflows u8"
    else .ok v.2

def scanLoop (x : Ext) (ev : Event) (e : Engine) : List Nat → ScanAcc → Except String ScanAcc
  | [], a => .ok a
  | i :: rest, a =>
    match scanStep x ev e a i with
    | .error s => .error s
    | .ok a' => scanLoop x ev e rest a'

/-- `Engine::scan` -/
def Engine.scan (x : Ext) (e : Engine) (ev : Event) : Engine × ScanOut :=
  let (e', cands) := Engine.cachedRules e ev.source ev.id
  match scanLoop x ev e' cands {} with
  | .error s => (e', .panic s)
  | .ok a => (e', .done a.sr a.lastErr)

end M
end Gene
