import Gene.Num
/-! Model of `f64::from_str` on the texts `Number::parse` hands to it (decimal notation with a `.`; an optional
    sign, an optional exponent): the text denotes the rational `m · 10^e`, the result is the binary64 value nearest
    to it, ties to the even significand, overflow to infinity (IEEE 754 round-to-nearest-even, which is what the
    Rust standard library documents and implements). Values are in units of `2⁻¹⁰⁷⁴` as everywhere (`FVal.fin k`).
    This replaces the table of `f64::from_str` results as the meaning of number texts; the table (computed by the
    real `f64::from_str` in the harness) is still shipped with every case and compared entry by entry. -/
namespace Gene.M

/-- nearest integer to `p / q` (`q > 0`), ties to even -/
def roundHE (p q : Nat) : Nat :=
  let d := p / q
  let r := p % q
  if 2 * r < q then d else if q < 2 * r then d + 1 else if d % 2 = 0 then d else d + 1

/-- the binade scale of `p / q`: the least `s` with `⌊p / (q · 2^s)⌋ < 2^53` -/
def scaleOf (p q : Nat) : Nat := (p / q).log2 + 1 - 53

/-- the largest finite binary64 is `(2^53 - 1) · 2^2045` units; one scale step more is infinity -/
def maxScale : Nat := 2045

/-- the binary64 value (units of `2⁻¹⁰⁷⁴`) nearest to `p / q` units, or `none` for overflow -/
def nearestK (p q : Nat) : Option Nat :=
  let s := scaleOf p q
  let c := roundHE p (q * 2 ^ s)
  -- rounding up to 2^53 moves to the next binade: `2^53 · 2^s = 2^52 · 2^(s+1)`
  if s > maxScale ∨ (s = maxScale ∧ c = 2 ^ 53) then none else some (c * 2 ^ s)

def digitsVal : Str → Nat → Nat
  | [], acc => acc
  | c :: s, acc => digitsVal s (acc * 10 + (c.toNat - 48))

structure Dec where
  neg : Bool
  m : Nat          -- all mantissa digits, as one number
  e : Int          -- decimal exponent: the value is `m · 10^e`
  nd : Nat         -- number of mantissa digits
  deriving Repr, DecidableEq

def decSign : Str → Bool × Str
  | '-' :: r => (true, r)
  | '+' :: r => (false, r)
  | s => (false, s)

/-- `. digits?` or nothing -/
def fracPart : Str → Str × Str
  | '.' :: r => spanP isAsciiDigit r
  | s => ([], s)

/-- nothing, or `[eE] [+-]? digits` up to the end of the text -/
def expPart : Str → Option Int
  | [] => some 0
  | c :: r =>
    if c = 'e' ∨ c = 'E' then
      let sg := decSign r
      let ed := spanP isAsciiDigit sg.2
      if ed.1.isEmpty || !ed.2.isEmpty then none
      else
        -- an exponent beyond ±10^8 is as good as infinite for any mantissa that fits in memory
        let ev := if ed.1.length > 8 then 100000000 else digitsVal ed.1 0
        some (if sg.1 then -(ev : Int) else ev)
    else none

/-- the decimal grammar of `f64::from_str`: `[+-]? (digits? (. digits?)?) ([eE] [+-]? digits)?` with at least one
    mantissa digit; nothing before or after -/
def decParse (s : Str) : Option Dec :=
  let sg := decSign s
  let ipr := spanP isAsciiDigit sg.2
  let fr := fracPart ipr.2
  let ds := ipr.1 ++ fr.1
  if ds.isEmpty then none
  else match expPart fr.2 with
    | none => none
    | some ex => some { neg := sg.1, m := digitsVal ds 0, e := ex - fr.1.length, nd := ds.length }

/-- the value of a decimal as a binary64 -/
def decToF (d : Dec) : FVal :=
  if d.m = 0 then .fin 0
  -- beyond these bounds the answer no longer depends on the digits (see `F64Parse` theorems)
  else if d.e > 310 then (if d.neg then .ninf else .pinf)
  else if d.e + d.nd < -330 then .fin 0
  else
    let (p, q) := if d.e ≥ 0 then (d.m * 10 ^ d.e.toNat * 2 ^ 1074, 1) else (d.m * 2 ^ 1074, 10 ^ (-d.e).toNat)
    match nearestK p q with
    | none => if d.neg then .ninf else .pinf
    | some k => .fin (if d.neg then -(k : Int) else k)

/-- `f64::from_str` on decimal texts -/
def parseF64 (s : Str) : Option FVal := (decParse s).map decToF

end Gene.M
