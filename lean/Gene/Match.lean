import Gene.Value
import Gene.Path
/-! Model of `rules/matcher.rs` and of the match grammar `match.pest`.

    Parsing works on characters with pest's semantics: rules written `{…}` are non-atomic, so an
    implicit `WHITESPACE*` (spaces only) is skipped between the elements of a sequence; `@{…}` and
    `${…}` rules are atomic; choice is ordered; repetition is greedy without backtracking. -/
namespace Gene

inductive MOp where
  | eq | lt | lte | gt | gte | rex | flag
  deriving DecidableEq, Repr

inductive MatchValue where
  | str (s : Str)
  | num (n : Num)
  | strOrNum (s : Str) (n : Num)
  | regex (pat : Str)
  | bool (b : Bool)
  | some
  | none
  deriving DecidableEq, Repr

inductive Match where
  | direct (path : M.XPath) (op : MOp) (v : MatchValue)
  | indirect (path other : M.XPath)
  | rule (name : Str)
  deriving DecidableEq, Repr

/-- evaluation errors (`matcher::Error` run-time variants + `condition::Error::UnknowOperand`) -/
inductive EvalErr where
  | ruleNotFound | fieldNotFound | incompatible | unknownOperand
  deriving DecidableEq, Repr

/-- external functions the model is parametric in -/
structure Ext where
  /-- `f64::from_str` -/
  fparse : Str → Option FVal
  /-- `Regex::new(p).is_ok()` -/
  rxOk : Str → Bool
  /-- `Regex::new(p).unwrap().is_match(h)`: unanchored search -/
  rxMatch : Str → Str → Bool

namespace M

/-! ### lexical pieces -/
def skipWs : Str → Str
  | ' ' :: r => skipWs r
  | s => s

def optQuote : Str → Str
  | '"' :: r => r
  | s => s

/-- `op = _{ eq | lte | lt | gte | gt | rex | flag }`, ordered choice -/
def opTok : Str → Option (MOp × Str)
  | '=' :: '=' :: r => some (.eq, r)
  | 'i' :: 's' :: r => some (.eq, r)
  | '<' :: '=' :: r => some (.lte, r)
  | '<' :: r => some (.lt, r)
  | '>' :: '=' :: r => some (.gte, r)
  | '>' :: r => some (.gt, r)
  | '~' :: '=' :: r => some (.rex, r)
  | '&' :: '=' :: r => some (.flag, r)
  | _ => none

/-- `eq = { "==" | "is" }` alone (indirect matches) -/
def eqTok : Str → Option Str
  | '=' :: '=' :: r => some r
  | 'i' :: 's' :: r => some r
  | _ => none

/-- `value = @{ value_dq | value_sq | "none" | "some" | "true" | "false" }`: the token text (quotes
    included) and the rest. No escapes: a quoted value ends at the next quote of its kind. -/
def valueTok : Str → Option (Str × Str)
  | '"' :: r =>
    match spanP (fun c => c != '"') r with
    | (body, '"' :: r') => some ('"' :: (body ++ ['"']), r')
    | _ => none
  | '\'' :: r =>
    match spanP (fun c => c != '\'') r with
    | (body, '\'' :: r') => some ('\'' :: (body ++ ['\'']), r')
    | _ => none
  | s =>
    match stripPrefix s "none".toList with
    | some r => some ("none".toList, r)
    | none =>
    match stripPrefix s "some".toList with
    | some r => some ("some".toList, r)
    | none =>
    match stripPrefix s "true".toList with
    | some r => some ("true".toList, r)
    | none =>
    match stripPrefix s "false".toList with
    | some r => some ("false".toList, r)
    | none => none

def isRuleNameChar (c : Char) : Bool := isAsciiAlnum c || c == '.' || c == '_' || c == '-'

/-! ### the three alternatives of `matcher` -/

/-- `direct_match = { SOI ~ "\""? ~ field_path ~ "\""? ~ op ~ value ~ EOI }` -/
def parseDirect (s : Str) : Option (List Seg × MOp × Str) :=
  let s := skipWs (optQuote (skipWs s))
  match fieldPath s with
  | none => none
  | some (gs, r) =>
    let r := skipWs (optQuote (skipWs r))
    match opTok r with
    | none => none
    | some (op, r) =>
      match valueTok (skipWs r) with
      | none => none
      | some (tok, r) => if skipWs r == [] then some (gs, op, tok) else none

/-- `indirect_match = { SOI ~ field_path ~ eq ~ indirect_field_path ~ EOI }`,
    `indirect_field_path = @{ "@" ~ field_path }` -/
def parseIndirect (s : Str) : Option (List Seg × List Seg) :=
  match fieldPath (skipWs s) with
  | none => none
  | some (gs, r) =>
    match eqTok (skipWs r) with
    | none => none
    | some r =>
      match skipWs r with
      | '@' :: r =>
        match fieldPath r with
        | none => none
        | some (hs, r) => if skipWs r == [] then some (gs, hs) else none
      | _ => none

/-- `rule_match = { SOI ~ "rule(" ~ rule_name ~ ")" ~ EOI }`, `rule_name = @{ (ASCII_ALPHANUMERIC|"."|"_"|"-")+ }` -/
def parseRuleMatch (s : Str) : Option Str :=
  match stripPrefix (skipWs s) "rule(".toList with
  | none => none
  | some r =>
    match spanP isRuleNameChar (skipWs r) with
    | (a :: n, r) =>
      match skipWs r with
      | ')' :: r => if skipWs r == [] then some (a :: n) else none
      | _ => none
    | _ => none

/-! ### `DirectMatch::from_str`: literal classification -/

def stripSuffixChar (s : Str) (c : Char) : Option Str :=
  match s.reverse with
  | d :: r => if d == c then some r.reverse else none
  | [] => none

/-- the characters strictly between the token's outer quotes (exactly one pair is removed) -/
def sanitize (tok : Str) : Str :=
  match tok with
  | '\'' :: r => match stripSuffixChar r '\'' with
    | some b => b
    | none => tok
  | '"' :: r => match stripSuffixChar r '"' with
    | some b => b
    | none => tok
  | _ => tok

def classify (x : Ext) (op : MOp) (tok : Str) : Option MatchValue :=
  let sv := sanitize tok
  match op with
  | .eq =>
    if tok == "none".toList then some .none
    else if tok == "some".toList then some .some
    else if tok == "true".toList then some (.bool true)
    else if tok == "false".toList then some (.bool false)
    else match numParse x.fparse sv with
      | some n => some (.strOrNum sv n)
      | none => some (.str sv)
  | .rex => if x.rxOk sv then some (.regex sv) else none
  | _ => (numParse x.fparse sv).map MatchValue.num

inductive MatchParse where
  | ok (m : Match)
  | err
  | panic
  deriving DecidableEq, Repr

/-- `Match::from_str` (`MatchParser::parse_input`): ordered choice direct | indirect | rule.
    The span matched by `field_path` is parsed again by `XPath::from_str`: with `.unwrap()` in
    `DirectMatch::from_str` (a panic site), with `?` in `IndirectMatch::from_str`. -/
def parseMatch (x : Ext) (s : Str) : MatchParse :=
  match parseDirect s with
  | some (gs, op, tok) =>
    match XPath.parse (gs.flatMap Seg.render) with
    | none => .panic
    | some p =>
      match classify x op tok with
      | some v => .ok (.direct p op v)
      | none => .err
  | none =>
    match parseIndirect s with
    | some (gs, hs) =>
      match XPath.parse (gs.flatMap Seg.render), XPath.parse (hs.flatMap Seg.render) with
      | some p, some q => .ok (.indirect p q)
      | _, _ => .err
    | none =>
      match parseRuleMatch s with
      | some n => .ok (.rule n)
      | none => .err

/-! ### evaluation -/

/-- `(v & o) == v` on the bit patterns of two integers; `none` (incompatible) if one is a float -/
def flagTest (a b : Num) : Option Bool :=
  match asBits a, asBits b with
  | some va, some vb => some ((va &&& vb) == va)
  | _, _ => none

/-- `DirectMatch::match_value`; `none` is `Err(())` (incompatible types) -/
def matchValue (x : Ext) (op : MOp) (v : MatchValue) (tgt : FieldValue) : Option Bool :=
  -- a text field is converted when a number is expected (`compat`)
  let fv? : Option FieldValue :=
    match tgt, v with
    | .str s, .num _ => (numParse x.fparse s).map FieldValue.num
    | t, _ => some t
  match fv? with
  | none => none
  | some fv =>
    match op with
    | .eq =>
      match fv, v with
      | .str s, .str o => some (s == o)
      | _, .none => some (fv == .none)
      | .str s, .strOrNum o _ => some (s == o)
      | .num n, .strOrNum _ o => some (numEq n o)
      | .bool a, .bool b => some (a == b)
      | _, .some => some (fv != .none)
      | _, _ => none
    | .gt => match fv, v with | .num a, .num b => some (numGt a b) | _, _ => none
    | .gte => match fv, v with | .num a, .num b => some (numGe a b) | _, _ => none
    | .lt => match fv, v with | .num a, .num b => some (numLt a b) | _, _ => none
    | .lte => match fv, v with | .num a, .num b => some (numLe a b) | _, _ => none
    | .flag =>
      match v, fv with
      | .num a, .num b => flagTest a b
      | _, _ => none
    | .rex =>
      match v, fv with
      | .regex p, .str s => some (x.rxMatch p s)
      | _, _ => none

/-- `Match::match_event` -/
def matchEvent (x : Ext) (ev : Event) (states : List (Str × Bool)) : Match → Except EvalErr Bool
  | .direct p op v =>
    match ev.get p.segments with
    | none => .error .fieldNotFound
    | some fv =>
      match matchValue x op v fv with
      | some b => .ok b
      | none => .error .incompatible
  | .indirect p q =>
    match ev.get p.segments with
    | none => .error .fieldNotFound
    | some a =>
      match ev.get q.segments with
      | none => .error .fieldNotFound
      | some b => .ok (fvEq a b)
  | .rule n =>
    match states.lookup n with
    | some b => .ok b
    | none => .error .ruleNotFound

end M
end Gene
