import Gene.Text
import Gene.Outcome
import Gene.Admit
import Gene.Spec.Admit
import Gene.Props.C05
