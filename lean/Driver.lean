import Lean.Data.Json
import Gene.Engine
import Gene.Conv
import Gene.Yaml
import Gene.Getter
import Gene.Spec.Admit
import Gene.Spec.Scan
import Gene.RelCheck
import Gene.ScanResultApi
import Gene.F64Parse
import Gene.NumApi
/-! Line-protocol driver: one JSON object per input line, one JSON answer per line.
    Runs the model's executable definitions (the very ones the theorems are about) and the spec's. -/
open Lean Gene

abbrev E := Except String

def jStr (j : Json) (k : String) : E Str := do
  let s ← j.getObjValAs? String k
  pure s.toList

def jInt (j : Json) : E Int := do
  match j with
  | .num n => if n.exponent == 0 then pure n.mantissa else throw "non-integer number"
  | .str s => match s.toInt? with
    | some i => pure i
    | none => throw "bad int string"
  | _ => throw "int expected"

def jNat (j : Json) : E Nat := do
  let i ← jInt j
  if i < 0 then throw "nat expected" else pure i.toNat

def jOpt (j : Json) (k : String) : Option Json :=
  match j.getObjVal? k with
  | .ok .null => none
  | .ok v => some v
  | .error _ => none

def jStrList (j : Json) : E (List Str) := do
  let a ← j.getArr?
  a.toList.mapM (fun e => do let s ← e.getStr?; pure s.toList)

def sJ (s : Str) : Json := Json.str (String.ofList s)

def hexNat (s : String) : Option Nat :=
  s.toList.foldl (fun acc c => acc.bind (fun a => (M.hexVal c).map (fun d => a * 16 + d))) (some 0)

/-- "absent" | "noevents" | "nullevents" | [[src,[ids]]...] -/
def jMatchOn (j : Json) : E (Option (Option MatchOnMap)) := do
  match j with
  | .null => pure none
  | .str "absent" => pure none
  | .str _ => pure (some none)
  | .arr a =>
    let l ← a.toList.mapM (fun e => do
      let k ← e.getArrVal? 0
      let ks ← k.getStr?
      let v ← e.getArrVal? 1
      let ids ← v.getArr?
      let ids ← ids.toList.mapM jInt
      pure (ks.toList, ids))
    pure (some (some l))
  | _ => throw "match-on: null, string or array expected"

/-! external tables -/
structure Tables where
  rx : List (Str × Bool × List (Str × Bool)) := []
  fp : List (Str × Option FVal) := []

def jTables (j : Json) : E Tables := do
  let rx ← match jOpt j "rx" with
    | none => pure []
    | some a => do
      let a ← a.getArr?
      a.toList.mapM (fun e => do
        let p ← (← e.getArrVal? 0).getStr?
        let ok ← (← e.getArrVal? 1).getBool?
        let hs ← (← e.getArrVal? 2).getArr?
        let hs ← hs.toList.mapM (fun h => do
          let t ← (← h.getArrVal? 0).getStr?
          let b ← (← h.getArrVal? 1).getBool?
          pure (t.toList, b))
        pure (p.toList, ok, hs))
  let fp ← match jOpt j "fp" with
    | none => pure []
    | some a => do
      let a ← a.getArr?
      a.toList.mapM (fun e => do
        let t ← (← e.getArrVal? 0).getStr?
        let v ← e.getArrVal? 1
        match v with
        | .null => pure (t.toList, none)
        | .str h => match hexNat h with
          | some n => pure (t.toList, some (F64.ofBits n))
          | none => throw "bad float bits"
        | _ => throw "float bits expected")
  pure { rx := rx, fp := fp }

def jValue (j : Json) : E FieldValue := do
  match j with
  | .str "some" => pure .some
  | .str "none" => pure .none
  | _ =>
    match jOpt j "s" with
    | some s => do pure (.str (← s.getStr?).toList)
    | none =>
    match jOpt j "i" with
    | some i => do pure (.num (.int (← jInt i)))
    | none =>
    match jOpt j "u" with
    | some u => do pure (.num (.uint (← jNat u)))
    | none =>
    match jOpt j "f" with
    | some f => do
      let h ← f.getStr?
      match hexNat h with
      | some n => pure (.num (.float (F64.ofBits n)))
      | none => throw "bad float bits"
    | none =>
    match jOpt j "f32" with
    | some f => do
      -- a 32-bit float field: enters the engine through `From<f32>`; its value is the exact widening
      let h ← f.getStr?
      match hexNat h with
      | some n => pure (.num (.float (F64.ofBits (M.widenBits n))))
      | none => throw "bad float bits"
    | none =>
    match jOpt j "b" with
    | some b => do pure (.bool (← b.getBool?))
    | none => throw "bad field value"

def hex16 (n : Nat) : String :=
  let ds := (Nat.toDigits 16 n)
  String.ofList (List.replicate (16 - ds.length) '0' ++ ds)

def valueJson : FieldValue → Json
  | .str s => Json.mkObj [("s", sJ s)]
  | .num (.int v) => Json.mkObj [("i", Json.num v)]
  | .num (.uint v) => Json.mkObj [("u", Json.num (Int.ofNat v))]
  | .num (.float _) => Json.mkObj [("f", Json.null)]
  | .bool b => Json.mkObj [("b", Json.bool b)]
  | .some => Json.str "some"
  | .none => Json.str "none"

def jEventFields (j : Json) : E Event := do
  let source ← jStr j "source"
  let id ← jInt (← j.getObjVal? "id")
  let fields ← match jOpt j "fields" with
    | none => pure []
    | some a => do
      let a ← a.getArr?
      a.toList.mapM (fun f => do
        let segs ← jStrList (← f.getArrVal? 0)
        let v ← jValue (← f.getArrVal? 1)
        pure (segs, v))
  pure (Gene.Props.Refine.eventOfFields source id fields)

/-- are the numbers of the event's fields within their Rust types? (the last hypothesis of `checked_refines_event`) -/
def jEventWf (j : Json) (gv : Json → E GVal) : E (Option Bool) := do
  if let some g := jOpt j "gval" then
    return some (Gene.Props.Refine.gvalWfB (← gv g))
  let fields ← match jOpt j "fields" with
    | none => pure []
    | some a => do
      let a ← a.getArr?
      a.toList.mapM (fun f => do
        let segs ← jStrList (← f.getArrVal? 0)
        let v ← jValue (← f.getArrVal? 1)
        pure (segs, v))
  pure (some (Gene.Props.Refine.fieldsWfB fields))

def jRType (s : String) : E RType :=
  match s with
  | "detection" => pure .detection
  | "filter" => pure .filter
  | "dependency" => pure .dependency
  | _ => throw s!"bad type {s}"

def jRule (j : Json) : E Rule := do
  let name ← jStr j "name"
  let rtype ← match jOpt j "type" with
    | none => pure none
    | some t => do pure (some (← jRType (← t.getStr?)))
  let rmeta ← match jOpt j "meta" with
    | none => pure none
    | some m => do
      let f := fun (k : String) => match jOpt m k with
        | none => pure none
        | some v => do pure (some (← jStrList v))
      pure (some { tags := ← f "tags", attack := ← f "attack", authors := ← f "authors", comments := ← f "comments" : Meta })
  let disable ← match jOpt j "params" with
    | none => pure none
    | some p => match jOpt p "disable" with
      | none => pure (some none)
      | some b => do pure (some (some (← b.getBool?)))
  let matchOn ← match jOpt j "match_on" with
    | none => pure none
    | some mo => jMatchOn mo
  let mats ← match jOpt j "matches" with
    | none => pure none
    | some ms => do
      let a ← ms.getArr?
      let l ← a.toList.mapM (fun e => do
        let k ← (← e.getArrVal? 0).getStr?
        let v ← (← e.getArrVal? 1).getStr?
        pure (k.toList, v.toList))
      pure (some l)
  let condition ← match jOpt j "condition" with
    | none => pure none
    | some c => do pure (some (← c.getStr?).toList)
  let severity ← match jOpt j "severity" with
    | none => pure none
    | some s => do pure (some (← jNat s))
  let actions ← match jOpt j "actions" with
    | none => pure none
    | some a => do pure (some (← jStrList a))
  pure { name := name, rtype := rtype, rmeta := rmeta, disable := disable, matchOn := matchOn, mats := mats,
         condition := condition, severity := severity, actions := actions }

/-! canonical output -/
def sortStrs (l : List Str) : List Str := (l.map String.ofList).toArray.qsort (· < ·) |>.toList |>.eraseDups |>.map String.toList

def asciiLowerStr (s : Str) : Str :=
  s.map (fun c => if 'A'.toNat ≤ c.toNat ∧ c.toNat ≤ 'Z'.toNat then Char.ofNat (c.toNat + 32) else c)

/-- the result seen through its public methods, its derived getter and its serialized form (`Gene.ScanResultApi`) -/
def srQueries (sr : ScanResult) : Json :=
  let g (p : List String) : Json := match sr.get (p.map String.toList) with
    | none => Json.null
    | some v => valueJson v
  Json.mkObj [
    ("det", Json.bool sr.isDetection), ("empty", Json.bool sr.isEmpty), ("only_filter", Json.bool sr.isOnlyFilter),
    ("is_filtered", Json.bool sr.isFiltered),
    ("tags_all", Json.bool (sr.tags.all sr.containsTag)), ("tag_absent", Json.bool (sr.containsTag "\x00nope".toList)),
    ("actions_all", Json.bool (sr.actions.all sr.containsAction)), ("action_absent", Json.bool (sr.containsAction "\x00nope".toList)),
    ("attack_lower_all", Json.bool (sr.attack.all (fun a => sr.containsAttackId (asciiLowerStr a)))),
    ("attack_absent", Json.bool (sr.containsAttackId "t0".toList)),
    ("get", Json.arr #[g [], g ["filtered"], g ["severity"], g ["rules"], g ["tags"], g ["attack"], g ["actions"],
                       g ["filtered", "x"], g ["severity", ""], g ["nope"], g [""]]),
    ("ser_keys", Json.arr (sr.serKeys.map Json.str).toArray),
    ("rt_filtered", match sr.roundTrip with | none => Json.null | some b => Json.bool b.filtered),
    ("rt_same", match sr.roundTrip with | none => Json.null | some _ => Json.bool true), ("clone_eq", Json.bool true)]

def srJson : Option ScanResult → Json
  | none => Json.null
  | some sr => Json.mkObj [
      ("rules", Json.arr ((sortStrs sr.rules).map sJ).toArray),
      ("tags", Json.arr ((sortStrs sr.tags).map sJ).toArray),
      ("attack", Json.arr ((sortStrs sr.attack).map sJ).toArray),
      ("actions", Json.arr ((sortStrs sr.actions).map sJ).toArray),
      ("filtered", Json.bool sr.filtered),
      ("severity", Json.num (Int.ofNat sr.severity)),
      ("q", srQueries sr)]

def rtypeJ : RType → Json
  | .detection => "detection" | .filter => "filter" | .dependency => "dependency"

/-- what the engine holds, through the public getters of `CompiledRule` and `Engine`: per rule, in load order,
    name / type / severity / is_filter / is_detection; `rules_count`, `is_empty` -/
def engineJson (rs : List (Str × RType × Nat)) : Json :=
  Json.mkObj [("count", Json.num (Int.ofNat rs.length)), ("is_empty", Json.bool rs.isEmpty),
    ("rules", Json.arr (rs.map (fun (n, t, s) => Json.arr #[sJ n, rtypeJ t, Json.num (Int.ofNat s),
        Json.bool (t == .filter), Json.bool (t == .detection)])).toArray)]

def errKindJ : EvalErr → Json
  | .ruleNotFound => "RuleNotFound"
  | .fieldNotFound => "FieldNotFound"
  | .incompatible => "IncompatibleTypes"
  | .unknownOperand => "UnknowOperand"

def scanOutJson : ScanOut → Json
  | .panic _ => Json.str "panic"
  | .done sr none => Json.mkObj [("ok", srJson sr)]
  | .done sr (some (n, k)) => Json.mkObj [("err", Json.mkObj [("sr", srJson sr), ("rule", sJ n), ("kind", errKindJ k)])]

def compErrJson : CompErr → Json
  | .duplicateRule n => Json.mkObj [("dup", sJ n)]
  | .unknownDep _ => Json.str "unkdep"
  | .rule => Json.str "rule"
  | .template => Json.str "template"
  | .serde => Json.str "serde"
  | .panic => Json.str "panic"



/-! canonical trees of parsed conditions and matches (same shape as the harness reads from `Debug`) -/
def bopJ : BOp → Json
  | .and => "And"
  | .or => "Or"

def natStrJ (n : Nat) : Json := Json.str (toString n)

partial def exprJson : Expr → Json
  | .var v => Json.mkObj [("var", sJ v)]
  | .allOfThem => "AllOfThem"
  | .anyOfThem => "AnyOfThem"
  | .noneOfThem => "NoneOfThem"
  | .none => "None"
  | .allOfVars p => Json.mkObj [("allv", sJ p)]
  | .anyOfVars p => Json.mkObj [("anyv", sJ p)]
  | .noneOfVars p => Json.mkObj [("nonev", sJ p)]
  | .nOfThem n => Json.mkObj [("n", natStrJ n)]
  | .nOfVars n p => Json.mkObj [("nv", Json.arr #[natStrJ n, sJ p])]
  | .neg e => Json.mkObj [("neg", exprJson e)]
  | .binop l o r => Json.mkObj [("bin", Json.arr #[exprJson l, bopJ o, exprJson r])]

/-- numbers: floats are reported by value class only when the bits are not available -/
def numJson (fbits : Str → Option Nat) (src : Str) : Num → Json
  | .uint v => Json.mkObj [("u", Json.num (Int.ofNat v))]
  | .int v => Json.mkObj [("i", Json.num v)]
  | .float _ => match fbits src with
    | some b => Json.mkObj [("f", Json.str (hex16 b))]
    | none => Json.mkObj [("f", Json.null)]

def pathJson (p : M.XPath) : Json :=
  Json.mkObj [("path", sJ p.path), ("segments", Json.arr (p.segments.map sJ).toArray)]

def mopJ : MOp → Json
  | .eq => "Eq" | .lt => "Lt" | .lte => "Lte" | .gt => "Gt" | .gte => "Gte" | .rex => "Rex" | .flag => "Flag"

def matchJson (fbits : Str → Option Nat) : Match → Json
  | .direct p op v =>
    let vj : Json := match v with
      | .str s => Json.mkObj [("str", sJ s)]
      | .num n => Json.mkObj [("num", numJson fbits [] n)]
      | .strOrNum s n => Json.mkObj [("strnum", Json.arr #[sJ s, numJson fbits s n])]
      | .regex p => Json.mkObj [("regex", sJ p)]
      | .bool b => Json.mkObj [("bool", Json.bool b)]
      | .some => "Some"
      | .none => "None"
    Json.mkObj [("direct", Json.mkObj [("op", mopJ op), ("path", pathJson p), ("value", vj)])]
  | .indirect p q => Json.mkObj [("indirect", Json.arr #[pathJson p, pathJson q])]
  | .rule n => Json.mkObj [("rule", sJ n)]

/-! spec-side decoding: structured operands and formula trees (never DSL text) -/
def jMOp (s : String) : E MOp :=
  match s with
  | "eq" => pure .eq | "lt" => pure .lt | "lte" => pure .lte | "gt" => pure .gt | "gte" => pure .gte
  | "rex" => pure .rex | "flag" => pure .flag
  | _ => throw s!"bad op {s}"

def jLit (j : Json) : E S.Lit :=
  match j with
  | .str "none" => pure .none
  | .str "some" => pure .some
  | .bool b => pure (.bool b)
  | _ => match jOpt j "t" with
    | some t => do pure (.text (← t.getStr?).toList)
    | none => throw "bad literal"

def jOperand (j : Json) : E S.Operand := do
  match jOpt j "test" with
  | some t =>
    let segs ← jStrList (← t.getObjVal? "segs")
    let op ← jMOp (← t.getObjValAs? String "op")
    let lit ← jLit (← t.getObjVal? "lit")
    pure (.test segs op lit)
  | none =>
  match jOpt j "ind" with
  | some a => do
    let x ← jStrList (← a.getArrVal? 0)
    let y ← jStrList (← a.getArrVal? 1)
    pure (.indirect x y)
  | none =>
  match jOpt j "rule" with
  | some r => do pure (.rule (← r.getStr?).toList)
  | none => throw "bad operand"

def jPfx (j : Json) : E (Option Str) :=
  match j with
  | .null => pure none
  | .str s => pure (some s.toList)
  | _ => throw "bad prefix"

partial def jForm (j : Json) : E S.Form := do
  match j with
  | .str "tt" => pure .tt
  | _ =>
  match j.getObjVal? "v" with
  | .ok v => do pure (.opd (← v.getStr?).toList)
  | .error _ =>
  match j.getObjVal? "not" with
  | .ok f => do pure (.not (← jForm f))
  | .error _ =>
  match j.getObjVal? "and" with
  | .ok a => do pure (.and (← jForm (← a.getArrVal? 0)) (← jForm (← a.getArrVal? 1)))
  | .error _ =>
  match j.getObjVal? "or" with
  | .ok a => do pure (.or (← jForm (← a.getArrVal? 0)) (← jForm (← a.getArrVal? 1)))
  | .error _ =>
  match j.getObjVal? "all" with
  | .ok p => do pure (.allOf (← jPfx p))
  | .error _ =>
  match j.getObjVal? "any" with
  | .ok p => do pure (.anyOf (← jPfx p))
  | .error _ =>
  match j.getObjVal? "none" with
  | .ok p => do pure (.noneOf (← jPfx p))
  | .error _ =>
  match j.getObjVal? "n" with
  | .ok a => do pure (.nOf (← jNat (← a.getArrVal? 0)) (← jPfx (← a.getArrVal? 1)))
  | .error _ =>
  match j.getObjVal? "nbig" with
  | .ok a => do
    -- a count written with more digits than a JSON number carries exactly
    let d ← (← a.getArrVal? 0).getStr?
    match d.toNat? with
    -- `usize` saturation: a count beyond 2^64-1 is read as 2^64-1 (either can never be reached by a
    -- rule whose operands fit in memory); the structured formula carries the count the engine works with
    | some n => pure (.nOf (min n 18446744073709551615) (← jPfx (← a.getArrVal? 1)))
    | none => throw "bad count"
  | .error _ => throw "bad formula"

/-- the structured view of a rule: `spec` object + the metadata fields of the document -/
def jSRule (j : Json) : E (Option S.SRule) := do
  match jOpt j "spec" with
  | none => pure none
  | some sp =>
    let r ← jRule j
    let ops ← match jOpt sp "ops" with
      | none => pure []
      | some a => do
        let a ← a.getArr?
        a.toList.mapM (fun e => do
          let k ← (← e.getArrVal? 0).getStr?
          let o ← jOperand (← e.getArrVal? 1)
          pure (k.toList, o))
    let cond ← match jOpt sp "cond" with
      | none => pure S.Form.tt
      | some c => jForm c
    pure (some { name := r.name, rtype := r.rtype.getD .detection, matchOn := r.matchOn.bind id,
                 ops := ops, cond := cond, severity := r.severity.getD 0,
                 tags := (r.rmeta.bind (·.tags)).getD [], attack := (r.rmeta.bind (·.attack)).getD [],
                 actions := r.actions.getD [] })

def specOutJson (o : S.Outcome) : Json :=
  Json.mkObj [("sr", srJson o.result), ("failing", Json.arr ((sortStrs o.failing).map sJ).toArray),
    ("named", Json.arr ((sortStrs o.named).map sJ).toArray)]

/-- structured validity: what must be rejected at load / compile time -/
def specLoad (x : Ext) (rules : List (S.SRule × Bool)) : Option Json :=
  -- duplicates among enabled rules are load errors (first duplicate in order)
  let rec dup : List (S.SRule × Bool) → List Str → Option Str
    | [], _ => none
    | (r, dis) :: rs, seen => if dis then dup rs seen else if seen.contains r.name then some r.name else dup rs (r.name :: seen)
  match dup rules [] with
  | some n => some (Json.mkObj [("load", Json.mkObj [("dup", sJ n)])])
  | none =>
    let en := (rules.filter (fun p => !p.2)).map Prod.fst
    let rec chk : List S.SRule → List Str → Option Json
      | [], _ => none
      | r :: rs, seen =>
        let opsOk := r.ops.all (fun o => startsWith o.1 ['$'] && (match o.2 with
          | .test _ op lit => S.litOk x op lit
          | _ => true))
        let attackOk := r.attack.all M.attackIdOk
        if !(opsOk && attackOk) then some (Json.mkObj [("compile", Json.str "rule")])
        else if (S.directDeps r).any (fun d => !seen.contains d) then some (Json.mkObj [("compile", Json.str "unkdep")])
        else chk rs (r.name :: seen)
    chk en []

def ruleOutJson (r : Rule) : Json :=
  let ms := (r.mats.getD []).map (fun p => (String.ofList p.1, String.ofList p.2))
  let ms := ms.toArray.qsort (fun a b => a.1 < b.1 || (a.1 == b.1 && a.2 < b.2))
  Json.mkObj [("name", sJ r.name),
    ("matches", Json.arr (ms.map (fun p => Json.arr #[Json.str p.1, Json.str p.2]))),
    ("condition", match r.condition with | some c => sJ c | none => Json.null)]

partial def jYaml (j : Json) : E Yaml := do
  match jOpt j "s" with
  | some s => do
    let t ← (← s.getArrVal? 0).getStr?
    let p ← (← s.getArrVal? 1).getBool?
    -- a tag is transparent to typed fields, except that a tagged `~` / `null` / empty scalar is no longer an
    -- absent value: it reads as that text
    let tagged := (jOpt j "tag").isSome
    pure (.scalar t.toList (if tagged && M.nullTexts.contains t.toList then false else p))
  | none =>
  match jOpt j "seq" with
  | some a => do pure (.seq (← (← a.getArr?).toList.mapM jYaml))
  | none =>
  match jOpt j "map" with
  | some a => do
    let kvs ← (← a.getArr?).toList.mapM (fun kv => do
      pure (← jYaml (← kv.getArrVal? 0), ← jYaml (← kv.getArrVal? 1)))
    pure (.map kvs)
  | none => throw "bad yaml tree"

def jAttrMeta (j : Json) : E AttrMeta :=
  match j with
  | .str "skip" => pure .skip
  | .str _ => pure .other
  | _ => match jOpt j "rename" with
    | some r => do pure (.rename (← r.getStr?).toList)
    | none => pure .other

partial def jGVal (j : Json) : E GVal := do
  match j with
  | .str "optNone" => pure .optNone
  | _ =>
  match jOpt j "scalar" with
  | some v => do pure (.scalar (← jValue v))
  | none =>
  match jOpt j "optSome" with
  | some v => do pure (.optSome (← jGVal v))
  | none =>
  match jOpt j "map" with
  | some a => do
    let kvs ← (← a.getArr?).toList.mapM (fun kv => do
      pure ((← (← kv.getArrVal? 0).getStr?).toList, ← jValue (← kv.getArrVal? 1)))
    pure (.map kvs)
  | none =>
  match jOpt j "struct" with
  | some s => do
    let us ← (← s.getObjVal? "us").getBool?
    let fs ← (← (← s.getObjVal? "fields").getArr?).toList.mapM (fun fv => do
      let fd ← fv.getArrVal? 0
      let name ← jStr fd "name"
      let attrs ← (← (← fd.getObjVal? "attrs").getArr?).toList.mapM (fun a => do
        let g ← (← a.getObjVal? "g").getBool?
        let metas ← (← (← a.getObjVal? "metas").getArr?).toList.mapM jAttrMeta
        pure ({ isGetter := g, metas := metas } : FieldAttr))
      let v ← jGVal (← fv.getArrVal? 1)
      pure (({ name := name, attrs := attrs } : FieldDef), v))
    pure (.struct us fs)
  | none => throw "bad getter value"

/-- an event is a field table, or a value of a struct deriving `FieldGetter` (its getter is the model of the macro) -/
def jEvent (j : Json) : E Event := do
  match jOpt j "gval" with
  | some g => do
    let v ← jGVal g
    let source ← jStr j "source"
    let id ← jInt (← j.getObjVal? "id")
    pure (Gene.Props.Refine.eventOfGVal source id v)
  | none => jEventFields j

/-- the binary64 bit pattern of a value (the inverse of `F64.ofBits` up to the sign of zero and the NaN payload) -/
def fvalBits : FVal → String
  | .nan => "nan"
  | .pinf => "7ff0000000000000"
  | .ninf => "fff0000000000000"
  | .fin k =>
    let a := k.natAbs
    let mag := if a < 2^52 then a else
      let e := a.log2 - 52
      (e + 1) * 2^52 + (a / 2^e - 2^52)
    hex16 (mag + (if k < 0 then 2^63 else 0))

def optValueJson : Option FieldValue → Json
  | none => Json.null
  | some (.num (.float x)) => Json.mkObj [("f", Json.str (fvalBits x))]
  | some v => valueJson v

/-- load template documents, then rule documents, build the engine, scan the events in order -/
def runScenario (x : Ext) (tdocs : List Tpls) (rules : List Rule) (events : List Event) : Json :=
  let c0 : Compiler := {}
  let rec loadT : List Tpls → Compiler → Except CompErr Compiler
    | [], c => .ok c
    | t :: ts, c =>
      -- serde_yaml rejects a mapping with a repeated key before the document reaches the compiler
      if (t.map Prod.fst).eraseDups.length != t.length then .error .serde
      else match M.Compiler.loadTemplates c t with
      | .ok c' => loadT ts c'
      | .error e => .error e
  let rec loadR : List Rule → Compiler → Except CompErr Compiler
    | [], c => .ok c
    | r :: rs, c => match M.Compiler.load c r with
      | .ok c' => loadR rs c'
      | .error e => .error e
  match loadT tdocs c0 with
  | .error e => Json.mkObj [("load", compErrJson e)]
  | .ok c1 =>
    match loadR rules c1 with
    | .error e => Json.mkObj [("load", compErrJson e)]
    | .ok c2 =>
      match M.Engine.ofCompiler x c2 with
      | .error e => Json.mkObj [("compile", compErrJson e)]
      | .ok eng =>
        let rec go : List Event → Engine → List Json → List Json
          | [], _, acc => acc.reverse
          | ev :: evs, e, acc =>
            let (e', out) := M.Engine.scan x e ev
            go evs e' (scanOutJson out :: acc)
        Json.mkObj [("scans", Json.arr (go events eng []).toArray),
                    ("engine", engineJson (eng.rules.map (fun r => (r.name, r.rtype, r.severity))))]

def parseScenario (j : Json) : E (Ext × List Tpls × List Json × List Rule × List Event) := do
    let t ← match jOpt j "ext" with
      | none => pure ({} : Tables)
      | some e => jTables e
    let x : Ext :=
      { fparse := M.parseF64
        rxOk := fun p => match t.rx.lookup p with
          | some (ok, _) => ok
          | none => false
        rxMatch := fun p h => match t.rx.lookup p with
          | some (_, hs) => (hs.lookup h).getD false
          | none => false }
    let tdocs ← match jOpt j "templates" with
      | none => pure []
      | some a => do
        let a ← a.getArr?
        a.toList.mapM (fun d => do
          let d ← d.getArr?
          d.toList.mapM (fun e => do
            let k ← (← e.getArrVal? 0).getStr?
            let v ← (← e.getArrVal? 1).getStr?
            pure (k.toList, v.toList)))
    let rulesJ := (← (← j.getObjVal? "rules").getArr?).toList
    let rules ← rulesJ.mapM jRule
    let events ← (← (← j.getObjVal? "events").getArr?).toList.mapM jEvent
    pure (x, tdocs, rulesJ, rules, events)

/-- the rule texts after templating, as `Compiler::rules()` shows them -/
def templatedRules (x : Ext) (tdocs : List Tpls) (rules : List Rule) : Json :=
  let rec loadT : List Tpls → Compiler → Except CompErr Compiler
    | [], c => .ok c
    | t :: ts, c =>
      -- serde_yaml rejects a mapping with a repeated key before the document reaches the compiler
      if (t.map Prod.fst).eraseDups.length != t.length then .error .serde
      else match M.Compiler.loadTemplates c t with
      | .ok c' => loadT ts c'
      | .error e => .error e
  let rec loadR : List Rule → Compiler → Except CompErr Compiler
    | [], c => .ok c
    | r :: rs, c => match M.Compiler.load c r with
      | .ok c' => loadR rs c'
      | .error e => .error e
  match loadT tdocs {} with
  | .error e => Json.mkObj [("load", compErrJson e)]
  | .ok c1 => match loadR rules c1 with
    | .error e => Json.mkObj [("load", compErrJson e)]
    | .ok c2 =>
      let (c3, err) := M.Compiler.compile x c2
      match err with
      | some e => Json.mkObj [("compile", compErrJson e)]
      | none => Json.arr (c3.rules.map ruleOutJson).toArray

/-- the engine the model builds for a scenario (what `runScenario` scans with) -/
def modelEngine (x : Ext) (tdocs : List Tpls) (rules : List Rule) : Option Engine :=
  let rec loadT : List Tpls → Compiler → Option Compiler
    | [], c => some c
    | t :: ts, c =>
      if (t.map Prod.fst).eraseDups.length != t.length then none
      else match M.Compiler.loadTemplates c t with
      | .ok c' => loadT ts c'
      | .error _ => none
  let rec loadR : List Rule → Compiler → Option Compiler
    | [], c => some c
    | r :: rs, c => match M.Compiler.load c r with
      | .ok c' => loadR rs c'
      | .error _ => none
  match loadT tdocs {} with
  | none => none
  | some c1 => match loadR rules c1 with
    | none => none
    | some c2 => match M.Engine.ofCompiler x c2 with
      | .ok eng => some eng
      | .error _ => none

def handle (j : Json) : E Json := do
  let op ← j.getObjValAs? String "op"
  match op with
  | "admits" =>
    let mo ← jMatchOn (← j.getObjVal? "mo")
    let mo := mo.bind id
    let src ← jStr j "src"
    let id ← jInt (← j.getObjVal? "id")
    pure (Json.mkObj [("model", Json.bool (M.admits mo src id)), ("spec", Json.bool (S.admits mo src id))])
  | "tpl_replace" =>
    let tpls ← (← (← j.getObjVal? "tpls").getArr?).toList.mapM (fun e => do
      let k ← (← e.getArrVal? 0).getStr?
      let v ← (← e.getArrVal? 1).getStr?
      pure (k.toList, v.toList))
    let r ← jRule (← j.getObjVal? "rule")
    -- a template document with a duplicate name does not deserialise
    let dup := (tpls.map Prod.fst).eraseDups.length != tpls.length
    let out : Json := if dup then "tplerr" else ruleOutJson (M.applyTemplates tpls r)
    pure (Json.mkObj [("model", Json.mkObj [("outs", Json.arr #[out])])])
  | "history_meta" =>
    -- run on the implementation only (tens of thousands of rules); the model's answer is a theorem, not a computation:
    -- `C12_history_independent` — on any well-formed engine, of any size, each outcome is that of a fresh engine
    pure (Json.mkObj [("model", Json.mkObj [("consistent", Json.bool true)])])
  | "pathbytes" =>
    -- the expected text is the lossy decoding computed by Rust's std (trusted); a path resolves to it as a string
    let ps ← (← j.getObjVal? "paths").getArr?
    let outs ← ps.toList.mapM (fun p => do
      let t ← (← p.getObjVal? "lossy").getStr?
      pure (valueJson (.str t.toList)))
    pure (Json.mkObj [("model", Json.arr outs.toArray)])
  | "tpl_api" =>
    -- calls on one `Templates` value: ["insert", name, text] | ["extend", [[name, text], ...]]; then the rule is templated
    let calls := (← (← j.getObjVal? "calls").getArr?).toList
    let r ← jRule (← j.getObjVal? "rule")
    let pairs (a : Json) : E Tpls := do
      (← a.getArr?).toList.mapM (fun e => do
        let k ← (← e.getArrVal? 0).getStr?
        let v ← (← e.getArrVal? 1).getStr?
        pure (k.toList, v.toList))
    let rec goApi : List Json → Tpls → List Json → E (Tpls × List Json)
      | [], t, acc => pure (t, acc.reverse)
      | c :: cs, t, acc => do
        let kind ← (← c.getArrVal? 0).getStr?
        if kind == "insert" then
          let n ← (← c.getArrVal? 1).getStr?
          let v ← (← c.getArrVal? 2).getStr?
          match M.tplInsert t n.toList v.toList with
          | some t' => goApi cs t' (Json.str "ok" :: acc)
          | none => goApi cs t (Json.str "dup" :: acc)
        else
          let d ← pairs (← c.getArrVal? 1)
          match M.tplExtend t d with
          | some t' => goApi cs t' (Json.str "ok" :: acc)
          | none => goApi cs t (Json.str "dup" :: acc)
    let (t, res) ← goApi calls [] []
    pure (Json.mkObj [("model", Json.mkObj [("calls", Json.arr res.toArray), ("len", Json.num t.length), ("rule", ruleOutJson (M.applyTemplates t r))])])
  | "tpl_load" =>
    let calls ← (← (← j.getObjVal? "calls").getArr?).toList.mapM (fun c => do
      (← c.getArr?).toList.mapM (fun d => do
        (← d.getArr?).toList.mapM (fun e => do
          let k ← (← e.getArrVal? 0).getStr?
          let v ← (← e.getArrVal? 1).getStr?
          pure (k.toList, v.toList))))
    let r ← jRule (← j.getObjVal? "rule")
    let t ← match jOpt j "ext" with
      | none => pure ({} : Tables)
      | some e => jTables e
    let x : Ext :=
      { fparse := M.parseF64
        rxOk := fun p => match t.rx.lookup p with
          | some (ok, _) => ok
          | none => true
        rxMatch := fun _ _ => false }
    -- one call = documents loaded in order; the first failing document ends the call
    let rec loadDocs : List Tpls → Compiler → (Compiler × Json)
      | [], c => (c, "ok")
      | d :: ds, c =>
        if (d.map Prod.fst).eraseDups.length != d.length then (c, "serde")
        else match M.Compiler.loadTemplates c d with
          | .ok c' => loadDocs ds c'
          | .error e => (c, compErrJson e)
    let rec loadCalls : List (List Tpls) → Compiler → List Json → (Compiler × List Json)
      | [], c, acc => (c, acc.reverse)
      | call :: rest, c, acc =>
        let (c', res) := loadDocs call c
        loadCalls rest c' (res :: acc)
    let (c1, loads) := loadCalls calls {} []
    let (c2, rl) : Compiler × Json := match M.Compiler.load c1 r with
      | .ok c => (c, "ok")
      | .error e => (c1, compErrJson e)
    let lateCalls ← match jOpt j "late_calls" with
      | none => pure []
      | some lc => (← lc.getArr?).toList.mapM (fun c => do
        (← c.getArr?).toList.mapM (fun d => do
          (← d.getArr?).toList.mapM (fun e => do
            let k ← (← e.getArrVal? 0).getStr?
            let v ← (← e.getArrVal? 1).getStr?
            pure (k.toList, v.toList))))
    let (c2', late) := loadCalls lateCalls c2 []
    let (c3, err) := M.Compiler.compile x c2'
    let rules : Json := match err with
      | some e => compErrJson e
      | none => Json.arr (c3.rules.map ruleOutJson).toArray
    let fields := [("loads", Json.arr loads.toArray), ("rule_load", rl)] ++
      (if lateCalls.isEmpty then [] else [("late", Json.arr late.toArray)]) ++ [("rules", rules)]
    pure (Json.mkObj [("model", Json.mkObj [("outs", Json.arr #[Json.mkObj fields])])])
  | "history" =>
    let x : Ext := { fparse := M.parseF64, rxOk := fun _ => true, rxMatch := fun _ _ => false }
    let ops := (← (← j.getObjVal? "ops").getArr?).toList
    let errJ := fun (e : CompErr) => Json.mkObj [("err", compErrJson e)]
    let rec go : List Json → Compiler → List Json → E (List Json)
      | [], _, acc => pure acc.reverse
      | op :: rest, c, acc => do
        let k ← op.getObjValAs? String "k"
        match k with
        | "tpl" =>
          match jOpt op "docs" with
          | some ds =>
            -- several documents in one text: loaded one after the other, the first rejected one ends the call
            let docs ← (← ds.getArr?).toList.mapM (fun d => do
              (← d.getArr?).toList.mapM (fun e => do
                let a ← (← e.getArrVal? 0).getStr?
                let b ← (← e.getArrVal? 1).getStr?
                pure (a.toList, b.toList)))
            let rec loadDs : List (List (Str × Str)) → Compiler → Compiler × Json
              | [], c => (c, Json.str "ok")
              | d :: rest, c =>
                if (d.map Prod.fst).eraseDups.length != d.length then (c, errJ .serde)
                else match M.Compiler.loadTemplates c d with
                  | .ok c' => loadDs rest c'
                  | .error e => (c, errJ e)
            let (c', o) := loadDs docs c
            go rest c' (o :: acc)
          | none =>
          let d ← (← (← op.getObjVal? "doc").getArr?).toList.mapM (fun e => do
            let a ← (← e.getArrVal? 0).getStr?
            let b ← (← e.getArrVal? 1).getStr?
            pure (a.toList, b.toList))
          if (d.map Prod.fst).eraseDups.length != d.length then go rest c (errJ .serde :: acc)
          else match M.Compiler.loadTemplates c d with
            | .ok c' => go rest c' (Json.str "ok" :: acc)
            | .error e => go rest c (errJ e :: acc)
        | "load" =>
          let docs := (← (← op.getObjVal? "docs").getArr?).toList
          -- documents in order; the first failing one ends the call, earlier ones stay loaded
          let rec loadDocs : List Json → Compiler → E (Compiler × Json)
            | [], c => pure (c, Json.str "ok")
            | d :: ds, c => do
              match d with
              | .str _ => pure (c, errJ .serde)
              | _ =>
                let r ← jRule d
                match M.Compiler.load c r with
                | .ok c' => loadDocs ds c'
                | .error e => pure (c, errJ e)
          let (c', o) ← loadDocs docs c
          go rest c' (o :: acc)
        | "compile" =>
          let (c', e) := M.Compiler.compile x c
          go rest c' ((match e with | none => Json.str "ok" | some e => errJ e) :: acc)
        | "rules" =>
          let (c', e) := if M.Compiler.isReady c then (c, none) else M.Compiler.compile x c
          let o := match e with
            | some e => errJ e
            | none => Json.mkObj [("rules", Json.arr (c'.rules.map (fun r =>
                let ro := ruleOutJson r
                Json.arr #[sJ r.name, (ro.getObjVal? "matches").toOption.getD Json.null])).toArray)]
          go rest c' (o :: acc)
        | "compiled" =>
          let (c', e) := if M.Compiler.isReady c then (c, none) else M.Compiler.compile x c
          let o := match e with
            | some e => errJ e
            | none => Json.mkObj [("compiled", Json.arr (c'.compiled.map (fun r => sJ r.name)).toArray)]
          go rest c' (o :: acc)
        | "clone" => go rest c (Json.str "ok" :: acc)
        | "engine" =>
          let o := match M.Engine.ofCompiler x c with
            | .error e => errJ e
            | .ok e => Json.mkObj [("engine", Json.num (Int.ofNat e.rules.length)), ("names", Json.arr (e.rules.map (fun r => sJ r.name)).toArray)]
          go rest c (o :: acc)
        | _ => throw "bad history op"
    let outs ← go ops {} []
    pure (Json.mkObj [("model", Json.arr outs.toArray)])
  | "conv" =>
    let kind ← j.getObjValAs? String "kind"
    let vs ← (← (← j.getObjVal? "vs").getArr?).toList.mapM jInt
    let signed := kind.startsWith "i"
    let outs := vs.map (fun v => valueJson (FieldValue.num (if signed then M.fromSigned v else M.fromUnsigned v.toNat)))
    pure (Json.mkObj [("model", Json.arr outs.toArray)])
  | "widen" =>
    let bs ← (← (← j.getObjVal? "bits").getArr?).toList.mapM jNat
    let outs := bs.map (fun b =>
      let w := M.widenBits b
      if F64.ofBits w == FVal.nan then Json.str "nan" else Json.str (hex16 w))
    pure (Json.mkObj [("model", Json.arr outs.toArray)])
  | "roundtrip" =>
    let ns ← (← (← j.getObjVal? "ns").getArr?).toList.mapM jValue
    let outs := ns.map (fun v => match v with
      | .num n => match M.displayInt n with
        | some t => Json.arr #[sJ t, match M.numParse (fun _ => none) t with
            | some p => valueJson (.num p)
            | none => Json.null]
        | none => Json.str "float"
      | _ => Json.str "bad")
    pure (Json.mkObj [("model", Json.arr outs.toArray)])
  | "num_out" =>
    let ns ← (← (← j.getObjVal? "ns").getArr?).toList.mapM jValue
    let outs := ns.map (fun v => match v with
      | .num n => Json.mkObj [
          ("i64", match M.tryI64 n with | some i => Json.num i | none => Json.null),
          ("u64", match M.tryU64 n with | some u => Json.num (Int.ofNat u) | none => Json.null),
          ("f64", match M.tryF64 n with | some x => Json.str (fvalBits x) | none => Json.null),
          ("is", Json.arr #[Json.bool (M.numIsInt n), Json.bool (M.numIsUint n), Json.bool (M.numIsFloat n)])]
      | _ => Json.str "bad")
    pure (Json.mkObj [("model", Json.arr outs.toArray)])
  | "hexparse" =>
    let ts ← jStrList (← j.getObjVal? "ts")
    let outs := ts.map (fun t => match M.numParse (fun _ => none) t with
      | some p => valueJson (.num p)
      | none => Json.null)
    pure (Json.mkObj [("model", Json.arr outs.toArray)])
  | "textconv" =>
    let ss ← jStrList (← j.getObjVal? "ss")
    -- text, `Cow`, `String`, paths: the identity; `Some(x)` is x, `None` is none (checked on the harness side)
    pure (Json.mkObj [("model", Json.arr (ss.map (fun s => valueJson (M.fromOption (some (.str s))))).toArray)])
  | "boolip" =>
    let ips ← jStrList (← j.getObjVal? "ips")
    let outs := [valueJson (.bool true), valueJson (.bool false)] ++ ips.map (fun s => valueJson (.str s))
    pure (Json.mkObj [("model", Json.arr outs.toArray)])
  | "yaml_load" =>
    let t ← match jOpt j "ext" with
      | none => pure ({} : Tables)
      | some e => jTables e
    let x : Ext :=
      { fparse := M.parseF64
        rxOk := fun p => match t.rx.lookup p with
          | some (ok, _) => ok
          | none => false
        rxMatch := fun _ _ => false }
    let y ← jYaml (← j.getObjVal? "doc")
    let r : Json := match M.deRule y with
      | .error _ => Json.mkObj [("load", "serde")]
      | .ok rule =>
        -- serialise / parse back at tree level
        let same : Bool := match M.deRule (M.serRule rule) with
          | .ok r2 => r2 == rule
          | .error _ => false
        if M.Rule.isDisabled rule then
          Json.mkObj [("ok", Json.mkObj [("name", sJ rule.name), ("disabled", true), ("severity", Json.null), ("count", (0 : Nat))]), ("roundtrip", same)]
        else match M.compileInto x rule with
          | .ok cr => Json.mkObj [("ok", Json.mkObj [("name", sJ rule.name), ("disabled", false), ("severity", Json.num (Int.ofNat cr.severity)), ("count", (1 : Nat))]), ("roundtrip", same)]
          | .err => Json.mkObj [("compile", "rule"), ("roundtrip", same)]
          | .panic => Json.str "panic"
    pure (Json.mkObj [("model", r)])
  | "getter" =>
    let v ← jGVal (← j.getObjVal? "value")
    let paths ← (← (← j.getObjVal? "paths").getArr?).toList.mapM jStrList
    pure (Json.mkObj [("model", Json.arr (paths.map (fun p => optValueJson (M.gget v p))).toArray),
                      ("spec", Json.arr (paths.map (fun p => optValueJson (S.resolve v p))).toArray)])
  | "load_text" =>
    -- whole-text inputs go through serde_yaml, which is not modelled: the model's answer is the
    -- statement of C15_load / C15_compile / compileInto_no_panic (no panic outcome is reachable)
    pure (Json.mkObj [("model", Json.str "nopanic")])
  | "parse_cond" =>
    let s ← jStr j "s"
    let r : Json := match M.parseCond s with
      | .ok e => Json.mkObj [("ast", exprJson e)]
      | .err => "err"
      | .panic => "panic"
    pure (Json.mkObj [("model", r)])
  | "parse_match" =>
    let s ← jStr j "s"
    let t ← match jOpt j "ext" with
      | none => pure ({} : Tables)
      | some e => jTables e
    -- raw float bits for the canonical output
    let fbitsTbl ← match (jOpt j "ext").bind (fun e => jOpt e "fp") with
      | none => pure []
      | some a => do
        let a ← a.getArr?
        a.toList.mapM (fun e => do
          let k ← (← e.getArrVal? 0).getStr?
          let v ← e.getArrVal? 1
          match v with
          | .str h => pure (k.toList, hexNat h)
          | _ => pure (k.toList, none))
    let x : Ext :=
      { fparse := M.parseF64
        rxOk := fun p => match t.rx.lookup p with
          | some (ok, _) => ok
          | none => false
        rxMatch := fun _ _ => false }
    -- the single numeric text of a match string is its literal: look it up by value
    let fb : Str → Option Nat := fun src =>
      match src with
      | [] => (fbitsTbl.find? (fun p => p.2.isSome)).bind (·.2)
      | s => (fbitsTbl.lookup s).getD none
    let r : Json := match M.parseMatch x s with
      | .ok m =>
        let fb' : Str → Option Nat := match m with
          | .direct _ _ (.num _) => fun _ => (fbitsTbl.lookup (M.sanitize ((M.parseDirect s).map (·.2.2) |>.getD []))).getD none
          | _ => fb
        Json.mkObj [("ast", matchJson fb' m)]
      | .err => "err"
      | .panic => "panic"
    pure (Json.mkObj [("model", r)])
  | "num_cmp" =>
    let a ← jValue (← j.getObjVal? "a")
    let b ← jValue (← j.getObjVal? "b")
    match a, b with
    | .num a, .num b =>
      let mk := fun (lt le gt ge eq : Bool) => Json.mkObj [("lt", Json.bool lt), ("le", Json.bool le), ("gt", Json.bool gt), ("ge", Json.bool ge), ("eq", Json.bool eq)]
      pure (Json.mkObj [("model", mk (M.numLt a b) (M.numLe a b) (M.numGt a b) (M.numGe a b) (M.numEq a b)),
                        ("spec", mk (S.numLt a b) (S.numLe a b) (S.numGt a b) (S.numGe a b) (S.numEq a b))])
    | _, _ => throw "numbers expected"
  | "xpath" =>
    let s ← jStr j "s"
    let r := match M.XPath.parse s with
      | none => Json.null
      | some p => Json.mkObj [("path", sJ p.path), ("segments", Json.arr (p.segments.map sJ).toArray)]
    pure (Json.mkObj [("model", r)])
  | "xpath_pair" =>
    let a ← jStr j "a"
    let b ← jStr j "b"
    let r := match M.XPath.parse a, M.XPath.parse b with
      | some p, some q => Json.mkObj [("eq", Json.bool (M.XPath.eq p q)), ("hash_ok", Json.bool (!(M.XPath.eq p q) || p.hashKey == q.hashKey))]
      | _, _ => Json.null
    pure (Json.mkObj [("model", r)])
  | "scenario_multi" =>
    let (x, tdocs, _, rules, events) ← parseScenario j
    pure (Json.mkObj [("model", Json.mkObj [("rules", templatedRules x tdocs rules), ("result", runScenario x tdocs rules events)])])
  | "scenario" =>
    let (x, tdocs, rulesJ, rules, events) ← parseScenario j
    let srules ← rulesJ.mapM jSRule
    let model := runScenario x tdocs rules events
    if srules.all Option.isSome && !srules.isEmpty then
      let sr := (srules.filterMap id).zip (rules.map M.Rule.isDisabled)
      let spec := match specLoad x sr with
        | some e => e
        | none =>
          let en := (sr.filter (fun p => !p.2)).map Prod.fst
          Json.mkObj [("scans", Json.arr (events.map (fun ev => specOutJson (S.scan x ev en))).toArray),
                      ("engine", engineJson (en.map (fun r => (r.name, r.rtype, S.cap r.severity))))]
      -- the hypotheses of the refinement theorem, decided per event (Gene/Props/RelCheck.lean: `checked_refines_event`)
      let wfs ← (← (← j.getObjVal? "events").getArr?).toList.mapM (fun e => jEventWf e jGVal)
      let rel : Json := match modelEngine x tdocs rules with
        | some eng =>
          let en := (sr.filter (fun p => !p.2)).map Prod.fst
          Json.arr ((events.zip wfs).map (fun (ev, wf) => match wf with
            | some w => Json.bool (w && Gene.Props.Refine.rulesRelB x ev en eng.rules)
            | none => Json.null)).toArray  -- events served by a derived getter: not a field table, not decided
        | none => Json.null
      pure (Json.mkObj [("model", model), ("spec", spec), ("rel", rel)])
    else pure (Json.mkObj [("model", model)])
  | _ => throw s!"unknown op {op}"

partial def loop (hin : IO.FS.Stream) (hout : IO.FS.Stream) : IO Unit := do
  let line ← hin.getLine
  if line.isEmpty then return ()
  let t := line.trimAscii.toString
  if t.isEmpty then loop hin hout else
  let out := match Json.parse t with
    | .error e => Json.mkObj [("error", Json.str s!"parse: {e}")]
    | .ok j =>
      let idf : List (String × Json) := match j.getObjVal? "cid" with
        | .ok i => [("cid", i)]
        | .error _ => []
      match handle j with
      | .ok r =>
        -- the table of `f64::from_str` results shipped with the case (computed by the real std in the harness) against
        -- the model's own reading of each number text
        let diff : List Json := match (jOpt j "ext").bind (fun e => match jTables e with | .ok t => some t | .error _ => none) with
          | some t => (t.fp.filter (fun (p : Str × Option FVal) => p.1.contains '.' && M.parseF64 p.1 != p.2)).map (fun (p : Str × Option FVal) => sJ p.1)
          | none => []
        Json.mkObj (idf ++ [("r", r)] ++ (if diff.isEmpty then [] else [("fpdiff", Json.arr diff.toArray)]))
      | .error e => Json.mkObj (idf ++ [("error", Json.str e)])
  hout.putStrLn out.compress
  loop hin hout

def main : IO Unit := do
  let hin ← IO.getStdin
  let hout ← IO.getStdout
  loop hin hout
  hout.flush
