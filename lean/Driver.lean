import Lean.Data.Json
import Gene.Admit
import Gene.Spec.Admit
/-! Line-protocol driver: one JSON object per input line, one JSON answer per line.
    Runs the model's executable definitions (the very ones the theorems are about) and the spec's. -/
open Lean Gene

def jStr (j : Json) (k : String) : Except String Str := do
  let s ← j.getObjValAs? String k
  pure s.toList

def jInt (j : Json) : Except String Int := do
  match j with
  | .num n => if n.exponent == 0 then pure n.mantissa else throw "non-integer number"
  | .str s => match s.toInt? with
    | some i => pure i
    | none => throw "bad int string"
  | _ => throw "int expected"

def jMatchOn (j : Json) : Except String (Option MatchOnMap) := do
  match j with
  | .null => pure none
  | .str _ => pure none   -- "absent" | "noevents" | "nullevents": no filter at all
  | .arr a =>
    let l ← a.toList.mapM (fun e => do
      let k ← e.getArrVal? 0
      let ks ← k.getStr?
      let v ← e.getArrVal? 1
      let ids ← v.getArr?
      let ids ← ids.toList.mapM jInt
      pure (ks.toList, ids))
    pure (some l)
  | _ => throw "match-on: null or array expected"

def handle (j : Json) : Except String Json := do
  let op ← j.getObjValAs? String "op"
  match op with
  | "admits" =>
    let mo ← jMatchOn (← j.getObjVal? "mo")
    let src ← jStr j "src"
    let id ← jInt (← j.getObjVal? "id")
    pure (Json.mkObj [("model", Json.bool (M.admits mo src id)), ("spec", Json.bool (S.admits mo src id))])
  | _ => throw s!"unknown op {op}"

partial def loop (hin : IO.FS.Stream) (hout : IO.FS.Stream) : IO Unit := do
  let line ← hin.getLine
  if line.isEmpty then return ()
  let t := line.trimAscii.toString
  if t.isEmpty then loop hin hout else
  let out := match Json.parse t with
    | .error e => Json.mkObj [("error", Json.str s!"parse: {e}")]
    | .ok j =>
      let idf : List (String × Json) := match j.getObjVal? "cid" with
        | .ok i => [("cid", i)]
        | .error _ => []
      match handle j with
      | .ok r => Json.mkObj (idf ++ [("r", r)])
      | .error e => Json.mkObj (idf ++ [("error", Json.str e)])
  hout.putStrLn out.compress
  loop hin hout

def main : IO Unit := do
  let hin ← IO.getStdin
  let hout ← IO.getStdout
  loop hin hout
  hout.flush
