#!/bin/bash
# usage: recheck_ids.sh <seeded id> ...   re-run the given seeded changes against the current quick checks; prints one line each
cd /verif
for ID in "$@"; do
  PROP=${ID%%_*}; d=seeded/$ID
  git -C /repo checkout -q -- . ; git -C /repo apply $PWD/$d/patch.diff || { echo "$ID PATCH-FAILS"; continue; }
  RES=$(timeout 1800 ./check $PROP quick 2>&1 | tail -3)
  git -C /repo checkout -q -- .
  if echo "$RES" | grep -q "no-failing-input-found"; then O=unproved
  elif echo "$RES" | grep -q VIOLATION; then O=violation
  else O=MISSED; fi
  echo "$ID $O $(echo "$RES" | tail -1)"
done
/verif/harness/target/debug/translate /repo /verif/lean/Gene/Generated
