#!/bin/bash
# usage: eval_mutants.sh <worktree-with-mutants-dir> ...   (verifies each mutant in its scratch worktree, then runs the
# property's quick check on /repo with the patch applied, and records the outcome under /verif/seeded/<id>/)
for WT in "$@"; do
  for M in "$WT"/mutants/*/; do
    ID=$(basename "$M"); PROP=${ID%%_*}
    [ -f "$M/patch.diff" ] || continue
    OUT=/verif/seeded/$ID; mkdir -p "$OUT"
    cp "$M/patch.diff" "$M/demo.rs" "$OUT/" 2>/dev/null; cp "$M/notes.md" "$OUT/agent_notes.md" 2>/dev/null
    cd "$WT" && git checkout -q -- . && rm -rf gene/tests
    # 1. clean tree: demo passes
    mkdir -p gene/tests && cp "$M/demo.rs" gene/tests/demo_m.rs
    CLEAN=$(CARGO_NET_OFFLINE=true cargo test --offline -p gene --test demo_m 2>&1 | grep -E "^test result" | head -1)
    # 2. with patch: suite passes, demo fails
    git apply "$M/patch.diff"; APPLY=$?
    SUITE=$(CARGO_NET_OFFLINE=true cargo test --workspace --offline --lib 2>&1 | grep -E "^test result" | head -1)
    DEMO=$(CARGO_NET_OFFLINE=true cargo test --offline -p gene --test demo_m 2>&1 | grep -E "^test result" | head -1)
    git checkout -q -- . ; rm -rf gene/tests
    # 3. my check on /repo with the patch
    cd /repo && git apply "$M/patch.diff"; A2=$?
    cd /verif && RES=$(timeout 1500 ./check $PROP quick 2>&1 | tail -3)
    RC=$?
    cd /repo && git checkout -q -- .
    python3 - "$OUT" "$ID" "$PROP" "$CLEAN" "$SUITE" "$DEMO" "$APPLY" "$A2" "$RES" <<'PY'
import sys, json
out, mid, prop, clean, suite, demo, a1, a2, res = sys.argv[1:10]
json.dump({"id": mid, "property": prop, "demo_on_clean_tree": clean, "suite_with_patch": suite, "demo_with_patch": demo,
           "patch_applies_scratch": a1 == "0", "patch_applies_repo": a2 == "0", "check_output": res,
           "detected": "VIOLATION" in res,
           "ran": f"cargo test --workspace --offline --lib (patched); cargo test -p gene --test demo_m (clean and patched); ./check {prop} quick with the patch applied to /repo, then git checkout"},
          open(out + "/meta.json", "w"), indent=1)
print(mid, "detected" if "VIOLATION" in res else "MISSED", "|", clean, "|", suite, "|", demo)
PY
  done
done
