#!/bin/bash
# Re-run every seeded change against the current checks (quick tier). Writes seeded/RECHECK.tsv:
#   id  property  outcome(violation|unproved|MISSED)  summary line
OUT=/verif/seeded/RECHECK.tsv
: > $OUT
cd /verif
for d in seeded/C*_*/; do
  ID=$(basename $d); PROP=${ID%%_*}
  [ -f $d/patch.diff ] || continue
  git -C /repo checkout -q -- . ; git -C /repo apply $PWD/$d/patch.diff || { echo -e "$ID\t$PROP\tPATCH-FAILS\t" >> $OUT; continue; }
  RES=$(timeout 1800 ./check $PROP quick 2>&1 | tail -3)
  git -C /repo checkout -q -- .
  if echo "$RES" | grep -q "no-failing-input-found"; then O=unproved
  elif echo "$RES" | grep -q VIOLATION; then O=violation
  else O=MISSED; fi
  echo -e "$ID\t$PROP\t$O\t$(echo "$RES" | tail -1)" >> $OUT
done
/verif/harness/target/debug/translate /repo /verif/lean/Gene/Generated
echo done >> $OUT
