#!/usr/bin/env python3
"""Regenerate MANIFEST.json from props.json (claimed properties = those with a "claim" text and at
least one obligation) and validate it against the schema when jsonschema is available."""
import json, os, sys
ROOT = os.path.dirname(os.path.dirname(os.path.abspath(__file__)))
props = json.load(open(os.path.join(ROOT, "props.json")))
allp = [json.loads(l)["id"] for l in open(os.path.join(ROOT, "properties.jsonl"))]
na_reasons = json.load(open(os.path.join(ROOT, "tools", "not_applicable.json")))
checks, na = [], []
for pid in allp:
    cfg = props.get(pid)
    if cfg and cfg.get("claim") and cfg.get("obligations"):
        checks.append({
            "property_id": pid,
            "quick_cmd": f"./check {pid} quick",
            "thorough_cmd": f"./check {pid} thorough",
            "evidence_file": f"evidence/{pid}.json",
            "replay_cmd_template": "./check replay {path}",
            "engine": "lean-proof",
            "level_claimed": {"category": "proof", "text": cfg["claim"], "design_ref": f"DESIGN.md section 6 {pid}"},
            "level_note": cfg.get("note", "trusts: Lean kernel; fidelity of the hand-written model outside the explored inputs (correspondence is differential); regex, serde_yaml, pest runtime and Rust std as modelled (DESIGN.md section 4)"),
            "technique": cfg.get("technique", "Lean 4 proof (model refines spec, all inputs) + differential correspondence check of the model against the implementation"),
        })
    else:
        na.append({"property_id": pid, "reason": na_reasons.get(pid, "not yet claimed: model and theorem under construction (build order in DESIGN.md section 11)")})
claimed = [c["property_id"] for c in checks]
m = {
    "version": 1,
    "setup_cmd": "./setup.sh",
    "hooks": {
        "guard": "gene_verif",
        "enable": "no hooks are needed: every observable is reached through the public API (RUSTFLAGS=\"--cfg gene_verif\" is reserved and unused)",
        "baseline_off_cmd": "cd /repo && cargo test --workspace --no-fail-fast --offline",
        "source_commits": [],
        "add_only": True,
    },
    "engines": [
        {"name": "lean-proof", "path": "lean", "serves_properties": claimed,
         "kind_free_text": "Lean 4 model + spec + theorems (lake project Gene), compiled JSON-lines driver; translator-generated constants/schema/grammar facts"},
        {"name": "correspondence", "path": "harness", "serves_properties": claimed,
         "kind_free_text": "Rust harness calling the real crate in-process; case generators, canonicalisers, translator; ./check compares impl / model / spec"},
    ],
    "checks": checks,
    "not_applicable": na,
    "notes": "Technique family: machine-checked proof in Lean 4. See DESIGN.md. ./check <id> quick|thorough; ./check replay <file>.",
}
json.dump(m, open(os.path.join(ROOT, "MANIFEST.json"), "w"), indent=1)
try:
    import jsonschema
    jsonschema.validate(m, json.load(open("/root/.vp/MANIFEST.schema.json")))
    print("MANIFEST.json valid;", len(checks), "claimed")
except ImportError:
    print("MANIFEST.json written (jsonschema not available);", len(checks), "claimed")
