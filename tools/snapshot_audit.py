#!/usr/bin/env python3
"""Deliberate, manual step (never run by a check): record the grammar ASTs and site inventories the model was
written and reviewed against, as lean/Gene/Props/AuditExpected.lean, and refresh lean/Gene/Generated.snapshot.
Run it only after re-reading the changed source and updating the model accordingly."""
import os, re, shutil, subprocess
V = os.path.dirname(os.path.dirname(os.path.abspath(__file__)))
gen = os.path.join(V, "lean/Gene/Generated")
subprocess.check_call([os.path.join(V, "harness/target/debug/translate"), "/repo", gen])
out = ["/-! Recorded by tools/snapshot_audit.py: the grammar ASTs and the inventories of panic-capable expressions,",
       "    iteration sites, hash containers and shared mutable state that the hand-written model (Gene/*.lean) was",
       "    written and reviewed against. `Gene/Props/Audit.lean` proves the freshly generated ones equal these.",
       "    See DESIGN.md §audit for the review of each class of site. -/",
       "namespace Gene.Expected", ""]
for f in ("Grammar.lean", "Sites.lean"):
    t = open(os.path.join(gen, f)).read()
    body = t.split("namespace Gene.Gen", 1)[1].rsplit("end Gene.Gen", 1)[0]
    out.append(body.strip("\n"))
    out.append("")
out.append("end Gene.Expected")
open(os.path.join(V, "lean/Gene/Props/AuditExpected.lean"), "w").write("\n".join(out) + "\n")
snap = os.path.join(V, "lean/Gene/Generated.snapshot")
shutil.rmtree(snap, ignore_errors=True)
shutil.copytree(gen, snap)
print("recorded")
