#!/bin/sh
# Build the framework offline from files on disk: harness (cargo), Lean model, proofs, driver.
cd "$(dirname "$0")" && exec ./check setup
