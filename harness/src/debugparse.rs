//! A small parser for Rust `{:?}` output (structs, tuple structs, maps, sets, vectors, strings,
//! numbers), giving a JSON tree: used to read parsed conditions and matches out of
//! `Engine::compiled_rules()` without hooks.
//!   Name { f: v, .. }  -> {"_": "Name", "f": v, ..}
//!   Name(v, ..)        -> {"_": "Name", "0": v, ..}
//!   Name               -> "Name"
//!   {k: v, ..}         -> {"_map": [[k, v]..]} sorted     {a, b} -> {"_set": [..]} sorted
//!   [a, b]             -> [a, b]      "str" -> "str"      123 / -1 / 1.5 / inf / NaN -> {"_num": "text"}
use serde_json::{json, Map, Value};

pub struct P<'a> {
    s: &'a [u8],
    i: usize,
}

impl<'a> P<'a> {
    pub fn new(s: &'a str) -> Self {
        P { s: s.as_bytes(), i: 0 }
    }
    fn ws(&mut self) {
        while self.i < self.s.len() && (self.s[self.i] == b' ' || self.s[self.i] == b'\n') {
            self.i += 1;
        }
    }
    fn peek(&self) -> Option<u8> {
        self.s.get(self.i).copied()
    }
    fn eat(&mut self, c: u8) -> bool {
        self.ws();
        if self.peek() == Some(c) {
            self.i += 1;
            true
        } else {
            false
        }
    }
    fn string(&mut self) -> Result<Value, String> {
        // at opening quote
        self.i += 1;
        let mut out = String::new();
        let text = std::str::from_utf8(self.s).map_err(|e| e.to_string())?;
        let mut it = text[self.i..].char_indices();
        while let Some((k, c)) = it.next() {
            match c {
                '"' => {
                    self.i += k + 1;
                    return Ok(Value::String(out));
                }
                '\\' => {
                    let (_, e) = it.next().ok_or("bad escape")?;
                    match e {
                        'n' => out.push('\n'),
                        'r' => out.push('\r'),
                        't' => out.push('\t'),
                        '0' => out.push('\0'),
                        '\\' => out.push('\\'),
                        '"' => out.push('"'),
                        '\'' => out.push('\''),
                        'u' => {
                            // \u{XXXX}
                            let mut hex = String::new();
                            it.next();
                            for (_, h) in it.by_ref() {
                                if h == '}' {
                                    break;
                                }
                                hex.push(h);
                            }
                            let cp = u32::from_str_radix(&hex, 16).map_err(|e| e.to_string())?;
                            out.push(char::from_u32(cp).ok_or("bad cp")?);
                        }
                        other => return Err(format!("unknown escape {other}")),
                    }
                }
                c => out.push(c),
            }
        }
        Err("unterminated string".into())
    }
    fn ident(&mut self) -> String {
        let st = self.i;
        while self.i < self.s.len() && (self.s[self.i].is_ascii_alphanumeric() || self.s[self.i] == b'_') {
            self.i += 1;
        }
        String::from_utf8_lossy(&self.s[st..self.i]).to_string()
    }
    pub fn value(&mut self) -> Result<Value, String> {
        self.ws();
        match self.peek() {
            None => Err("eof".into()),
            Some(b'"') => self.string(),
            Some(b'[') => {
                self.i += 1;
                let mut v = vec![];
                loop {
                    if self.eat(b']') {
                        break;
                    }
                    v.push(self.value()?);
                    self.eat(b',');
                }
                Ok(Value::Array(v))
            }
            Some(b'{') => {
                self.i += 1;
                let mut items: Vec<Value> = vec![];
                let mut is_map = false;
                loop {
                    if self.eat(b'}') {
                        break;
                    }
                    let k = self.value()?;
                    if self.eat(b':') {
                        is_map = true;
                        let v = self.value()?;
                        items.push(json!([k, v]));
                    } else {
                        items.push(k);
                    }
                    self.eat(b',');
                }
                items.sort_by_key(|a| a.to_string());
                Ok(if is_map { json!({ "_map": items }) } else { json!({ "_set": items }) })
            }
            Some(b'(') => {
                // bare tuple
                self.i += 1;
                let mut v = vec![];
                loop {
                    if self.eat(b')') {
                        break;
                    }
                    v.push(self.value()?);
                    self.eat(b',');
                }
                Ok(Value::Array(v))
            }
            Some(c) if c.is_ascii_digit() || c == b'-' => {
                let st = self.i;
                self.i += 1;
                while self.i < self.s.len()
                    && (self.s[self.i].is_ascii_alphanumeric() || self.s[self.i] == b'.' || self.s[self.i] == b'-' || self.s[self.i] == b'+')
                {
                    self.i += 1;
                }
                Ok(json!({"_num": String::from_utf8_lossy(&self.s[st..self.i]).to_string()}))
            }
            Some(_) => {
                let name = self.ident();
                if name.is_empty() {
                    return Err(format!("unexpected byte at {}", self.i));
                }
                if name == "inf" || name == "NaN" {
                    return Ok(json!({ "_num": name }));
                }
                if name == "true" || name == "false" {
                    return Ok(Value::Bool(name == "true"));
                }
                self.ws();
                match self.peek() {
                    Some(b'{') => {
                        self.i += 1;
                        let mut m = Map::new();
                        m.insert("_".into(), Value::String(name));
                        loop {
                            if self.eat(b'}') {
                                break;
                            }
                            self.ws();
                            let f = self.ident();
                            if !self.eat(b':') {
                                return Err("expected ':'".into());
                            }
                            let v = self.value()?;
                            m.insert(f, v);
                            self.eat(b',');
                        }
                        Ok(Value::Object(m))
                    }
                    Some(b'(') => {
                        self.i += 1;
                        let mut m = Map::new();
                        m.insert("_".into(), Value::String(name));
                        let mut k = 0;
                        loop {
                            if self.eat(b')') {
                                break;
                            }
                            let v = self.value()?;
                            m.insert(k.to_string(), v);
                            k += 1;
                            self.eat(b',');
                        }
                        Ok(Value::Object(m))
                    }
                    _ => Ok(Value::String(name)),
                }
            }
        }
    }
}

pub fn parse_debug(s: &str) -> Result<Value, String> {
    let mut p = P::new(s);
    let v = p.value()?;
    p.ws();
    if p.i != p.s.len() {
        return Err(format!("trailing input at {}", p.i));
    }
    Ok(v)
}
