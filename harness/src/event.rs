//! A dynamic event: a finite table `segment list -> value`, with a hand-written `FieldGetter`.
use gene::values::Number;
use gene::{Event, FieldGetter, FieldValue};
use serde_json::{json, Value};
use std::borrow::Cow;

#[derive(Clone, Debug)]
pub struct DynEvent {
    pub source: String,
    pub id: i64,
    pub fields: Vec<(Vec<String>, FieldValue)>,
}

impl FieldGetter for DynEvent {
    fn get_from_iter(&self, i: core::slice::Iter<'_, String>) -> Option<FieldValue> {
        let segs: Vec<&String> = i.collect();
        for (k, v) in &self.fields {
            if k.len() == segs.len() && k.iter().zip(segs.iter()).all(|(a, b)| a == *b) {
                return Some(v.clone());
            }
        }
        None
    }
}

impl Event for DynEvent {
    fn id(&self) -> i64 {
        self.id
    }
    fn source(&self) -> Cow<'_, str> {
        Cow::from(self.source.as_str())
    }
}

pub fn fv_to_json(v: &FieldValue) -> Value {
    match v {
        FieldValue::String(s) => json!({ "s": s }),
        FieldValue::Number(Number::Int(i)) => json!({ "i": i }),
        FieldValue::Number(Number::Uint(u)) => json!({ "u": u }),
        FieldValue::Number(Number::Float(f)) => json!({ "f": format!("{:016x}", f.to_bits()) }),
        FieldValue::Bool(b) => json!({ "b": b }),
        FieldValue::Some => json!("some"),
        FieldValue::None => json!("none"),
    }
}

pub fn fv_from_json(v: &Value) -> Result<FieldValue, String> {
    if let Some(s) = v.as_str() {
        return match s {
            "some" => Ok(FieldValue::Some),
            "none" => Ok(FieldValue::None),
            _ => Err(format!("bad value {s}")),
        };
    }
    let o = v.as_object().ok_or("value: object expected")?;
    if let Some(s) = o.get("s") {
        return Ok(FieldValue::String(s.as_str().ok_or("s")?.to_string()));
    }
    if let Some(i) = o.get("i") {
        return Ok(FieldValue::Number(Number::Int(i.as_i64().ok_or("i")?)));
    }
    if let Some(u) = o.get("u") {
        return Ok(FieldValue::Number(Number::Uint(u.as_u64().ok_or("u")?)));
    }
    if let Some(f) = o.get("f") {
        let bits = u64::from_str_radix(f.as_str().ok_or("f")?, 16).map_err(|e| e.to_string())?;
        return Ok(FieldValue::Number(Number::Float(f64::from_bits(bits))));
    }
    if let Some(f) = o.get("f32") {
        // through the crate's own `From<f32>`
        let bits = u32::from_str_radix(f.as_str().ok_or("f32")?, 16).map_err(|e| e.to_string())?;
        return Ok(FieldValue::from(f32::from_bits(bits)));
    }
    if let Some(b) = o.get("b") {
        return Ok(FieldValue::Bool(b.as_bool().ok_or("b")?));
    }
    Err("bad value".into())
}

pub fn event_to_json(e: &DynEvent) -> Value {
    json!({
        "source": e.source,
        "id": e.id,
        "fields": e.fields.iter().map(|(k, v)| json!([k, fv_to_json(v)])).collect::<Vec<_>>(),
    })
}

/// an event of either kind, scanned through its own getter
pub enum AnyEvent {
    Dyn(DynEvent),
    Derived(crate::derived::DEv),
}

impl FieldGetter for AnyEvent {
    fn get_from_iter(&self, i: core::slice::Iter<'_, String>) -> Option<FieldValue> {
        match self {
            AnyEvent::Dyn(e) => e.get_from_iter(i),
            AnyEvent::Derived(e) => e.get_from_iter(i),
        }
    }
}

impl Event for AnyEvent {
    fn id(&self) -> i64 {
        match self {
            AnyEvent::Dyn(e) => e.id(),
            AnyEvent::Derived(e) => e.id(),
        }
    }
    fn source(&self) -> Cow<'_, str> {
        match self {
            AnyEvent::Dyn(e) => e.source(),
            AnyEvent::Derived(e) => e.source(),
        }
    }
}

pub fn event_from_json(v: &Value) -> Result<AnyEvent, String> {
    if let Some(d) = v.get("derived") {
        let source = v["source"].as_str().ok_or("source")?;
        let id = v["id"].as_i64().ok_or("id")?;
        return Ok(AnyEvent::Derived(crate::derived::from_json(source, id, d)));
    }
    dyn_event_from_json(v).map(AnyEvent::Dyn)
}

pub fn dyn_event_from_json(v: &Value) -> Result<DynEvent, String> {
    let source = v["source"].as_str().ok_or("source")?.to_string();
    let id = v["id"].as_i64().ok_or("id")?;
    let mut fields = vec![];
    if let Some(a) = v["fields"].as_array() {
        for f in a {
            let segs = f[0]
                .as_array()
                .ok_or("segs")?
                .iter()
                .map(|s| s.as_str().unwrap_or("").to_string())
                .collect();
            fields.push((segs, fv_from_json(&f[1])?));
        }
    }
    Ok(DynEvent { source, id, fields })
}
