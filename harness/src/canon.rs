//! Canonical JSON forms of implementation outcomes (sets sorted, errors mapped to a small enum).
use gene::{Compiler, Engine, ScanResult};
use serde_json::{json, Value};
use std::panic::{catch_unwind, AssertUnwindSafe};

pub fn sorted(s: &std::collections::HashSet<String>) -> Vec<String> {
    let mut v: Vec<String> = s.iter().cloned().collect();
    v.sort();
    v
}

fn fv_json(v: &Option<gene::FieldValue>) -> Value {
    use gene::values::Number;
    use gene::FieldValue;
    match v {
        None => Value::Null,
        Some(FieldValue::String(s)) => json!({ "s": s }),
        Some(FieldValue::Number(Number::Int(i))) => json!({ "i": i }),
        Some(FieldValue::Number(Number::Uint(u))) => json!({ "u": u }),
        Some(FieldValue::Number(Number::Float(_))) => json!({ "f": null }),
        Some(FieldValue::Bool(b)) => json!({ "b": b }),
        Some(FieldValue::Some) => json!("some"),
        Some(FieldValue::None) => json!("none"),
    }
}

/// the result seen through its public methods, its derived getter, its serialized form, `Clone` and `PartialEq`
fn sr_queries(sr: &ScanResult) -> Value {
    use gene::FieldGetter;
    let g = |p: &[&str]| -> Value {
        let segs: Vec<String> = p.iter().map(|s| s.to_string()).collect();
        fv_json(&sr.get_from_iter(segs.iter()))
    };
    let ser = serde_json::to_value(sr).unwrap_or(Value::Null);
    let keys: Vec<String> = match serde_json::to_string(sr) {
        // keys in the order they are written
        Ok(text) => {
            let mut ks: Vec<(usize, String)> = ser.as_object().map(|o| o.keys().filter_map(|k| text.find(&format!("\"{k}\":")).map(|i| (i, k.clone()))).collect()).unwrap_or_default();
            ks.sort();
            ks.into_iter().map(|x| x.1).collect()
        }
        Err(_) => vec!["<not serializable>".into()],
    };
    let back: Option<ScanResult> = serde_json::from_value(ser).ok();
    let mut expect = sr.clone();
    expect.filtered = false;
    json!({
        "det": sr.is_detection(), "empty": sr.is_empty(), "only_filter": sr.is_only_filter(), "is_filtered": sr.is_filtered(),
        "tags_all": sr.tags.iter().all(|t| sr.contains_tag(t)), "tag_absent": sr.contains_tag("\0nope"),
        "actions_all": sr.actions.iter().all(|t| sr.contains_action(t)), "action_absent": sr.contains_action("\0nope"),
        "attack_lower_all": sr.attack.iter().all(|t| sr.contains_attack_id(t.to_ascii_lowercase())),
        "attack_absent": sr.contains_attack_id("t0"),
        "get": [g(&[]), g(&["filtered"]), g(&["severity"]), g(&["rules"]), g(&["tags"]), g(&["attack"]), g(&["actions"]),
                g(&["filtered", "x"]), g(&["severity", ""]), g(&["nope"]), g(&[""])],
        "ser_keys": keys,
        "rt_filtered": back.as_ref().map(|b| b.filtered), "rt_same": back.as_ref().map(|b| *b == expect),
        "clone_eq": sr.clone() == *sr,
    })
}

pub fn sr_json(sr: &Option<ScanResult>) -> Value {
    match sr {
        None => Value::Null,
        Some(sr) => json!({
            "rules": sorted(&sr.rules),
            "tags": sorted(&sr.tags),
            "attack": sorted(&sr.attack),
            "actions": sorted(&sr.actions),
            "filtered": sr.filtered,
            "severity": sr.severity,
            "q": sr_queries(sr),
        }),
    }
}

fn err_rule_name(e: &gene::Error) -> Value {
    match e {
        gene::Error::Rule(gene::rules::Error::Wrap(name, _)) => json!(name),
        _ => Value::Null,
    }
}

/// `{"ok": sr}` | `{"err": {"sr": sr, "rule": name}}` | `"panic"`
pub fn scan_json<E: gene::Event>(eng: &mut Engine, ev: &E) -> Value {
    let r = catch_unwind(AssertUnwindSafe(|| eng.scan(ev)));
    match r {
        Err(_) => json!("panic"),
        Ok(Ok(sr)) => json!({ "ok": sr_json(&sr) }),
        Ok(Err((sr, e))) => json!({ "err": { "sr": sr_json(&sr), "rule": err_rule_name(&e) } }),
    }
}

/// `compiler::Error` is not nameable from outside the crate (private module): classify by `Debug`.
pub fn compiler_err_kind<E: std::fmt::Debug>(e: &E) -> Value {
    let d = format!("{e:?}");
    let arg = |p: &str| -> Option<String> {
        d.strip_prefix(p).and_then(|r| r.strip_suffix(")")).and_then(|r| serde_json::from_str::<String>(r).ok())
    };
    if let Some(n) = arg("DuplicateRule(") {
        json!({ "dup": n })
    } else if d.starts_with("UnknownRuleDependency(") {
        // which of several unknown dependencies is named follows `HashSet` order: not compared
        json!("unkdep")
    } else if d.starts_with("Rule(") {
        json!("rule")
    } else if d.starts_with("Template(") {
        json!("template")
    } else if d.starts_with("Serde(") {
        json!("serde")
    } else {
        json!({ "other": d })
    }
}

/// quiet panics: the default hook prints to stderr for every caught panic
pub fn silence_panics() {
    std::panic::set_hook(Box::new(|_| {}));
}

pub fn load_engine(yaml: &str) -> Result<Engine, Value> {
    let r = catch_unwind(AssertUnwindSafe(|| {
        let mut c = Compiler::new();
        c.load_rules_from_str(yaml).map_err(|e| json!({"load": compiler_err_kind(&e)}))?;
        Engine::try_from(c).map_err(|e| json!({"compile": compiler_err_kind(&e)}))
    }));
    match r {
        Err(_) => Err(json!("panic")),
        Ok(x) => x,
    }
}
