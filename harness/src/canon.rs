//! Canonical JSON forms of implementation outcomes (sets sorted, errors mapped to a small enum).
use gene::{Compiler, Engine, ScanResult};
use serde_json::{json, Value};
use std::panic::{catch_unwind, AssertUnwindSafe};

pub fn sorted(s: &std::collections::HashSet<String>) -> Vec<String> {
    let mut v: Vec<String> = s.iter().cloned().collect();
    v.sort();
    v
}

pub fn sr_json(sr: &Option<ScanResult>) -> Value {
    match sr {
        None => Value::Null,
        Some(sr) => json!({
            "rules": sorted(&sr.rules),
            "tags": sorted(&sr.tags),
            "attack": sorted(&sr.attack),
            "actions": sorted(&sr.actions),
            "filtered": sr.filtered,
            "severity": sr.severity,
        }),
    }
}

fn err_rule_name(e: &gene::Error) -> Value {
    match e {
        gene::Error::Rule(gene::rules::Error::Wrap(name, _)) => json!(name),
        _ => Value::Null,
    }
}

/// `{"ok": sr}` | `{"err": {"sr": sr, "rule": name}}` | `"panic"`
pub fn scan_json<E: gene::Event>(eng: &mut Engine, ev: &E) -> Value {
    let r = catch_unwind(AssertUnwindSafe(|| eng.scan(ev)));
    match r {
        Err(_) => json!("panic"),
        Ok(Ok(sr)) => json!({ "ok": sr_json(&sr) }),
        Ok(Err((sr, e))) => json!({ "err": { "sr": sr_json(&sr), "rule": err_rule_name(&e) } }),
    }
}

/// `compiler::Error` is not nameable from outside the crate (private module): classify by `Debug`.
pub fn compiler_err_kind<E: std::fmt::Debug>(e: &E) -> Value {
    let d = format!("{e:?}");
    let arg = |p: &str| -> Option<String> {
        d.strip_prefix(p).and_then(|r| r.strip_suffix(")")).and_then(|r| serde_json::from_str::<String>(r).ok())
    };
    if let Some(n) = arg("DuplicateRule(") {
        json!({ "dup": n })
    } else if d.starts_with("UnknownRuleDependency(") {
        // which of several unknown dependencies is named follows `HashSet` order: not compared
        json!("unkdep")
    } else if d.starts_with("Rule(") {
        json!("rule")
    } else if d.starts_with("Template(") {
        json!("template")
    } else if d.starts_with("Serde(") {
        json!("serde")
    } else {
        json!({ "other": d })
    }
}

/// quiet panics: the default hook prints to stderr for every caught panic
pub fn silence_panics() {
    std::panic::set_hook(Box::new(|_| {}));
}

pub fn load_engine(yaml: &str) -> Result<Engine, Value> {
    let r = catch_unwind(AssertUnwindSafe(|| {
        let mut c = Compiler::new();
        c.load_rules_from_str(yaml).map_err(|e| json!({"load": compiler_err_kind(&e)}))?;
        Engine::try_from(c).map_err(|e| json!({"compile": compiler_err_kind(&e)}))
    }));
    match r {
        Err(_) => Err(json!("panic")),
        Ok(x) => x,
    }
}
