//! Rule documents as data (JSON) and their rendering to YAML text for the real loader.
//! Strings are always emitted double-quoted with escapes, so the text layer cannot reinterpret them.
use serde_json::Value;

pub fn yq(s: &str) -> String {
    let mut o = String::from("\"");
    for c in s.chars() {
        match c {
            '"' => o.push_str("\\\""),
            '\\' => o.push_str("\\\\"),
            '\n' => o.push_str("\\n"),
            '\r' => o.push_str("\\r"),
            '\t' => o.push_str("\\t"),
            '\0' => o.push_str("\\0"),
            c if (c as u32) < 0x20 || c == '\u{7f}' || c == '\u{85}' || c == '\u{2028}' || c == '\u{2029}' || c == '\u{feff}' => {
                o.push_str(&format!("\\u{:04x}", c as u32))
            }
            c => o.push(c),
        }
    }
    o.push('"');
    o
}

fn str_list(v: &Value) -> String {
    let items: Vec<String> = v
        .as_array()
        .map(|a| a.iter().map(|x| yq(x.as_str().unwrap_or(""))).collect())
        .unwrap_or_default();
    format!("[{}]", items.join(", "))
}

/// match-on encodings: "absent" | "noevents" | "nullevents" | [[src,[ids]]...]
pub fn match_on_yaml(mo: &Value) -> Option<String> {
    match mo {
        Value::Null => None,
        Value::String(s) if s == "absent" => None,
        Value::String(s) if s == "noevents" => Some("match-on: {}".into()),
        Value::String(s) if s == "nullevents" => Some("match-on: {events: null}".into()),
        Value::Array(a) => {
            let items: Vec<String> = a
                .iter()
                .map(|e| {
                    let ids: Vec<String> = e[1]
                        .as_array()
                        .map(|x| x.iter().map(|i| i.to_string()).collect())
                        .unwrap_or_default();
                    format!("{}: [{}]", yq(e[0].as_str().unwrap_or("")), ids.join(", "))
                })
                .collect();
            Some(format!("match-on: {{events: {{{}}}}}", items.join(", ")))
        }
        _ => None,
    }
}

/// Rule document (JSON object) -> one YAML document (block mapping at top level, flow below).
/// keys: name, type?, meta?{tags?,attack?,authors?,comments?}, params?{disable?}, match_on?,
/// matches?[[k,v]...], condition?, severity?, actions?
pub fn rule_yaml(r: &Value) -> String {
    let mut o = String::new();
    o.push_str(&format!("name: {}\n", yq(r["name"].as_str().unwrap_or(""))));
    if let Some(t) = r.get("type").and_then(|t| t.as_str()) {
        o.push_str(&format!("type: {}\n", yq(t)));
    }
    if let Some(m) = r.get("meta").and_then(|m| m.as_object()) {
        let mut parts = vec![];
        for k in ["tags", "attack", "authors", "comments"] {
            if let Some(v) = m.get(k) {
                if !v.is_null() {
                    parts.push(format!("{}: {}", k, str_list(v)));
                }
            }
        }
        o.push_str(&format!("meta: {{{}}}\n", parts.join(", ")));
    }
    if let Some(p) = r.get("params").and_then(|m| m.as_object()) {
        match p.get("disable").and_then(|d| d.as_bool()) {
            Some(b) => o.push_str(&format!("params: {{disable: {}}}\n", b)),
            None => o.push_str("params: {}\n"),
        }
    }
    if let Some(mo) = r.get("match_on") {
        if let Some(s) = match_on_yaml(mo) {
            o.push_str(&s);
            o.push('\n');
        }
    }
    if let Some(ms) = r.get("matches").and_then(|m| m.as_array()) {
        let items: Vec<String> = ms
            .iter()
            .map(|e| format!("{}: {}", yq(e[0].as_str().unwrap_or("")), yq(e[1].as_str().unwrap_or(""))))
            .collect();
        o.push_str(&format!("matches: {{{}}}\n", items.join(", ")));
    }
    if let Some(c) = r.get("condition").and_then(|c| c.as_str()) {
        o.push_str(&format!("condition: {}\n", yq(c)));
    }
    if let Some(s) = r.get("severity") {
        if !s.is_null() {
            o.push_str(&format!("severity: {}\n", s));
        }
    }
    if let Some(a) = r.get("actions") {
        if !a.is_null() {
            o.push_str(&format!("actions: {}\n", str_list(a)));
        }
    }
    o
}

pub fn rules_yaml(rs: &[Value]) -> String {
    rs.iter().map(|r| format!("---\n{}", rule_yaml(r))).collect::<Vec<_>>().join("")
}

/// The same document in another YAML dress: block sequences and mappings, comments, single-quoted scalars where
/// the text allows, optional leading comment / CRLF line ends / explicit document end. serde_yaml must read the same tree.
pub fn rule_yaml_block(r: &Value, style: u64) -> String {
    fn sq(s: &str) -> String {
        // single quotes when nothing needs escaping, double quotes otherwise
        if !s.is_empty() && !s.contains('\'') && !s.contains('\n') && !s.contains('\r') && !s.contains('\t') && !s.contains('\\') && s.chars().all(|c| (c as u32) >= 0x20 && c != '\u{7f}' && c != '\u{85}' && c != '\u{2028}' && c != '\u{2029}' && c != '\u{feff}') {
            format!("'{s}'")
        } else {
            yq(s)
        }
    }
    fn block_list(o: &mut String, indent: &str, v: &Value) {
        match v.as_array() {
            Some(a) if !a.is_empty() => {
                o.push('\n');
                for x in a {
                    o.push_str(&format!("{indent}- {}\n", sq(x.as_str().unwrap_or(""))));
                }
            }
            _ => o.push_str(" []\n"),
        }
    }
    let mut o = String::new();
    if style & 1 == 1 {
        o.push_str("# a rule\n");
    }
    o.push_str(&format!("name: {}\n", sq(r["name"].as_str().unwrap_or(""))));
    if let Some(t) = r.get("type").and_then(|t| t.as_str()) {
        o.push_str(&format!("type: {t}   # the rule type\n"));
    }
    if let Some(m) = r.get("meta").and_then(|m| m.as_object()) {
        let mut any = false;
        let mut body = String::new();
        for k in ["tags", "attack", "authors", "comments"] {
            if let Some(v) = m.get(k) {
                if !v.is_null() {
                    any = true;
                    body.push_str(&format!("  {k}:"));
                    block_list(&mut body, "    ", v);
                }
            }
        }
        if any {
            o.push_str("meta:\n");
            o.push_str(&body);
        } else {
            o.push_str("meta: {}\n");
        }
    }
    if let Some(p) = r.get("params").and_then(|m| m.as_object()) {
        match p.get("disable").and_then(|d| d.as_bool()) {
            Some(b) => o.push_str(&format!("params:\n  disable: {b}\n")),
            None => o.push_str("params: {}\n"),
        }
    }
    if let Some(mo) = r.get("match_on") {
        match mo {
            Value::Array(a) if !a.is_empty() => {
                o.push_str("match-on:\n  events:\n");
                for e in a {
                    let ids: Vec<String> = e[1].as_array().map(|x| x.iter().map(|i| i.to_string()).collect()).unwrap_or_default();
                    if ids.is_empty() {
                        o.push_str(&format!("    {}: []\n", yq(e[0].as_str().unwrap_or(""))));
                    } else {
                        o.push_str(&format!("    {}:\n", yq(e[0].as_str().unwrap_or(""))));
                        for i in ids {
                            o.push_str(&format!("      - {i}\n"));
                        }
                    }
                }
            }
            _ => {
                if let Some(s) = match_on_yaml(mo) {
                    o.push_str(&s);
                    o.push('\n');
                }
            }
        }
    }
    if let Some(ms) = r.get("matches").and_then(|m| m.as_array()) {
        if ms.is_empty() {
            o.push_str("matches: {}\n");
        } else {
            o.push_str("matches:\n");
            // style bit 16: a match text written once, anchored, and referred to by alias where it occurs again
            let mut seen: Vec<String> = vec![];
            let dup = |t: &str| ms.iter().filter(|e| e[1].as_str() == Some(t)).count() > 1;
            for e in ms {
                let t = e[1].as_str().unwrap_or("");
                if style & 16 == 16 && dup(t) {
                    match seen.iter().position(|x| x == t) {
                        Some(i) => o.push_str(&format!("  {}: *m{i}\n", yq(e[0].as_str().unwrap_or("")))),
                        None => {
                            o.push_str(&format!("  {}: &m{} {}\n", yq(e[0].as_str().unwrap_or("")), seen.len(), sq(t)));
                            seen.push(t.to_string());
                        }
                    }
                } else {
                    o.push_str(&format!("  {}: {}\n", yq(e[0].as_str().unwrap_or("")), sq(t)));
                }
            }
        }
    }
    if let Some(c) = r.get("condition").and_then(|c| c.as_str()) {
        // style bit 32: a block scalar (`|-` literal or `>-` folded, final line break stripped) when the text allows
        let simple = !c.is_empty() && !c.starts_with(' ') && !c.ends_with(' ') && c.chars().all(|ch| (ch as u32) >= 0x20 && (ch as u32) < 0x7f);
        if style & 32 == 32 && simple {
            o.push_str(&format!("condition: {}\n  {}\n", if style & 1 == 1 { "|-" } else { ">-" }, c));
        } else {
            o.push_str(&format!("condition: {}\n", sq(c)));
        }
    }
    if let Some(s) = r.get("severity") {
        if !s.is_null() {
            o.push_str(&format!("severity: {s}\n"));
        }
    }
    if let Some(a) = r.get("actions") {
        if !a.is_null() {
            o.push_str("actions:");
            block_list(&mut o, "  ", a);
        }
    }
    if style & 2 == 2 {
        o = o.replace('\n', "\r\n");
    }
    o
}

/// several documents; `style` picks the dress (0 = the flow-style writer)
pub fn rules_yaml_styled(rs: &[Value], style: u64) -> String {
    if style == 0 {
        return rules_yaml(rs);
    }
    let mut o = String::new();
    if style & 4 == 4 {
        // (a byte order mark before `---` is not understood by serde_yaml's parser: left out)
        o.push_str("# rule file\n\n");
    }
    for r in rs {
        o.push_str("---\n");
        o.push_str(&rule_yaml_block(r, style));
        if style & 8 == 8 {
            o.push_str("...\n");
        }
    }
    o
}
