//! Rule documents as data (JSON) and their rendering to YAML text for the real loader.
//! Strings are always emitted double-quoted with escapes, so the text layer cannot reinterpret them.
use serde_json::Value;

pub fn yq(s: &str) -> String {
    let mut o = String::from("\"");
    for c in s.chars() {
        match c {
            '"' => o.push_str("\\\""),
            '\\' => o.push_str("\\\\"),
            '\n' => o.push_str("\\n"),
            '\r' => o.push_str("\\r"),
            '\t' => o.push_str("\\t"),
            '\0' => o.push_str("\\0"),
            c if (c as u32) < 0x20 || c == '\u{7f}' || c == '\u{85}' || c == '\u{2028}' || c == '\u{2029}' || c == '\u{feff}' => {
                o.push_str(&format!("\\u{:04x}", c as u32))
            }
            c => o.push(c),
        }
    }
    o.push('"');
    o
}

fn str_list(v: &Value) -> String {
    let items: Vec<String> = v
        .as_array()
        .map(|a| a.iter().map(|x| yq(x.as_str().unwrap_or(""))).collect())
        .unwrap_or_default();
    format!("[{}]", items.join(", "))
}

/// match-on encodings: "absent" | "noevents" | "nullevents" | [[src,[ids]]...]
pub fn match_on_yaml(mo: &Value) -> Option<String> {
    match mo {
        Value::Null => None,
        Value::String(s) if s == "absent" => None,
        Value::String(s) if s == "noevents" => Some("match-on: {}".into()),
        Value::String(s) if s == "nullevents" => Some("match-on: {events: null}".into()),
        Value::Array(a) => {
            let items: Vec<String> = a
                .iter()
                .map(|e| {
                    let ids: Vec<String> = e[1]
                        .as_array()
                        .map(|x| x.iter().map(|i| i.to_string()).collect())
                        .unwrap_or_default();
                    format!("{}: [{}]", yq(e[0].as_str().unwrap_or("")), ids.join(", "))
                })
                .collect();
            Some(format!("match-on: {{events: {{{}}}}}", items.join(", ")))
        }
        _ => None,
    }
}

/// Rule document (JSON object) -> one YAML document (block mapping at top level, flow below).
/// keys: name, type?, meta?{tags?,attack?,authors?,comments?}, params?{disable?}, match_on?,
/// matches?[[k,v]...], condition?, severity?, actions?
pub fn rule_yaml(r: &Value) -> String {
    let mut o = String::new();
    o.push_str(&format!("name: {}\n", yq(r["name"].as_str().unwrap_or(""))));
    if let Some(t) = r.get("type").and_then(|t| t.as_str()) {
        o.push_str(&format!("type: {}\n", yq(t)));
    }
    if let Some(m) = r.get("meta").and_then(|m| m.as_object()) {
        let mut parts = vec![];
        for k in ["tags", "attack", "authors", "comments"] {
            if let Some(v) = m.get(k) {
                if !v.is_null() {
                    parts.push(format!("{}: {}", k, str_list(v)));
                }
            }
        }
        o.push_str(&format!("meta: {{{}}}\n", parts.join(", ")));
    }
    if let Some(p) = r.get("params").and_then(|m| m.as_object()) {
        match p.get("disable").and_then(|d| d.as_bool()) {
            Some(b) => o.push_str(&format!("params: {{disable: {}}}\n", b)),
            None => o.push_str("params: {}\n"),
        }
    }
    if let Some(mo) = r.get("match_on") {
        if let Some(s) = match_on_yaml(mo) {
            o.push_str(&s);
            o.push('\n');
        }
    }
    if let Some(ms) = r.get("matches").and_then(|m| m.as_array()) {
        let items: Vec<String> = ms
            .iter()
            .map(|e| format!("{}: {}", yq(e[0].as_str().unwrap_or("")), yq(e[1].as_str().unwrap_or(""))))
            .collect();
        o.push_str(&format!("matches: {{{}}}\n", items.join(", ")));
    }
    if let Some(c) = r.get("condition").and_then(|c| c.as_str()) {
        o.push_str(&format!("condition: {}\n", yq(c)));
    }
    if let Some(s) = r.get("severity") {
        if !s.is_null() {
            o.push_str(&format!("severity: {}\n", s));
        }
    }
    if let Some(a) = r.get("actions") {
        if !a.is_null() {
            o.push_str(&format!("actions: {}\n", str_list(a)));
        }
    }
    o
}

pub fn rules_yaml(rs: &[Value]) -> String {
    rs.iter().map(|r| format!("---\n{}", rule_yaml(r))).collect::<Vec<_>>().join("")
}
