//! Events served by *derived* getters: a fixed family of structs deriving `FieldGetter` / `Event` with the real
//! macros, holding maps, optionals, nested structs, aliases, skipped fields, paths and 32-bit floats. A case
//! carries the data (`derived`) for this side and the same value as a `GVal` (`gval`) for the Lean model of the
//! macro, so that rules are scanned against events whose field lookups go through the generated code and the
//! crate's own `FieldGetter` impls (`HashMap`, `Option`, `PathBuf`, numbers), not through a hand-written table.
use crate::prng::Rng;
use gene::{Event, FieldGetter, FieldValue};
use gene_derive::{Event, FieldGetter};
use serde_json::{json, Value};
use std::collections::HashMap;
use std::path::PathBuf;

#[derive(FieldGetter, Default, Clone, Debug)]
pub struct Inner {
    pub s: String,
    pub m: HashMap<String, i64>,
    #[getter(rename = "alias")]
    pub renamed: u64,
    #[getter(skip)]
    pub hidden: String,
    pub p: PathBuf,
    pub ip: Option<std::net::IpAddr>,
}

#[derive(Event, FieldGetter, Default, Clone, Debug)]
#[event(id = self.eid, source = self.src.clone().into())]
pub struct DEv {
    #[getter(skip)]
    pub eid: i64,
    #[getter(skip)]
    pub src: String,
    pub env: HashMap<String, String>,
    pub opt: Option<String>,
    pub onum: Option<u64>,
    pub num: i64,
    pub f: f32,
    pub flag: bool,
    pub inner: Inner,
    pub oinner: Option<Inner>,
}

fn inner_from(v: &Value) -> Inner {
    Inner {
        s: v["s"].as_str().unwrap_or("").to_string(),
        m: v["m"].as_array().map(|a| a.iter().map(|kv| (kv[0].as_str().unwrap_or("").to_string(), kv[1].as_i64().unwrap_or(0))).collect()).unwrap_or_default(),
        renamed: v["renamed"].as_u64().unwrap_or(0),
        hidden: v["hidden"].as_str().unwrap_or("").to_string(),
        p: PathBuf::from(<std::ffi::OsString as std::os::unix::ffi::OsStringExt>::from_vec(
            v["p"].as_array().map(|a| a.iter().map(|b| b.as_u64().unwrap_or(0) as u8).collect()).unwrap_or_default(),
        )),
        ip: v["ip"].as_str().and_then(|s| s.parse().ok()),
    }
}

pub fn from_json(source: &str, id: i64, v: &Value) -> DEv {
    DEv {
        eid: id,
        src: source.to_string(),
        env: v["env"].as_array().map(|a| a.iter().map(|kv| (kv[0].as_str().unwrap_or("").to_string(), kv[1].as_str().unwrap_or("").to_string())).collect()).unwrap_or_default(),
        opt: v["opt"].as_str().map(|s| s.to_string()),
        onum: v["onum"].as_u64(),
        num: v["num"].as_i64().unwrap_or(0),
        f: f32::from_bits(u32::from_str_radix(v["f"].as_str().unwrap_or("0"), 16).unwrap_or(0)),
        flag: v["flag"].as_bool().unwrap_or(false),
        inner: inner_from(&v["inner"]),
        oinner: if v["oinner"].is_null() { None } else { Some(inner_from(&v["oinner"])) },
    }
}

fn fd(name: &str, metas: Value) -> Value {
    let attrs = if metas.is_null() { json!([]) } else { json!([{"g": true, "metas": [metas]}]) };
    json!({"name": name, "attrs": attrs})
}

fn num_fv(i: i64) -> Value {
    if i < 0 {
        json!({ "i": i })
    } else {
        json!({ "u": i })
    }
}

fn inner_gval(v: &Value) -> Value {
    let bytes: Vec<u8> = v["p"].as_array().map(|a| a.iter().map(|b| b.as_u64().unwrap_or(0) as u8).collect()).unwrap_or_default();
    let m: Vec<Value> = v["m"].as_array().map(|a| a.iter().map(|kv| json!([kv[0], num_fv(kv[1].as_i64().unwrap_or(0))])).collect()).unwrap_or_default();
    json!({"struct": {"us": false, "fields": [
        [fd("s", Value::Null), {"scalar": {"s": v["s"]}}],
        [fd("m", Value::Null), {"map": m}],
        [fd("renamed", json!({"rename": "alias"})), {"scalar": {"u": v["renamed"]}}],
        [fd("hidden", json!("skip")), {"scalar": {"s": v["hidden"]}}],
        [fd("p", Value::Null), {"scalar": {"s": String::from_utf8_lossy(&bytes)}}],
        [fd("ip", Value::Null), if v["ip"].is_null() { json!("optNone") } else { json!({"optSome": {"scalar": {"s": v["ip"]}}}) }],
    ]}})
}

/// the same event as the model's `GVal`
pub fn gval(source: &str, id: i64, v: &Value) -> Value {
    let env: Vec<Value> = v["env"].as_array().map(|a| a.iter().map(|kv| json!([kv[0], {"s": kv[1]}])).collect()).unwrap_or_default();
    let opt = if v["opt"].is_null() { json!("optNone") } else { json!({"optSome": {"scalar": {"s": v["opt"]}}}) };
    let onum = if v["onum"].is_null() { json!("optNone") } else { json!({"optSome": {"scalar": {"u": v["onum"]}}}) };
    let oinner = if v["oinner"].is_null() { json!("optNone") } else { json!({"optSome": inner_gval(&v["oinner"])}) };
    json!({"struct": {"us": false, "fields": [
        [fd("eid", json!("skip")), {"scalar": num_fv(id)}],
        [fd("src", json!("skip")), {"scalar": {"s": source}}],
        [fd("env", Value::Null), {"map": env}],
        [fd("opt", Value::Null), opt],
        [fd("onum", Value::Null), onum],
        [fd("num", Value::Null), {"scalar": num_fv(v["num"].as_i64().unwrap_or(0))}],
        [fd("f", Value::Null), {"scalar": {"f32": v["f"]}}],
        [fd("flag", Value::Null), {"scalar": {"b": v["flag"]}}],
        [fd("inner", Value::Null), inner_gval(&v["inner"])],
        [fd("oinner", Value::Null), oinner],
    ]}})
}

fn random_inner(rng: &mut Rng) -> Value {
    let mut m = vec![];
    for k in ["k", " k", "k.j", "n"] {
        if rng.chance(1, 2) {
            m.push(json!([k, *rng.pick(&[0i64, 1, -1, 42, i64::MIN, i64::MAX])]));
        }
    }
    let paths: [&[u8]; 8] = [b"/bin/sh", b"/tmp/caf\xe9/x", b"", b"rel/\xc3\xa9", b"\xff", b"C:\\Windows\\cmd.exe", b"/tmp/a\\b", b"\\"];
    json!({
        "s": *rng.pick(&["1", "a", "", "none", "\u{e9}"]), "m": m, "renamed": *rng.pick(&[0u64, 1, 42, u64::MAX]),
        "hidden": "secret", "p": rng.pick(&paths).to_vec(),
        // canonical texts (what `Display` prints), so that the model side is the text itself
        "ip": if rng.chance(1, 4) { Value::Null } else { json!(*rng.pick(&["10.0.0.1", "::ffff:10.0.0.1", "::1", "fe80::1"])) },
    })
}

pub fn random_data(rng: &mut Rng) -> Value {
    let mut env = vec![];
    for k in ["HOME", " HOME", "USER", "a.b", ""] {
        if rng.chance(1, 2) {
            env.push(json!([k, *rng.pick(&["/root", "1", "", "-", "root"])]));
        }
    }
    let f: f32 = *rng.pick(&[0.1f32, 1.0, -0.0, f32::NAN, 16777217.0, 4242.0]);
    json!({
        "env": env,
        "opt": if rng.chance(1, 3) { Value::Null } else { json!(*rng.pick(&["1", "x", "none"])) },
        "onum": if rng.chance(1, 3) { Value::Null } else { json!(*rng.pick(&[0u64, 1, u64::MAX, 1 << 63])) },
        "num": *rng.pick(&[0i64, 1, -1, 42, i64::MIN, i64::MAX]),
        "f": format!("{:08x}", f.to_bits()),
        "flag": rng.chance(1, 2),
        "inner": random_inner(rng),
        "oinner": if rng.chance(1, 3) { Value::Null } else { random_inner(rng) },
    })
}

/// an event JSON carrying both views
pub fn event_json(rng: &mut Rng) -> Value {
    let source = *rng.pick(&["s", "s", "t"]);
    let id = *rng.pick(&[1i64, 2, -1]);
    let d = random_data(rng);
    json!({"source": source, "id": id, "derived": d, "gval": gval(source, id, &d)})
}

/// every kind of path into the struct family (declared names, aliases, skipped, map keys, too deep, through optionals)
pub fn paths() -> Vec<Vec<String>> {
    let raw: [&[&str]; 45] = [
        // nothing continues past a scalar, whatever its type
        &["inner", "p", "x"], &["oinner", "p", "x", "y"], &["inner", "ip"], &["inner", "ip", "x"], &["oinner", "ip", "v4 addr"], &["inner", "s", "x"],
        &["f", "x"], &["flag", "0"], &["onum", "x"], &["oinner", "ip"],
        &["env"], &["env", "HOME"], &["env", " HOME"], &["env", "USER", "name"], &["env", "a.b"], &["env", "a", "b"], &["inner", "m", "k.j"], &["env", "nope"],
        &["opt"], &["opt", "x"], &["onum"], &["num"], &["num", "x"], &["f"], &["flag"], &["inner"], &["inner", "s"], &["inner", "m"],
        &["inner", "m", "k"], &["inner", "m", " k"], &["inner", "m", "k", "j"], &["inner", "alias"], &["inner", "renamed"], &["inner", "hidden"],
        &["inner", "p"], &["oinner"], &["oinner", "s"], &["oinner", "alias"], &["oinner", "hidden"], &["oinner", "p"], &["eid"], &["src"],
        &["nope"], &[], &["inner", "nope", "x"],
    ];
    raw.iter().map(|p| p.iter().map(|s| s.to_string()).collect()).collect()
}

pub fn fv_note(_v: &FieldValue) {}
