use gene_verif_harness::{canon, exec_case, gen_cases};
use serde_json::Value;
use std::io::{BufRead, BufWriter, Write};

fn main() {
    let args: Vec<String> = std::env::args().collect();
    if args.len() < 2 {
        eprintln!("usage: corr gen <prop> <tier> <seed> | corr exec");
        std::process::exit(2);
    }
    canon::silence_panics();
    let stdout = std::io::stdout();
    let mut w = BufWriter::new(stdout.lock());
    match args[1].as_str() {
        "gen" => {
            let prop = &args[2];
            let tier = args.get(3).map(|s| s.as_str()).unwrap_or("quick");
            let seed: u64 = args.get(4).and_then(|s| s.parse().ok()).unwrap_or(1);
            let mut cid = 0u64;
            let mut emit = |mut v: Value| {
                v["cid"] = Value::from(cid);
                cid += 1;
                writeln!(w, "{}", v).unwrap();
            };
            if let Err(e) = gen_cases(prop, tier, seed, &mut emit) {
                eprintln!("{e}");
                std::process::exit(2);
            }
        }
        "yaml" => {
            // debugging aid: print the YAML text a scenario case is loaded from, in every dress
            let mut line = String::new();
            std::io::stdin().read_line(&mut line).unwrap();
            let case: Value = serde_json::from_str(&line).unwrap();
            let rules: Vec<Value> = case["rules"].as_array().cloned().unwrap_or_default();
            for style in [0u64, 1, 2, 5, 9, 3, 16, 48, 49, 21] {
                let t = gene_verif_harness::doc::rules_yaml_styled(&rules, style);
                let mut c = gene::Compiler::new();
                writeln!(w, "--- style {style}: {:?}\n{}", c.load_rules_from_str(&t).map_err(|e| format!("{e:?}")), t).unwrap();
            }
        }
        "exec" => {
            let stdin = std::io::stdin();
            for line in stdin.lock().lines() {
                let line = line.unwrap();
                if line.trim().is_empty() {
                    continue;
                }
                let case: Value = match serde_json::from_str(&line) {
                    Ok(v) => v,
                    Err(e) => {
                        writeln!(w, "{}", serde_json::json!({"error": format!("parse {e}")})).unwrap();
                        continue;
                    }
                };
                let r = std::panic::catch_unwind(|| exec_case(&case)).unwrap_or(serde_json::json!("panic"));
                writeln!(w, "{}", serde_json::json!({"cid": case["cid"], "impl": r})).unwrap();
                // every answer leaves the process at once: a case that ends the process loses no earlier answer
                w.flush().unwrap();
            }
        }
        _ => {
            eprintln!("unknown command");
            std::process::exit(2);
        }
    }
    w.flush().unwrap();
}
