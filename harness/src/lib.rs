pub mod canon;
pub mod debugparse;
pub mod derived;
pub mod doc;
pub mod dsl;
pub mod scenario;
pub mod event;
pub mod prng;
pub mod props;

use serde_json::Value;

/// A case is one JSON object with an `op`; `exec` runs it on the real crate.
pub fn exec_case(case: &Value) -> Value {
    let op = case["op"].as_str().unwrap_or("");
    match op {
        "admits" => props::c05::exec(case),
        "scenario" => scenario::exec(case),
        "scenario_multi" => props::c11::exec(case),
        "history_meta" => props::engine_props::exec_history_meta(case),
        "xpath" | "xpath_pair" => props::c18::exec(case),
        "num_cmp" => props::c04::exec_num_cmp(case),
        "parse_cond" | "parse_match" => props::parse::exec(case),
        "load_text" => props::c15::exec(case),
        "history" => props::c14::exec(case),
        "yaml_load" => props::c20::exec(case),
        "conv" | "widen" | "roundtrip" | "num_out" | "hexparse" | "textconv" | "pathbytes" | "boolip" => props::c19::exec(case),
        "tpl_replace" | "tpl_load" | "tpl_api" => props::c17::exec(case),
        _ => serde_json::json!({ "error": format!("unknown op {op}") }),
    }
}

pub fn gen_cases(prop: &str, tier: &str, seed: u64, out: &mut dyn FnMut(Value)) -> Result<(), String> {
    match prop {
        "C05" => props::c05::gen(tier, seed, out),
        "C03" => props::c03::gen(tier, seed, out),
        "C18" => props::c18::gen(tier, seed, out),
        "C04" => props::c04::gen(tier, seed, out),
        "C02" => props::c02::gen(tier, seed, out),
        "C16" => props::c16::gen(tier, seed, out),
        "C15" => props::c15::gen(tier, seed, out),
        "C01" => props::c01::gen(tier, seed, out),
        "C17" => props::c17::gen(tier, seed, out),
        "C14" => props::c14::gen(tier, seed, out),
        "C19" => props::c19::gen(tier, seed, out),
        "C20" => props::c20::gen(tier, seed, out),
        "C08" => props::c08::gen(tier, seed, out),
        "C11" => props::c11::gen(tier, seed, out),
        "C06" => props::engine_props::gen_c06(tier, seed, out),
        "C07" => props::engine_props::gen_c07(tier, seed, out),
        "C09" => props::engine_props::gen_c09(tier, seed, out),
        "C10" => props::engine_props::gen_c10(tier, seed, out),
        "C12" => props::engine_props::gen_c12(tier, seed, out),
        "C13" => props::engine_props::gen_c13(tier, seed, out),
        _ => return Err(format!("no generator for {prop}")),
    }
    Ok(())
}
