//! C03: the operator x literal form x field value product, through single-operand rules and
//! `Engine::scan`. Each case is one rule `$a: <test>` / `condition: $a` scanned against one event per
//! field value (field `.x`), plus an event without the field.
use crate::dsl::{ext_for, Form, Lit, Operand, SRule, OPS};
use crate::event::{event_to_json, DynEvent};
use crate::prng::Rng;
use gene::values::Number;
use gene::FieldValue;
use serde_json::{json, Value};

pub fn literal_texts() -> Vec<&'static str> {
    vec![
        "", "a", "A", "abc", "a b", " a", "\u{e9}", "a.c", "^a", "a$", "(?i)ABC", "[", ".*", "b|c",
        "0", "1", "42", "-1", "-0", "+5", "007", "0x10", "0xff", "0xFF", "0x", "0X10", "0Xff", "0b11", "0o17", "1_000", "1.5", "-2.5", "1.0", "42.0",
        "18446744073709551615", "18446744073709551616", "9223372036854775808", "-9223372036854775808",
        "0xffffffffffffffff", "0x8000000000000000", "0x7fffffffffffffff", "0xffffffff81000000", "-0x10", "0x10000000000000000", "-", "+", "0x0x10", "0x0x", "00x10", "-0x8000000000000000",
        "-9223372036854775809", "1e3", "1.e3", ".5", "5.", "inf", "NaN", "none", "some", "true", "false", "True",
        "4", "6", "255", "-3", "0.5",
        // anchors, the dot and flags against text of several lines (`^`/`$` are the ends of the whole text, `.` is
        // not a line break, unless the pattern itself says otherwise)
        "^a$", "^abc$", "x.a", "(?m)^a$", "(?s)x.a", "\\na", "a\nx", "^$",
    ]
}

pub fn literals() -> Vec<Lit> {
    let mut v = vec![Lit::None, Lit::Some, Lit::Bool(true), Lit::Bool(false)];
    for t in literal_texts() {
        v.push(Lit::sq(t));
    }
    // double-quoted spellings, and text that starts / ends with the other quote character
    for t in ["", "a", "abc", "42", "0x10", "1.5", "none", "true", "'a'", "a'", "'a", "'", "''", "it's"] {
        v.push(Lit::dq(t));
    }
    for t in ["\"a\"", "a\"", "\"a", "\"", "\"\"", "say \"hi\""] {
        v.push(Lit::sq(t));
    }
    v
}

pub fn field_values() -> Vec<FieldValue> {
    let mut v: Vec<FieldValue> = vec![];
    for s in [
        "", "a", "A", "abc", "ABC", "xabcx", "a b", "\"a\"", "a\"", "'a'", "a'", "\u{e9}", "none", "some", "true", "0", "1",
        "42", "-1", "-3", "0x10", "0xff", "1.5", "1.0", "-2.5", "18446744073709551616", "zz", "4", "6", "7", "255",
        "42.0", "+5", "5", "0.5", "b", "ac", "-", "+", "-x", ".", "0xffffffffffffffff", "0x8000000000000000",
        "x\na", "a\nx", "x\nabc\nx", "a\r\nb", "\n", "x\n",
    ] {
        v.push(FieldValue::String(s.into()));
    }
    v.push(FieldValue::String("x".repeat(5000)));
    for u in [0u64, 1, 4, 5, 6, 7, 16, 42, 255, 1 << 53, (1 << 53) + 1, 1 << 63, u64::MAX, 0xffffffff81000000, i64::MAX as u64] {
        v.push(FieldValue::Number(Number::Uint(u)));
    }
    for i in [-1i64, -3, -42, i64::MIN, 5, 0, i64::MAX] {
        // Int(5), Int(0), Int(MAX) are not what `From` builds: "values built directly from the public enum variants"
        v.push(FieldValue::Number(Number::Int(i)));
    }
    for f in [
        0.0f64, -0.0, 1.0, 1.5, -2.5, 42.0, 0.5, 5.0, f64::NAN, f64::INFINITY, f64::NEG_INFINITY, 5e-324, 1e300,
        9007199254740992.0, 18446744073709551616.0, -9223372036854775808.0, 255.0, -1.0,
    ] {
        v.push(FieldValue::Number(Number::Float(f)));
    }
    v.push(FieldValue::Bool(true));
    v.push(FieldValue::Bool(false));
    v.push(FieldValue::None);
    v.push(FieldValue::Some);
    v
}

pub fn events_for(values: &[FieldValue]) -> Vec<DynEvent> {
    let mut evs: Vec<DynEvent> = values
        .iter()
        .map(|v| DynEvent { source: "s".into(), id: 1, fields: vec![(vec!["x".into()], v.clone())] })
        .collect();
    evs.push(DynEvent { source: "s".into(), id: 1, fields: vec![] });
    evs
}

pub fn single_test_case(op: usize, lit: &Lit, events: &[DynEvent], rng: &mut Rng, tag: &str) -> Value {
    let r = SRule {
        name: "r".into(),
        ops: vec![("$a".into(), Operand::Test { segs: vec!["x".into()], op, lit: lit.clone() })],
        cond: Some(Form::V("$a".into())),
        ..Default::default()
    };
    let rules = vec![r];
    let ext = ext_for(&rules, events);
    json!({
        "op": "scenario", "ext": ext,
        "rules": rules.iter().map(|r| r.to_json(rng)).collect::<Vec<_>>(),
        "events": events.iter().map(event_to_json).collect::<Vec<_>>(),
        "tag": tag, "nt": true,
    })
}

pub fn gen(tier: &str, seed: u64, out: &mut dyn FnMut(Value)) {
    let mut rng = Rng::new(seed);
    let values = field_values();
    let events = events_for(&values);
    for op in 0..OPS.len() {
        for lit in literals() {
            out(single_test_case(op, &lit, &events, &mut rng, &format!("op {}", OPS[op].0)));
        }
    }
    // field tests against events whose lookups go through derived getters and the crate's own `FieldGetter` impls
    crate::props::engine::gen_derived(&mut rng, if tier == "thorough" { 10000 } else { 1000 }, "events served by derived getters", out);
    // keywords are lower case only: any other spelling, unquoted, is not in the grammar and the rule must not compile
    for kw in ["None", "Some", "True", "False", "NONE", "SOME", "TRUE", "FALSE", "nOne", "tRUE", "nil", "null"] {
        for opt in ["==", "is", "<", "~=", "&="] {
            let r = SRule {
                name: "r".into(),
                ops: vec![("$a".into(), Operand::Raw(format!(".x {opt} {kw}")))],
                cond: Some(Form::V("$a".into())),
                ..Default::default()
            };
            let rules = vec![r];
            out(json!({
                "op": "scenario", "ext": ext_for(&rules, &events[..4]),
                "rules": rules.iter().map(|r| r.to_json(&mut rng)).collect::<Vec<_>>(),
                "events": events[..4].iter().map(event_to_json).collect::<Vec<_>>(),
                "tag": "keyword in another letter case", "nt": true,
            }));
        }
    }
    // a field compared with itself: equal to itself unless it is NaN; missing is an error like any other missing field
    for is in [false, true] {
        for path in [vec!["x".to_string()], vec!["y".to_string(), "z w".to_string()]] {
            let r = SRule {
                name: "r".into(),
                ops: vec![("$a".into(), Operand::Indirect { a: path.clone(), b: path.clone(), is })],
                cond: Some(Form::V("$a".into())),
                ..Default::default()
            };
            let rules = vec![r];
            let mut evs: Vec<DynEvent> = values.iter().map(|v| DynEvent { source: "s".into(), id: 1, fields: vec![(path.clone(), v.clone())] }).collect();
            evs.push(DynEvent { source: "s".into(), id: 1, fields: vec![] });
            out(json!({
                "op": "scenario", "ext": ext_for(&rules, &evs),
                "rules": rules.iter().map(|r| r.to_json(&mut rng)).collect::<Vec<_>>(),
                "events": evs.iter().map(event_to_json).collect::<Vec<_>>(),
                "tag": "a field compared with itself", "nt": true,
            }));
        }
    }
    // indirect: every pair of field values, and missing fields
    let mut evs = vec![];
    let step = if tier == "thorough" { 1 } else { 3 };
    for (i, a) in values.iter().enumerate() {
        for (j, b) in values.iter().enumerate() {
            if tier != "thorough" && (i + j) % step != 0 && i != j {
                continue;
            }
            evs.push(DynEvent {
                source: "s".into(),
                id: 1,
                fields: vec![(vec!["x".into()], a.clone()), (vec!["y".into(), "z w".into()], b.clone())],
            });
        }
    }
    evs.push(DynEvent { source: "s".into(), id: 1, fields: vec![(vec!["x".into()], values[0].clone())] });
    evs.push(DynEvent { source: "s".into(), id: 1, fields: vec![(vec!["y".into(), "z w".into()], values[0].clone())] });
    evs.push(DynEvent { source: "s".into(), id: 1, fields: vec![] });
    for is in [false, true] {
        for chunk in evs.chunks(400) {
            let r = SRule {
                name: "r".into(),
                ops: vec![("$a".into(), Operand::Indirect { a: vec!["x".into()], b: vec!["y".into(), "z w".into()], is })],
                cond: Some(Form::V("$a".into())),
                ..Default::default()
            };
            let rules = vec![r];
            out(json!({
                "op": "scenario", "ext": ext_for(&rules, chunk),
                "rules": rules.iter().map(|r| r.to_json(&mut rng)).collect::<Vec<_>>(),
                "events": chunk.iter().map(event_to_json).collect::<Vec<_>>(),
                "tag": "indirect", "nt": true,
            }));
        }
    }
}
