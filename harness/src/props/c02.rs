//! C02: condition formulas (enumerated up to a size bound, random larger ones) x all truth
//! assignments, through `Engine::scan`. Operand `$v` is the test `.v == '1'`; an event gives every
//! field the text "1" (true) or "0" (false).
use crate::dsl::{Form, Lit, Operand, SRule};
use crate::event::{event_to_json, DynEvent};
use crate::prng::Rng;
use serde_json::{json, Value};

pub const VARS: [&str; 4] = ["$a", "$ab", "$b", "$c"];
pub const VARS2: [&str; 5] = ["$a0", "$aZ", "$a_", "$az", "$azzz_1"];

fn field_of(v: &str) -> String {
    v.trim_start_matches('$').to_string()
}

pub fn operands(vars: &[&str]) -> Vec<(String, Operand)> {
    vars.iter()
        .map(|v| (v.to_string(), Operand::Test { segs: vec![field_of(v)], op: 0, lit: Lit::sq("1") }))
        .collect()
}

pub fn assignments(vars: &[&str]) -> Vec<DynEvent> {
    let n = vars.len();
    (0..(1u32 << n))
        .map(|m| DynEvent {
            source: "s".into(),
            id: 1,
            fields: (0..n)
                .map(|i| (vec![field_of(vars[i])], gene::FieldValue::String(if m & (1 << i) != 0 { "1".into() } else { "0".into() })))
                .collect(),
        })
        .collect()
}

pub fn groups() -> Vec<Option<String>> {
    vec![None, Some("$a".into()), Some("$ab".into()), Some("$b".into()), Some("$c".into()), Some("$zz".into()), Some("$".into())]
}

pub fn quantifier_leaves() -> Vec<Form> {
    let mut v = vec![];
    for g in groups() {
        if g.as_deref() == Some("$") {
            continue; // `$` alone is not a `var` token
        }
        v.push(Form::All(g.clone()));
        v.push(Form::Any(g.clone()));
        v.push(Form::NoneOf(g.clone()));
        for n in [0u64, 1, 2, 3, 4, 5] {
            v.push(Form::N(n, g.clone()));
        }
        // counts no machine integer holds: never reached, whatever the operands
        for d in ["18446744073709551615", "18446744073709551616", "340282366920938463463374607431768211456", "00018446744073709551616"] {
            v.push(Form::NBig(d.to_string(), g.clone()));
        }
    }
    v
}

fn var_leaves() -> Vec<Form> {
    VARS.iter().map(|v| Form::V(v.to_string())).collect()
}

fn with_neg(fs: Vec<Form>) -> Vec<Form> {
    let mut v = vec![];
    for f in fs {
        v.push(Form::Not(Box::new(f.clone())));
        v.push(f);
    }
    v
}

/// all formulas with exactly `n` leaves taken from `leaves`, every node optionally negated
fn trees(n: usize, leaves: &[Form]) -> Vec<Form> {
    if n == 1 {
        return with_neg(leaves.to_vec());
    }
    let mut v = vec![];
    for k in 1..n {
        let ls = trees(k, leaves);
        let rs = trees(n - k, leaves);
        for l in &ls {
            for r in &rs {
                v.push(Form::And(Box::new(l.clone()), Box::new(r.clone())));
                v.push(Form::Or(Box::new(l.clone()), Box::new(r.clone())));
            }
        }
    }
    with_neg(v)
}

pub fn random_form(rng: &mut Rng, depth: usize) -> Form {
    if depth == 0 || rng.chance(1, 4) {
        if rng.chance(2, 3) {
            return Form::V(rng.pick(&VARS).to_string());
        }
        let q = quantifier_leaves();
        return rng.pick(&q).clone();
    }
    match rng.below(5) {
        0 => Form::Not(Box::new(random_form(rng, depth - 1))),
        1 | 2 => Form::And(Box::new(random_form(rng, depth - 1)), Box::new(random_form(rng, depth - 1))),
        _ => Form::Or(Box::new(random_form(rng, depth - 1)), Box::new(random_form(rng, depth - 1))),
    }
}

pub fn case_for(f: &Form, rng: &mut Rng, events: &[DynEvent], evj: &[Value], tag: &str) -> Value {
    let r = SRule { name: "r".into(), ops: operands(&VARS), cond: Some(f.clone()), ..Default::default() };
    let _ = events;
    json!({
        "op": "scenario",
        "rules": [r.to_json(rng)],
        "events": evj,
        "tag": tag, "nt": true,
    })
}

pub fn gen(tier: &str, seed: u64, out: &mut dyn FnMut(Value)) {
    let mut rng = Rng::new(seed);
    let events = assignments(&VARS);
    let evj: Vec<Value> = events.iter().map(event_to_json).collect();
    // absent condition, empty condition
    for cond in [None, Some(Form::Tt)] {
        let r = SRule { name: "r".into(), ops: operands(&VARS), cond, ..Default::default() };
        out(json!({"op": "scenario", "rules": [r.to_json(&mut rng)], "events": evj, "tag": "absent/empty", "nt": true}));
    }
    // a rule without operands: quantifiers range over nothing (all / none / 0 of hold, any / N>=1 do not)
    for f in with_neg(quantifier_leaves()) {
        for explicit_empty in [false, true] {
            let r = SRule { name: "r".into(), ops: vec![], cond: Some(f.clone()), ..Default::default() };
            let mut j = r.to_json(&mut rng);
            if explicit_empty {
                j["matches"] = json!([]);
            }
            out(json!({"op": "scenario", "rules": [j], "events": evj[..2], "tag": "no operands", "nt": true}));
        }
    }
    // every quantifier form alone, negated, and combined with a variable
    let q = quantifier_leaves();
    for f in with_neg(q.clone()) {
        out(case_for(&f, &mut rng, &events, &evj, "quantifier"));
    }
    for f in &q {
        for v in ["$a", "$c"] {
            for k in 0..4 {
                let var = Form::V(v.to_string());
                let g = match k {
                    0 => Form::And(Box::new(f.clone()), Box::new(var)),
                    1 => Form::Or(Box::new(var), Box::new(f.clone())),
                    2 => Form::And(Box::new(var), Box::new(Form::Not(Box::new(f.clone())))),
                    _ => Form::Or(Box::new(Form::Not(Box::new(f.clone()))), Box::new(var)),
                };
                out(case_for(&g, &mut rng, &events, &evj, "quantifier+var"));
                let r = SRule { name: "r".into(), ops: operands(&VARS), cond: Some(g.clone()), tight: true, ..Default::default() };
                out(json!({"op": "scenario", "rules": [r.to_json(&mut rng)], "events": evj, "tag": "quantifier+var, tightest spelling", "nt": true}));
            }
        }
    }
    // prefix selection against names that continue the prefix with every kind of character (digit, upper case,
    // underscore, lower case up to `z` and beyond): `$a` selects all five, `$az` two, `$a0`/`$aZ`/`$a_` one
    let events2 = assignments(&VARS2);
    let evj2: Vec<Value> = events2.iter().map(event_to_json).collect();
    for g in ["$a", "$az", "$azz", "$a0", "$aZ", "$a_", "$b", "$", "$azzz_1x"] {
        if g == "$" {
            continue;
        }
        let g = Some(g.to_string());
        let mut fs = vec![Form::All(g.clone()), Form::Any(g.clone()), Form::NoneOf(g.clone())];
        for n in [0u64, 1, 2, 3, 5, 6] {
            fs.push(Form::N(n, g.clone()));
        }
        for f in with_neg(fs) {
            let r = SRule { name: "r".into(), ops: operands(&VARS2), cond: Some(f.clone()), ..Default::default() };
            out(json!({"op": "scenario", "rules": [r.to_json(&mut rng)], "events": evj2, "tag": "prefix selection, wide names", "nt": true}));
        }
    }
    // operand names are any text after `$` (only the condition's own tokens are restricted): names continuing a
    // prefix with `-`, `.`, a space, characters above `z` and outside ASCII are distinct operands, all selected by
    // the prefix and each counted once
    let names3: [(&str, &str); 8] = [("$ip", "f0"), ("$ip-src", "f1"), ("$ip-dst", "f2"), ("$ip\u{e9}", "f3"), ("$ip{", "f4"), ("$ip~x", "f5"), ("$ip z", "f6"), ("$ip.y", "f7")];
    let ops3: Vec<(String, Operand)> = names3.iter().map(|(n, f)| (n.to_string(), Operand::Test { segs: vec![f.to_string()], op: 0, lit: Lit::sq("1") })).collect();
    let events3: Vec<DynEvent> = (0..(1u32 << 8))
        .map(|m| DynEvent {
            source: "s".into(),
            id: 1,
            fields: (0..8).map(|i| (vec![names3[i].1.to_string()], gene::FieldValue::String(if m & (1 << i) != 0 { "1".into() } else { "0".into() }))).collect(),
        })
        .collect();
    let evj3: Vec<Value> = events3.iter().map(event_to_json).collect();
    for g in [None, Some("$ip"), Some("$i"), Some("$ip_"), Some("$ipz"), Some("$ipp")] {
        let g = g.map(|x| x.to_string());
        let mut fs = vec![Form::All(g.clone()), Form::Any(g.clone()), Form::NoneOf(g.clone()), Form::V("$ip".into())];
        for n in [0u64, 1, 2, 3, 7, 8, 9] {
            fs.push(Form::N(n, g.clone()));
        }
        for f in with_neg(fs) {
            let r = SRule { name: "r".into(), ops: ops3.clone(), cond: Some(f.clone()), ..Default::default() };
            out(json!({"op": "scenario", "rules": [r.to_json(&mut rng)], "events": evj3, "tag": "prefix selection, names beyond identifiers", "nt": true}));
        }
    }
    // names that differ only by leading zeros or digit grouping are different operands (`$h1`, `$h01`, `$h001`), and the
    // order operands are visited in is the plain text order of their names
    {
        let names5: [(&str, &str); 6] = [("$h1", "f0"), ("$h01", "f1"), ("$h001", "f2"), ("$h10", "f3"), ("$h2", "f4"), ("$h1_0", "f5")];
        let ops5: Vec<(String, Operand)> = names5.iter().map(|(n, f)| (n.to_string(), Operand::Test { segs: vec![f.to_string()], op: 0, lit: Lit::sq("1") })).collect();
        let events5: Vec<DynEvent> = (0..(1u32 << 6))
            .map(|m| DynEvent {
                source: "s".into(),
                id: 1,
                fields: (0..6).map(|i| (vec![names5[i].1.to_string()], gene::FieldValue::String(if m & (1 << i) != 0 { "1".into() } else { "0".into() }))).collect(),
            })
            .collect();
        let evj5: Vec<Value> = events5.iter().map(event_to_json).collect();
        let mut fs: Vec<Form> = vec![];
        for g in [None, Some("$h"), Some("$h1"), Some("$h0"), Some("$h01"), Some("$h00")] {
            let g = g.map(|x| x.to_string());
            fs.extend([Form::All(g.clone()), Form::Any(g.clone()), Form::NoneOf(g.clone())]);
            for n in [1u64, 2, 3, 5, 6] {
                fs.push(Form::N(n, g.clone()));
            }
        }
        for (a, b) in [("$h1", "$h01"), ("$h01", "$h001"), ("$h10", "$h1_0"), ("$h2", "$h10")] {
            fs.push(Form::And(Box::new(Form::V(a.into())), Box::new(Form::Not(Box::new(Form::V(b.into()))))));
            fs.push(Form::And(Box::new(Form::V(b.into())), Box::new(Form::Not(Box::new(Form::V(a.into()))))));
        }
        for f in with_neg(fs) {
            let r = SRule { name: "r".into(), ops: ops5.clone(), cond: Some(f.clone()), ..Default::default() };
            out(json!({"op": "scenario", "rules": [r.to_json(&mut rng)], "events": evj5, "tag": "names differing by leading zeros", "nt": true}));
        }
    }
    // operand names and prefixes that contain the grammar's own words: `of`, `them`, `all`, `any`, `none`, `not`, `and`, `or`
    {
        let names4: [(&str, &str); 8] = [("$office", "f0"), ("$prof_1", "f1"), ("$of", "f2"), ("$them", "f3"), ("$microsoft", "f4"), ("$notand", "f5"), ("$orall", "f6"), ("$anynone", "f7")];
        let ops4: Vec<(String, Operand)> = names4.iter().map(|(n, f)| (n.to_string(), Operand::Test { segs: vec![f.to_string()], op: 0, lit: Lit::sq("1") })).collect();
        let events4: Vec<DynEvent> = (0..(1u32 << 8))
            .map(|m| DynEvent {
                source: "s".into(),
                id: 1,
                fields: (0..8).map(|i| (vec![names4[i].1.to_string()], gene::FieldValue::String(if m & (1 << i) != 0 { "1".into() } else { "0".into() }))).collect(),
            })
            .collect();
        let evj4: Vec<Value> = events4.iter().map(event_to_json).collect();
        for g in ["$of", "$off", "$office", "$prof", "$prof_", "$microsoft", "$micro", "$them", "$the", "$not", "$or", "$any", "$o"] {
            let g = Some(g.to_string());
            let mut fs = vec![Form::All(g.clone()), Form::Any(g.clone()), Form::NoneOf(g.clone())];
            for n in [0u64, 1, 2, 3] {
                fs.push(Form::N(n, g.clone()));
            }
            for f in with_neg(fs) {
                let r = SRule { name: "r".into(), ops: ops4.clone(), cond: Some(f.clone()), ..Default::default() };
                out(json!({"op": "scenario", "rules": [r.to_json(&mut rng)], "events": evj4, "tag": "prefixes containing the grammar's words", "nt": true}));
            }
        }
        for v in ["$office", "$of", "$them", "$notand", "$orall", "$anynone"] {
            for f in with_neg(vec![Form::V(v.to_string())]) {
                let r = SRule { name: "r".into(), ops: ops4.clone(), cond: Some(f.clone()), ..Default::default() };
                out(json!({"op": "scenario", "rules": [r.to_json(&mut rng)], "events": evj4[..64], "tag": "operand names containing the grammar's words", "nt": true}));
            }
        }
    }
    // an operand may be another rule's verdict: it is one operand like any other, counted once
    {
        let dep_true = SRule { name: "dep".into(), ty: Some("dependency".into()), ops: vec![("$d".into(), Operand::Test { segs: vec!["a".into()], op: 0, lit: Lit::sq("1") })], cond: Some(Form::V("$d".into())), ..Default::default() };
        let mut ops4 = operands(&["$a", "$b", "$c"]);
        ops4[0] = ("$a".into(), Operand::Rule("dep".into()));
        ops4.push(("$ab".into(), Operand::Rule("dep".into())));
        for g in [None, Some("$a"), Some("$ab"), Some("$b")] {
            let g = g.map(|x| x.to_string());
            let mut fs = vec![Form::All(g.clone()), Form::Any(g.clone()), Form::NoneOf(g.clone())];
            for n in [0u64, 1, 2, 3, 4, 5] {
                fs.push(Form::N(n, g.clone()));
            }
            for f in with_neg(fs) {
                let r = SRule { name: "r".into(), ops: ops4.clone(), cond: Some(f.clone()), ..Default::default() };
                out(json!({"op": "scenario", "rules": [dep_true.to_json(&mut rng), r.to_json(&mut rng)], "events": evj, "tag": "rule() operands under quantifiers", "nt": true}));
            }
        }
    }
    // all formulas over variables with up to 3 leaves (each rendered with seeded spellings/parentheses)
    let vl = var_leaves();
    let max = if tier == "thorough" { 3 } else { 3 };
    for n in 1..=max {
        let ts = trees(n, &vl[..if n == 3 { 3 } else { 4 }]);
        let reps = if tier == "thorough" { 3 } else { 1 };
        for f in &ts {
            for _ in 0..reps {
                out(case_for(f, &mut rng, &events, &evj, &format!("exhaustive {n} leaves")));
            }
        }
    }
    // random larger ones
    let n = if tier == "thorough" { 300000 } else { 16000 };
    for _ in 0..n {
        let d = 2 + rng.below(4);
        let f = random_form(&mut rng, d);
        if rng.chance(1, 10) {
            let r = SRule { name: "r".into(), ops: operands(&VARS), cond: Some(f.clone()), tight: true, ..Default::default() };
            out(json!({"op": "scenario", "rules": [r.to_json(&mut rng)], "events": evj, "tag": "random, tightest spelling", "nt": true}));
            continue;
        }
        out(case_for(&f, &mut rng, &events, &evj, "random"));
    }
}
