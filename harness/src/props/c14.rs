//! C14: compiler histories. All sequences up to a length bound over an operation alphabet, random
//! longer ones. Observed per operation: result kind; `rules()` names and texts; `compiled()` names;
//! engine rule count.
use crate::canon::compiler_err_kind;
use crate::doc::{rule_yaml, yq};
use crate::prng::Rng;
use gene::{Compiler, Engine};
use serde_json::{json, Value};
use std::panic::{catch_unwind, AssertUnwindSafe};

fn docs_yaml(docs: &Value) -> String {
    let mut o = String::new();
    for d in docs.as_array().cloned().unwrap_or_default() {
        o.push_str("---\n");
        if let Some(kind) = d.as_str() {
            // a document that does not deserialise as a rule: wrong shape, or nothing at all between two separators
            o.push_str(match kind {
                "empty" => "",
                "null" => "~\n",
                "nulltext" => "null\n",
                "comment" => "# nothing but a comment\n",
                "text" => "just some text\n",
                "seq" => "- name: x\n",
                _ => "name: [1, 2]\n",
            });
        } else {
            o.push_str(&rule_yaml(&d));
        }
    }
    o
}

fn res<T, E: std::fmt::Debug>(r: Result<T, E>, ok: impl FnOnce(T) -> Value) -> Value {
    match r {
        Ok(v) => ok(v),
        Err(e) => json!({ "err": compiler_err_kind(&e) }),
    }
}

pub fn exec(case: &Value) -> Value {
    let r = catch_unwind(AssertUnwindSafe(|| {
        let mut c = Compiler::new();
        let mut outs = vec![];
        for op in case["ops"].as_array().cloned().unwrap_or_default() {
            let k = op["k"].as_str().unwrap_or("");
            let o = match k {
                "tpl" if op.get("docs").is_some() => {
                    // one text holding several template documents
                    let mut text = String::new();
                    for d in op["docs"].as_array().cloned().unwrap_or_default() {
                        let items: Vec<String> = d.as_array().map(|a| a.iter().map(|e| format!("{}: {}", yq(e[0].as_str().unwrap_or("")), yq(e[1].as_str().unwrap_or("")))).collect()).unwrap_or_default();
                        text.push_str(&format!("---\n{{{}}}\n", items.join(", ")));
                    }
                    res(c.load_templates_from_str(text), |_| json!("ok"))
                }
                "tpl" => {
                    let items: Vec<String> = op["doc"]
                        .as_array()
                        .map(|a| a.iter().map(|e| format!("{}: {}", yq(e[0].as_str().unwrap_or("")), yq(e[1].as_str().unwrap_or("")))).collect())
                        .unwrap_or_default();
                    res(c.load_templates_from_str(format!("{{{}}}\n", items.join(", "))), |_| json!("ok"))
                }
                "load" => res(c.load_rules_from_str(docs_yaml(&op["docs"])), |_| json!("ok")),
                "compile" => res(c.compile(), |_| json!("ok")),
                "rules" => res(c.rules(), |rs| {
                    json!({"rules": rs.iter().map(|r| {
                        let mut ms: Vec<(String, String)> = r.matches.clone().unwrap_or_default().into_iter().collect();
                        ms.sort();
                        json!([r.name, ms])
                    }).collect::<Vec<_>>()})
                }),
                "compiled" => res(c.compiled(), |rs| json!({"compiled": rs.iter().map(|r| r.name().to_string()).collect::<Vec<_>>()})),
                "clone" => {
                    c = c.clone();
                    json!("ok")
                }
                "engine" => res(Engine::try_from(c.clone()), |e| json!({"engine": e.rules_count(), "names": e.compiled_rules().iter().map(|r| r.name().to_string()).collect::<Vec<_>>()})),
                _ => json!("badop"),
            };
            outs.push(o);
        }
        json!(outs)
    }));
    r.unwrap_or(json!("panic"))
}

fn rule(name: &str, ms: &[(&str, &str)], cond: Option<&str>) -> Value {
    let mut r = json!({"name": name, "matches": ms.iter().map(|(k, v)| json!([k, v])).collect::<Vec<_>>()});
    if let Some(c) = cond {
        r["condition"] = json!(c);
    }
    r
}

pub fn alphabet() -> Vec<Value> {
    vec![
        json!({"k": "tpl", "doc": [["t", "1"]]}),
        json!({"k": "load", "docs": [rule("A", &[("$a", ".x == '{{t}}'")], Some("$a"))]}),
        json!({"k": "load", "docs": [rule("B", &[("$a", ".y == '2'")], None)]}),
        json!({"k": "load", "docs": [rule("M", &[("$a", ".x == '1'")], Some("$a and"))]}),          // malformed condition
        json!({"k": "load", "docs": [rule("A", &[("$b", ".z == '3'")], None)]}),                     // duplicate name (different body)
        json!({"k": "load", "docs": [{"name": "A", "params": {"disable": true}, "matches": [["$q", ".q == '9'"]]}]}), // disabled, name taken or not
        json!({"k": "load", "docs": [rule("D", &[("$d", "rule(A)"), ("$e", ".w == '1'")], Some("$d or $e"))]}),   // depends on A
        json!({"k": "load", "docs": [rule("F", &[("$d", "rule(Z)")], Some("$d"))]}),                 // forward / unknown reference
        json!({"k": "load", "docs": [rule("Z", &[("$a", ".x == '1'")], None)]}),                     // the missing dependency, too late
        json!({"k": "load", "docs": [rule("C", &[("$a", ".x == '1'")], None), "bad", rule("E", &[("$a", ".x == '1'")], None)]}), // bad document in the middle
        json!({"k": "compile"}),
        json!({"k": "rules"}),
        json!({"k": "compiled"}),
        json!({"k": "clone"}),
        json!({"k": "engine"}),
    ]
}

/// rarer operations: used in the random histories and in the exhaustive ones up to length 3
pub fn extra_alphabet() -> Vec<Value> {
    let with_attack = |name: &str, id: &str| json!({"k": "load", "docs": [{"name": name, "meta": {"attack": [id]}, "matches": [["$a", ".x == '1'"]], "condition": "$a"}]});
    vec![
        json!({"k": "load", "docs": [rule("S", &[("$s", "rule(S)")], Some("$s"))]}),                                  // depends on itself
        json!({"k": "load", "docs": [rule("P", &[("$q", "rule(Q)")], Some("$q")), rule("Q", &[("$p", "rule(P)")], Some("$p"))]}), // a cycle in one call
        with_attack("U1", "T\u{661}\u{662}\u{663}\u{664}"),                                                          // Arabic-Indic digits
        with_attack("U2", "T1234.\u{ff10}\u{ff10}\u{ff11}"),                                                          // full-width digits
        with_attack("U3", "\u{212a}1234"),                                                                             // Kelvin sign for K
        with_attack("U4", "t1234.001"),                                                                                // valid, lower case
        json!({"k": "load", "docs": [rule("G", &[("a", ".x == '1'")], None)]}),                                        // operand without `$`
        json!({"k": "load", "docs": [rule("W", &[("$a", ".x == '1'")], Some("  "))]}),                                 // blank condition: not in the grammar
        json!({"k": "load", "docs": [{"name": "N", "params": {"disable": false}, "matches": [["$a", ".x == '1'"]], "condition": "$a"}]}), // explicitly enabled
        json!({"k": "load", "docs": [{"name": "O", "params": {}, "matches": [["$a", ".x == '1'"]]}, rule("O2", &[("$d", "rule(O)")], Some("$d"))]}), // empty params; a dependant
        json!({"k": "load", "docs": [rule("H", &[("$a", ".x == '1'"), ("$d", "rule(Zq)")], Some("$a"))]}),               // a `rule(..)` operand the condition never looks at: still a dependency
        json!({"k": "tpl", "doc": [["t", "9"], ["u", "2"], ["v", "3"]]}),                                              // redefines `t` (if defined) next to new names: rejected as a whole
        json!({"k": "load", "docs": [rule("UV", &[("$a", ".x == '{{u}}{{v}}{{t}}'")], Some("$a"))]}),                  // shows which of u, v, t are defined
        json!({"k": "load", "docs": [rule("A2", &[("$a", ".x == '{{t}}'")], Some("$a"))]}),                             // the same match string as rule A, another rule
        // documents with nothing in them, in the middle, at the end, alone: each is a document, none is a rule
        json!({"k": "load", "docs": [rule("C3", &[("$a", ".x == '1'")], None), "empty", rule("E3", &[("$a", ".x == '1'")], None)]}),
        json!({"k": "load", "docs": [rule("C4", &[("$a", ".x == '1'")], None), "null", rule("E4", &[("$a", ".x == '1'")], None)]}),
        json!({"k": "load", "docs": [rule("C5", &[("$a", ".x == '1'")], None), "comment", rule("E5", &[("$a", ".x == '1'")], None)]}),
        json!({"k": "load", "docs": [rule("C6", &[("$a", ".x == '1'")], None), "nulltext"]}),
        json!({"k": "load", "docs": ["empty"]}),
        json!({"k": "load", "docs": ["text", rule("E7", &[("$a", ".x == '1'")], None)]}),
        json!({"k": "load", "docs": [rule("C8", &[("$a", ".x == '1'")], None), "seq"]}),
        // a malformed ATT&CK id is malformed whatever the type of the rule carrying it
        json!({"k": "load", "docs": [{"name": "X1", "type": "filter", "meta": {"attack": ["T12x"]}, "matches": [["$a", ".x == '1'"]], "condition": "$a"}]}),
        json!({"k": "load", "docs": [{"name": "X2", "type": "dependency", "meta": {"attack": ["1234"]}, "matches": [["$a", ".x == '1'"]], "condition": "$a"}]}),
        json!({"k": "load", "docs": [{"name": "X3", "type": "detection", "meta": {"attack": ["T+1"]}, "matches": [["$a", ".x == '1'"]], "condition": "$a"}]}),
        json!({"k": "load", "docs": [{"name": "X4", "type": "filter", "meta": {"attack": ["t1234.001"], "tags": ["x"]}, "matches": [["$a", ".x == '1'"]], "condition": "$a"}]}),
        // a duplicate in the middle of a text: the call stops there, what follows is not loaded
        json!({"k": "load", "docs": [rule("K1", &[("$a", ".x == '1'")], None), rule("A", &[("$a", ".x == '9'")], None), rule("K2", &[("$a", ".x == '1'")], None), rule("K3", &[("$a", ".x == '1'")], None)]}),
        json!({"k": "load", "docs": [rule("K4", &[("$a", ".x == '1'")], None), rule("K4", &[("$a", ".x == '2'")], None), rule("K5", &[("$a", ".x == '1'")], None)]}),
        // an operand name without `$` next to regular ones, wherever it sorts
        json!({"k": "load", "docs": [rule("B1", &[("$a", ".x == '1'"), ("#ip", ".y == '1'")], Some("$a"))]}),
        json!({"k": "load", "docs": [rule("B2", &[("$a", ".x == '1'"), (" $ip", ".y == '1'")], Some("$a"))]}),
        json!({"k": "load", "docs": [rule("B3", &[("$a", ".x == '1'"), ("", ".y == '1'")], None)]}),
        json!({"k": "load", "docs": [rule("B4", &[("$a", ".x == '1'"), ("~ip", ".y == '1'"), ("$z", ".z == '1'")], Some("$a or $z"))]}),
        json!({"k": "load", "docs": [rule("B5", &[("$a", ".x == '1'"), ("ip", ".y == '1'")], Some("$a"))]}),
        // non-ASCII text around a placeholder, with a template defined or not
        json!({"k": "load", "docs": [rule("NA", &[("$a", ".x == 'caf\u{e9}{{t}}cr\u{e8}me \u{65e5}\u{672c}'")], Some("$a"))]}),
        // rule names the `rule(..)` grammar cannot spell, and rules referring to them: the reference is malformed
        json!({"k": "load", "docs": [{"name": "a/b", "matches": [["$a", ".x == '1'"]]}, rule("R1", &[("$d", "rule(a/b)")], Some("$d"))]}),
        json!({"k": "load", "docs": [{"name": "d\u{e9}p", "matches": [["$a", ".x == '1'"]]}, rule("R2", &[("$d", "rule(d\u{e9}p)")], Some("$d"))]}),
        json!({"k": "load", "docs": [{"name": "a:b", "matches": [["$a", ".x == '1'"]]}, {"name": "x y", "matches": [["$a", ".x == '1'"]]}, rule("R3", &[("$d", "rule(a:b)"), ("$e", "rule(x y)")], Some("$d or $e"))]}),
        json!({"k": "load", "docs": [{"name": "$a", "matches": [["$a", ".x == '1'"]]}, rule("R4", &[("$d", "rule($a)")], Some("$d"))]}),
        json!({"k": "load", "docs": [{"name": "a.b-c_d", "matches": [["$a", ".x == '1'"]]}, rule("R5", &[("$d", "rule(a.b-c_d)")], Some("$d"))]}),
        json!({"k": "load", "docs": [{"name": "V", "meta": {"attack": ["T4294967296", "T1059.99999999999999999999"]}, "matches": [["$a", ".x == '1'"]]}]}), // id numbers beyond u32/u64
    ]
}

/// histories about dependency checking on a compiler that is asked more than once, cloned, and loaded further
pub fn gen_reference_histories(out: &mut dyn FnMut(Value)) {
    let a = vec![
        json!({"k": "load", "docs": [rule("A", &[("$a", ".x == '1'")], Some("$a"))]}),
        json!({"k": "load", "docs": [rule("F", &[("$d", "rule(Z)")], Some("$d"))]}),
        json!({"k": "load", "docs": [rule("Z", &[("$a", ".x == '1'")], None)]}),
        json!({"k": "load", "docs": [rule("S", &[("$s", "rule(S)")], Some("$s"))]}),
        json!({"k": "load", "docs": [rule("D", &[("$d", "rule(A)")], Some("$d"))]}),
        json!({"k": "load", "docs": [rule("A", &[("$b", ".z == '3'")], None)]}),
        json!({"k": "compile"}),
        json!({"k": "clone"}),
        json!({"k": "engine"}),
    ];
    let tail = vec![json!({"k": "rules"}), json!({"k": "compiled"}), json!({"k": "engine"})];
    for n in 1..=4usize {
        let mut idx = vec![0usize; n];
        'outer: loop {
            let mut ops: Vec<Value> = idx.iter().map(|i| a[*i].clone()).collect();
            ops.extend(tail.clone());
            out(json!({"op": "history", "ops": ops, "tag": "references, repeated compile, clones: exhaustive length <= 4", "nt": true}));
            let mut k = n;
            loop {
                if k == 0 {
                    break 'outer;
                }
                k -= 1;
                if idx[k] + 1 < a.len() {
                    idx[k] += 1;
                    for x in idx.iter_mut().skip(k + 1) {
                        *x = 0;
                    }
                    break;
                }
            }
        }
    }
}

pub fn gen(tier: &str, seed: u64, out: &mut dyn FnMut(Value)) {
    gen_reference_histories(out);
    let alpha = alphabet();
    let thorough = tier == "thorough";
    let maxlen = if thorough { 5 } else { 4 };
    // every history ends with the three queries so that the final state is observed
    let tail = vec![json!({"k": "rules"}), json!({"k": "compiled"}), json!({"k": "engine"})];
    for n in 0..=maxlen {
        let mut idx = vec![0usize; n];
        loop {
            let mut ops: Vec<Value> = idx.iter().map(|i| alpha[*i].clone()).collect();
            ops.extend(tail.clone());
            let nt = idx.iter().any(|i| *i >= 1 && *i <= 9);
            out(json!({"op": "history", "ops": ops, "tag": format!("exhaustive length {n}"), "nt": nt}));
            let mut k = n;
            let mut done = n == 0;
            while k > 0 {
                k -= 1;
                if idx[k] + 1 < alpha.len() {
                    idx[k] += 1;
                    for x in idx.iter_mut().skip(k + 1) {
                        *x = 0;
                    }
                    break;
                }
                if k == 0 {
                    done = true;
                }
            }
            if done {
                break;
            }
        }
    }
    // the rarer operations: every history of length <= 2 over the full alphabet that uses at least one of them,
    // then mixed into the random histories
    let mut full = alpha.clone();
    full.extend(extra_alphabet());
    let na = alpha.len();
    for i in 0..full.len() {
        if i >= na {
            let mut ops = vec![full[i].clone()];
            ops.extend(tail.clone());
            out(json!({"op": "history", "ops": ops, "tag": "rare operations, length 1..3", "nt": true}));
        }
        for j in 0..full.len() {
            if i >= na || j >= na {
                let mut ops = vec![full[i].clone(), full[j].clone()];
                ops.extend(tail.clone());
                out(json!({"op": "history", "ops": ops, "tag": "rare operations, length 1..3", "nt": true}));
                if thorough {
                    for k in 0..full.len() {
                        let mut ops = vec![full[i].clone(), full[j].clone(), full[k].clone()];
                        ops.extend(tail.clone());
                        out(json!({"op": "history", "ops": ops, "tag": "rare operations, length 1..3", "nt": true}));
                    }
                }
            }
        }
    }
    // templates and the rules that use them: every history of length <= 4 over a small alphabet of its own (a template
    // document is accepted or rejected as a whole; a rule is rewritten with what is defined when it is loaded)
    {
        let talpha = vec![
            json!({"k": "tpl", "doc": [["t", "1"]]}),
            json!({"k": "tpl", "doc": [["t", "9"], ["u", "2"], ["v", "3"]]}),
            json!({"k": "tpl", "doc": [["u", "5"]]}),
            json!({"k": "tpl", "doc": [["v", "{{t}}"], ["w", "{"]]}),
            json!({"k": "load", "docs": [rule("UV", &[("$a", ".x == '{{u}}{{v}}{{t}}{{w}}'")], Some("$a"))]}),
            json!({"k": "load", "docs": [rule("A", &[("$a", ".x == 'a{{{t}}}b'"), ("$b", ".y == '{{{{t}}}}{{t}}}'")], Some("$a or $b"))]}),
            json!({"k": "compile"}),
            // several template documents in one text: the documents before a rejected one stay loaded
            json!({"k": "tpl", "docs": [[["u", "7"]], [["t", "8"], ["v", "6"]]]}),
            json!({"k": "tpl", "docs": [[["w", "5"]], [["w", "4"]], [["v", "3"]]]}),
            // malformed as loaded unless `p` is defined at that moment; a template arriving later does not repair it
            json!({"k": "load", "docs": [rule("P", &[("$a", "{{p}} == 'x'")], Some("$a"))]}),
            json!({"k": "tpl", "doc": [["p", ".x"]]}),
        ];
        for n in 1..=4usize {
            let mut idx = vec![0usize; n];
            'outer: loop {
                let mut ops: Vec<Value> = idx.iter().map(|i| talpha[*i].clone()).collect();
                ops.extend(tail.clone());
                out(json!({"op": "history", "ops": ops, "tag": "templates and rules, exhaustive length <= 4", "nt": true}));
                let mut k = n;
                loop {
                    if k == 0 {
                        break 'outer;
                    }
                    k -= 1;
                    if idx[k] + 1 < talpha.len() {
                        idx[k] += 1;
                        for x in idx.iter_mut().skip(k + 1) {
                            *x = 0;
                        }
                        break;
                    }
                }
            }
        }
    }
    let alpha = full;
    let mut rng = Rng::new(seed);
    let n = if thorough { 200000 } else { 12000 };
    for _ in 0..n {
        let len = 5 + rng.below(21);
        let mut ops: Vec<Value> = (0..len).map(|_| rng.pick(&alpha).clone()).collect();
        ops.extend(tail.clone());
        out(json!({"op": "history", "ops": ops, "tag": "random length 5..25", "nt": true}));
    }
}
