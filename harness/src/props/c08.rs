//! C08: struct definitions are generated, written out as a Rust program that derives `FieldGetter` with
//! the real macro, compiled and run; the answers of the generated getters for every path are compared with
//! the Lean model of the macro.
use crate::prng::Rng;
use serde_json::{json, Value};

const SCALARS: [&str; 18] = ["i8", "i32", "i64", "u8", "u64", "f64", "bool", "String", "isize", "PathBuf", "i16", "u16", "u32", "usize", "f32", "IpAddr", "IpAddr", "Cow<'static, str>"];

#[derive(Clone)]
enum Ty {
    Scalar(&'static str),
    Opt(Box<Ty>),
    Map(&'static str),
    Struct(usize),
    Generic(Box<Ty>),
}

#[derive(Clone)]
struct Attr {
    getter: bool,
    metas: Vec<Value>, // "skip" | {"rename": s} | "other"
    text: String,
}

#[derive(Clone)]
struct Field {
    name: String,
    ty: Ty,
    attrs: Vec<Attr>,
}

#[derive(Clone)]
struct StructDef {
    id: usize,
    use_serde: bool,
    fields: Vec<Field>,
}

/// a scalar member; `IpAddr` has no `Default` (the generated structs derive it), so it is held in an `Option`
fn plain_scalar(rng: &mut Rng) -> Ty {
    let s = *rng.pick(&SCALARS);
    if s == "IpAddr" {
        Ty::Opt(Box::new(Ty::Scalar(s)))
    } else {
        Ty::Scalar(s)
    }
}

fn ty_src(t: &Ty, generic_name: &str) -> String {
    match t {
        Ty::Scalar(s) => s.to_string(),
        Ty::Opt(t) => format!("Option<{}>", ty_src(t, generic_name)),
        Ty::Map(s) => format!("HashMap<String, {s}>"),
        Ty::Struct(i) => format!("S{i}"),
        Ty::Generic(_) => generic_name.to_string(),
    }
}

fn concrete_src(t: &Ty, defs: &[StructDef]) -> String {
    match t {
        Ty::Scalar(s) => s.to_string(),
        Ty::Opt(t) => format!("Option<{}>", concrete_src(t, defs)),
        Ty::Map(s) => format!("HashMap<String, {s}>"),
        Ty::Struct(i) => struct_ty(&defs[*i], defs),
        Ty::Generic(t) => concrete_src(t, defs),
    }
}

fn struct_ty(d: &StructDef, defs: &[StructDef]) -> String {
    match d.fields.iter().find_map(|f| if let Ty::Generic(t) = &f.ty { Some(t) } else { None }) {
        Some(t) => format!("S{}<{}>", d.id, concrete_src(t, defs)),
        None => format!("S{}", d.id),
    }
}

/// the text of an address as RFC 5952 writes it (what `Display` for `IpAddr` is documented to produce), computed
/// here from the parsed octets and segments, not through the crate under test
fn ip_text(v: &str) -> String {
    match v.parse::<std::net::IpAddr>().unwrap() {
        std::net::IpAddr::V4(a) => { let o = a.octets(); format!("{}.{}.{}.{}", o[0], o[1], o[2], o[3]) }
        std::net::IpAddr::V6(a) => a.to_string(),
    }
}

fn scalar_value(rng: &mut Rng, s: &str) -> (String, Value) {
    match s {
        "i8" => {
            let v = rng.range(-128, 127);
            (format!("{v}i8"), if v < 0 { json!({ "i": v }) } else { json!({ "u": v }) })
        }
        "i32" => {
            let v = *rng.pick(&[0i64, -1, 7, i32::MIN as i64, i32::MAX as i64]);
            (format!("{v}i32"), if v < 0 { json!({ "i": v }) } else { json!({ "u": v }) })
        }
        "i64" => {
            let v = *rng.pick(&[0i64, -5, 42, i64::MIN, i64::MAX]);
            (format!("{v}i64"), if v < 0 { json!({ "i": v }) } else { json!({ "u": v }) })
        }
        "isize" => {
            let v = *rng.pick(&[3i64, -3]);
            (format!("{v}isize"), if v < 0 { json!({ "i": v }) } else { json!({ "u": v }) })
        }
        "i16" => {
            let v = *rng.pick(&[0i64, -2, i16::MIN as i64, i16::MAX as i64]);
            (format!("{v}i16"), if v < 0 { json!({ "i": v }) } else { json!({ "u": v }) })
        }
        "u16" | "u32" | "usize" => {
            let v = *rng.pick(&[0u64, 11, 65535]);
            (format!("{v}{s}"), json!({ "u": v }))
        }
        "f32" => {
            let v = *rng.pick(&[1.5f32, -0.25, 0.1]);
            (format!("{v:?}f32"), json!({"f": format!("{:016x}", (v as f64).to_bits())}))
        }
        "IpAddr" => {
            // an address enters as its own text: an IPv4-mapped IPv6 address is not the IPv4 address
            let v = *rng.pick(&["10.0.0.1", "::ffff:10.0.0.1", "::ffff:192.168.1.1", "::ffff:a00:1", "::1", "::", "fe80::1", "::1.2.3.4", "2001:db8::ffff:10.0.0.1", "0.0.0.0", "::ffff:0.0.0.0"]);
            let txt = v.parse::<std::net::IpAddr>().unwrap();
            let _ = txt;
            (format!("{:?}.parse::<IpAddr>().unwrap()", v), json!({ "s": ip_text(v) }))
        }
        "Cow<'static, str>" => {
            let v = *rng.pick(&["", "cow", "c.d"]);
            (format!("Cow::Borrowed({:?})", v), json!({ "s": v }))
        }
        "u8" => {
            let v = rng.below(256);
            (format!("{v}u8"), json!({ "u": v }))
        }
        "u64" => {
            let v = *rng.pick(&[0u64, 9, u64::MAX]);
            (format!("{v}u64"), json!({ "u": v }))
        }
        "f64" => {
            let v = *rng.pick(&[1.5f64, -0.25, 0.0]);
            (format!("{v:?}f64"), json!({"f": format!("{:016x}", v.to_bits())}))
        }
        "bool" => {
            let v = rng.chance(1, 2);
            (format!("{v}"), json!({ "b": v }))
        }
        "PathBuf" => {
            // file paths enter as their lossy text: a path that is not valid UTF-8 still resolves
            if rng.chance(1, 2) {
                ("PathBuf::from(<std::ffi::OsString as std::os::unix::ffi::OsStringExt>::from_vec(vec![0x2f, 0x74, 0xff, 0x78]))".into(), json!({ "s": "/t\u{fffd}x" }))
            } else {
                let v = *rng.pick(&["/bin/sh", "", "rel/\u{e9}", "C:\\Windows\\cmd.exe", "/tmp/a\\b", "\\\\host\\share", "a\\"]);
                (format!("PathBuf::from({:?})", v), json!({ "s": v }))
            }
        }
        _ => {
            let v = *rng.pick(&["", "txt", "a.b", "\u{e9}"]);
            (format!("{:?}.to_string()", v), json!({ "s": v }))
        }
    }
}

/// (Rust expression, model value)
fn value_of(rng: &mut Rng, t: &Ty, defs: &[StructDef]) -> (String, Value) {
    match t {
        Ty::Scalar(s) => {
            let (src, v) = scalar_value(rng, s);
            (src, json!({ "scalar": v }))
        }
        Ty::Opt(t) => {
            if rng.chance(1, 3) {
                ("None".into(), json!("optNone"))
            } else {
                let (s, v) = value_of(rng, t, defs);
                (format!("Some({s})"), json!({ "optSome": v }))
            }
        }
        Ty::Map(s) => {
            let mut items = vec![];
            let mut kvs = vec![];
            for k in ["k", "k.j", "with space", " pad", "pad ", "443", "-c", "0"] {
                if rng.chance(2, 3) {
                    let (src, v) = scalar_value(rng, s);
                    items.push(format!("({:?}.to_string(), {src})", k));
                    kvs.push(json!([k, v]));
                }
            }
            (format!("HashMap::from([{}])", items.join(", ")), json!({ "map": kvs }))
        }
        Ty::Struct(i) => struct_value(rng, &defs[*i], defs),
        Ty::Generic(t) => value_of(rng, t, defs),
    }
}

fn struct_value(rng: &mut Rng, d: &StructDef, defs: &[StructDef]) -> (String, Value) {
    let mut parts = vec![];
    let mut fields = vec![];
    for f in &d.fields {
        let (src, v) = value_of(rng, &f.ty, defs);
        parts.push(format!("{}: {src}", f.name));
        let attrs: Vec<Value> = f.attrs.iter().map(|a| json!({"g": a.getter, "metas": a.metas})).collect();
        fields.push(json!([{"name": f.name, "attrs": attrs}, v]));
    }
    (format!("S{} {{ {} }}", d.id, parts.join(", ")), json!({"struct": {"us": d.use_serde, "fields": fields}}))
}

fn random_attrs(rng: &mut Rng, sid: usize, fidx: usize) -> Vec<Attr> {
    let mut v = vec![];
    let n = match rng.below(6) {
        0 | 1 => 0,
        2 | 3 => 1,
        4 => 2,
        _ => 3,
    };
    for k in 0..n {
        let a = match rng.below(8) {
            6 => {
                // `skip` sharing its attribute with another meta, in either order, or with a trailing comma
                let n = *rng.pick(&["alias", "g", "tok"]);
                match rng.below(3) {
                    0 => Attr { getter: true, metas: vec![json!({ "rename": n }), json!("skip")], text: format!("#[getter(rename = {:?}, skip)]", n) },
                    1 => Attr { getter: true, metas: vec![json!("skip"), json!({ "rename": n })], text: format!("#[getter(skip, rename = {:?})]", n) },
                    _ => Attr { getter: true, metas: vec![json!("skip")], text: "#[getter(skip,)]".into() },
                }
            }
            7 => {
                let n = *rng.pick(&["alias", "g", "f0", "f1"]);
                Attr { getter: true, metas: vec![json!({ "rename": n })], text: format!("#[getter(rename = {:?},)]", n) }
            }
            0 => Attr { getter: true, metas: vec![json!("skip")], text: "#[getter(skip)]".into() },
            1 => {
                let n = *rng.pick(&["alias", "g", "f0", "f1", "other name", "2xx", "-x", "0"]);
                Attr { getter: true, metas: vec![json!({ "rename": n })], text: format!("#[getter(rename = {:?})]", n) }
            }
            2 | 3 => {
                // serde renames must be unique within a struct
                let n = match rng.below(4) {
                    0 => format!("sr.{sid}.{fidx}.{k}"),
                    1 => format!("sr {sid} {fidx} {k}"),
                    _ => format!("sr{sid}_{fidx}_{k}"),
                };
                Attr { getter: false, metas: vec![json!({ "rename": n })], text: format!("#[serde(rename = {:?})]", n) }
            }
            4 => {
                if rng.chance(1, 2) {
                    Attr { getter: false, metas: vec![json!("other")], text: "#[serde(default)]".into() }
                } else {
                    // `skip` in a serde attribute is serde's business: the getter still answers
                    Attr { getter: false, metas: vec![json!("skip")], text: "#[serde(skip)]".into() }
                }
            }
            _ => Attr { getter: false, metas: vec![json!("other")], text: "#[serde(alias = \"zz\")]".into() },
        };
        // serde rejects a repeated attribute
        if !a.getter && v.iter().any(|x: &Attr| x.text == a.text) {
            continue;
        }
        // at most one serde rename per field (serde rejects duplicates)
        if !a.getter && a.text.contains("rename") && v.iter().any(|x: &Attr| !x.getter && x.text.contains("rename")) {
            continue;
        }
        v.push(a);
    }
    v
}

fn gen_defs(rng: &mut Rng, n: usize) -> Vec<StructDef> {
    let mut defs: Vec<StructDef> = vec![];
    for id in 0..n {
        let nf = 1 + rng.below(5);
        let mut fields = vec![];
        let mut has_generic = false;
        for fi in 0..nf {
            let ty = match rng.below(10) {
                0..=3 => plain_scalar(rng),
                4 => Ty::Opt(Box::new(Ty::Scalar(*rng.pick(&SCALARS)))),
                5 => Ty::Map(*rng.pick(&["u8", "String", "i64", "bool"])),
                6 | 7 if id > 0 => {
                    let j = rng.below(id);
                    // nested generic structs complicate bounds: nest only non-generic ones
                    if defs[j].fields.iter().any(|f| matches!(f.ty, Ty::Generic(_))) {
                        Ty::Scalar("u8")
                    } else if rng.chance(1, 3) {
                        Ty::Opt(Box::new(Ty::Struct(j)))
                    } else {
                        Ty::Struct(j)
                    }
                }
                8 if !has_generic => {
                    has_generic = true;
                    let inner = if id > 0 && rng.chance(1, 2) {
                        let j = rng.below(id);
                        if defs[j].fields.iter().any(|f| matches!(f.ty, Ty::Generic(_))) { Ty::Scalar("i64") } else { Ty::Struct(j) }
                    } else {
                        plain_scalar(rng)
                    };
                    Ty::Generic(Box::new(inner))
                }
                _ => plain_scalar(rng),
            };
            let attrs = if matches!(ty, Ty::Generic(_)) {
                // `serde(default)` on a type parameter needs extra bounds: keep getter attributes only
                random_attrs(rng, id, fi).into_iter().filter(|a| a.getter).collect()
            } else {
                random_attrs(rng, id, fi)
            };
            fields.push(Field { name: format!("f{fi}"), ty, attrs });
        }
        defs.push(StructDef { id, use_serde: rng.chance(1, 2), fields });
    }
    defs
}

fn paths_for(rng: &mut Rng, d: &StructDef, defs: &[StructDef]) -> Vec<Vec<String>> {
    let mut names: Vec<String> = vec!["nope".into(), "".into(), "alias".into(), "g".into(), "zz".into()];
    fn collect(d: &StructDef, defs: &[StructDef], names: &mut Vec<String>) {
        for f in &d.fields {
            names.push(f.name.clone());
            for a in &f.attrs {
                for m in &a.metas {
                    if let Some(r) = m.get("rename").and_then(|r| r.as_str()) {
                        names.push(r.to_string());
                    }
                }
            }
            let mut t = &f.ty;
            loop {
                match t {
                    Ty::Opt(i) | Ty::Generic(i) => t = i,
                    Ty::Struct(j) => {
                        collect(&defs[*j], defs, names);
                        break;
                    }
                    _ => break,
                }
            }
        }
    }
    collect(d, defs, &mut names);
    names.extend(["k".to_string(), "k.j".to_string(), "with space".to_string(), " pad".to_string(), "pad ".to_string(), "pad".to_string()]);
    names.sort();
    names.dedup();
    let mut paths: Vec<Vec<String>> = vec![vec![]];
    for n in &names {
        paths.push(vec![n.clone()]);
    }
    for _ in 0..120 {
        let len = 2 + rng.below(3);
        paths.push((0..len).map(|_| rng.pick(&names).clone()).collect());
    }
    paths.sort();
    paths.dedup();
    paths
}

pub fn gen(tier: &str, seed: u64, out: &mut dyn FnMut(Value)) {
    let mut rng = Rng::new(seed);
    let n = if tier == "thorough" { 300 } else { 60 };
    let defs = gen_defs(&mut rng, n);
    let mut src = String::from(include_str!("c08_header.txt"));
    for d in &defs {
        let generic = d.fields.iter().any(|f| matches!(f.ty, Ty::Generic(_)));
        src.push_str("#[derive(FieldGetter, Serialize, Deserialize, Default)]\n");
        if d.use_serde {
            src.push_str("#[getter(use_serde_rename)]\n");
        }
        src.push_str(&format!("struct S{}{} {{\n", d.id, if generic { "<T>" } else { "" }));
        for f in &d.fields {
            for a in &f.attrs {
                src.push_str(&format!("    {}\n", a.text));
            }
            src.push_str(&format!("    {}: {},\n", f.name, ty_src(&f.ty, "T")));
        }
        src.push_str("}\n\n");
    }
    src.push_str("fn main() {\n");
    let reps = if tier == "thorough" { 3 } else { 2 };
    let mut cid = 0u64;
    for d in &defs {
        for _ in 0..reps {
            let (vsrc, vmodel) = struct_value(&mut rng, d, &defs);
            let paths = paths_for(&mut rng, d, &defs);
            let psrc: Vec<String> = paths.iter().map(|p| format!("&[{}]", p.iter().map(|s| format!("{:?}", s)).collect::<Vec<_>>().join(", "))).collect();
            src.push_str(&format!("    {{ let v: {} = {}; run({}, &v, &[{}]); }}\n", struct_ty(d, &defs), vsrc, cid, psrc.join(", ")));
            out(json!({"op": "getter", "value": vmodel, "paths": paths, "tag": format!("{} fields", d.fields.len()), "nt": true, "fixed_cid": cid}));
            cid += 1;
        }
    }
    src.push_str("}\n");
    let dir = std::env::var("VERIF_C08_DIR").unwrap_or_else(|_| "/verif/harness/derive_cases".into());
    let _ = std::fs::create_dir_all(format!("{dir}/src"));
    std::fs::write(format!("{dir}/src/main.rs"), src).expect("write generated program");
}
