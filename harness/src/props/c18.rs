//! C18: `XPath::parse` on every string over {. " a 1 _ - space} up to a length bound, random longer
//! paths, the equality / hash laws on pairs, and lookups of the parsed segments through a scan.
use crate::prng::Rng;
use gene::XPath;
use serde_json::{json, Value};
use std::collections::hash_map::DefaultHasher;
use std::hash::{Hash, Hasher};
use std::panic::catch_unwind;

fn parse_json(s: &str) -> Value {
    let s2 = s.to_string();
    match catch_unwind(move || XPath::parse(&s2)) {
        Err(_) => json!("panic"),
        Ok(Err(_)) => match <XPath as std::str::FromStr>::from_str(s) {
            Err(_) => Value::Null,
            Ok(q) => json!({"from_str-accepts": {"path": q.to_string_lossy(), "segments": q.segments()}}),
        },
        Ok(Ok(p)) => {
            // the other public way in (`FromStr`) must give the same path
            match <XPath as std::str::FromStr>::from_str(s) {
                Ok(q) if q == p && q.segments() == p.segments() => json!({"path": p.to_string_lossy(), "segments": p.segments()}),
                Ok(q) => json!({"from_str-differs": {"path": q.to_string_lossy(), "segments": q.segments()}}),
                Err(_) => json!({"from_str-rejects": s}),
            }
        }
    }
}

fn h(p: &XPath) -> u64 {
    let mut s = DefaultHasher::new();
    p.hash(&mut s);
    s.finish()
}

pub fn exec(case: &Value) -> Value {
    match case["op"].as_str().unwrap_or("") {
        "xpath" => parse_json(case["s"].as_str().unwrap_or("")),
        "xpath_pair" => {
            let a = case["a"].as_str().unwrap_or("").to_string();
            let b = case["b"].as_str().unwrap_or("").to_string();
            // the second path is parsed on another thread (equality and hashing are about the texts, wherever the paths
            // were made), and each is also obtained by `clone_from` into the other's storage
            let b2 = b.clone();
            let other = std::thread::spawn(move || catch_unwind(move || XPath::parse(&b2))).join();
            match catch_unwind(move || (XPath::parse(&a), XPath::parse(&b))) {
                Err(_) => json!("panic"),
                Ok((Ok(p), Ok(q))) => {
                    let eq = p == q;
                    match other {
                        Ok(Ok(Ok(q2))) => {
                            if (q2 == q) != true || (p == q2) != eq || h(&q2) != h(&q) {
                                return json!({"parsed-on-another-thread": {"eq_same_text": q2 == q, "eq": p == q2, "same_hash": h(&q2) == h(&q)}});
                            }
                        }
                        _ => return json!("other-thread-failed"),
                    }
                    let mut into_p = p.clone();
                    into_p.clone_from(&q);
                    let mut into_q = q.clone();
                    into_q.clone_from(&p);
                    if into_p != q || into_p.segments() != q.segments() || into_p.to_string_lossy() != q.to_string_lossy() || into_q != p || into_q.segments() != p.segments() {
                        return json!({"clone_from-differs": {"segments": into_p.segments(), "expected": q.segments()}});
                    }
                    // equal paths must hash equally; unequal ones may collide, so only the implication is reported
                    json!({"eq": eq, "hash_ok": !eq || h(&p) == h(&q)})
                }
                Ok(_) => Value::Null,
            }
        }
        _ => json!({"error": "bad op"}),
    }
}

const ALPHA: [char; 7] = ['.', '"', 'a', '1', '_', '-', ' '];

fn all_strings(maxlen: usize, out: &mut dyn FnMut(String)) {
    let mut cur: Vec<usize> = vec![];
    loop {
        out(cur.iter().map(|i| ALPHA[*i]).collect());
        // next
        let mut k = cur.len();
        loop {
            if k == 0 {
                if cur.len() == maxlen {
                    return;
                }
                cur = vec![0; cur.len() + 1];
                break;
            }
            k -= 1;
            if cur[k] + 1 < ALPHA.len() {
                cur[k] += 1;
                for x in cur.iter_mut().skip(k + 1) {
                    *x = 0;
                }
                break;
            }
        }
    }
}

pub fn random_path(rng: &mut Rng) -> String {
    let n = 1 + rng.below(12);
    let mut s = String::new();
    for _ in 0..n {
        s.push('.');
        let quoted = rng.chance(1, 3);
        let len = 1 + rng.below(6);
        let pool: &[char] = if quoted { &['a', 'Z', '0', '9', '_', '-', ' ', '.'] } else { &['a', 'z', 'A', '7', '_', '-'] };
        let body: String = (0..len).map(|_| *rng.pick(pool)).collect();
        if quoted {
            s.push('"');
            s.push_str(&body);
            s.push('"');
        } else {
            s.push_str(&body);
        }
    }
    s
}

fn mutate(rng: &mut Rng, s: &str) -> String {
    let mut cs: Vec<char> = s.chars().collect();
    let extra = ['.', '"', ' ', 'x', '\u{e9}', '@', '=', '\n', '$'];
    match rng.below(4) {
        0 if !cs.is_empty() => {
            let i = rng.below(cs.len());
            cs.remove(i);
        }
        1 => {
            let i = rng.below(cs.len() + 1);
            cs.insert(i, *rng.pick(&extra));
        }
        2 if !cs.is_empty() => {
            let i = rng.below(cs.len());
            cs[i] = *rng.pick(&extra);
        }
        _ => cs.push(*rng.pick(&extra)),
    }
    cs.into_iter().collect()
}

pub fn gen(tier: &str, seed: u64, out: &mut dyn FnMut(Value)) {
    let maxlen = if tier == "thorough" { 7 } else { 5 };
    all_strings(maxlen, &mut |s| {
        let nt = s.starts_with('.');
        out(json!({"op": "xpath", "s": s, "tag": "exhaustive", "nt": nt}));
    });
    let mut rng = Rng::new(seed);
    let n = if tier == "thorough" { 200000 } else { 16000 };
    let mut sample = vec![];
    for i in 0..n {
        let p = random_path(&mut rng);
        if i % 2 == 0 {
            out(json!({"op": "xpath", "s": p, "tag": "random_valid", "nt": true}));
        } else {
            let m = mutate(&mut rng, &p);
            out(json!({"op": "xpath", "s": m, "tag": "random_mutated", "nt": true}));
        }
        if sample.len() < 120 {
            sample.push(p);
        }
    }
    // long paths: up to 100 segments (nothing may be dropped), quoted and unquoted
    for n in [8usize, 16, 31, 32, 33, 40, 63, 64, 65, 100] {
        let plain: String = (0..n).map(|i| format!(".n{i}")).collect();
        let quoted: String = (0..n).map(|i| if i % 3 == 0 { format!(".\"q {i}\"") } else { format!(".n{i}") }).collect();
        out(json!({"op": "xpath", "s": plain, "tag": "long paths", "nt": true}));
        out(json!({"op": "xpath", "s": quoted, "tag": "long paths", "nt": true}));
    }
    // equality: two paths of the same length differing in exactly one character, at every position, for
    // lengths 2..40 (word-wise or chunk-wise comparisons that skip a remainder show here); and each path with itself
    for len in 2usize..=40 {
        let body: Vec<char> = (0..len - 1).map(|i| if i % 5 == 4 { '.' } else { (b'a' + ((i * 7 + len) % 26) as u8) as char }).collect();
        let body: Vec<char> = body.iter().enumerate().map(|(i, c)| if *c == '.' && (i + 1 == body.len() || i == 0) { 'x' } else { *c }).collect();
        let p: String = std::iter::once('.').chain(body.iter().cloned()).collect();
        out(json!({"op": "xpath_pair", "a": p, "b": p, "tag": "pair: one character apart", "nt": true}));
        for i in 0..body.len() {
            if body[i] == '.' {
                continue;
            }
            let mut b2 = body.clone();
            b2[i] = if body[i] == 'q' { 'r' } else { 'q' };
            let q: String = std::iter::once('.').chain(b2.iter().cloned()).collect();
            out(json!({"op": "xpath_pair", "a": p, "b": q, "tag": "pair: one character apart", "nt": true}));
        }
    }
    // two texts of the same length that differ in two neighbouring characters by (-1, +m) or (+1, -m): what collides under
    // a polynomial fingerprint `h * m + byte` (paths are equal exactly when their texts are, whatever a hash says)
    {
        let ok = |c: u8| c.is_ascii_alphanumeric() || c == b'_' || c == b'-';
        for base in [".data.md5", ".info.10.name", ".Af", ".a-R", ".proc.exe0", ".n5d.q7"] {
            let b = base.as_bytes();
            for i in 1..b.len() - 1 {
                if !ok(b[i]) || !ok(b[i + 1]) {
                    continue;
                }
                for m in 2i32..=64 {
                    for (d1, d2) in [(-1i32, m), (1, -m)] {
                        let c1 = b[i] as i32 + d1;
                        let c2 = b[i + 1] as i32 + d2;
                        if (0..128).contains(&c1) && (0..128).contains(&c2) && ok(c1 as u8) && ok(c2 as u8) {
                            let mut v = b.to_vec();
                            v[i] = c1 as u8;
                            v[i + 1] = c2 as u8;
                            out(json!({"op": "xpath_pair", "a": base, "b": String::from_utf8(v).unwrap(), "tag": "pair: two neighbouring characters apart", "nt": true}));
                        }
                    }
                }
            }
        }
    }
    // the same segments spelled with the quotes elsewhere: equal segment lists, equal text lengths, different texts
    // (paths are equal exactly when their texts are)
    for segs in [vec!["data", "exe"], vec!["a", "b", "c"], vec!["x", "y"], vec!["ab", "cd", "ef", "gh"], vec!["n0", "n1"]] {
        let k = segs.len();
        let spell = |m: u32| -> String { segs.iter().enumerate().map(|(i, s)| if m & (1 << i) != 0 { format!(".\"{s}\"") } else { format!(".{s}") }).collect() };
        for m1 in 0..(1u32 << k) {
            for m2 in 0..(1u32 << k) {
                out(json!({"op": "xpath_pair", "a": spell(m1), "b": spell(m2), "tag": "pair: same segments, quotes elsewhere", "nt": true}));
            }
        }
    }
    // the segments a path spells are what a rule's field test looks up: scans against events served by derived
    // getters (maps with dotted and padded keys, nested structs, aliases)
    crate::props::engine::gen_derived(&mut rng, if tier == "thorough" { 5000 } else { 500 }, "lookups through derived getters", out);
    // the left path of `a == @b` is the path as spelled, whatever its last letters and wherever the blanks are
    {
        use crate::dsl::{Form, Operand, SRule};
        use crate::event::{event_to_json, DynEvent};
        let fv = |s: &str| gene::FieldValue::String(s.into());
        let events = vec![
            DynEvent { source: "s".into(), id: 1, fields: vec![(vec!["axis".into()], fv("1")), (vec!["ax".into()], fv("2")), (vec!["is".into()], fv("1")), (vec!["this".into()], fv("2")), (vec!["th".into()], fv("1")), (vec!["r".into()], fv("1")), (vec!["d".into(), "is".into()], fv("1")), (vec!["d".into()], fv("2"))] },
            DynEvent { source: "s".into(), id: 1, fields: vec![(vec!["axis".into()], fv("2")), (vec!["ax".into()], fv("1")), (vec!["is".into()], fv("2")), (vec!["this".into()], fv("1")), (vec!["th".into()], fv("2")), (vec!["r".into()], fv("1")), (vec!["d".into(), "is".into()], fv("2"))] },
        ];
        let evj: Vec<Value> = events.iter().map(event_to_json).collect();
        // a path compared with itself looks the path up all the same
        for p in [vec!["axis"], vec!["nope"], vec!["d", "nope"], vec!["nope", "a b"], vec!["r", "sub"]] {
            for is in [false, true] {
                let segs: Vec<String> = p.iter().map(|s| s.to_string()).collect();
                let r = SRule { name: "r".into(), ops: vec![("$a".into(), Operand::Indirect { a: segs.clone(), b: segs, is })], cond: Some(Form::V("$a".into())), ..Default::default() };
                out(json!({"op": "scenario", "rules": [r.to_json(&mut rng)], "events": evj, "tag": "a path compared with itself", "nt": true}));
            }
        }
        for _ in 0..60 {
            for a in [vec!["axis"], vec!["is"], vec!["this"], vec!["d", "is"]] {
                for is in [false, true] {
                    let r = SRule { name: "r".into(), ops: vec![("$a".into(), Operand::Indirect { a: a.iter().map(|s| s.to_string()).collect(), b: vec!["r".into()], is })], cond: Some(Form::V("$a".into())), ..Default::default() };
                    out(json!({"op": "scenario", "rules": [r.to_json(&mut rng)], "events": evj, "tag": "indirect match on a field whose name ends in `is`", "nt": true}));
                }
            }
        }
    }
    // equality / hash on all pairs of a sample that contains near-duplicates
    let mut pool: Vec<String> = sample.iter().take(if tier == "thorough" { 600 } else { 120 }).cloned().collect();
    let extra: Vec<String> = pool.iter().take(20).map(|p| format!("{p}.x")).collect();
    pool.extend(extra);
    pool.extend([".a.b".to_string(), ".\"a.b\"".into(), ".\"a\".b".into(), ".a.\"b\"".into(), ".ab".into(), ".a".into(), ".b.a".into()]);
    for a in &pool {
        for b in &pool {
            out(json!({"op": "xpath_pair", "a": a, "b": b, "tag": "pair", "nt": true}));
        }
    }
}
