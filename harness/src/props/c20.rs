//! C20: strict validation of rule documents and the serialise / parse round trip.
//! Documents travel as YAML trees ({"s":[text,plain]} | {"seq":[..]} | {"map":[[k,v]..]}); the harness
//! renders a tree to flow-style text (plain scalars as is, the others double-quoted) for the real loader.
use crate::doc::yq;
use crate::prng::Rng;
use gene::{Compiler, Engine, Rule};
use serde_json::{json, Value};
use std::panic::{catch_unwind, AssertUnwindSafe};
use std::str::FromStr;

pub fn render(t: &Value) -> String {
    // an application tag does not change what a typed field reads (`!x $a` is the key `$a`, `!!int 5` is the text
    // `5` for a name and the number 5 for a severity); only an absent value stops being absent (`!x ~` is `~`)
    let tag = t.get("tag").and_then(|x| x.as_str()).map(|x| format!("{x} ")).unwrap_or_default();
    if let Some(s) = t.get("s") {
        let text = s[0].as_str().unwrap_or("");
        if s[1].as_bool().unwrap_or(false) {
            format!("{tag}{text}")
        } else {
            format!("{tag}{}", yq(text))
        }
    } else if let Some(a) = t.get("seq") {
        format!("{tag}[{}]", a.as_array().unwrap().iter().map(render).collect::<Vec<_>>().join(", "))
    } else if let Some(m) = t.get("map") {
        format!("{tag}{{{}}}", m.as_array().unwrap().iter().map(|kv| format!("{}: {}", render(&kv[0]), render(&kv[1]))).collect::<Vec<_>>().join(", "))
    } else {
        "~".into()
    }
}

/// puts application / core-schema tags on some nodes of a tree
fn sprinkle_tags(t: &mut Value, rng: &mut Rng, prob: u64) {
    // (an absent value - a plain `~`, `null` or empty scalar - is left alone: what a tag turns it into depends on the
    // target type in serde_yaml-specific ways the tree model does not carry; the dedicated family below covers the
    // text-typed keys)
    let null_like = t.get("s").map(|s| s[1].as_bool().unwrap_or(false) && ["", "~", "null", "Null", "NULL"].contains(&s[0].as_str().unwrap_or("x"))).unwrap_or(false);
    if rng.chance(1, prob) && t.get("tag").is_none() && !null_like {
        let tag = *rng.pick(&["!x", "!!str", "!filter", "!", "!detection", "!!int", "!rule", "!!bool", "!!float"]);
        t["tag"] = json!(tag);
    }
    if let Some(a) = t.get_mut("seq").and_then(|a| a.as_array_mut()) {
        for x in a.iter_mut() {
            sprinkle_tags(x, rng, prob);
        }
    } else if let Some(m) = t.get_mut("map").and_then(|a| a.as_array_mut()) {
        for kv in m.iter_mut() {
            if let Some(kv) = kv.as_array_mut() {
                for x in kv.iter_mut() {
                    sprinkle_tags(x, rng, prob);
                }
            }
        }
    }
}

pub fn exec(case: &Value) -> Value {
    let text = format!("{}\n", render(&case["doc"]));
    let r = catch_unwind(AssertUnwindSafe(|| {
        let rule = match Rule::from_str(&text) {
            Ok(r) => r,
            Err(_) => return json!({"load": "serde"}),
        };
        // one text, one rule: the same text followed by another document is not a rule, whatever that document holds
        for tail in ["---\nname: second\nunknown_key: 1\n", "---\nname: second\n", "---\n", "---\n~\n", "...\n---\nname: second\nseverity: 300\n"] {
            if Rule::from_str(&format!("{text}{tail}")).is_ok() {
                return json!({"from_str-accepts-a-second-document": tail});
            }
        }
        // serialise, parse back, compare
        let back = serde_yaml::to_string(&rule).ok().and_then(|s| Rule::from_str(&s).ok());
        let same = match &back {
            Some(b) => canonical(b) == canonical(&rule),
            None => false,
        };
        let disabled = rule.is_disabled();
        let mut c = Compiler::new();
        if let Err(e) = c.load_rules_from_str(&text) {
            return json!({"load": crate::canon::compiler_err_kind(&e)});
        }
        // asking twice must give the same answer (a failing rule is not forgotten after its first report)
        let first = c.compile().is_err();
        let again = c.compile().is_err();
        let third = c.clone().rules().is_err();
        if first != again || first != third {
            return json!({"compile_answers_differ": [first, again, third]});
        }
        match Engine::try_from(c) {
            Err(e) => json!({"compile": crate::canon::compiler_err_kind(&e), "roundtrip": same}),
            Ok(e) => {
                let cr = e.compiled_rules().first();
                json!({"ok": {"name": rule.name, "disabled": disabled, "severity": cr.map(|c| c.severity()), "count": e.rules_count()}, "roundtrip": same})
            }
        }
    }));
    r.unwrap_or(json!("panic"))
}

/// order-insensitive rendering of a rule value, read from the public fields (not through `Serialize`, whose
/// attributes are part of what the round trip tests): sets and maps sorted, `None` distinct from empty
fn canonical(r: &Rule) -> Value {
    fn set(o: &Option<std::collections::HashSet<String>>) -> Value {
        match o {
            None => Value::Null,
            Some(s) => {
                let mut v: Vec<&String> = s.iter().collect();
                v.sort();
                json!({ "some": v })
            }
        }
    }
    fn list(o: &Option<Vec<String>>) -> Value {
        match o {
            None => Value::Null,
            Some(v) => json!({ "some": v }),
        }
    }
    let meta = match &r.meta {
        None => Value::Null,
        Some(m) => json!({"tags": set(&m.tags), "attack": set(&m.attack), "authors": list(&m.authors), "comments": list(&m.comments)}),
    };
    let params = match &r.params {
        None => Value::Null,
        Some(p) => json!({ "disable": p.disable }),
    };
    let match_on = match &r.match_on {
        None => Value::Null,
        Some(m) => match &m.events {
            None => json!({ "events": null }),
            Some(e) => {
                let mut v: Vec<(String, Vec<i64>)> = e
                    .iter()
                    .map(|(k, ids)| {
                        let mut ids: Vec<i64> = ids.iter().cloned().collect();
                        ids.sort();
                        (k.clone(), ids)
                    })
                    .collect();
                v.sort();
                json!({"events": {"some": v}})
            }
        },
    };
    let matches = match &r.matches {
        None => Value::Null,
        Some(m) => {
            let mut v: Vec<(&String, &String)> = m.iter().collect();
            v.sort();
            json!({ "some": v })
        }
    };
    json!({
        "name": r.name, "type": r.ty.as_ref().map(|t| format!("{t:?}")), "meta": meta, "params": params, "match_on": match_on,
        "matches": matches, "condition": r.condition, "severity": r.severity, "actions": set(&r.actions),
    })
}

fn q(s: &str) -> Value {
    json!({"s": [s, false]})
}
fn p(s: &str) -> Value {
    json!({"s": [s, true]})
}
fn seq(v: Vec<Value>) -> Value {
    json!({ "seq": v })
}
fn map(v: Vec<(Value, Value)>) -> Value {
    json!({"map": v.into_iter().map(|(k, v)| json!([k, v])).collect::<Vec<_>>()})
}

const HOSTILE: [&str; 22] = [
    "a", "", " ", "null", "~", "true", "yes", "42", "0x10", "1.5", "- x", "a: b", "#c", "'q'", "\"dq\"", "multi\nline", "$a", "{{t}}", "\u{e9}\u{10ffff}", "[x]", "{y}", "*alias",
];

fn strs(rng: &mut Rng, pool: &[&str], n: usize) -> Vec<Value> {
    let mut seen: Vec<&str> = vec![];
    for _ in 0..n {
        let s = *rng.pick(pool);
        if !seen.contains(&s) {
            seen.push(s);
        }
    }
    seen.into_iter().map(q).collect()
}

/// a valid rule document as (key, value) entries; every optional section present / absent / empty
pub fn valid_doc(rng: &mut Rng) -> Vec<(String, Value)> {
    let mut e: Vec<(String, Value)> = vec![("name".into(), q(*rng.pick(&HOSTILE)))];
    if rng.chance(1, 2) {
        e.push(("type".into(), q(*rng.pick(&["detection", "filter", "dependency"]))));
    }
    if rng.chance(2, 3) {
        let mut m = vec![];
        for k in ["tags", "attack", "authors", "comments"] {
            match rng.below(4) {
                0 => {}
                1 => m.push((p(k), seq(vec![]))),
                2 => m.push((p(k), p("null"))),
                _ => {
                    let items = if k == "attack" { strs(rng, &["T1234", "t1", "TA0001.001"], 2) } else { strs(rng, &HOSTILE, 3) };
                    m.push((p(k), seq(items)))
                }
            }
        }
        e.push(("meta".into(), map(m)));
    }
    if rng.chance(1, 3) {
        let m = match rng.below(3) {
            0 => vec![],
            1 => vec![(p("disable"), p(*rng.pick(&["true", "false", "True", "FALSE", "null"])))],
            _ => vec![(p("disable"), p("false"))],
        };
        e.push(("params".into(), map(m)));
    }
    if rng.chance(1, 2) {
        let m = match rng.below(4) {
            0 => vec![],
            1 => vec![(p("events"), p("~"))],
            _ => {
                let mut evs = vec![];
                for s in ["s", "Microsoft-Windows-Sysmon/Operational", "null"] {
                    if rng.chance(1, 2) {
                        let ids: Vec<Value> = (0..rng.below(3)).map(|_| p(*rng.pick(&["1", "-2", "0", "+5", "0x10", "9223372036854775807", "-9223372036854775808"]))).collect();
                        evs.push((q(s), seq(ids)));
                    }
                }
                vec![(p("events"), map(evs))]
            }
        };
        e.push(("match-on".into(), map(m)));
    }
    let mut cond = None;
    if rng.chance(3, 4) {
        let mut ms = vec![];
        let names = ["$a", "$b", "$a_1"];
        let k = rng.below(4);
        for n in names.iter().take(k) {
            let m = *rng.pick(&[".x == '1'", ".y.\"k v\" ~= '^a'", ".z is none", ".n >= '0x10'", ".a == @.b", ".t == '{{t}}'"]);
            ms.push((q(n), q(m)));
        }
        if k > 0 && rng.chance(2, 3) {
            cond = Some(*rng.pick(&["$a", "any of them", "all of $a", "not $a", "$a\n", "$a and $a\n", "\n", " $a ", "$a\r\n", "$a\n\n", "\t$a", "$a or\n$a"]));
        }
        e.push(("matches".into(), map(ms)));
    }
    if let Some(c) = cond {
        e.push(("condition".into(), q(c)));
    }
    if rng.chance(2, 3) {
        e.push(("severity".into(), p(*rng.pick(&["0", "5", "10", "11", "200", "255", "+5", "0x10", "0o7", "null"]))));
    }
    if rng.chance(1, 2) {
        let a = if rng.chance(1, 4) { p("null") } else if rng.chance(1, 4) { seq(vec![]) } else { seq(strs(rng, &HOSTILE, 2)) };
        e.push(("actions".into(), a));
    }
    e
}

fn to_tree(e: &[(String, Value)]) -> Value {
    map(e.iter().map(|(k, v)| (p(k), v.clone())).collect())
}

fn case(doc: Value, tag: &str) -> Value {
    let pats = vec!["^a".to_string()];
    json!({"op": "yaml_load", "doc": doc, "ext": crate::dsl::ext_tables(&pats, &[], &[]), "tag": tag, "nt": true})
}

/// "severities above 10 act as 10": several matching detections with severities up to 255 (sums far beyond u8)
fn gen_severity_scans(tier: &str, seed: u64, out: &mut dyn FnMut(Value)) {
    use crate::dsl::{Form, Lit, Operand, SRule};
    use crate::event::DynEvent;
    let mut rng = Rng::new(seed ^ 0xc20);
    let n = if tier == "thorough" { 15000 } else { 1200 };
    for _ in 0..n {
        let k = 2 + rng.below(3);
        let rules: Vec<SRule> = (0..k)
            .map(|i| SRule {
                name: format!("r{i}"),
                ty: Some((*rng.pick(&["detection", "detection", "filter"])).to_string()),
                ops: vec![("$a".into(), Operand::Test { segs: vec!["x".into()], op: 0, lit: Lit::sq("1") })],
                cond: Some(Form::V("$a".into())),
                severity: Some(*rng.pick(&[255u64, 254, 250, 246, 245, 200, 128, 11, 10, 9, 0])),
                ..Default::default()
            })
            .collect();
        let ev = DynEvent { source: "s".into(), id: 1, fields: vec![(vec!["x".into()], gene::FieldValue::String("1".into()))] };
        out(crate::props::engine::scenario_json(&rules, &[ev], &mut rng, "several high severities matching"));
    }
}

pub fn gen(tier: &str, seed: u64, out: &mut dyn FnMut(Value)) {
    gen_severity_scans(tier, seed, out);
    let mut rng = Rng::new(seed);
    let thorough = tier == "thorough";
    let n = if thorough { 150000 } else { 12000 };
    for _ in 0..n {
        let e = valid_doc(&mut rng);
        out(case(to_tree(&e), "valid document"));
        if rng.chance(1, 6) {
            // the same document with tags on some of its nodes reads the same
            let mut t = to_tree(&e);
            sprinkle_tags(&mut t, &mut rng, 4);
            out(case(t, "tagged nodes"));
            // a tag alone where a value is expected is a tagged empty text, not a variant name and not an absent value
            let mut c = e.clone();
            let key = *rng.pick(&["type", "type", "severity", "condition"]);
            c.retain(|(k, _)| k != key);
            let mut v = json!({"s": [*rng.pick(&["", "", "~", "null"]), true]});
            v["tag"] = json!(*rng.pick(&["!filter", "!detection", "!dependency", "!x", "!!str"]));
            c.push((key.to_string(), v));
            out(case(to_tree(&c), "a tag with no value"));
        }
        // single-fault corruptions
        let mut c = e.clone();
        let levels = ["", "meta", "params", "match-on"];
        match rng.below(9) {
            0 => {
                // an unknown key at one of the four levels
                let lvl = *rng.pick(&levels);
                let key = *rng.pick(&["extra", "Name", "tag", "severity ", "events", "disable", "type", "names"]);
                if lvl.is_empty() {
                    if c.iter().any(|(k, _)| k == key) {
                        continue;
                    }
                    let pos = rng.below(c.len() + 1);
                    c.insert(pos, (key.to_string(), q("x")));
                    out(case(to_tree(&c), "unknown key: top level"));
                } else {
                    let known: &[&str] = match lvl {
                        "meta" => &["tags", "attack", "authors", "comments"],
                        "params" => &["disable"],
                        _ => &["events"],
                    };
                    if known.contains(&key) {
                        continue;
                    }
                    let mut found = false;
                    for (k, v) in c.iter_mut() {
                        if k == lvl {
                            if let Some(m) = v.get_mut("map").and_then(|m| m.as_array_mut()) {
                                m.push(json!([p(key), q("x")]));
                                found = true;
                            }
                        }
                    }
                    if !found {
                        c.push((lvl.to_string(), map(vec![(p(key), q("x"))])));
                    }
                    out(case(to_tree(&c), &format!("unknown key: {lvl}")));
                }
            }
            1 => {
                // one field retyped
                let i = rng.below(c.len());
                let repl = match rng.below(5) {
                    0 => seq(vec![q("a")]),
                    1 => map(vec![(p("k"), q("v"))]),
                    2 => p("42"),
                    3 => p("null"),
                    _ => q("text"),
                };
                c[i].1 = repl;
                out(case(to_tree(&c), "one field retyped"));
            }
            2 => {
                // a duplicate key (struct level) or a duplicate operand
                if rng.chance(1, 2) {
                    let i = rng.below(c.len());
                    let d = c[i].clone();
                    c.push(d);
                    out(case(to_tree(&c), "duplicate key"));
                } else {
                    for (k, v) in c.iter_mut() {
                        if k == "matches" {
                            if let Some(m) = v.get_mut("map").and_then(|m| m.as_array_mut()) {
                                if let Some(first) = m.first().cloned() {
                                    let mut k2 = first[0].clone();
                                    if rng.chance(1, 2) {
                                        // the same key again, spelled with an application tag
                                        k2["tag"] = json!(*rng.pick(&["!operand", "!x", "!!str"]));
                                    }
                                    m.push(json!([k2, q(".other == '2'")]));
                                }
                            }
                        }
                    }
                    out(case(to_tree(&c), "duplicate operand"));
                }
            }
            3 => {
                c.retain(|(k, _)| k != "type");
                c.push(("type".into(), q(*rng.pick(&["Detection", "detect", "", "filter ", "rule", "null"]))));
                out(case(to_tree(&c), "unknown type name"));
            }
            4 => {
                c.retain(|(k, _)| k != "severity");
                let (v, plain) = *rng.pick(&[("256", true), ("-1", true), ("1.0", true), ("3", false), ("010", true), ("0x10", true), ("0o7", true), ("+5", true), ("255", true), ("1e1", true), ("0b11", true), ("0x100", true), ("18446744073709551616", true), ("++5", true), ("0x+1", true), ("-0", true), ("00", true), ("1_0", true), ("true", true), ("", true)]);
                c.push(("severity".into(), json!({"s": [v, plain]})));
                out(case(to_tree(&c), "severity forms"));
            }
            5 => {
                c.retain(|(k, _)| k != "matches" && k != "condition");
                c.push(("matches".into(), map(vec![(q(*rng.pick(&["a", "", " $a", "a$", "$"])), q(".x == '1'"))])));
                out(case(to_tree(&c), "operand name"));
            }
            6 => {
                c.retain(|(k, _)| k != "meta");
                c.push(("meta".into(), map(vec![(p("attack"), seq(vec![q(*rng.pick(&["T1234", "1234", "T", "T12.a", "t1.2", "T1 ", "T1.2.3", "\u{e9}1", "TA0001", "T\u{ff11}\u{ff12}", "T\u{661}\u{662}", "T1.\u{966}", "\u{ff34}1", "\u{df}1088", "\u{fb01}1234", "t\u{131}0043", "\u{17f}1088", "\u{212a}1", "Ta0043", "tA1.001", "T1\n", "\nT1", "T1.", "T.1", " T1", "T 1", "T1x", "T+1234", "t+1", "T1234.+001", "T-1", "T1.-2", "T+1.+2", "T1e3", "T0x10", "T1_0", "T١", "T1.2e1", "T\u{2212}1"]))]))])));
                out(case(to_tree(&c), "ATT&CK id"));
            }
            7 => {
                c.retain(|(k, _)| k != "params");
                let (v, plain) = *rng.pick(&[("True", true), ("yes", true), ("true", false), ("1", true), ("TRUE", true), ("tRue", true), ("false", true), ("~", true), ("on", true)]);
                c.push(("params".into(), map(vec![(p("disable"), json!({"s": [v, plain]}))])));
                out(case(to_tree(&c), "boolean forms"));
            }
            _ => {
                c.retain(|(k, _)| k != "match-on");
                let (v, plain) = *rng.pick(&[("1", false), ("1.5", true), ("9223372036854775808", true), ("-9223372036854775809", true), ("0x7fffffffffffffff", true), ("-0x1", true), ("01", true), ("-01", true), ("+-1", true), ("1e3", true), ("-", true), ("-0x10", true), ("-0o7", true), ("-0b1", true), ("-0x+1", true), ("-0x8000000000000000", true), ("-0x8000000000000001", true), ("0o17", true)]);
                c.push(("match-on".into(), map(vec![(p("events"), map(vec![(q("s"), seq(vec![json!({"s": [v, plain]})]))]))])));
                out(case(to_tree(&c), "event id forms"));
            }
        }
    }
}
