//! C16 / C15: strings over the condition and match token alphabets, with and without separating
//! spaces, enumerated up to a length bound; valid expressions with one token inserted, deleted,
//! duplicated or appended. Observed: rejected / panic / the parsed tree.
use crate::dsl::{ext_tables, Form};
use crate::prng::Rng;
use serde_json::{json, Value};

pub const COND_TOKS: [&str; 15] = ["$a", "and", "or", "not", "!", "(", ")", "all", "none", "of", "them", "1", "02", "&&", "x"];
pub const COND_TOKS_WIDE: [&str; 26] = [
    "$a", "$ab", "$", "and", "AND", "&&", "or", "OR", "||", "not", "!", "(", ")", "all", "any", "none", "of", "them", "0", "1", "42",
    "99999999999999999999999999", "x", "-", "them$a", " ",
];
pub const MATCH_TOKS: [&str; 40] = [
    ".x", ".", "x", ".\"a b\"", "\"", "==", "is", "<", "<=", "=", ">", ">=", "~=", "&=", "'a'", "\"b\"", "'1'", "'1.5'", "'['", "'", "none",
    "some", "true", "false", "@", "@.y", "rule(", "r1", ")", "garbage", "'none'", "\"true\"", "'False'", "'SOME'", "'a@.b'", "\"rule(x) @.y\"", "'a  b'", "'a b'", "\t", "'0x0x40'",
];

fn join(toks: &[&str], mask: u32) -> String {
    let mut s = String::new();
    for (i, t) in toks.iter().enumerate() {
        if i > 0 && mask & (1 << (i - 1)) != 0 {
            s.push(' ');
        }
        s.push_str(t);
    }
    s
}

fn tuples(alpha: &[&'static str], n: usize, f: &mut dyn FnMut(&[&'static str])) {
    let mut idx = vec![0usize; n];
    loop {
        let t: Vec<&'static str> = idx.iter().map(|i| alpha[*i]).collect();
        f(&t);
        let mut k = n;
        loop {
            if k == 0 {
                return;
            }
            k -= 1;
            if idx[k] + 1 < alpha.len() {
                idx[k] += 1;
                for x in idx.iter_mut().skip(k + 1) {
                    *x = 0;
                }
                break;
            }
            if k == 0 {
                return;
            }
        }
    }
}

pub fn form_tokens(f: &Form, rng: &mut Rng, out: &mut Vec<String>) {
    fn grp(p: &Option<String>) -> String {
        p.clone().unwrap_or_else(|| "them".into())
    }
    fn prec(f: &Form) -> u8 {
        match f {
            Form::Or(..) => 1,
            Form::And(..) => 2,
            Form::Not(..) => 3,
            _ => 4,
        }
    }
    let paren = |g: &Form, need: bool, rng: &mut Rng, out: &mut Vec<String>| {
        if need {
            out.push("(".into());
            form_tokens(g, rng, out);
            out.push(")".into());
        } else {
            form_tokens(g, rng, out);
        }
    };
    match f {
        Form::Tt => {}
        Form::V(v) => out.push(v.clone()),
        Form::Not(g) => {
            out.push((*rng.pick(&["not", "!"])).into());
            paren(g, prec(g) < 4, rng, out);
        }
        Form::And(a, b) => {
            paren(a, prec(a) < 2, rng, out);
            out.push((*rng.pick(&["and", "AND", "&&"])).into());
            paren(b, prec(b) <= 2, rng, out);
        }
        Form::Or(a, b) => {
            form_tokens(a, rng, out);
            out.push((*rng.pick(&["or", "OR", "||"])).into());
            paren(b, prec(b) <= 1, rng, out);
        }
        Form::All(p) => out.extend(["all".to_string(), "of".into(), grp(p)]),
        Form::Any(p) => out.extend(["any".to_string(), "of".into(), grp(p)]),
        Form::NoneOf(p) => out.extend(["none".to_string(), "of".into(), grp(p)]),
        Form::N(n, p) => out.extend([n.to_string(), "of".into(), grp(p)]),
        Form::NBig(d, p) => out.extend([d.clone(), "of".into(), grp(p)]),
    }
}

fn cond_case(s: String, tag: &str) -> Value {
    let nt = !s.trim().is_empty();
    json!({"op": "parse_cond", "s": s, "tag": tag, "nt": nt})
}

fn match_case(s: String, tag: &str) -> Value {
    // tables for every quoted literal that may appear: the fixed ones, and every substring of `s` that lies between
    // two quote characters (lone quote tokens can enclose anything, e.g. `' '`)
    let mut lits: Vec<String> = ["a", "b", "1", "1.5", "[", "none", "some", "true", "false", "", "a' 'a", "1' '1", "False", "SOME", "True", "NONE", "a@.b", "rule(x) @.y", "a  b", "a b", "0x0x40"].iter().map(|x| x.to_string()).collect();
    let cs: Vec<(usize, char)> = s.char_indices().collect();
    for (a, (i, c)) in cs.iter().enumerate() {
        if *c == '\'' || *c == '"' {
            for (j, d) in cs.iter().skip(a + 1) {
                if *d == '\'' || *d == '"' {
                    let inner = &s[i + 1..*j];
                    if !lits.iter().any(|l| l == inner) {
                        lits.push(inner.to_string());
                    }
                }
            }
        }
    }
    let ext = ext_tables(&lits, &[], &lits);
    json!({"op": "parse_match", "s": s, "ext": ext, "tag": tag, "nt": true})
}

pub fn gen(tier: &str, seed: u64, out: &mut dyn FnMut(Value)) {
    let mut rng = Rng::new(seed);
    let thorough = tier == "thorough";
    // --- conditions: all token strings, every spacing pattern up to 3 tokens, 3 patterns for 4 tokens
    out(cond_case("".into(), "cond exhaustive"));
    out(cond_case(" ".into(), "cond exhaustive"));
    let max = 4;
    for n in 1..=max {
        let alpha: &[&'static str] = &COND_TOKS;
        tuples(alpha, n, &mut |t| {
            let gaps = (n - 1) as u32;
            if n <= 3 || thorough {
                for m in 0..(1u32 << gaps) {
                    out(cond_case(join(t, m), &format!("cond exhaustive {n} tokens")));
                }
            } else {
                out(cond_case(join(t, (1 << gaps) - 1), "cond exhaustive 4 tokens"));
                out(cond_case(join(t, 0), "cond exhaustive 4 tokens"));
                let m = (rng.next() as u32) & ((1 << gaps) - 1);
                out(cond_case(join(t, m), "cond exhaustive 4 tokens"));
            }
        });
    }
    // wide alphabet, random strings of 1..7 tokens
    let n = if thorough { 1500000 } else { 30000 };
    for _ in 0..n {
        let k = 1 + rng.below(7);
        let toks: Vec<&str> = (0..k).map(|_| *rng.pick(&COND_TOKS_WIDE)).collect();
        let m = rng.next() as u32;
        let mut s = join(&toks, m);
        if rng.chance(1, 6) {
            s = format!(" {s} ");
        }
        out(cond_case(s, "cond random wide"));
    }
    // valid expressions, then one token inserted / deleted / duplicated / appended
    let n = if thorough { 300000 } else { 8000 };
    for _ in 0..n {
        let d = 1 + rng.below(4);
        let f = crate::props::c02::random_form(&mut rng, d);
        let mut toks = vec![];
        form_tokens(&f, &mut rng, &mut toks);
        let spaced = |toks: &[String], rng: &mut Rng| -> String {
            let mut s = String::new();
            for (i, t) in toks.iter().enumerate() {
                if i > 0 {
                    match rng.below(4) {
                        0 => {}
                        1 => s.push_str("  "),
                        _ => s.push(' '),
                    }
                }
                s.push_str(t);
            }
            s
        };
        out(cond_case(spaced(&toks, &mut rng), "cond valid, any spacing"));
        let mut t2 = toks.clone();
        let extra: Vec<String> = COND_TOKS_WIDE.iter().map(|x| x.to_string()).collect();
        match rng.below(4) {
            0 if !t2.is_empty() => {
                let i = rng.below(t2.len());
                t2.remove(i);
            }
            1 => {
                let i = rng.below(t2.len() + 1);
                t2.insert(i, rng.pick(&extra).clone());
            }
            2 if !t2.is_empty() => {
                let i = rng.below(t2.len());
                let d = t2[i].clone();
                t2.insert(i, d);
            }
            _ => t2.push(rng.pick(&extra).clone()),
        }
        out(cond_case(spaced(&t2, &mut rng), "cond one-token mutation"));
    }
    // long texts: a literal of thousands of characters, a condition of hundreds of operands or parentheses - as much in
    // the grammar as short ones, and parsed after other texts have been parsed in the same process
    for n in [1000usize, 3400, 5000, 20000] {
        let lit: String = (0..n).map(|i| (b'a' + (i % 26) as u8) as char).collect();
        out(match_case(format!(".x == '{lit}'"), "long literal"));
        out(match_case(format!(".x ~= '({})'", (0..n / 8).map(|i| format!("ioc{i:04}")).collect::<Vec<_>>().join("|")), "long literal"));
    }
    for n in [100usize, 300, 560] {
        out(cond_case((0..n).map(|i| format!("$a{}", i % 7)).collect::<Vec<_>>().join(" and "), "long condition"));
        out(cond_case((0..n).map(|i| format!("$a{}", i % 7)).collect::<Vec<_>>().join(" or "), "long condition"));
    }
    for n in [50usize, 150, 230, 300] {
        out(cond_case(format!("{}$a{}", "(".repeat(n), ")".repeat(n)), "deeply nested condition"));
        out(cond_case(format!("{}$a{}", "not ".repeat(n), ""), "deeply nested condition"));
    }
    // --- whole rules: every operand's text is read in full whether or not the condition ever looks at that operand
    {
        let texts = [
            ".y == 'b'", "this is not a match", ".y == 'b' trailing", ".y == 'b' 'c'", ".y", "== 'b'", ".y ==", ".y == b", "rule(", "rule(r) x", "rule(r)",
            ".y is none none", ".y is", "@.y == 'b'", ".y == @", ".y == @.z .w", ".y = 'b'", ".y === 'b'", "", " ", ".y == 'b' #", ".y == 'b';", ".y &= '1' '2'", ".y <= '1' .z",
            "(.y == 'b')", "not .y == 'b'", ".y == 'b' and .z == 'c'", ".y ~= 'b' i",
        ];
        let conds = [Some("$a"), None, Some("all of them"), Some("$a or $b"), Some("not $a"), Some("$a and $a"), Some("1 of $a"), Some("none of $b"), Some("$a and not $a")];
        for t in texts {
            for c in conds {
                for first in [true, false] {
                    let mut ms = vec![json!(["$a", ".x == 'a'"]), json!(["$b", t])];
                    if !first {
                        ms.reverse();
                    }
                    let mut r = json!({"name": "r", "matches": ms});
                    if let Some(c) = c {
                        r["condition"] = json!(c);
                    }
                    let ops = vec![json!({"k": "load", "docs": [{"name": "r", "params": {"disable": true}}, r]}), json!({"k": "compile"}), json!({"k": "engine"})];
                    out(json!({"op": "history", "ops": ops, "tag": "whole rule: an operand the condition may not name", "nt": true}));
                }
            }
        }
    }
    // --- matches
    for n in 1..=3 {
        tuples(&MATCH_TOKS, n, &mut |t| {
            let gaps = (n - 1) as u32;
            for m in 0..(1u32 << gaps) {
                out(match_case(join(t, m), &format!("match exhaustive {n} tokens")));
            }
        });
    }
    let n = if thorough { 2000000 } else { 40000 };
    for _ in 0..n {
        let k = 3 + rng.below(4);
        let toks: Vec<&str> = (0..k).map(|_| *rng.pick(&MATCH_TOKS)).collect();
        let m = rng.next() as u32;
        let mut s = join(&toks, m);
        if rng.chance(1, 6) {
            s = format!(" {s} ");
        }
        out(match_case(s, "match random"));
    }
    // valid matches with one token appended / inserted
    let valid = [
        vec![".x", "==", "'a'"], vec![".x", "is", "none"], vec![".x", "<=", "'1'"], vec![".x", "~=", "\"b\""], vec![".x", "&=", "'1'"],
        vec![".x", ".\"a b\"", "==", "@.y"], vec![".x", "==", "@.y"], vec!["rule(", "r1", ")"], vec!["\"", ".x", "\"", "==", "'a'"],
        vec![".x", ">", "'1.5'"], vec![".x", "is", "true"],
    ];
    for v in &valid {
        for pos in 0..=v.len() {
            for e in MATCH_TOKS.iter() {
                let mut t: Vec<&str> = v.clone();
                t.insert(pos, e);
                for m in [0u32, u32::MAX, rng.next() as u32] {
                    // `.x` `.\"a b\"` are glued (a path), the rest follows the mask
                    out(match_case(join(&t, m), "match one-token insertion"));
                }
            }
        }
        for pos in 0..v.len() {
            let mut t: Vec<&str> = v.clone();
            t.remove(pos);
            out(match_case(join(&t, u32::MAX), "match one-token deletion"));
            let mut t: Vec<&str> = v.clone();
            t.insert(pos, v[pos]);
            out(match_case(join(&t, u32::MAX), "match one-token duplication"));
        }
    }
}
