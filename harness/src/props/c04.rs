//! C04: numeric comparison on boundary values squared, in every representation, through `scan` and
//! through the public `Number` operators; random pairs from the full ranges.
use crate::dsl::{Lit, OPS};
use crate::event::{fv_to_json, DynEvent};
use crate::prng::Rng;
use crate::props::c03::single_test_case;
use gene::values::Number;
use gene::FieldValue;
use serde_json::{json, Value};

fn next_up(f: f64) -> f64 {
    f64::from_bits(if f >= 0.0 { f.to_bits() + 1 } else { f.to_bits() - 1 })
}
fn next_down(f: f64) -> f64 {
    if f == 0.0 {
        return -5e-324;
    }
    f64::from_bits(if f > 0.0 { f.to_bits() - 1 } else { f.to_bits() + 1 })
}

pub fn boundary_ints() -> Vec<i128> {
    let p53: i128 = 1 << 53;
    let p63: i128 = 1 << 63;
    let p64: i128 = 1 << 64;
    vec![0, 1, -1, 2, 42, 255, p53 - 1, p53, p53 + 1, p63 - 1, p63, p63 + 1, p64 - 1, -p63, -p63 + 1, -p53, -(p53 + 1), -2]
}

pub fn boundary_floats() -> Vec<f64> {
    let p53 = 9007199254740992.0f64;
    let p63 = 9223372036854775808.0f64;
    let p64 = 18446744073709551616.0f64;
    vec![
        0.0, -0.0, 1.0, -1.0, 0.5, 1.5, -2.5, 42.0, 0.1, p53, next_up(p53), next_down(p53), p63, next_down(p63), next_up(p63), p64,
        next_down(p64), next_up(p64), -p63, next_down(-p63), next_up(-p63), f64::INFINITY, f64::NEG_INFINITY, f64::NAN, 5e-324, -5e-324,
        f64::MAX, f64::MIN, 255.0, 254.99999999999997,
    ]
}

fn num_of_int(i: i128) -> Vec<Number> {
    let mut v = vec![];
    if i < 0 {
        v.push(Number::Int(i as i64));
    } else {
        if i <= u64::MAX as i128 {
            v.push(Number::Uint(i as u64));
        }
        if i <= i64::MAX as i128 {
            v.push(Number::Int(i as i64)); // not what `From` builds; a value built from the public variant
        }
    }
    v
}

fn int_texts(i: i128) -> Vec<String> {
    let mut v = vec![i.to_string()];
    if i >= 0 {
        v.push(format!("0x{:x}", i));
        v.push(format!("+{}", i));
    }
    if i.abs() <= (1 << 53) {
        v.push(format!("{}.0", i));
    }
    v
}

fn float_texts(f: f64) -> Vec<String> {
    let mut v = vec![format!("{:?}", f)];
    if f.is_finite() && f.abs() < 1e22 {
        v.push(format!("{:.3}", f));
    }
    v
}

pub fn field_values() -> Vec<FieldValue> {
    let mut v = vec![];
    for i in boundary_ints() {
        for n in num_of_int(i) {
            v.push(FieldValue::Number(n));
        }
        for t in int_texts(i) {
            v.push(FieldValue::String(t));
        }
    }
    for f in boundary_floats() {
        v.push(FieldValue::Number(Number::Float(f)));
        for t in float_texts(f) {
            v.push(FieldValue::String(t));
        }
    }
    v.push(FieldValue::String("18446744073709551616".into()));
    v.push(FieldValue::String("-9223372036854775809".into()));
    v.push(FieldValue::String("abc".into()));
    v.push(FieldValue::String("".into()));
    v
}

pub fn literal_texts() -> Vec<String> {
    let mut v = vec![];
    for i in boundary_ints() {
        v.extend(int_texts(i));
    }
    for f in boundary_floats() {
        v.extend(float_texts(f));
    }
    // a number can be written without a digit before or after the point, with a sign, with an exponent
    for t in [".5", "-.5", "+.5", "5.", "-5.", ".15e1", "1.5e0", "+0.5", "-0.", "0.5e0", "5.e-1", ".5E0"] {
        v.push(t.into());
    }
    v.push("18446744073709551616".into());
    v.push("-9223372036854775809".into());
    v.push("0x10000000000000000".into());
    v.sort();
    v.dedup();
    v
}

fn num_json(n: &Number) -> Value {
    fv_to_json(&FieldValue::Number(*n))
}

fn num_from(v: &Value) -> Number {
    match crate::event::fv_from_json(v) {
        Ok(FieldValue::Number(n)) => n,
        _ => Number::Uint(0),
    }
}

pub fn exec_num_cmp(case: &Value) -> Value {
    let a = num_from(&case["a"]);
    let b = num_from(&case["b"]);
    json!({"lt": a < b, "le": a <= b, "gt": a > b, "ge": a >= b, "eq": a == b})
}

fn random_num(rng: &mut Rng) -> Number {
    match rng.below(6) {
        0 => Number::Uint(rng.next()),
        1 => Number::Int(rng.next() as i64),
        2 => Number::Float(f64::from_bits(rng.next())),
        3 => {
            // integer-valued or near-integer floats around the integer ranges
            let e = rng.below(70) as i32;
            let base = 2f64.powi(e);
            let f = match rng.below(4) {
                0 => base,
                1 => next_up(base),
                2 => next_down(base),
                _ => base + rng.below(1000) as f64,
            };
            Number::Float(if rng.chance(1, 3) { -f } else { f })
        }
        4 => {
            let e = rng.below(65);
            let b: u128 = 1u128 << e;
            let d = rng.below(5) as i128 - 2;
            let v = (b as i128 + d).clamp(0, u64::MAX as i128) as u64;
            Number::Uint(v)
        }
        _ => {
            let e = rng.below(64);
            let b: i128 = 1i128 << e;
            let d = rng.below(5) as i128 - 2;
            let v = (-(b + d)).clamp(i64::MIN as i128, -1) as i64;
            Number::Int(v)
        }
    }
}

pub fn gen(tier: &str, seed: u64, out: &mut dyn FnMut(Value)) {
    let mut rng = Rng::new(seed);
    let values = field_values();
    let events: Vec<DynEvent> = crate::props::c03::events_for(&values);
    let lits = literal_texts();
    // ordering, equality and bit tests: ops 0 (==), 2..5 (< <= > >=), 7 (&=)
    for op in [0usize, 2, 3, 4, 5, 7] {
        for t in &lits {
            out(single_test_case(op, &Lit::sq(t), &events, &mut rng, &format!("scan {}", OPS[op].0)));
        }
    }
    // 32-bit float fields: they enter through the crate's `From<f32>` and must compare by their exact value
    // (0.1f32 is 0.100000001490116..., above the literal 0.1 and below 0.10000001)
    let f32s: [f32; 14] = [0.1, 0.2, 0.3, 1.0e-3, 16777217.0, 3.4028235e38, 1.0e-45, -0.1, 0.5, 1.0, 33.3, f32::NAN, f32::INFINITY, -0.0];
    let ev32: Vec<Value> = f32s
        .iter()
        .map(|f| json!({"source": "s", "id": 1, "fields": [[["x"], {"f32": format!("{:08x}", f.to_bits())}]]}))
        .collect();
    for op in [0usize, 2, 3, 4, 5] {
        for t in ["0.1", "0.10000000149011612", "0.10000000149", "0.2", "0.3", "0.30000001192092896", "0.001", "16777216", "16777217", "16777218",
                  "340282346638528859811704183484516925440", "340282346638528860000000000000000000000.0", "1e-45", "1.401298464324817e-45", "-0.1", "0.5", "1", "33.3", "33.29999923706055", "0"] {
            let r = crate::dsl::SRule {
                name: "r".into(),
                ops: vec![("$a".into(), crate::dsl::Operand::Test { segs: vec!["x".into()], op, lit: Lit::sq(t) })],
                cond: Some(crate::dsl::Form::V("$a".into())),
                ..Default::default()
            };
            let rules = vec![r];
            out(json!({
                "op": "scenario", "ext": crate::dsl::ext_tables(&[], &[], &[t.to_string()]),
                "rules": rules.iter().map(|r| r.to_json(&mut rng)).collect::<Vec<_>>(),
                "events": ev32, "tag": "32-bit float fields", "nt": true,
            }));
        }
    }
    // the public operators of `Number` on the boundary set squared
    let mut nums: Vec<Number> = vec![];
    for i in boundary_ints() {
        nums.extend(num_of_int(i));
    }
    for f in boundary_floats() {
        nums.push(Number::Float(f));
    }
    for a in &nums {
        for b in &nums {
            out(json!({"op": "num_cmp", "a": num_json(a), "b": num_json(b), "tag": "Number ops boundary", "nt": true}));
        }
    }
    let n = if tier == "thorough" { 2000000 } else { 80000 };
    for _ in 0..n {
        let a = random_num(&mut rng);
        let b = if rng.chance(1, 4) {
            // a neighbour of `a` in another representation
            match a {
                Number::Uint(u) => Number::Float(u as f64),
                Number::Int(i) => Number::Float(i as f64),
                Number::Float(f) => {
                    if f >= 0.0 && f < 1.8e19 {
                        Number::Uint(f as u64)
                    } else if f < 0.0 && f > -9.2e18 {
                        Number::Int(f as i64)
                    } else {
                        random_num(&mut rng)
                    }
                }
            }
        } else {
            random_num(&mut rng)
        };
        out(json!({"op": "num_cmp", "a": num_json(&a), "b": num_json(&b), "tag": "Number ops random", "nt": true}));
    }
}
