//! C11: the same templates, rule text and events give the same observable outcome every time.
//!  `scenario_multi`: the scenario is run from its text on `instances` independently built compilers/engines
//!  (every `HashMap`/`HashSet` instance gets its own hash keys), on clones of compiler and engine, on
//!  `threads` other threads and in `procs` child processes of this binary. Observed per run: the rule texts
//!  after templating (`Compiler::rules()`), and per event the error/no-error status and the scan result
//!  (the *name* of the failing rule is not part of the property and is dropped). All distinct
//!  observations are returned; the property holds iff there is exactly one.
use crate::prng::Rng;
use crate::props::engine::*;
use crate::scenario;
use serde_json::{json, Value};
use std::io::Write;
use std::panic::{catch_unwind, AssertUnwindSafe};

fn strip(v: &Value) -> Value {
    // drop which rule failed and with what kind
    match v {
        Value::Object(m) if m.contains_key("err") => json!({ "err": { "sr": m["err"]["sr"].clone() } }),
        Value::Object(m) if m.contains_key("scans") => json!({ "scans": m["scans"].as_array().map(|a| a.iter().map(strip).collect::<Vec<_>>()).unwrap_or_default() }),
        _ => v.clone(),
    }
}

fn rules_text(c: &mut gene::Compiler) -> Value {
    match catch_unwind(AssertUnwindSafe(|| match c.rules() {
        Ok(rs) => json!(rs.iter().map(crate::props::c17::rule_out).collect::<Vec<_>>()),
        Err(e) => json!({ "compile": crate::canon::compiler_err_kind(&e) }),
    })) {
        Ok(v) => v,
        Err(_) => json!({"compile": "panic"}),
    }
}

/// one observation, `variant` chooses between fresh values and clones
pub fn run_once(case: &Value, variant: u64) -> Value {
    let mut c = match scenario::load(case) {
        Ok(c) => c,
        Err(e) => return json!({ "rules": e.clone(), "result": e }),
    };
    if variant % 4 == 1 {
        c = c.clone();
    }
    let rules = rules_text(&mut c);
    let mut eng = match scenario::build(c) {
        Ok(e) => e,
        Err(e) => return json!({ "rules": rules, "result": e }),
    };
    if variant % 4 == 2 {
        eng = eng.clone();
    }
    // an engine that has scanned nothing yet: "same rules, same event" must give the same outcome on it
    let pristine = eng.clone();
    let mut outs = vec![];
    for ev in case["events"].as_array().cloned().unwrap_or_default() {
        match crate::event::event_from_json(&ev) {
            Ok(ev) => {
                let a = if variant % 4 == 3 {
                    // a clone taken after earlier scans (cache filled) must answer like the original
                    let mut e2 = eng.clone();
                    let a = scenario::scan_outcome(&mut e2, &ev);
                    let b = scenario::scan_outcome(&mut eng, &ev);
                    if strip(&a) != strip(&b) {
                        outs.push(json!({ "clone-differs": [strip(&a), strip(&b)] }));
                    }
                    a
                } else {
                    scenario::scan_outcome(&mut eng, &ev)
                };
                outs.push(strip(&a));
                let f = scenario::scan_outcome(&mut pristine.clone(), &ev);
                if strip(&a) != strip(&f) {
                    outs.push(json!({ "fresh-engine-differs": [strip(&a), strip(&f)] }));
                }
            }
            Err(e) => outs.push(json!({ "badevent": e })),
        }
    }
    json!({ "rules": rules, "result": { "scans": outs } })
}

pub fn exec(case: &Value) -> Value {
    let mut outs: Vec<Value> = vec![];
    let mut add = |v: Value, outs: &mut Vec<Value>| {
        if !outs.contains(&v) {
            outs.push(v);
        }
    };
    let n = case["instances"].as_u64().unwrap_or(8);
    for k in 0..n {
        let o = run_once(case, k);
        // a used engine, its clone or a fresh engine answered differently: that is a second observation
        if let Some(scans) = o["result"]["scans"].as_array() {
            for e in scans {
                if e.get("fresh-engine-differs").is_some() || e.get("clone-differs").is_some() {
                    add(json!({ "differs": e }), &mut outs);
                }
            }
        }
        add(o, &mut outs);
    }
    let threads = case["threads"].as_u64().unwrap_or(0);
    if threads > 0 {
        let hs: Vec<_> = (0..threads)
            .map(|k| {
                let c = case.clone();
                std::thread::spawn(move || (0..4).map(|j| run_once(&c, k + j)).collect::<Vec<_>>())
            })
            .collect();
        for h in hs {
            match h.join() {
                Ok(vs) => vs.into_iter().for_each(|v| add(v, &mut outs)),
                Err(_) => add(json!("thread-panic"), &mut outs),
            }
        }
    }
    let procs = case["procs"].as_u64().unwrap_or(0);
    if procs > 0 {
        let mut sub = case.clone();
        sub["procs"] = json!(0);
        sub["threads"] = json!(0);
        sub["instances"] = json!(2);
        let line = format!("{}\n", sub);
        for _ in 0..procs {
            let r = (|| -> Result<Value, String> {
                let exe = std::env::current_exe().map_err(|e| e.to_string())?;
                let mut ch = std::process::Command::new(exe)
                    .arg("exec")
                    .stdin(std::process::Stdio::piped())
                    .stdout(std::process::Stdio::piped())
                    .stderr(std::process::Stdio::null())
                    .spawn()
                    .map_err(|e| e.to_string())?;
                ch.stdin.take().ok_or("no stdin")?.write_all(line.as_bytes()).map_err(|e| e.to_string())?;
                let o = ch.wait_with_output().map_err(|e| e.to_string())?;
                let txt = String::from_utf8_lossy(&o.stdout);
                let v: Value = serde_json::from_str(txt.lines().next().unwrap_or("")).map_err(|e| e.to_string())?;
                Ok(v["impl"]["outs"].clone())
            })();
            match r {
                Ok(Value::Array(vs)) => vs.into_iter().for_each(|v| add(v, &mut outs)),
                Ok(o) => add(json!({ "child": o }), &mut outs),
                Err(e) => add(json!({ "child-error": e }), &mut outs),
            }
        }
    }
    json!({ "outs": outs })
}

/// template documents loaded call after call, going on after a rejected one: what is defined afterwards — hence
/// the rule text — must not depend on the order a document's names are visited in
fn gen_template_loads(tier: &str, seed: u64, out: &mut dyn FnMut(Value)) {
    let mut rng = Rng::new(seed ^ 0x7e11);
    let n = if tier == "thorough" { 20000 } else { 2000 };
    for _ in 0..n {
        let ncalls = 2 + rng.below(3);
        let mut calls = vec![];
        for _ in 0..ncalls {
            let k = 1 + rng.below(4);
            let mut names: Vec<&str> = vec!["a", "b", "c", "ab", "d"];
            let mut doc = vec![];
            for _ in 0..k {
                let i = rng.below(names.len());
                doc.push(json!([names.remove(i), *rng.pick(&["X", "Y", "{{a}}", ""])]));
            }
            calls.push(json!([doc]));
        }
        let rule = json!({"name": "r", "matches": [["$m", ".x == '{{a}}-{{b}}-{{c}}-{{ab}}-{{d}}'"]], "condition": "$m"});
        out(json!({"op": "tpl_load", "calls": calls, "rule": rule, "instances": 16, "tag": "template loads continuing past a rejected document", "nt": true}));
    }
}

pub fn gen(tier: &str, seed: u64, out: &mut dyn FnMut(Value)) {
    gen_template_loads(tier, seed, out);
    {
        let mut r2 = Rng::new(seed ^ 0x11aa);
        crate::props::engine_props::many_kinds(&mut r2, out);
        crate::props::c14::gen_reference_histories(out);
    }
    let mut rng = Rng::new(seed);
    let thorough = tier == "thorough";
    let (inst, threads, procs) = if thorough { (32, 4, 2) } else { (8, 2, 0) };
    let mut wrap = |mut c: Value, procs: u64, out: &mut dyn FnMut(Value)| {
        c["op"] = json!("scenario_multi");
        c["instances"] = json!(inst);
        c["threads"] = json!(threads);
        c["procs"] = json!(procs);
        out(c)
    };
    // (0) a long dependency chain reached by two paths of different length from one rule (whichever of the two
    // dependencies is walked first, the outcome is the same)
    for (depth, far, near) in [(81usize, 80usize, 30usize), (140, 139, 3), (70, 69, 68), (40, 39, 5)] {
        use crate::dsl::{Form, Operand, SRule};
        let mut rules = crate::props::engine_props::deep_chain(depth);
        if let Some(last) = rules.last_mut() {
            last.ty = Some("dependency".into());
        }
        for cond in [Form::And(Box::new(Form::V("$far".into())), Box::new(Form::V("$near".into()))), Form::Any(None), Form::N(1, None)] {
            let mut rs = rules.clone();
            rs.push(SRule { name: "top".into(), ops: vec![("$far".into(), Operand::Rule(format!("c{far}"))), ("$near".into(), Operand::Rule(format!("c{near}"))), ("$mid".into(), Operand::Rule(format!("c{}", (far + near) / 2)))], cond: Some(cond), severity: Some(4), ..Default::default() });
            let events: Vec<Value> = ["1", "0"].iter().map(|x| json!({"source": "s", "id": 1, "fields": [[["f0"], {"s": x}]]})).collect();
            let rj: Vec<Value> = rs.iter().map(|r| r.to_json(&mut rng)).collect();
            wrap(json!({"rules": rj, "events": events, "tag": "a long chain reached by paths of different length", "nt": true}), 0, out);
        }
    }
    // (1) quantifier-heavy rule sets with erroring operands: the order-dependence the property names
    let cfg = Cfg { quant_prob: (2, 3), ..Cfg::default() };
    let mut k = 0u64;
    let n1 = if thorough { 30000 } else { 2000 };
    gen_random(&mut rng, &cfg, n1, "quantifiers over operands some of which error", (1, 4), &mut |c| {
        k += 1;
        wrap(c, if k % 50 == 0 { procs } else { 0 }, out)
    });
    // (2) dependency-heavy sets (HashSet of dependencies drives the evaluation order)
    let cfg2 = Cfg { max_rules: 8, dep_prob: (2, 3), n_events: 6, ..Cfg::default() };
    gen_random(&mut rng, &cfg2, if thorough { 20000 } else { 1200 }, "dependency heavy", (1, 6), &mut |c| {
        k += 1;
        wrap(c, if k % 50 == 0 { procs } else { 0 }, out)
    });
    // (2b) operand names that differ only by surrounding spaces are different operands (a quoted YAML key keeps its
    // spaces): nothing may merge them, in whatever order the map is visited
    for _ in 0..(if thorough { 2000 } else { 200 }) {
        let keys = ["$a", "$a ", " $a", "$a  ", "$b", "$b "];
        let mut matches = vec![];
        let mut picked: Vec<&str> = vec![];
        for k in keys {
            if rng.chance(1, 2) {
                picked.push(k);
                matches.push(json!([k, format!(".f{} == '{}'", rng.below(3), rng.below(2))]));
            }
        }
        if matches.is_empty() {
            continue;
        }
        let rule = json!({"name": "r", "matches": matches, "condition": *rng.pick(&["any of them", "all of them", "none of them", "1 of them", "2 of them", "all of $a", "any of $b"])});
        let mut events = vec![];
        for m in 0..8 {
            events.push(json!({"source": "s", "id": 1, "fields": [[["f0"], {"s": (m & 1).to_string()}], [["f1"], {"s": ((m >> 1) & 1).to_string()}], [["f2"], {"s": ((m >> 2) & 1).to_string()}]]}));
        }
        k += 1;
        wrap(json!({"rules": [rule], "events": events, "tag": "operand names differing by spaces", "nt": true}), if k % 50 == 0 { procs } else { 0 }, out);
    }
    // (3) templates whose texts mention other templates / themselves, used in matches and conditions
    const TN: [&str; 5] = ["a", "b", "ab", "c", "a}}b"];
    const TT: [&str; 13] = ["1", "{{b}}", "{{a}}", "x{{ab}}y", "", "{{c}}{{a}}", "2", "}}", "{{", "a", "b", "c", "ab"];
    let n3 = if thorough { 30000 } else { 2400 };
    for i in 0..n3 {
        let ndocs = 1 + rng.below(2);
        let mut docs = vec![];
        let mut names: Vec<&str> = TN.to_vec();
        for _ in 0..ndocs {
            let kk = 1 + rng.below(3);
            let mut doc = vec![];
            for _ in 0..kk {
                if names.is_empty() {
                    break;
                }
                // mostly distinct names (a redefinition makes the load fail, also worth a few cases)
                let nm = if rng.chance(1, 12) { *rng.pick(&TN) } else { names.remove(rng.below(names.len())) };
                doc.push(json!([nm, *rng.pick(&TT)]));
            }
            docs.push(json!(doc));
        }
        let lits = ["{{a}}", "{{b}}{{a}}", "{{ab}}", "x{{a}}{{c}}", "{{a}}b}}", "1", "{{b}}", "{{{{a}}}}", "{{{{b}}}}{{c}}", "{{{a}}}", "{{{{ab}}}}"];
        let mut rules = vec![];
        for r in 0..(1 + rng.below(2)) {
            let nops = 1 + rng.below(3);
            let mut matches = vec![];
            for o in 0..nops {
                matches.push(json!([format!("$o{o}"), format!(".f{} == '{}'", rng.below(2), rng.pick(&lits))]));
            }
            rules.push(json!({"name": format!("r{r}"), "matches": matches, "condition": *rng.pick(&["any of them", "all of them", "$o0", "1 of them", "none of them"]), "severity": rng.below(5)}));
        }
        let mut events = vec![];
        for _ in 0..3 {
            events.push(json!({"source": "s", "id": 1, "fields": [[["f0"], {"s": *rng.pick(&["1", "21", "x1y", "", "12", "{{b}}"])}], [["f1"], {"s": *rng.pick(&["1", "2", "x12", "1b}}"])}]]}));
        }
        wrap(json!({"templates": docs, "rules": rules, "events": events, "tag": "templates mentioning templates", "nt": true}), if i % 50 == 0 { procs } else { 0 }, out);
    }
}
