//! Generators for C06, C07, C09, C10, C12, C13 on top of `engine.rs`.
use crate::dsl::{Form, Lit, Operand, SRule};
use crate::event::DynEvent;
use crate::prng::Rng;
use crate::props::engine::*;
use gene::values::Number;
use gene::FieldValue;
use serde_json::{json, Value};

fn s1(v: &str) -> FieldValue {
    FieldValue::String(v.into())
}

fn assignments(fields: &[Vec<String>], vals: &[Option<FieldValue>]) -> Vec<DynEvent> {
    let n = fields.len();
    let k = vals.len();
    let total = k.pow(n as u32);
    (0..total)
        .map(|mut m| {
            let mut fs = vec![];
            for f in fields {
                let v = &vals[m % k];
                m /= k;
                if let Some(v) = v {
                    fs.push((f.clone(), v.clone()));
                }
            }
            DynEvent { source: "s".into(), id: 1, fields: fs }
        })
        .collect()
}

fn fpath(i: usize) -> Vec<String> {
    vec![format!("f{i}")]
}

const TYPES: [&str; 3] = ["detection", "filter", "dependency"];

/// C06: all DAG shapes over up to 4 rules, every type at every position
pub fn gen_c06(tier: &str, seed: u64, out: &mut dyn FnMut(Value)) {
    crate::props::c14::gen_reference_histories(out);
    let mut rng = Rng::new(seed);
    let thorough = tier == "thorough";
    let names = ["r0", "r1", "r2", "r3"];
    let events = assignments(&(0..4).map(fpath).collect::<Vec<_>>(), &[Some(s1("1")), Some(s1("0"))]);
    let mut events_m = events.clone();
    events_m.push(DynEvent { source: "s".into(), id: 1, fields: vec![(fpath(0), s1("1")), (fpath(2), s1("1"))] });
    events_m.push(DynEvent { source: "s".into(), id: 1, fields: vec![] });
    for n in 1..=4usize {
        let nbits: usize = (0..n).sum();
        for shape in 0..(1u32 << nbits) {
            let type_samples: Vec<Vec<usize>> = if thorough || n <= 2 {
                let total = 3usize.pow(n as u32);
                (0..total).map(|mut t| (0..n).map(|_| { let x = t % 3; t /= 3; x }).collect()).collect()
            } else {
                (0..6).map(|_| (0..n).map(|_| rng.below(3)).collect()).collect()
            };
            for types in type_samples {
                let mut rules = vec![];
                let mut bit = 0;
                for i in 0..n {
                    let mut ops: Vec<(String, Operand)> = vec![("$f".into(), Operand::Test { segs: fpath(i), op: 0, lit: Lit::sq("1") })];
                    for j in 0..i {
                        if shape & (1 << bit) != 0 {
                            ops.push((format!("$d{j}"), Operand::Rule(names[j].into())));
                        }
                        bit += 1;
                    }
                    let vars: Vec<String> = ops.iter().map(|o| o.0.clone()).collect();
                    let cond = match rng.below(6) {
                        0 => Form::All(None),
                        1 => Form::Any(Some("$d".into())),
                        2 => Form::N(2, None),
                        _ => random_form_over(&mut rng, &vars, 2, (1, 5), (0, 1)),
                    };
                    rules.push(SRule {
                        name: names[i].into(),
                        ty: Some(TYPES[types[i]].into()),
                        ops,
                        cond: Some(cond),
                        severity: Some(rng.below(4) as u64),
                        ..Default::default()
                    });
                }
                out(scenario_json(&rules, &events_m, &mut rng, &format!("all DAG shapes, {n} rules")));
            }
        }
    }
    // dependency chains deeper than any plausible recursion bound, and wide fans
    for depth in [8usize, 31, 32, 33, 34, 40, 63, 64, 65, 66, 100, 127, 128, 129, 255, 256, 257] {
        out(scenario_json(&deep_chain(depth), &events_m, &mut rng, "dependency chain"));
    }
    // different sets of dependencies whose names, written one after the other, spell the same text ({ab} / {a, b},
    // {netproc} / {net, proc}), in both load orders; and references to a rule that is loaded but disabled
    {
        let leaf = |n: &str, i: usize| SRule { name: n.into(), ty: Some("dependency".into()), ops: vec![("$f".into(), Operand::Test { segs: fpath(i), op: 0, lit: Lit::sq("1") })], cond: Some(Form::V("$f".into())), ..Default::default() };
        let user = |n: &str, deps: &[&str]| SRule { name: n.into(), ops: deps.iter().enumerate().map(|(k, d)| (format!("$d{k}"), Operand::Rule(d.to_string()))).collect(), cond: Some(Form::All(None)), severity: Some(3), ..Default::default() };
        for (one, two, joined) in [("a", "b", "ab"), ("net", "proc", "netproc"), ("r", "ab", "rab")] {
            for flip in [false, true] {
                let mut rules = vec![leaf(one, 0), leaf(two, 1), leaf(joined, 2)];
                let u1 = user("uses.joined", &[joined]);
                let u2 = user("uses.both", &[one, two]);
                if flip {
                    rules.push(u2.clone());
                    rules.push(u1.clone());
                } else {
                    rules.push(u1);
                    rules.push(u2);
                }
                out(scenario_json(&rules, &events_m, &mut rng, "dependency sets spelling the same text"));
            }
        }
        for cond in [Form::V("$d0".into()), Form::Not(Box::new(Form::V("$d0".into())))] {
            let mut off = leaf("off", 0);
            off.disable = Some(true);
            let mut u = user("uses.off", &["off"]);
            u.cond = Some(cond);
            out(scenario_json(&[leaf("on", 1), off.clone(), u.clone()], &events_m, &mut rng, "reference to a disabled rule"));
            out(scenario_json(&[off, leaf("on", 1), u], &events_m, &mut rng, "reference to a disabled rule"));
        }
    }
    // layered dependencies: every rule of a layer uses every rule of the layer below (shared dependencies at every level)
    for (layers, width) in [(6usize, 2usize), (20, 2), (40, 2), (12, 3)] {
        let mut rules = vec![];
        for l in 0..layers {
            for k in 0..width {
                let ops: Vec<(String, Operand)> = if l == 0 {
                    vec![("$f".into(), Operand::Test { segs: fpath(k), op: 0, lit: Lit::sq("1") })]
                } else {
                    (0..width).map(|j| (format!("$d{j}"), Operand::Rule(format!("l{}k{j}", l - 1)))).collect()
                };
                let cond = if l == 0 { Form::V("$f".into()) } else if (l + k) % 2 == 0 { Form::Any(None) } else { Form::All(None) };
                rules.push(SRule { name: format!("l{l}k{k}"), ty: Some(if l + 1 == layers { "detection" } else { "dependency" }.into()), ops, cond: Some(cond), severity: Some(1), ..Default::default() });
            }
        }
        out(scenario_json(&rules, &events_m, &mut rng, "layered dependencies"));
    }
    // forward, self, unknown and disabled references: the compiler must reject them
    let cfg = Cfg { bad_ref_prob: (1, 4), disabled_prob: (1, 5), max_rules: 5, n_events: 3, ..Cfg::default() };
    gen_random(&mut rng, &cfg, if thorough { 100000 } else { 6000 }, "bad / disabled references", (1, 8), out);
    // random larger DAGs
    let cfg = Cfg { max_rules: 10, dep_prob: (2, 3), n_events: 8, err_ops: false, ..Cfg::default() };
    gen_random(&mut rng, &cfg, if thorough { 100000 } else { 4000 }, "random DAG up to 10 rules", (1, 12), out);
}

/// `c0 <- c1 <- ... <- c(depth-1)`: `c0` tests a field, every other rule is (alternately the negation of) its
/// predecessor; only the last one is reported
pub fn deep_chain(depth: usize) -> Vec<SRule> {
    let mut rules = vec![];
    for i in 0..depth {
        let mut ops: Vec<(String, Operand)> = vec![];
        if i == 0 {
            ops.push(("$f".into(), Operand::Test { segs: fpath(0), op: 0, lit: Lit::sq("1") }));
        } else {
            ops.push(("$d".into(), Operand::Rule(format!("c{}", i - 1))));
        }
        let cond = if i % 2 == 1 { Form::Not(Box::new(Form::V("$d".into()))) } else if i == 0 { Form::V("$f".into()) } else { Form::V("$d".into()) };
        rules.push(SRule {
            name: format!("c{i}"),
            ty: Some(if i + 1 == depth { "detection" } else { "dependency" }.into()),
            ops,
            cond: Some(cond),
            severity: Some(1),
            ..Default::default()
        });
    }
    rules
}

/// more distinct (source, id) pairs on one engine than any bounded table of them would hold, then the first ones again
/// (a kind seen before answers as it did, however many others came in between)
pub fn many_kinds(rng: &mut Rng, out: &mut dyn FnMut(Value)) {
    let rules = vec![
        SRule { name: "a".into(), match_on: Some(serde_json::json!([["s", []]])), ops: vec![("$a".into(), Operand::Test { segs: fpath(0), op: 0, lit: Lit::sq("1") })], cond: Some(Form::V("$a".into())), ..Default::default() },
        SRule { name: "b".into(), ops: vec![("$a".into(), Operand::Test { segs: fpath(0), op: 0, lit: Lit::sq("0") })], cond: Some(Form::V("$a".into())), severity: Some(2), ..Default::default() },
        SRule { name: "c".into(), match_on: Some(serde_json::json!([["s", [3, 64, -5]], ["t", []]])), ops: vec![("$a".into(), Operand::Test { segs: fpath(0), op: 0, lit: Lit::sq("1") })], cond: Some(Form::V("$a".into())), severity: Some(4), ..Default::default() },
    ];
    // one long sequence: distinct kinds, and each time their number reaches a round figure (a likely capacity of a
    // bounded table) two kinds seen before are scanned again
    {
        let mk = |i: usize| DynEvent { source: "s".into(), id: i as i64 - 50, fields: vec![(fpath(0), s1(if i % 3 == 0 { "0" } else { "1" }))] };
        let mut events: Vec<DynEvent> = vec![];
        for i in 0..10000usize {
            events.push(mk(i));
            let n = i + 1;
            if (n >= 64 && n.is_power_of_two()) || [100usize, 500, 1000, 2000, 5000, 10000].contains(&n) {
                events.push(mk(0));
                events.push(mk(i));
                events.push(mk(53));
            }
        }
        out(scenario_json(&rules, &events, rng, "thousands of distinct (source, id) pairs on one engine, then known ones again"));
    }
    for (n, by_source) in [(1030usize, false), (2100, false), (1100, true)] {
        let mk = |i: usize| DynEvent {
            source: if by_source { format!("s{i}") } else { "s".into() },
            id: if by_source { 1 } else { i as i64 - 50 },
            fields: vec![(fpath(0), s1(if i % 3 == 0 { "0" } else { "1" }))],
        };
        let mut events: Vec<DynEvent> = (0..n).map(mk).collect();
        // known kinds again, right at the sizes a table might be cleared at, and after
        for i in [0usize, 1, 2, 53, 114, 1023, 1024, 1025] {
            if i < n {
                events.push(mk(i));
                events.push(mk(i + 1));
            }
        }
        out(scenario_json(&rules, &events, rng, "thousands of distinct (source, id) pairs on one engine, then known ones again"));
    }
}

/// one kind of event with far more than 64 candidate rules, events matching one or two of them, far apart
pub fn many_candidates(rng: &mut Rng, out: &mut dyn FnMut(Value)) {
    for n in [66usize, 70, 130, 200] {
        let rules: Vec<SRule> = (0..n)
            .map(|i| SRule {
                name: format!("d{i:03}"),
                ops: vec![("$a".into(), Operand::Test { segs: fpath(0), op: 0, lit: Lit::sq(&format!("v{i}")) }), ("$b".into(), Operand::Test { segs: fpath(1), op: 0, lit: Lit::sq(&format!("v{i}")) })],
                cond: Some(Form::Or(Box::new(Form::V("$a".into())), Box::new(Form::V("$b".into())))),
                severity: Some((i % 11) as u64),
                ..Default::default()
            })
            .collect();
        let events: Vec<DynEvent> = [(69usize, 69usize), (5, 5), (0, 64), (64, 0), (1, 65), (65, 65), (n - 1, 2), (63, 63), (127 % n, 63)]
            .iter()
            .map(|(a, b)| DynEvent { source: "s".into(), id: 1, fields: vec![(fpath(0), s1(&format!("v{}", a % n))), (fpath(1), s1(&format!("v{}", b % n)))] })
            .collect();
        out(scenario_json(&rules, &events, rng, "more than 64 candidate rules for one kind of event"));
    }
}

/// dozens of detections matching one event, severities at the cap and far above it: the sum is capped, never wrapped,
/// and nothing overflows on the way
pub fn many_matching(rng: &mut Rng, out: &mut dyn FnMut(Value)) {
    for (n, sevs) in [(26usize, vec![10u64]), (30, vec![9]), (40, vec![10, 9, 255]), (64, vec![255]), (100, vec![10, 0, 1]), (300, vec![7, 10])] {
        let rules: Vec<SRule> = (0..n)
            .map(|i| SRule {
                name: format!("m{i:03}"),
                ty: Some(if i % 11 == 10 { "filter" } else { "detection" }.into()),
                ops: vec![("$a".into(), Operand::Test { segs: fpath(0), op: 0, lit: Lit::sq("1") })],
                cond: Some(Form::V("$a".into())),
                severity: Some(sevs[i % sevs.len()]),
                ..Default::default()
            })
            .collect();
        let events = vec![
            DynEvent { source: "s".into(), id: 1, fields: vec![(fpath(0), s1("1"))] },
            DynEvent { source: "s".into(), id: 1, fields: vec![(fpath(0), s1("0"))] },
            DynEvent { source: "s".into(), id: 1, fields: vec![] },
        ];
        out(scenario_json(&rules, &events, rng, "dozens of detections matching one event"));
    }
}

/// C07: arbitrary types, severities 0..255, overlapping / empty / mixed-case sets x all subsets matching
pub fn gen_c07(tier: &str, seed: u64, out: &mut dyn FnMut(Value)) {
    let mut rng = Rng::new(seed);
    many_matching(&mut rng, out);
    let n_sets = if tier == "thorough" { 20000 } else { 1000 };
    for _ in 0..n_sets {
        let n = 1 + rng.below(6);
        let cfg = Cfg { match_on: false, ..Cfg::default() };
        let mut rules = vec![];
        for i in 0..n {
            let mut r = random_rule(&mut rng, &cfg, &format!("r{i}"), &[]);
            r.ops = vec![("$a".into(), Operand::Test { segs: fpath(i), op: 0, lit: Lit::sq("1") })];
            r.cond = Some(Form::V("$a".into()));
            r.severity = match rng.below(5) {
                0 => None,
                1 | 2 => Some(*rng.pick(&[9u64, 10, 11, 100, 200, 255, 246, 250, 245])),
                _ => Some(rng.below(12) as u64),
            };
            rules.push(r);
        }
        let events = assignments(&(0..n).map(fpath).collect::<Vec<_>>(), &[Some(s1("1")), Some(s1("0"))]);
        out(scenario_json(&rules, &events, &mut rng, &format!("{n} rules x all subsets")));
    }
    // reported rules that are also used as dependencies of other reported rules (their contribution must not be
    // lost or counted twice), with metadata and high severities
    let cfg = Cfg { max_rules: 6, dep_prob: (1, 2), match_on: false, err_ops: false, n_events: 8, ..Cfg::default() };
    gen_random(&mut rng, &cfg, if tier == "thorough" { 40000 } else { 2400 }, "rule sets with dependencies among reported rules", (0, 1), out);
    // the same with match-on sections: a rule evaluated only because another rule uses it, on an event its own
    // section does not admit, contributes nothing to the result
    let cfg = Cfg { max_rules: 6, dep_prob: (1, 2), match_on: true, err_ops: false, n_events: 8, ..Cfg::default() };
    gen_random(&mut rng, &cfg, if tier == "thorough" { 40000 } else { 2400 }, "dependencies whose match-on excludes the event", (0, 1), out);
}

/// C10: any subset of operands made to fail at every position; DAG levels
pub fn gen_c10(tier: &str, seed: u64, out: &mut dyn FnMut(Value)) {
    let mut rng = Rng::new(seed);
    // long chains on which nothing fails, and on which the bottom fails: an error exactly when something failed
    {
        let events: Vec<DynEvent> = [Some(s1("1")), Some(s1("0")), None].iter().map(|v| DynEvent { source: "s".into(), id: 1, fields: v.clone().map(|v| (fpath(0), v)).into_iter().collect() }).collect();
        for depth in [33usize, 65, 129, 200, 257, 600] {
            out(scenario_json(&deep_chain(depth), &events, &mut rng, "long dependency chain"));
        }
    }
    let thorough = tier == "thorough";
    // single rule, formulas over 3 operands, each field in {true, false, missing, wrong kind}
    let vals = [Some(s1("1")), Some(s1("0")), None, Some(FieldValue::Bool(true))];
    let fields: Vec<Vec<String>> = (0..3).map(fpath).collect();
    let events = assignments(&fields, &vals);
    let opn = ["$a", "$ab", "$b"];
    let n = if thorough { 30000 } else { 2000 };
    for _ in 0..n {
        let ops: Vec<(String, Operand)> = (0..3)
            .map(|i| {
                let (op, lit) = match rng.below(5) {
                    0 => (3, Lit::sq("1")),        // <= on numeric text
                    1 => (6, Lit::sq("^1$")),      // regex
                    _ => (0, Lit::sq("1")),
                };
                (opn[i].to_string(), Operand::Test { segs: fpath(i), op, lit })
            })
            .collect();
        let vars: Vec<String> = opn.iter().map(|s| s.to_string()).collect();
        let d = 1 + rng.below(3);
        let cond = random_form_over(&mut rng, &vars, d, (1, 3), (1, 12));
        let r = SRule { name: "r".into(), ops, cond: Some(cond), ..Default::default() };
        out(scenario_json(&[r], &events, &mut rng, "one rule, failure placement"));
    }
    // failures at every level of a dependency graph
    let cfg = Cfg { dep_prob: (1, 2), unknown_operand_prob: (1, 10), max_rules: 6, n_events: 12, ..Cfg::default() };
    gen_random(&mut rng, &cfg, if thorough { 150000 } else { 10000 }, "rule sets with failing operands", (1, 3), out);
}

/// C12: sequences of events with repeats and interleavings on one engine
pub fn gen_c12(tier: &str, seed: u64, out: &mut dyn FnMut(Value)) {
    let mut rng = Rng::new(seed);
    let n = if tier == "thorough" { 75000 } else { 4800 };
    for _ in 0..n {
        let cfg = Cfg { max_rules: 5, ..Cfg::default() };
        let rules = random_ruleset(&mut rng, &cfg);
        let pool: Vec<DynEvent> = (0..4).map(|_| random_event(&mut rng, (1, 6))).collect();
        let len = 2 + rng.below(24);
        let mut events = vec![];
        for _ in 0..len {
            let mut e = rng.pick(&pool).clone();
            if rng.chance(1, 3) {
                // same source, another id / same id, another source: neighbouring cache keys
                if rng.chance(1, 2) {
                    e.id = *rng.pick(&[1i64, 2, 0, -1, -2, 4294967297, 4294967298, -4294967295, i64::MIN, i64::MAX]);
                } else {
                    e.source = rng.pick(&["s", "t", "u", "s-", "s--", "", "S"]).to_string();
                }
            }
            events.push(e);
        }
        out(scenario_json(&rules, &events, &mut rng, "event sequence on one engine"));
    }
    // the same at a scale only the implementation is run at: more rules than a 16-bit index can address
    for n_rules in if tier == "thorough" { vec![65_540usize, 70_000, 131_080] } else { vec![65_540usize] } {
        let mut events = vec![];
        for i in 0..12 {
            let id = [1i64, 1, 2, 1, 3, 2, 1, 4294967297, 1, 2, 2, 1][i];
            events.push(serde_json::json!({"source": "s", "id": id, "fields": [[["x"], {"s": if i % 5 == 4 { "0" } else { "1" }}], [["y"], {"s": if i % 2 == 0 { "1" } else { "0" }}]]}));
        }
        out(serde_json::json!({"op": "history_meta", "n_rules": n_rules, "events": events, "tag": "implementation only: used engine vs pristine clone, > 65536 rules", "nt": true}));
    }
    many_kinds(&mut rng, out);
    many_candidates(&mut rng, out);
    // rules made of `rule(..)` operands only, some levels above the field test, and events of one kind that differ in
    // that field
    {
        let events: Vec<DynEvent> = [Some("1"), Some("0"), Some("1"), None, Some("0"), Some("1")].iter().map(|v| DynEvent { source: "s".into(), id: 1, fields: v.map(|v| (fpath(0), s1(v))).into_iter().collect() }).collect();
        for depth in [2usize, 3, 4, 5, 9, 40] {
            out(scenario_json(&deep_chain(depth), &events, &mut rng, "chain of rule(..)-only rules, events of one kind"));
        }
    }
    // kinds no rule applies to, by the hundred thousand, then kinds rules do apply to (implementation only)
    {
        let ev = |src: &str, id: i64, x: &str, y: &str| serde_json::json!({"source": src, "id": id, "fields": [[["x"], {"s": x}], [["y"], {"s": y}]]});
        let mut events = vec![ev("s", 1, "1", "1"), serde_json::json!({"distinct": if tier == "thorough" { 400000 } else { 200000 }, "event": ev("nobody", 0, "1", "1")})];
        for id in 1..=40i64 {
            events.push(ev("s", id, "1", "1"));
            events.push(ev("other", 7, "1", "1"));
        }
        out(serde_json::json!({"op": "history_meta", "n_rules": 5, "events": events, "tag": "implementation only: hundreds of thousands of kinds no rule applies to, then kinds rules apply to", "nt": true}));
    }
    // a wide rule (`any of them` / `N of them` over 16..20 operands) on one engine: which operand decided the previous
    // event must not matter for the next one (a missing field earlier in the order is an error, whatever matched before)
    for k in 0..(if tier == "thorough" { 2000 } else { 150 }) {
        let w = 16 + rng.below(5);
        let ops: Vec<(String, Operand)> = (0..w).map(|i| (format!("$k{i:02}"), Operand::Test { segs: vec![format!("k{i}")], op: 0, lit: Lit::sq("1") })).collect();
        let cond = match k % 4 {
            0 | 1 => Form::Any(None),
            2 => Form::N(1 + rng.below(3) as u64, None),
            _ => Form::Or(Box::new(Form::Any(Some("$k0".into()))), Box::new(Form::Any(Some("$k1".into())))),
        };
        let r = SRule { name: "wide".into(), ops, cond: Some(cond), ..Default::default() };
        let len = 3 + rng.below(6);
        let events: Vec<DynEvent> = (0..len)
            .map(|_| {
                let hit = rng.below(w);
                let missing = if rng.chance(1, 2) { Some(rng.below(w)) } else { None };
                DynEvent {
                    source: "s".into(),
                    id: 1,
                    fields: (0..w).filter(|i| Some(*i) != missing).map(|i| (vec![format!("k{i}")], s1(if i == hit { "1" } else { "0" }))).collect(),
                }
            })
            .collect();
        out(scenario_json(&[r], &events, &mut rng, "wide rule, event sequence on one engine"));
    }
    // two events of one kind separated by exactly 2^k - 1, 2^k, 2^k + 1 scans of another kind that never looks at the
    // dependency (any per-scan stamp or counter kept in a narrow integer comes round again)
    for gap in if tier == "thorough" { vec![127u64, 254, 255, 256, 257, 511, 65534, 65535, 65536, 65537, 131071] } else { vec![254u64, 255, 256, 65534, 65535, 65536] } {
        let ev = |src: &str, id: i64, x: &str, y: &str| serde_json::json!({"source": src, "id": id, "fields": [[["x"], {"s": x}], [["y"], {"s": y}]]});
        for (x1, x2) in [("1", "0"), ("0", "1")] {
            let events = serde_json::json!([ev("s", 1, x1, "1"), {"repeat": gap, "event": ev("other", 7, "1", "1")}, ev("s", 1, x2, "1"), ev("s", 2, x1, "1")]);
            out(serde_json::json!({"op": "history_meta", "n_rules": 5, "events": events, "tag": "implementation only: a dependency's verdict flips after a gap of 2^k +- 1 scans", "nt": true}));
        }
    }
    // long histories: thousands of distinct (source, id) pairs interleaved with a frequent one — more than a
    // bounded cache would keep, and long enough for any periodic clean-up to run
    let n_long = if tier == "thorough" { 6 } else { 2 };
    for k in 0..n_long {
        let cfg = Cfg { max_rules: 3, err_ops: false, dep_prob: (1, 3), ..Cfg::default() };
        let mut rules = random_ruleset(&mut rng, &cfg);
        // make sure at least one rule is reported for the frequent event whatever the id
        rules.push(SRule {
            name: "always".into(),
            ty: Some("detection".into()),
            match_on: Some(serde_json::json!([["s", []]])),
            ops: vec![("$a".into(), Operand::Test { segs: fpath(0), op: 0, lit: Lit::sq("1") })],
            cond: Some(Form::V("$a".into())),
            severity: Some(3),
            ..Default::default()
        });
        let total = 8400 + 700 * k;
        let mut events = vec![];
        for i in 0..total {
            let id = if i % 2 == 0 { 1 } else { (i as i64) * 7 + 11 };
            events.push(DynEvent { source: "s".into(), id, fields: vec![(fpath(0), s1("1")), (fpath(1), s1(if i % 3 == 0 { "1" } else { "0" }))] });
        }
        out(scenario_json(&rules, &events, &mut rng, "long history (thousands of distinct keys)"));
    }
}

/// C13: S, supersets S+T, and dependency-respecting permutations of S
pub fn gen_c13(tier: &str, seed: u64, out: &mut dyn FnMut(Value)) {
    let mut rng = Rng::new(seed);
    crate::props::c14::gen_reference_histories(out);
    many_kinds(&mut rng, out);
    // more unrelated rules than a 16-bit index can address, loaded before or after the rules that matter: the two
    // engines must agree on every event (implementation only; the model's side is `C13_load_order`)
    for n_rules in if tier == "thorough" { vec![65_540usize, 131_080] } else { vec![65_540usize] } {
        let mut events = vec![];
        for i in 0..8 {
            let id = [1i64, 2, 1, 3, 1, 2, 1, 1][i];
            events.push(serde_json::json!({"source": "s", "id": id, "fields": [[["x"], {"s": if i % 3 == 2 { "0" } else { "1" }}], [["y"], {"s": if i % 4 == 3 { "0" } else { "1" }}]]}));
        }
        out(serde_json::json!({"op": "history_meta", "n_rules": n_rules, "two_orders": true, "events": events, "tag": "implementation only: unrelated rules loaded before / after, > 65536 rules", "nt": true}));
    }
    // long dependency chains, alone and next to an unrelated rule that happens to use a rule low in the chain and is
    // visited first (higher severity): the top of the chain is reported or not whatever else is loaded, wherever
    {
        let events: Vec<DynEvent> = [Some(s1("1")), Some(s1("0")), None].iter().map(|v| DynEvent { source: "s".into(), id: 1, fields: v.clone().map(|v| (fpath(0), v)).into_iter().collect() }).collect();
        for depth in [31usize, 33, 64, 65, 66, 70, 100, 129, 257] {
            let s = deep_chain(depth);
            out(scenario_json(&s, &events, &mut rng, "S: long chain"));
            for at in [1usize, 5, depth / 2, depth - 2] {
                let t = SRule {
                    name: "zz.other".into(),
                    ty: Some("detection".into()),
                    ops: vec![("$d".into(), Operand::Rule(format!("c{}", at.min(depth - 2))))],
                    cond: Some(Form::V("$d".into())),
                    severity: Some(10),
                    ..Default::default()
                };
                let mut sup = s.clone();
                sup.push(t.clone());
                out(scenario_json(&sup, &events, &mut rng, "S + T: long chain and a rule sharing its lower part"));
                let mut sup2 = s.clone();
                sup2.insert(at.min(depth - 2) + 1, t);
                out(scenario_json(&sup2, &events, &mut rng, "S + T: long chain and a rule sharing its lower part"));
            }
        }
    }
    let n = if tier == "thorough" { 30000 } else { 2000 };
    for _ in 0..n {
        let cfg = Cfg { max_rules: 5, n_events: 6, ..Cfg::default() };
        let mut rules = random_ruleset(&mut rng, &cfg);
        // shared severities and prefix-related names are in the pools already; force some ties
        if rng.chance(1, 2) {
            for r in rules.iter_mut() {
                r.severity = Some(5);
            }
        }
        let events: Vec<DynEvent> = (0..cfg.n_events).map(|_| random_event(&mut rng, (1, 6))).collect();
        out(scenario_json(&rules, &events, &mut rng, "S"));
        // S + T: unrelated rules with fresh names, interleaved at random positions
        let mut sup = rules.clone();
        let k = 1 + rng.below(3);
        for j in 0..k {
            let mut t = random_rule(&mut rng, &cfg, &format!("t{j}"), &[]);
            if rng.chance(1, 4) && !rules.is_empty() {
                // a retired (disabled) rule bearing the name of a rule of S: it is ignored entirely, wherever it sits
                t.name = rng.pick(&rules).name.clone();
                t.disable = Some(true);
            }
            let pos = rng.below(sup.len() + 1);
            sup.insert(pos, t);
        }
        out(scenario_json(&sup, &events, &mut rng, "S + T"));
        // dependency-respecting permutations: random topological orders
        for _ in 0..3 {
            let mut remaining: Vec<SRule> = rules.clone();
            let mut placed: Vec<SRule> = vec![];
            while !remaining.is_empty() {
                let ready: Vec<usize> = (0..remaining.len())
                    .filter(|i| {
                        remaining[*i].ops.iter().all(|(_, o)| match o {
                            Operand::Rule(n) => placed.iter().any(|p| &p.name == n) || !rules.iter().any(|r| &r.name == n),
                            _ => true,
                        })
                    })
                    .collect();
                if ready.is_empty() {
                    break;
                }
                let i = *rng.pick(&ready);
                placed.push(remaining.remove(i));
            }
            if remaining.is_empty() {
                out(scenario_json(&placed, &events, &mut rng, "permutation of S"));
            }
        }
    }
}

/// C09: every operator with every literal kind it accepts x events with any FieldValue whatsoever
pub fn gen_c09(tier: &str, seed: u64, out: &mut dyn FnMut(Value)) {
    let mut rng = Rng::new(seed);
    many_matching(&mut rng, out);
    many_kinds(&mut rng, out);
    // a dependency chain of thousands of rules scanned on a small stack (implementation only)
    for depth in [500u64, 2000] {
        let ev = |x: &str| serde_json::json!({"source": "s", "id": 1, "fields": [[["x"], {"s": x}]]});
        out(serde_json::json!({"op": "history_meta", "chain": depth, "n_rules": depth, "events": [ev("1"), ev("0"), ev("1")], "tag": "implementation only: long dependency chain scanned on a 256 KiB stack", "nt": true}));
    }
    // the C03 product already feeds every value kind to every operator; here: rule sets under scan
    crate::props::c03::gen(tier, seed, out);
    let weird = [
        FieldValue::Number(Number::Int(i64::MIN)), FieldValue::Number(Number::Int(i64::MAX)), FieldValue::Number(Number::Uint(u64::MAX)),
        FieldValue::Number(Number::Float(f64::NAN)), FieldValue::Number(Number::Float(f64::MAX)), FieldValue::Number(Number::Float(-0.0)),
        FieldValue::String(String::new()), FieldValue::String("\u{10ffff}\u{0}".into()), FieldValue::String("9".repeat(400)),
        FieldValue::String("-9223372036854775808".into()), FieldValue::String("0xffffffffffffffff".into()), FieldValue::Some, FieldValue::None,
        FieldValue::Bool(false),
    ];
    gen_derived(&mut rng, if tier == "thorough" { 10000 } else { 1000 }, "events served by derived getters (non-UTF-8 paths, NaN, extremes)", out);
    let n = if tier == "thorough" { 100000 } else { 6000 };
    for _ in 0..n {
        let cfg = Cfg { max_rules: 6, dep_prob: (1, 2), ..Cfg::default() };
        let rules = random_ruleset(&mut rng, &cfg);
        let events: Vec<DynEvent> = (0..8)
            .map(|_| {
                let mut e = random_event(&mut rng, (1, 5));
                for f in e.fields.iter_mut() {
                    if rng.chance(1, 2) {
                        f.1 = rng.pick(&weird).clone();
                    }
                }
                e.id = *rng.pick(&[1i64, i64::MIN, i64::MAX, 0]);
                e
            })
            .collect();
        out(scenario_json(&rules, &events, &mut rng, "rule sets x weird values"));
    }
}

/// C12 at a scale the model cannot be run at: the implementation alone, used engine against pristine clone (the
/// property itself is the oracle; for the model the same statement is `C12_history_independent`, for any size)
pub fn exec_history_meta(case: &Value) -> Value {
    use std::fmt::Write as _;
    let n = case["n_rules"].as_u64().unwrap_or(1000) as usize;
    let fillers_last = case["fillers_last"].as_bool().unwrap_or(false);
    let mut fill = String::with_capacity(n * 90);
    for i in 0..n.saturating_sub(3) {
        let _ = write!(fill, "---\nname: f{i}\nmatch-on: {{events: {{other: [7]}}}}\nmatches: {{$a: \".x == '1'\"}}\ncondition: $a\n");
    }
    let mut core = String::new();
    core.push_str("---\nname: dep.last\ntype: dependency\nmatches: {$a: \".x == '1'\"}\ncondition: $a\n");
    core.push_str("---\nname: any.s\nmatch-on: {events: {s: []}}\nmatches: {$a: \".x == '1'\"}\ncondition: $a\nseverity: 3\n");
    core.push_str("---\nname: uses.dep\nmatch-on: {events: {s: [1, 2]}}\nmatches: {$d: \"rule(dep.last)\", $b: \".y == '1'\"}\ncondition: $d and $b\nseverity: 2\n");
    // the unrelated rules before the three that matter (indexes beyond 2^16), or after them
    let y = if fillers_last { format!("{core}{fill}") } else { format!("{fill}{core}") };
    if let Some(depth) = case["chain"].as_u64() {
        // `depth` rules in a chain (each one the verdict of the one before), built here, scanned on a thread whose stack
        // is 256 KiB: the engine was built, so scanning must come back whatever the depth
        let mut y = String::from("---\nname: c0\ntype: dependency\nmatches: {$a: \".x == '1'\"}\ncondition: $a\n");
        for i in 1..depth {
            let _ = write!(y, "---\nname: c{i}\ntype: {}\nmatches: {{$d: \"rule(c{})\"}}\ncondition: $d\n", if i + 1 == depth { "detection" } else { "dependency" }, i - 1);
        }
        let mut c = gene::Compiler::new();
        if let Err(e) = c.load_rules_from_str(&y) {
            return json!({"load": format!("{e:?}")});
        }
        let eng = match gene::Engine::try_from(c) {
            Ok(e) => e,
            Err(e) => return json!({"compile": format!("{e:?}")}),
        };
        let evs: Vec<Value> = case["events"].as_array().cloned().unwrap_or_default();
        let h = std::thread::Builder::new().stack_size(256 * 1024).spawn(move || {
            let pristine = eng.clone();
            let mut used = eng;
            for (i, ev) in evs.iter().enumerate() {
                let ev = match crate::event::event_from_json(ev) {
                    Ok(e) => e,
                    Err(e) => return json!({ "badevent": e }),
                };
                let a = crate::scenario::scan_outcome(&mut used, &ev);
                let b = crate::scenario::scan_outcome(&mut pristine.clone(), &ev);
                if a != b {
                    return json!({"differs": {"event": i, "used": a, "fresh": b}});
                }
                if a.get("ok").map(|o| o.is_null()).unwrap_or(true) && i == 0 {
                    return json!({"the top of the chain is not reported": a});
                }
            }
            json!({"consistent": true})
        });
        return match h.map(|h| h.join()) {
            Ok(Ok(v)) => v,
            _ => json!("panic"),
        };
    }
    if case["two_orders"].as_bool().unwrap_or(false) {
        // the same rules in the other load order: every event must get the identical outcome (C13)
        let y2 = if fillers_last { format!("{fill}{core}") } else { format!("{core}{fill}") };
        let build = |t: &str| -> Result<gene::Engine, Value> {
            let mut c = gene::Compiler::new();
            c.load_rules_from_str(t).map_err(|e| json!({"load": format!("{e:?}")}))?;
            gene::Engine::try_from(c).map_err(|e| json!({"compile": format!("{e:?}")}))
        };
        let (mut e1, mut e2) = match (build(&y), build(&y2)) {
            (Ok(a), Ok(b)) => (a, b),
            (Err(e), _) | (_, Err(e)) => return e,
        };
        for (i, ev) in case["events"].as_array().cloned().unwrap_or_default().iter().enumerate() {
            let ev = match crate::event::event_from_json(ev) {
                Ok(e) => e,
                Err(e) => return json!({ "badevent": e }),
            };
            let a = crate::scenario::scan_outcome(&mut e1, &ev);
            let b = crate::scenario::scan_outcome(&mut e2, &ev);
            if a != b {
                return json!({"differs": {"event": i, "one order": a, "other order": b}});
            }
        }
        return json!({"consistent": true});
    }
    let mut c = gene::Compiler::new();
    if let Err(e) = c.load_rules_from_str(&y) {
        return json!({"load": format!("{e:?}")});
    }
    let eng = match gene::Engine::try_from(c) {
        Ok(e) => e,
        Err(e) => return json!({"compile": format!("{e:?}")}),
    };
    let pristine = eng.clone();
    let mut used = eng;
    // an entry `{"repeat": n, "event": e}` stands for n copies of e
    let mut events: Vec<Value> = vec![];
    for e in case["events"].as_array().cloned().unwrap_or_default() {
        if let Some(k) = e.get("distinct").and_then(|r| r.as_u64()) {
            // k events of k different kinds: the same source, ids 0..k
            for i in 0..k {
                let mut ev = e["event"].clone();
                ev["id"] = json!(i as i64);
                events.push(ev);
            }
            continue;
        }
        match e.get("repeat").and_then(|r| r.as_u64()) {
            Some(k) => {
                for _ in 0..k {
                    events.push(e["event"].clone());
                }
            }
            None => events.push(e),
        }
    }
    for (i, ev) in events.iter().enumerate() {
        let ev = match crate::event::event_from_json(ev) {
            Ok(e) => e,
            Err(e) => return json!({ "badevent": e }),
        };
        let a = crate::scenario::scan_outcome(&mut used, &ev);
        let b = crate::scenario::scan_outcome(&mut pristine.clone(), &ev);
        if a != b {
            return json!({"differs": {"event": i, "used": a, "fresh": b}});
        }
    }
    json!({"consistent": true})
}
