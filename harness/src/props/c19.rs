//! C19: conversions into the engine's value domain. All 8- and 16-bit integers exhaustively, boundary and
//! random 32/64-bit/pointer-sized integers, f32 bit patterns (incl. subnormals, infinities, NaN),
//! Display/parse round trips, text, booleans, paths, IP addresses, Option nestings; through
//! `Number::from`, `FieldValue::from`, `Number::parse`, `Display` and the scalar `FieldGetter` impls.
use crate::event::fv_to_json;
use crate::prng::Rng;
use gene::values::Number;
use gene::{FieldGetter, FieldValue};
use serde_json::{json, Value};
use std::net::IpAddr;
use std::path::PathBuf;

fn both<T: Into<Number> + Into<FieldValue> + FieldGetter + Copy>(v: T) -> Value {
    let n: Number = v.into();
    let f: FieldValue = v.into();
    let g = v.get_from_iter([].iter());
    let over = v.get_from_iter(["x".to_string()].iter());
    let nj = fv_to_json(&FieldValue::Number(n));
    if fv_to_json(&f) != nj || g.as_ref().map(fv_to_json) != Some(nj.clone()) || over.is_some() {
        return json!({"mismatch": [nj, fv_to_json(&f), g.as_ref().map(fv_to_json), over.as_ref().map(fv_to_json)]});
    }
    nj
}

fn conv(kind: &str, v: i128) -> Value {
    match kind {
        "i8" => both(v as i8),
        "i16" => both(v as i16),
        "i32" => both(v as i32),
        "i64" => both(v as i64),
        "isize" => both(v as isize),
        "u8" => both(v as u8),
        "u16" => both(v as u16),
        "u32" => both(v as u32),
        "u64" => both(v as u64),
        "usize" => both(v as usize),
        _ => json!("badkind"),
    }
}

fn f64_json(f: f64) -> Value {
    if f.is_nan() {
        json!("nan")
    } else {
        json!(format!("{:016x}", f.to_bits()))
    }
}

pub fn exec(case: &Value) -> Value {
    match case["op"].as_str().unwrap_or("") {
        "conv" => {
            let kind = case["kind"].as_str().unwrap_or("");
            json!(case["vs"].as_array().unwrap().iter().map(|v| conv(kind, v.as_i64().map(|x| x as i128).or(v.as_u64().map(|x| x as i128)).unwrap_or(0))).collect::<Vec<_>>())
        }
        "widen" => json!(case["bits"]
            .as_array()
            .unwrap()
            .iter()
            .map(|b| {
                let x = f32::from_bits(b.as_u64().unwrap() as u32);
                match (Number::from(x), FieldValue::from(x), x.get_from_iter([].iter())) {
                    (Number::Float(a), FieldValue::Number(Number::Float(b)), Some(FieldValue::Number(Number::Float(c)))) => {
                        if f64_json(a) == f64_json(b) && f64_json(b) == f64_json(c) {
                            f64_json(a)
                        } else {
                            json!("mismatch")
                        }
                    }
                    _ => json!("notfloat"),
                }
            })
            .collect::<Vec<_>>()),
        "roundtrip" => json!(case["ns"]
            .as_array()
            .unwrap()
            .iter()
            .map(|n| match crate::event::fv_from_json(n) {
                Ok(FieldValue::Number(n)) => {
                    let t = n.to_string();
                    match Number::parse(&t) {
                        Ok(p) => json!([t, fv_to_json(&FieldValue::Number(p))]),
                        Err(_) => json!([t, Value::Null]),
                    }
                }
                _ => json!("bad"),
            })
            .collect::<Vec<_>>()),
        "num_out" => json!(case["ns"]
            .as_array()
            .unwrap()
            .iter()
            .map(|n| match crate::event::fv_from_json(n) {
                Ok(FieldValue::Number(n)) => json!({
                    "i64": i64::try_from(n).ok(),
                    "u64": u64::try_from(n).ok(),
                    "f64": f64::try_from(n).ok().map(|f| if f.is_nan() { "nan".to_string() } else if f == 0.0 { format!("{:016x}", 0u64) } else { format!("{:016x}", f.to_bits()) }),
                    "is": [n.is_int(), n.is_uint(), n.is_float()],
                }),
                _ => json!("bad"),
            })
            .collect::<Vec<_>>()),
        "hexparse" => json!(case["ts"]
            .as_array()
            .unwrap()
            .iter()
            .map(|t| match Number::parse(t.as_str().unwrap_or("")) {
                Ok(p) => fv_to_json(&FieldValue::Number(p)),
                Err(_) => Value::Null,
            })
            .collect::<Vec<_>>()),
        "textconv" => json!(case["ss"]
            .as_array()
            .unwrap()
            .iter()
            .map(|s| {
                let s = s.as_str().unwrap_or("");
                let a = FieldValue::from(s);
                let b = FieldValue::from(s.to_string());
                let c = FieldValue::from(std::borrow::Cow::from(s));
                let d = s.to_string().get_from_iter([].iter());
                let p = PathBuf::from(s).get_from_iter([].iter());
                let o1 = FieldValue::from(Some(s));
                let o2 = FieldValue::from(Some(Some(s.to_string())));
                let o3 = FieldValue::from(&Some(s.to_string()));
                let none: Option<Option<String>> = None;
                let o4 = FieldValue::from(none);
                let inner_none: Option<Option<String>> = Some(None);
                let o5 = FieldValue::from(inner_none);
                let og = Some(s.to_string()).get_from_iter([].iter());
                let ng: Option<String> = None;
                let ng1 = ng.get_from_iter([].iter());
                let ng2 = ng.get_from_iter(["more".to_string()].iter());
                let all_same = [&b, &c, &o1, &o2, &o3].iter().all(|x| **x == a) && d.as_ref() == Some(&a) && p.as_ref() == Some(&a) && og.as_ref() == Some(&a);
                let nones = o4 == FieldValue::None && o5 == FieldValue::None && ng1 == Some(FieldValue::None) && ng2 == Some(FieldValue::None);
                if all_same && nones {
                    fv_to_json(&a)
                } else {
                    json!("mismatch")
                }
            })
            .collect::<Vec<_>>()),
        "pathbytes" => json!(case["paths"]
            .as_array()
            .unwrap()
            .iter()
            .map(|p| {
                // a path given by its bytes (not necessarily UTF-8): it enters as its lossy text
                let bytes: Vec<u8> = p["bytes"].as_array().map(|a| a.iter().map(|b| b.as_u64().unwrap_or(0) as u8).collect()).unwrap_or_default();
                let pb = PathBuf::from(<std::ffi::OsString as std::os::unix::ffi::OsStringExt>::from_vec(bytes));
                let g = pb.get_from_iter([].iter());
                let o = Some(pb.clone()).get_from_iter([].iter());
                let r = pb.as_path().get_from_iter([].iter());
                if g == o && g == r {
                    match g {
                        Some(v) => fv_to_json(&v),
                        None => Value::Null,
                    }
                } else {
                    json!("mismatch")
                }
            })
            .collect::<Vec<_>>()),
        "boolip" => {
            let mut outs = vec![];
            for b in [true, false] {
                let v = FieldValue::from(b);
                let g = b.get_from_iter([].iter());
                outs.push(if g.as_ref() == Some(&v) && b.get_from_iter(["x".to_string()].iter()).is_none() { fv_to_json(&v) } else { json!("mismatch") });
            }
            for t in case["ips"].as_array().unwrap() {
                let t = t.as_str().unwrap_or("");
                match t.parse::<IpAddr>() {
                    Ok(ip) => outs.push(ip.get_from_iter([].iter()).map(|v| fv_to_json(&v)).unwrap_or(Value::Null)),
                    Err(_) => outs.push(json!("noip")),
                }
            }
            json!(outs)
        }
        _ => json!({"error": "bad op"}),
    }
}

pub fn gen(tier: &str, seed: u64, out: &mut dyn FnMut(Value)) {
    let mut rng = Rng::new(seed);
    let thorough = tier == "thorough";
    // all 8- and 16-bit integers
    for (kind, lo, hi) in [("i8", -128i64, 127i64), ("u8", 0, 255), ("i16", -32768, 32767), ("u16", 0, 65535)] {
        let mut v = lo;
        while v <= hi {
            let end = (v + 255).min(hi);
            let vs: Vec<i64> = (v..=end).collect();
            out(json!({"op": "conv", "kind": kind, "vs": vs, "tag": format!("exhaustive {kind}"), "nt": true}));
            v = end + 1;
        }
    }
    // boundary and random wider integers
    let n = if thorough { 20000 } else { 1600 };
    for kind in ["i32", "i64", "isize", "u32", "u64", "usize"] {
        let signed = kind.starts_with('i');
        let bits: u32 = if kind.ends_with("32") { 32 } else { 64 };
        let (lo, hi): (i128, i128) = if signed { (-(1i128 << (bits - 1)), (1i128 << (bits - 1)) - 1) } else { (0, (1i128 << bits) - 1) };
        let mut vs: Vec<i128> = vec![lo, lo + 1, -1, 0, 1, hi - 1, hi, 1 << 31, (1 << 31) - 1, 1 << 53, (1i128 << 63) - 1];
        vs.retain(|v| *v >= lo && *v <= hi);
        for _ in 0..n {
            let r = rng.next() as i128;
            let v = if signed { (r as i64 as i128).clamp(lo, hi) } else { r & hi };
            vs.push(if bits == 32 { if signed { (r as i32) as i128 } else { (r as u32) as i128 } } else { v });
        }
        for chunk in vs.chunks(200) {
            let js: Vec<Value> = chunk.iter().map(|v| if *v < 0 { json!(*v as i64) } else { json!(*v as u64) }).collect();
            out(json!({"op": "conv", "kind": kind, "vs": js, "tag": format!("boundary+random {kind}"), "nt": true}));
        }
    }
    // f32 -> f64
    let mut bits: Vec<u32> = vec![0, 0x8000_0000, 1, 2, 0x007f_ffff, 0x0080_0000, 0x0080_0001, 0x3f80_0000, 0x3fc0_0000, 0x7f7f_ffff, 0x7f80_0000, 0xff80_0000, 0x7fc0_0000, 0x7f80_0001, 0xffc0_0001, 0x0000_0100, 0x8000_0001, 0x0040_0000];
    for e in 0..=255u32 {
        bits.push(e << 23);
        bits.push((e << 23) | 1);
        bits.push((e << 23) | 0x7f_ffff);
    }
    for k in 0..23 {
        bits.push(1 << k);
        bits.push((1 << k) | 1);
    }
    for _ in 0..(if thorough { 2000000 } else { 80000 }) {
        bits.push(rng.next() as u32);
    }
    for chunk in bits.chunks(500) {
        out(json!({"op": "widen", "bits": chunk, "tag": "f32 widening", "nt": true}));
    }
    // Display then parse
    let mut ns: Vec<Value> = vec![];
    for u in [0u64, 1, 9, 10, 99, 100, 255, 1 << 32, (1 << 53) + 1, u64::MAX, u64::MAX - 1, 1 << 63] {
        ns.push(json!({ "u": u }));
    }
    for i in [-1i64, -9, -10, -128, -32768, i64::MIN, i64::MIN + 1, -(1 << 53) - 1] {
        ns.push(json!({ "i": i }));
    }
    for _ in 0..(if thorough { 500000 } else { 20000 }) {
        if rng.chance(1, 2) {
            let sh = rng.below(64);
            ns.push(json!({"u": rng.next() >> sh}));
        } else {
            let sh = rng.below(63);
            ns.push(json!({"i": -((rng.next() >> 1 >> sh) as i64) - 1}));
        }
    }
    for chunk in ns.chunks(500) {
        out(json!({"op": "roundtrip", "ns": chunk, "tag": "Display then parse", "nt": true}));
    }
    // 0x-prefixed text
    // decimal texts at and beyond the edges of the 64-bit ranges: in range they are that number, beyond it an error
    {
        let ds = ["0", "-0", "1", "-1", "9223372036854775807", "9223372036854775808", "-9223372036854775808", "-9223372036854775809", "18446744073709551615", "18446744073709551616",
                  "18446744073709551658", "36893488147419103232", "-18446744073709551616", "340282366920938463463374607431768211455", "340282366920938463463374607431768211456",
                  "-170141183460469231731687303715884105728", "-170141183460469231731687303715884105729", "00000000000000000000000000000018446744073709551615", "+1", "+18446744073709551616", "1e3", "١٢٣"];
        out(json!({"op": "hexparse", "ts": ds, "tag": "decimal text at the range edges", "nt": true}));
    }
    let mut ts: Vec<String> = vec!["0x0".into(), "0xff".into(), "0xFF".into(), "0xffffffffffffffff".into(), "0x10000000000000000".into(), "0x".into(), "0xg".into(), "0x+1".into(), "0x-1".into(), "0X1".into(), "0x 1".into(), "0x1_0".into(), "0x00000000000000000001".into()];
    for _ in 0..(if thorough { 100000 } else { 8000 }) {
        ts.push(format!("0x{:x}", rng.next() >> rng.below(64)));
        ts.push(format!("0x{:X}", rng.next() >> rng.below(64)));
    }
    for chunk in ts.chunks(500) {
        out(json!({"op": "hexparse", "ts": chunk, "tag": "0x text", "nt": true}));
    }
    // the way out of the value domain: TryFrom<Number> for i64 / u64 / f64 and the representation tests, on integers of
    // every representation and floats around the two range boundaries (whole, fractional, non-finite)
    {
        let mut ns: Vec<Value> = vec![];
        for i in [0i64, 1, -1, 42, -42, i64::MAX, i64::MIN, i64::MAX - 1, i64::MIN + 1] {
            ns.push(json!({ "i": i }));
        }
        for u in [0u64, 1, 42, i64::MAX as u64, i64::MAX as u64 + 1, u64::MAX, u64::MAX - 1] {
            ns.push(json!({ "u": u }));
        }
        for f in [0.0f64, -0.0, 0.5, -0.5, 1.0, -1.0, 1.5, -1.5, 0.999, -0.999, 9007199254740992.0, 9223372036854775807.0, 9223372036854775808.0, 9223372036854774784.0,
                  -9223372036854775808.0, -9223372036854777856.0, 18446744073709551615.0, 18446744073709551616.0, 18446744073709549568.0, 36893488147419103232.0, 1e300, -1e300,
                  f64::INFINITY, f64::NEG_INFINITY, f64::NAN, 5e-324, -5e-324, 4294967296.5, -4294967296.5] {
            ns.push(json!({"f": format!("{:016x}", f.to_bits())}));
        }
        for _ in 0..(if thorough { 20000 } else { 2000 }) {
            let bits = rng.next();
            let f = f64::from_bits(bits);
            ns.push(json!({"f": format!("{:016x}", f.to_bits())}));
            // around the boundaries: 2^63 and 2^64 scaled by a random nearby factor
            let g = *rng.pick(&[9223372036854775808.0f64, -9223372036854775808.0, 18446744073709551616.0, 1.0, 0.0]) + (rng.below(4097) as f64 - 2048.0) * *rng.pick(&[1.0f64, 1024.0, 2048.0, 0.25]);
            ns.push(json!({"f": format!("{:016x}", g.to_bits())}));
        }
        for chunk in ns.chunks(500) {
            out(json!({"op": "num_out", "ns": chunk, "tag": "out of the value domain: TryFrom<Number>, is_int / is_uint / is_float", "nt": true}));
        }
    }
    // values as rules see them: scans over events served by derived getters (an optional is its inner value, also for
    // what a longer path finds or does not find inside it)
    crate::props::engine::gen_derived(&mut rng, if thorough { 3000 } else { 400 }, "conversions seen through scans of derived events", out);
    // text, paths, options
    let ss = ["", "a", "C:\\Windows\\System32", "/tmp/a\\b", "\\", "\\\\host\\share\\", "a/b\\c/d", "//", "/./x/../y", "~/x", "a\tb", "/bin/sh\0", "\0", "a\0\0", "\0a", " a ", "/bin/ls", "\u{e9}\u{10ffff}", "none", "42", " spaced ", "a\nb", "\"q\"", "8.8.8.8"];
    out(json!({"op": "textconv", "ss": ss, "tag": "text / path / Option", "nt": true}));
    // paths by their bytes, valid UTF-8 or not; the expected text is std's lossy decoding
    let mut paths = vec![];
    let mut byte_sets: Vec<Vec<u8>> = vec![b"/bin/ls".to_vec(), b"/tmp/\xffx".to_vec(), b"\xff".to_vec(), b"/a/\xc3".to_vec(), b"/a/\xc3\xa9".to_vec(), b"\xed\xa0\x80".to_vec(), b"rel/\xf0\x9f".to_vec(), vec![]];
    for _ in 0..60 {
        let n = 1 + rng.below(8);
        byte_sets.push((0..n).map(|_| *rng.pick(&[b'/', b'a', 0xffu8, 0xc3, 0xa9, 0x80, 0xf0, 0x9f, 0x92, 0xa9, b'.', b' ', b'\\', b'\\', b':', b'\n'])).collect());
    }
    for b in byte_sets {
        if b.contains(&0) {
            continue;
        }
        paths.push(json!({"bytes": b, "lossy": String::from_utf8_lossy(&b)}));
    }
    out(json!({"op": "pathbytes", "paths": paths, "tag": "paths by bytes (lossy text)", "nt": true}));
    let mut ips: Vec<String> = vec!["8.8.4.4".into(), "0.0.0.0".into(), "255.255.255.255".into(), "::1".into(), "2001:db8::1".into(), "::ffff:1.2.3.4".into(), "fe80::".into()];
    for _ in 0..200 {
        ips.push(format!("{}.{}.{}.{}", rng.below(256), rng.below(256), rng.below(256), rng.below(256)));
    }
    out(json!({"op": "boolip", "ips": ips, "tag": "bool / IpAddr", "nt": true}));
}
