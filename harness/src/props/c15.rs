//! C15: loading and compiling never panic. Whole-text inputs (mutations of the shipped rule corpus,
//! boundary integers, template documents) are checked for the absence of panics (debug profile,
//! overflow checks on); every match string and condition of the corpus, and one-token / one-character
//! mutations of them, additionally go through `parse_match` / `parse_cond`, where the outcome is compared
//! with the Lean model.
use crate::dsl::ext_tables;
use crate::prng::Rng;
use gene::{Compiler, Engine};
use serde_json::{json, Value};
use std::panic::{catch_unwind, AssertUnwindSafe};

pub const CORPUS: &str = "/repo/gene/benches/data/compiled.gen";

pub fn exec(case: &Value) -> Value {
    let rules = case["rules"].as_str().unwrap_or("").to_string();
    let templates = case["templates"].as_str().map(|s| s.to_string());
    let r = catch_unwind(AssertUnwindSafe(|| {
        let mut c = Compiler::new();
        if let Some(t) = &templates {
            let _ = c.load_templates_from_str(t);
        }
        let _ = c.load_rules_from_str(&rules);
        let _ = c.compile();
        let _ = c.rules().map(|r| r.len());
        let _ = Engine::try_from(c).map(|e| e.rules_count());
        // every document on its own as well, so that a failing one does not hide the others
        for doc in rules.split("\n---") {
            let mut c = Compiler::new();
            if let Some(t) = &templates {
                let _ = c.load_templates_from_str(t);
            }
            let _ = c.load_rules_from_str(doc);
            let _ = Engine::try_from(c);
        }
    }));
    match r {
        Ok(()) => {}
        Err(_) => return json!("panic"),
    }
    // `Rule::deserialize_reader` (the other public way to read rule documents) must return as well. It runs on its
    // own thread under a watchdog: a call that does not come back is reported as its own outcome, and this
    // process then ends (the runaway thread cannot be stopped); `check` re-runs the remaining cases.
    let (tx, rx) = std::sync::mpsc::channel();
    let text = rules.clone();
    std::thread::spawn(move || {
        let n = catch_unwind(AssertUnwindSafe(|| gene::Rule::deserialize_reader(std::io::Cursor::new(text.into_bytes())).len()));
        let _ = tx.send(n.is_ok());
    });
    match rx.recv_timeout(std::time::Duration::from_millis(1500)) {
        Ok(true) => json!("nopanic"),
        Ok(false) => json!("panic"),
        Err(_) => {
            use std::io::Write;
            println!("{}", json!({"cid": case["cid"], "impl": "hang: Rule::deserialize_reader did not return within 1.5 s"}));
            let _ = std::io::stdout().flush();
            std::process::exit(3);
        }
    }
}

fn candidates(s: &str) -> Vec<String> {
    let mut v = vec![];
    for q in ['\'', '"'] {
        let idx: Vec<usize> = s.char_indices().filter(|(_, c)| *c == q).map(|(i, _)| i).collect();
        for a in 0..idx.len() {
            for b in (a + 1)..idx.len() {
                if b - a <= 3 || (a == 0 || b == idx.len() - 1) {
                    v.push(s[idx[a] + 1..idx[b]].to_string());
                }
            }
        }
    }
    for kw in ["none", "some", "true", "false"] {
        v.push(kw.into());
    }
    v
}

pub fn match_case(s: &str, tag: &str) -> Value {
    let c = candidates(s);
    json!({"op": "parse_match", "s": s, "ext": ext_tables(&c, &[], &c), "tag": tag, "nt": true})
}

fn mutate_chars(rng: &mut Rng, s: &str) -> String {
    let mut cs: Vec<char> = s.chars().collect();
    let pool = ['\'', '"', ' ', '.', '(', ')', '$', '=', '<', '@', '0', '9', 'x', 'X', '\u{e9}', '\u{65e5}', '\n', '\\', '~', '&', '!', '-', '{', '}'];
    match rng.below(5) {
        0 if !cs.is_empty() => {
            let i = rng.below(cs.len());
            cs.remove(i);
        }
        1 => {
            let i = rng.below(cs.len() + 1);
            cs.insert(i, *rng.pick(&pool));
        }
        2 if !cs.is_empty() => {
            let i = rng.below(cs.len());
            cs[i] = *rng.pick(&pool);
        }
        3 if cs.len() > 2 => {
            let i = rng.below(cs.len());
            let j = rng.below(cs.len());
            let (a, b) = (i.min(j), i.max(j));
            let piece: Vec<char> = cs[a..b].to_vec();
            let k = rng.below(cs.len() + 1);
            for (n, c) in piece.into_iter().enumerate() {
                cs.insert(k + n, c);
            }
        }
        _ => {
            let k = rng.below(cs.len() + 1);
            cs.truncate(k);
        }
    }
    cs.into_iter().collect()
}

fn mutate_bytes(rng: &mut Rng, text: &str) -> String {
    let mut b = text.as_bytes().to_vec();
    let n = 1 + rng.below(3);
    for _ in 0..n {
        if b.is_empty() {
            break;
        }
        let i = rng.below(b.len());
        match rng.below(4) {
            0 => b[i] ^= 1 << rng.below(7),
            1 => {
                b.remove(i);
            }
            2 => b.insert(i, *rng.pick(&[b'\'', b'"', b' ', b':', b'-', b'\n', b'{', b'[', b'$', b'0'])),
            _ => {
                // splice a random line elsewhere
                let j = rng.below(b.len());
                let k = (j + 1 + rng.below(40)).min(b.len());
                let piece = b[j..k].to_vec();
                for (n, c) in piece.into_iter().enumerate() {
                    b.insert(i + n, c);
                }
            }
        }
    }
    String::from_utf8_lossy(&b).to_string()
}

pub fn gen(tier: &str, seed: u64, out: &mut dyn FnMut(Value)) {
    let mut rng = Rng::new(seed);
    let thorough = tier == "thorough";
    let corpus = std::fs::read_to_string(CORPUS).unwrap_or_default();
    out(json!({"op": "load_text", "rules": corpus, "tag": "corpus as shipped", "nt": true}));
    let docs: Vec<&str> = corpus.split("\n---").collect();
    // DSL strings of the corpus
    let rules = gene::Rule::deserialize_reader(std::io::Cursor::new(corpus.as_bytes()));
    let mut mstrs: Vec<String> = vec![];
    let mut conds: Vec<String> = vec![];
    for r in rules.into_iter().flatten() {
        if let Some(ms) = &r.matches {
            let mut vs: Vec<&String> = ms.values().collect();
            vs.sort();
            mstrs.extend(vs.into_iter().cloned());
        }
        if let Some(c) = &r.condition {
            conds.push(c.clone());
        }
    }
    mstrs.sort();
    mstrs.dedup();
    conds.sort();
    conds.dedup();
    for m in &mstrs {
        out(match_case(m, "corpus match string"));
    }
    for c in &conds {
        out(json!({"op": "parse_cond", "s": c, "tag": "corpus condition", "nt": true}));
    }
    let reps = if thorough { 40 } else { 4 };
    for m in &mstrs {
        for _ in 0..reps {
            out(match_case(&mutate_chars(&mut rng, m), "corpus match string, mutated"));
        }
    }
    for c in &conds {
        for _ in 0..reps * 2 {
            out(json!({"op": "parse_cond", "s": mutate_chars(&mut rng, c), "tag": "corpus condition, mutated", "nt": true}));
        }
    }
    // whole-text mutations: byte flips / deletions / insertions / splices in single documents
    let n = if thorough { 100000 } else { 6000 };
    for _ in 0..n {
        let d = *rng.pick(&docs);
        let t = format!("---{}", mutate_bytes(&mut rng, d));
        out(json!({"op": "load_text", "rules": t, "tag": "corpus document, byte mutation", "nt": true}));
    }
    // boundary integers wherever a number is read
    let ints = [
        "0", "-0", "1", "-1", "255", "256", "-256", "9223372036854775807", "9223372036854775808", "-9223372036854775808",
        "-9223372036854775809", "18446744073709551615", "18446744073709551616", "1000000000000000000000000000000", "-1000000000000000000000000000000",
        "31", "32", "33", "63", "64", "65", "-63", "-64", "-65", "127", "128", "4294967295", "4294967296", "0x7fffffffffffffff", "0xffffffffffffffff", "0x10000000000000000", "0X40", "0XFF", "0Xg", "0b101", "-0x10", "0x-10", "1e400", "-1e400", "1.0", "0o17", "+5", "010", "1_000", ".5", "5.", "NaN", ".inf",
    ];
    for a in ints {
        let t = format!("---\nname: r\nmatch-on:\n  events:\n    s: [{a}]\n");
        out(json!({"op": "load_text", "rules": t, "tag": "boundary integer: event id", "nt": true}));
        let t = format!("---\nname: r\nmatch-on:\n  events:\n    s: [1, -1, {a}, -{a}]\n");
        out(json!({"op": "load_text", "rules": t, "tag": "boundary integer: event id", "nt": true}));
        let t = format!("---\nname: r\nseverity: {a}\n");
        out(json!({"op": "load_text", "rules": t, "tag": "boundary integer: severity", "nt": true}));
        let t = format!("---\nname: r\nmatches:\n  $a: .x == '1'\ncondition: {a} of them\n");
        out(json!({"op": "load_text", "rules": t, "tag": "boundary integer: count", "nt": true}));
        for op in ["==", "<", ">=", "&=", "~="] {
            let t = format!("---\nname: r\nmatches:\n  $a: .x {op} '{a}'\ncondition: $a\n");
            out(json!({"op": "load_text", "rules": t, "tag": "boundary integer: literal", "nt": true}));
            out(match_case(&format!(".x {op} '{a}'"), "boundary integer: literal"));
        }
        // the number inside an ATT&CK id, technique and sub-technique
        let digits: String = a.chars().filter(|c| c.is_ascii_digit()).collect();
        if !digits.is_empty() {
            for id in [format!("T{digits}"), format!("T1059.{digits}"), format!("TA{digits}.{digits}")] {
                let t = format!("---\nname: r\nmeta:\n  attack: ['{id}']\nmatches:\n  $a: .x == '1'\ncondition: $a\n");
                out(json!({"op": "load_text", "rules": t, "tag": "boundary integer: ATT&CK id", "nt": true}));
            }
        }
        out(json!({"op": "parse_cond", "s": format!("{a} of them"), "tag": "boundary integer: count", "nt": true}));
        out(json!({"op": "parse_cond", "s": format!("{a} of $a"), "tag": "boundary integer: count", "nt": true}));
    }
    // YAML that stops in the middle of a construct: every reader entry point must come back with an error
    for t in ["name: [\n", "name: 'x\n", "name: \"x\n", "name: {a: b\n", "---\nname: r\n---\nname: [\n", "? $a\n", "name: r\nmatches: {\n", "- [\n", "\t\n", "%YAML 9.9\n---\n", "name: &a [*a\n", "name: !!binary =\n"] {
        out(json!({"op": "load_text", "rules": t, "tag": "truncated YAML", "nt": true}));
    }
    // references among rules that cannot be honoured: to itself, in a circle, forward, to nothing - an error, and the call returns
    for t in [
        "---\nname: s\nmatches:\n  $a: rule(s)\ncondition: $a\n",
        "---\nname: p\nmatches:\n  $a: rule(q)\ncondition: $a\n---\nname: q\nmatches:\n  $a: rule(p)\ncondition: $a\n",
        "---\nname: a\nmatches:\n  $a: rule(c)\n---\nname: b\nmatches:\n  $a: rule(a)\n---\nname: c\nmatches:\n  $a: rule(b)\n",
        "---\nname: s\nmatches:\n  $a: rule(s)\n  $b: rule(s)\ncondition: $a and $b\n---\nname: t\nmatches:\n  $a: rule(s)\n",
        "---\nname: f\nmatches:\n  $a: rule(later)\n---\nname: later\nmatches:\n  $a: .x == '1'\n",
        "---\nname: s\ntype: dependency\nmatches:\n  $a: rule(s)\n",
        "---\nname: s\nparams: {disable: true}\nmatches:\n  $a: rule(s)\n---\nname: u\nmatches:\n  $a: rule(s)\n",
    ] {
        out(json!({"op": "load_text", "rules": t, "tag": "references that cannot be honoured", "nt": true}));
    }
    // layered dependencies: every rule of a layer uses every rule of the layer below (a few dozen rules; the number of
    // paths through them is astronomical, the number of rules and references is not) - compiling comes back
    for (layers, width) in [(12usize, 2usize), (20, 2), (30, 2), (40, 2), (16, 3), (12, 4)] {
        let mut y = String::new();
        for l in 0..layers {
            for k in 0..width {
                y.push_str(&format!("---\nname: l{l}k{k}\ntype: dependency\nmatches:\n"));
                if l == 0 {
                    y.push_str("  $a: .x == '1'\n");
                } else {
                    for j in 0..width {
                        y.push_str(&format!("  $d{j}: rule(l{}k{j})\n", l - 1));
                    }
                }
            }
        }
        out(json!({"op": "load_text", "rules": y, "tag": "layered dependencies", "nt": true}));
    }
    // aliases: to an anchor of the same document (fine), of an earlier document, of no document at all, in every position
    // a value can take - a reader must come back with rules or an error, whatever the YAML library does after it
    // reported an error
    for t in [
        "name: *x\n", "name: a\ncondition: *c\n", "name: a\nmeta: {tags: [ *t ]}\n", "name: &a x\n---\nname: *a\n", "name: a\nactions: [*t]\n", "*x\n", "- *x\n",
        "name: [*x]\n", "a: *x\nb: c\n", "name: a\nmatches: {$a: *m}\n", "name: a\nmatches:\n  $a: *m\n", "name: a\nmatch-on: {events: {s: [*i]}}\n", "name: a\nparams: *p\n",
        "name: &n a\nactions: [*n]\n", "name: &n a\nmeta: {tags: [*n, *n]}\ncondition: *n\n", "name: a\nmeta: &m {tags: [x]}\n---\nname: b\nmeta: *m\n", "name: a\n---\nname: *x\n---\nname: c\n",
        "? *k\n: v\n", "name: a\n*k : v\n", "name: a\nseverity: *s\n", "name: a\ntype: *t\n", "&a [*a]\n", "name: &a [*a]\n",
    ] {
        out(json!({"op": "load_text", "rules": t, "tag": "aliases, defined or not", "nt": true}));
        out(json!({"op": "load_text", "templates": t, "rules": "---\nname: r\n", "tag": "aliases, defined or not (template document)", "nt": true}));
    }
    // template documents
    let tdocs = [
        "a: b\n", "a: b\na: c\n", "---\na: b\n---\na: c\n", "- a\n- b\n", "a: [1, 2]\n", "a: {b: c}\n", "5: 6\n", "a: null\n", "~: x\n", "", "---\n---\n",
        "'{{a}}': '{{a}}'\n", "a: '{{a}}'\n", "a: \"\\u0000\"\n", ": x\n", "a: !!binary AAAA\n", "&x a: *x\n",
    ];
    for t in ["a: '{{b}}'\nb: '{{a}}'\n", "exe: '{{dir}}ls$'\ndir: '^/bin/{{exe}}'\n", "a: '{{a}}'\n", "a: '{{b}}'\nb: '{{c}}'\nc: '{{a}}x'\n", "a: 'x{{a}}x{{a}}'\n"] {
        for m in [".x == '{{a}}'", ".x ~= '{{exe}}'", ".x == '{{a}}{{b}}'", "rule({{a}})"] {
            let r = format!("---\nname: r\nmatches:\n  $a: {}\ncondition: $a\n", crate::doc::yq(m));
            out(json!({"op": "load_text", "templates": t, "rules": r, "tag": "templates referring to each other", "nt": true}));
        }
    }
    for t in tdocs {
        out(json!({"op": "load_text", "templates": t, "rules": "---\nname: r\nmatches:\n  $a: .x == '{{a}}'\n", "tag": "template document", "nt": true}));
    }
    let n = if thorough { 25000 } else { 2000 };
    for _ in 0..n {
        let t = mutate_bytes(&mut rng, "tpl_a: 'C:\\\\Windows\\\\(system32|syswow64)'\ntpl_b: \"{{tpl_a}}\"\n'a b': \"x\"\n");
        let r = mutate_bytes(&mut rng, "---\nname: r\nmatches:\n  $a: .x ~= '{{tpl_a}}\\\\cmd\\.exe'\n  $b: .y == '{{a b}}'\ncondition: $a and $b\n");
        out(json!({"op": "load_text", "templates": t, "rules": r, "tag": "template + rule, byte mutation", "nt": true}));
    }
    // non-ASCII text around placeholders, operands and conditions
    for (t, m) in [
        ("home: /home/\n", ".path == '{{home}}\u{e9}ric'"), ("home: \"\u{e9}\"\n", ".path == '{{home}}{{home}}x'"), ("h: x\n", "\u{e9}t\u{e9} == 'x'"),
        ("h: x\n", ".p == '\u{65e5}{{h}}\u{672c}'"), ("\u{e9}: y\n", ".p == '{{\u{e9}}}\u{e9}'"), ("h: x\n", ".p ~= '{{h}}\u{1f600}+'"),
    ] {
        let r = format!("---\nname: r\nmatches:\n  $a: \"{}\"\ncondition: $a\n", m.replace('"', "\\\""));
        out(json!({"op": "load_text", "templates": t, "rules": r, "tag": "non-ASCII around placeholders", "nt": true}));
    }
    for c in ["\u{e9}", "$\u{e9}", "$a and \u{e9}", "1 of $\u{e9}", "\u{a0}$a", "$a\u{2003}and $b"] {
        out(json!({"op": "parse_cond", "s": c, "tag": "non-ASCII condition", "nt": true}));
    }
    // conditions and match strings made of nothing but blanks (and other nearly empty texts): an error, never a panic
    for c in ["", " ", "  ", "\t", "\n", " \t\n ", "\r", "\u{a0}", "()", "( )", " ( ) ", "not", "not ", " $a", "$a ", " $a ", "$", "$ ", "( $a", "$a )", "and", " and ", "of", "1 of", "of them", "them"] {
        out(json!({"op": "parse_cond", "s": c, "tag": "nearly empty condition", "nt": true}));
        out(match_case(c, "nearly empty match string"));
        let t = format!("---\nname: r\nmatches:\n  $a: .x == '1'\ncondition: {}\n", crate::doc::yq(c));
        out(json!({"op": "load_text", "rules": t, "tag": "nearly empty condition", "nt": true}));
        let t = format!("---\nname: r\nmatches:\n  $a: {}\ncondition: $a\n", crate::doc::yq(c));
        out(json!({"op": "load_text", "rules": t, "tag": "nearly empty match string", "nt": true}));
    }
    // field paths (public `XPath::parse`): random strings over a wide alphabet
    let n = if thorough { 250000 } else { 20000 };
    for _ in 0..n {
        let k = rng.below(9);
        let pool = ['.', '"', 'a', 'Z', '0', '_', '-', ' ', '@', '\'', '\u{e9}', '\n', '\0', '/', '\\'];
        let s: String = (0..k).map(|_| *rng.pick(&pool)).collect();
        out(json!({"op": "xpath", "s": s, "tag": "path string", "nt": true}));
    }
}
