//! `parse_cond` / `parse_match`: what the real crate makes of a condition or match string, observed
//! through the public API (`Compiler` -> `Engine::compiled_rules()` -> `Debug`), as a canonical tree.
use crate::debugparse::parse_debug;
use crate::doc::rules_yaml;
use gene::{Compiler, Engine};
use serde_json::{json, Value};
use std::panic::{catch_unwind, AssertUnwindSafe};

fn compiled_debug(rule: &Value) -> Result<Value, Value> {
    let yaml = rules_yaml(&[rule.clone()]);
    let r = catch_unwind(AssertUnwindSafe(|| {
        let mut c = Compiler::new();
        if c.load_rules_from_str(&yaml).is_err() {
            return Err(json!("loaderr"));
        }
        match Engine::try_from(c) {
            Err(_) => Err(json!("err")),
            Ok(e) => Ok(format!("{:?}", e.compiled_rules()[0])),
        }
    }));
    match r {
        Err(_) => Err(json!("panic")),
        Ok(Err(e)) => Err(e),
        Ok(Ok(d)) => parse_debug(&d).map_err(|e| json!({ "debugparse": e, "text": d })),
    }
}

fn num_json(v: &Value) -> Value {
    // Uint(5) / Int(-5) / Float(1.5)
    let k = v["_"].as_str().unwrap_or("");
    let t = v["0"]["_num"].as_str().unwrap_or("");
    match k {
        "Uint" => json!({"u": t.parse::<u64>().ok()}),
        "Int" => json!({"i": t.parse::<i64>().ok()}),
        "Float" => json!({"f": t.parse::<f64>().ok().map(|f| format!("{:016x}", f.to_bits()))}),
        _ => json!({ "bad": v }),
    }
}

fn path_json(v: &Value) -> Value {
    json!({"path": v["path"], "segments": v["segments"]})
}

fn match_json(v: &Value) -> Value {
    match v["_"].as_str().unwrap_or("") {
        "Direct" => {
            let d = &v["0"];
            let val = &d["value"];
            let vj = match val {
                Value::String(s) => json!(s), // Some / None
                _ => match val["_"].as_str().unwrap_or("") {
                    "String" => json!({"str": val["0"]}),
                    "Number" => json!({"num": num_json(&val["0"])}),
                    "StringOrNumber" => json!({"strnum": [val["0"], num_json(&val["1"])]}),
                    "Regex" => json!({"regex": val["0"]["0"]}),
                    "Bool" => json!({"bool": val["0"]}),
                    _ => json!({ "bad": val }),
                },
            };
            json!({"direct": {"path": path_json(&d["field_path"]), "op": d["op"], "value": vj}})
        }
        "Indirect" => {
            let d = &v["0"];
            json!({"indirect": [path_json(&d["field_path"]), path_json(&d["other_field"])]})
        }
        "Rule" => json!({"rule": v["0"]["0"]}),
        _ => json!({ "bad": v }),
    }
}

fn expr_json(v: &Value) -> Value {
    if let Some(s) = v.as_str() {
        return json!(s); // AllOfThem / AnyOfThem / NoneOfThem / None
    }
    match v["_"].as_str().unwrap_or("") {
        "Variable" => json!({"var": v["0"]}),
        "AllOfVars" => json!({"allv": v["0"]}),
        "AnyOfVars" => json!({"anyv": v["0"]}),
        "NoneOfVars" => json!({"nonev": v["0"]}),
        "NOfThem" => json!({"n": v["0"]["_num"]}),
        "NOfVars" => json!({"nv": [v["0"]["_num"], v["1"]]}),
        "Negate" => json!({"neg": expr_json(&v["0"])}),
        "BinOp" => json!({"bin": [expr_json(&v["lhs"]), v["op"], expr_json(&v["rhs"])]}),
        _ => json!({ "bad": v }),
    }
}

pub fn exec(case: &Value) -> Value {
    let s = case["s"].as_str().unwrap_or("");
    match case["op"].as_str().unwrap_or("") {
        "parse_cond" => {
            let rule = json!({"name": "r", "condition": s});
            match compiled_debug(&rule) {
                Err(e) => e,
                Ok(d) => json!({"ast": expr_json(&d["condition"]["expr"])}),
            }
        }
        "parse_match" => {
            let rule = json!({"name": "r", "matches": [["$a", s]]});
            // a rule(x) operand needs rule x to exist: observe the compiled rule directly
            let yaml = rules_yaml(&[rule]);
            let r = catch_unwind(AssertUnwindSafe(|| {
                let rules = gene::Rule::deserialize_reader(std::io::Cursor::new(yaml.as_bytes()));
                match rules.into_iter().next() {
                    Some(Ok(r)) => match r.compile_into() {
                        Ok(c) => Ok(format!("{:?}", c)),
                        Err(_) => Err(json!("err")),
                    },
                    _ => Err(json!("loaderr")),
                }
            }));
            match r {
                Err(_) => json!("panic"),
                Ok(Err(e)) => e,
                Ok(Ok(d)) => match parse_debug(&d) {
                    Err(e) => json!({ "debugparse": e, "text": d }),
                    Ok(t) => {
                        let ms = t["matches"]["_map"].as_array().cloned().unwrap_or_default();
                        match ms.first() {
                            Some(kv) => json!({"ast": match_json(&kv[1])}),
                            None => json!({ "nomatch": t }),
                        }
                    }
                },
            }
        }
        _ => json!({"error": "bad op"}),
    }
}
