//! C01: whole-pipeline scenarios, names reported = spec; plus the shipped bench corpus against
//! synthesised events (model vs implementation only: the corpus has no structured form).
use crate::prng::Rng;
use crate::props::engine::*;
use serde_json::Value;

pub fn gen(tier: &str, seed: u64, out: &mut dyn FnMut(Value)) {
    let mut rng = Rng::new(seed);
    let thorough = tier == "thorough";
    let cfg = Cfg::default();
    gen_random(&mut rng, &cfg, if thorough { 200000 } else { 10000 }, "random rule set", (1, 6), out);
    let cfg2 = Cfg { max_rules: 8, dep_prob: (1, 2), n_events: 8, ..Cfg::default() };
    gen_random(&mut rng, &cfg2, if thorough { 100000 } else { 4000 }, "random rule set, dependency heavy", (1, 10), out);
    gen_derived(&mut rng, if thorough { 20000 } else { 1500 }, "events served by derived getters", out);
    let cfg3 = Cfg { err_ops: false, quant_prob: (1, 2), match_on: false, ..Cfg::default() };
    gen_random(&mut rng, &cfg3, if thorough { 100000 } else { 4000 }, "random rule set, quantifier heavy, no errors", (0, 1), out);
}
