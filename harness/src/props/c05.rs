//! C05: match-on admission, observed through the public API: a detection rule with no condition
//! (always true) and the given match-on section is loaded from YAML text; an event of the given
//! (source, id) is scanned; the rule is admitted iff it is reported.
use crate::canon::{load_engine, scan_json};
use crate::doc::rule_yaml;
use crate::event::DynEvent;
use crate::prng::Rng;
use serde_json::{json, Value};

pub fn exec(case: &Value) -> Value {
    let rule = json!({"name": "r", "match_on": case["mo"].clone()});
    let yaml = rule_yaml(&rule);
    let mut eng = match load_engine(&yaml) {
        Ok(e) => e,
        Err(e) => return json!({ "loaderr": e }),
    };
    let ev = DynEvent {
        source: case["src"].as_str().unwrap_or("").to_string(),
        id: case["id"].as_i64().unwrap_or(0),
        fields: vec![],
    };
    let r = scan_json(&mut eng, &ev);
    match &r {
        Value::String(_) => r,
        _ => {
            if r.get("err").is_some() {
                return json!({ "unexpected": r });
            }
            let hit = r["ok"]["rules"].as_array().map(|a| a.iter().any(|x| x == "r")).unwrap_or(false);
            json!(hit)
        }
    }
}

fn subsets(ids: &[i64]) -> Vec<Vec<i64>> {
    let n = ids.len();
    (0..(1u32 << n)).map(|m| (0..n).filter(|i| m & (1 << i) != 0).map(|i| ids[i]).collect()).collect()
}

/// one engine, many (source, id) pairs in sequence: admission must not depend on what was scanned before
/// (ids that agree modulo 2^32, extreme ids, sources that extend one another with `-`)
fn gen_sequences(tier: &str, seed: u64, out: &mut dyn FnMut(Value)) {
    use crate::dsl::SRule;
    let mut rng = Rng::new(seed ^ 0x5eed);
    let ids = [1i64, -1, 0, 2, 4294967297, -4294967295, 4294967296, i64::MIN, i64::MAX, -2, 8589934593];
    let srcs = ["a", "a-", "a--", "b", "", "A", "B"];
    let n = if tier == "thorough" { 30000 } else { 2000 };
    for _ in 0..n {
        let mut m = vec![];
        for s in srcs {
            if rng.chance(1, 2) {
                let k = rng.below(4);
                let l: Vec<i64> = (0..k).map(|_| *rng.pick(&ids)).collect();
                m.push(json!([s, l]));
            }
        }
        // every other rule reads a field that some events lack: a scan that ends in an error must leave the admission of
        // later events of the same kind as it was
        let errs = rng.chance(1, 2);
        let r = SRule {
            name: "r".into(),
            match_on: Some(json!(m)),
            ops: if errs { vec![("$a".into(), crate::dsl::Operand::Test { segs: vec!["x".into()], op: 0, lit: crate::dsl::Lit::sq("1") })] } else { vec![] },
            cond: if errs { Some(crate::dsl::Form::V("$a".into())) } else { None },
            ..Default::default()
        };
        let len = 4 + rng.below(10);
        // half of the sequences stay within two or three kinds of events, so that a kind comes back several times
        let few = rng.chance(1, 2);
        let events: Vec<Value> = (0..len)
            .map(|_| {
                let fields = if errs && rng.chance(1, 2) { json!([[["x"], {"s": *rng.pick(&["1", "0"])}]]) } else { json!([]) };
                if few {
                    json!({"source": *rng.pick(&["a", "a", "b"]), "id": *rng.pick(&[1i64, 1, -1]), "fields": fields})
                } else {
                    json!({"source": *rng.pick(&srcs), "id": *rng.pick(&ids), "fields": fields})
                }
            })
            .collect();
        out(json!({"op": "scenario", "rules": [r.to_json(&mut rng)], "events": events, "tag": "sequences on one engine", "nt": true}));
    }
}

pub fn gen(tier: &str, seed: u64, out: &mut dyn FnMut(Value)) {
    gen_sequences(tier, seed, out);
    // match-on sections on rules that are also dependencies of other rules: a rule is reported only for the event
    // types its *own* section admits, however it came to be evaluated
    {
        use crate::props::engine::{gen_random, Cfg};
        let mut rng = Rng::new(seed ^ 0xdeb5);
        let cfg = Cfg { max_rules: 5, dep_prob: (2, 3), err_ops: false, n_events: 8, ..Cfg::default() };
        gen_random(&mut rng, &cfg, if tier == "thorough" { 20000 } else { 1500 }, "match-on on rules used as dependencies", (0, 1), out);
    }
    let srcs = ["a", "b", "c"];
    let ev_ids: Vec<i64> = (-2..=3).collect();
    let mut emit = |mo: Value, out: &mut dyn FnMut(Value)| {
        for s in srcs {
            for id in &ev_ids {
                let listed = mo.as_array().map(|a| a.len()).unwrap_or(0);
                let tag = match &mo {
                    Value::String(_) => "no_filter",
                    _ if listed == 0 => "empty_map",
                    Value::Array(a) => {
                        match a.iter().find(|e| e[0] == s) {
                            None => "unlisted_source",
                            Some(e) => {
                                let ids: Vec<i64> = e[1].as_array().unwrap().iter().map(|x| x.as_i64().unwrap()).collect();
                                if ids.is_empty() { "listed_empty" }
                                else if ids.iter().any(|i| *i < 0 && -*i == *id) { "negated_hit" }
                                else if ids.iter().all(|i| *i < 0) { "only_negated_miss" }
                                else if ids.contains(id) { "positive_hit" } else { "positive_miss" }
                            }
                        }
                    }
                    _ => "other",
                };
                out(json!({"op": "admits", "mo": mo, "src": s, "id": id, "tag": tag, "nt": listed > 0}));
            }
        }
    };
    // no filter at all, in its three spellings, and the empty map
    for mo in [json!("absent"), json!("noevents"), json!("nullevents"), json!([])] {
        emit(mo, out);
    }
    // each of two sources absent, or listed with any subset of the id universe
    let uni: Vec<i64> = if tier == "thorough" { vec![-2, -1, 0, 1, 2] } else { vec![-2, -1, 0, 1, 2] };
    let mut opts: Vec<Option<Vec<i64>>> = vec![None];
    opts.extend(subsets(&uni).into_iter().map(Some));
    for oa in &opts {
        for ob in &opts {
            let mut m = vec![];
            if let Some(a) = oa {
                m.push(json!(["a", a]));
            }
            if let Some(b) = ob {
                m.push(json!(["b", b]));
            }
            if m.is_empty() {
                continue;
            }
            emit(json!(m), out);
        }
    }
    let mut rng = Rng::new(seed);
    crate::props::engine_props::many_kinds(&mut rng, out);
    {
        use crate::dsl::SRule;
        let sections: Vec<Value> = vec![json!([["a", []]]), json!([["a", [-3]]]), json!([["a", [-3, -1]]]), json!([["a", [1]]]), json!([["a", [1, -3]]]), json!([["a", [1, 2, -3]]]), json!([["a", []], ["b", [2]]]), json!([["a", [-3]], ["b", [2]]]), json!("absent"), json!([])];
        let events: Vec<Value> = (-4i64..=4).flat_map(|id| ["a", "b"].into_iter().map(move |s| json!({"source": s, "id": id, "fields": []}))).collect();
        for (i, m1) in sections.iter().enumerate() {
            for (j, m2) in sections.iter().enumerate() {
                if i == j {
                    continue;
                }
                let rules = vec![
                    SRule { name: "first".into(), match_on: Some(m1.clone()), ..Default::default() },
                    SRule { name: "second".into(), match_on: Some(m2.clone()), severity: Some(1), ..Default::default() },
                    SRule { name: "third".into(), match_on: Some(m1.clone()), severity: Some(2), ..Default::default() },
                ];
                out(json!({"op": "scenario", "rules": rules.iter().map(|r| r.to_json(&mut rng)).collect::<Vec<_>>(), "events": events, "tag": "neighbouring rules with similar sections", "nt": true}));
            }
        }
    }
    // ids around the powers of two (whatever compact form a set of ids is kept in, 64 is not 0 and 256 is not 0)
    {
        let pts = [0i64, 1, 31, 32, 33, 63, 64, 65, 127, 128, 129, 255, 256, 257, 4294967296, 4294967360];
        for a in pts {
            for neg in [false, true] {
                let lid = if neg { -a } else { a };
                let mo = json!([["a", [lid]]]);
                for b in pts {
                    out(json!({"op": "admits", "mo": mo, "src": "a", "id": b, "tag": "ids around powers of two", "nt": true}));
                    out(json!({"op": "admits", "mo": mo, "src": "a", "id": -b, "tag": "ids around powers of two", "nt": true}));
                }
            }
        }
    }
    // long id lists (any small or large collection must answer the same as membership in the set): 9..24 ids,
    // mostly negated, all negated, or mixed, against every id around the range
    let nlong = if tier == "thorough" { 4000 } else { 300 };
    for k in 0..nlong {
        let len = 9 + rng.below(16);
        let mode = k % 3;
        let ids: Vec<i64> = (0..len)
            .map(|_| {
                let v = 1 + rng.below(20) as i64;
                match mode {
                    0 => -v,
                    1 => if rng.chance(1, 5) { v } else { -v },
                    _ => if rng.chance(1, 2) { v } else { -v },
                }
            })
            .collect();
        let mo = json!([["a", ids]]);
        for id in -21i64..=21 {
            out(json!({"op": "admits", "mo": mo, "src": "a", "id": id, "tag": "long id list", "nt": true}));
        }
    }
    // a source is a literal name: `*`, `?`, `.*`, an empty name or a name in another letter case select nothing else
    for lit in ["*", "?", ".*", "a*", "", "A", "a ", "%", "any", "all", "~"] {
        for ids in [vec![], vec![1i64], vec![-1]] {
            let mo = json!([[lit, ids]]);
            for src in ["a", "b", "*", "", "A", "a ", lit] {
                for id in [1i64, 2] {
                    out(json!({"op": "admits", "mo": mo, "src": src, "id": id, "tag": "source names are literal", "nt": true}));
                }
            }
        }
    }
    // random maps with extreme ids
    let ext = [0i64, 1, -1, i64::MAX, i64::MIN, i64::MIN + 1, i64::MAX - 1, 2, -2, 7];
    let n = if tier == "thorough" { 100000 } else { 8000 };
    for _ in 0..n {
        let mut m = vec![];
        for s in ["a", "b", "c", "", "A"] {
            if rng.chance(1, 2) {
                let k = rng.below(4);
                let ids: Vec<i64> = (0..k).map(|_| *rng.pick(&ext)).collect();
                // a YAML sequence may repeat an id; the set deduplicates
                m.push(json!([s, ids]));
            }
        }
        let src = *rng.pick(&["a", "b", "c", "", "zz", "A", "B", "C"]);
        let id = *rng.pick(&ext);
        let nt = !m.is_empty();
        out(json!({"op": "admits", "mo": m, "src": src, "id": id, "tag": "random_extreme", "nt": nt}));
    }
}
