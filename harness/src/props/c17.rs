//! C17: template replacement and the template-name state machine.
//!  * `tpl_replace`: `Rule::apply_templates` with a `Templates` value deserialised from YAML, on several
//!    independently built instances (hash order); every instance must give the same rule.
//!  * `tpl_load`: template documents loaded one call after the other through `Compiler`, then a rule;
//!    observed: the verdict of every load and the rule text after templating.
use crate::doc::{rule_yaml, yq};
use crate::prng::Rng;
use gene::{Compiler, Rule, Templates};
use serde_json::{json, Value};
use std::panic::{catch_unwind, AssertUnwindSafe};
use std::str::FromStr;

fn tpl_yaml(doc: &Value) -> String {
    let items: Vec<String> = doc
        .as_array()
        .map(|a| a.iter().map(|e| format!("{}: {}", yq(e[0].as_str().unwrap_or("")), yq(e[1].as_str().unwrap_or("")))).collect())
        .unwrap_or_default();
    format!("{{{}}}\n", items.join(", "))
}

pub fn rule_out(r: &Rule) -> Value {
    let mut ms: Vec<(String, String)> = r.matches.clone().unwrap_or_default().into_iter().collect();
    ms.sort();
    json!({"name": r.name, "matches": ms, "condition": r.condition})
}

pub fn exec(case: &Value) -> Value {
    match case["op"].as_str().unwrap_or("") {
        "tpl_replace" => {
            let ty = tpl_yaml(&case["tpls"]);
            let ry = rule_yaml(&case["rule"]);
            let mut outs: Vec<Value> = vec![];
            for _ in 0..case["instances"].as_u64().unwrap_or(8) {
                let r = catch_unwind(AssertUnwindSafe(|| {
                    let t: Templates = match serde_yaml::from_str(&ty) {
                        Ok(t) => t,
                        Err(_) => return json!("tplerr"),
                    };
                    let r = match Rule::from_str(&ry) {
                        Ok(r) => r,
                        Err(_) => return json!("ruleerr"),
                    };
                    rule_out(&r.apply_templates(&t))
                }))
                .unwrap_or(json!("panic"));
                if !outs.contains(&r) {
                    outs.push(r);
                }
            }
            json!({ "outs": outs })
        }
        "tpl_api" => {
            // the programmatic API: `Templates::insert` / `Templates::extend` on one value, then `Rule::apply_templates`
            let ry = rule_yaml(&case["rule"]);
            catch_unwind(AssertUnwindSafe(|| {
                let mut t = Templates::new();
                let mut res = vec![];
                for c in case["calls"].as_array().cloned().unwrap_or_default() {
                    let ok = if c[0] == "insert" {
                        t.insert(c[1].as_str().unwrap_or("").to_string(), c[2].as_str().unwrap_or("").to_string()).is_ok()
                    } else {
                        let m: std::collections::HashMap<String, String> = c[1]
                            .as_array()
                            .map(|a| a.iter().map(|e| (e[0].as_str().unwrap_or("").to_string(), e[1].as_str().unwrap_or("").to_string())).collect())
                            .unwrap_or_default();
                        t.extend(&Templates::from(m)).is_ok()
                    };
                    res.push(if ok { "ok" } else { "dup" });
                }
                let r = match Rule::from_str(&ry) {
                    Ok(r) => r,
                    Err(_) => return json!("ruleerr"),
                };
                json!({"calls": res, "len": t.len(), "rule": rule_out(&r.apply_templates(&t))})
            }))
            .unwrap_or(json!("panic"))
        }
        "tpl_load" => {
            let mut outs: Vec<Value> = vec![];
            for inst in 0..case["instances"].as_u64().unwrap_or(4) {
                let r = catch_unwind(AssertUnwindSafe(|| {
                    let mut c = Compiler::new();
                    let mut loads = vec![];
                    for call in case["calls"].as_array().cloned().unwrap_or_default() {
                        // one call = one text, possibly with several documents
                        let text: String = call.as_array().map(|ds| ds.iter().map(|d| format!("---\n{}", tpl_yaml(d))).collect()).unwrap_or_default();
                        loads.push(match c.load_templates_from_str(&text) {
                            Ok(()) => json!("ok"),
                            Err(e) => crate::canon::compiler_err_kind(&e),
                        });
                    }
                    let ry = format!("---\n{}", rule_yaml(&case["rule"]));
                    // the rule enters through the text loader, or as a `Rule` value through `Compiler::load`: the same thing
                    let l = if inst % 2 == 1 {
                        match Rule::from_str(&ry) {
                            Ok(r) => match c.load(r) {
                                Ok(()) => json!("ok"),
                                Err(e) => crate::canon::compiler_err_kind(&e),
                            },
                            Err(_) => json!("serde"),
                        }
                    } else {
                        match c.load_rules_from_str(&ry) {
                            Ok(()) => json!("ok"),
                            Err(e) => crate::canon::compiler_err_kind(&e),
                        }
                    };
                    // templates that arrive after the rule was loaded do not apply to it
                    let mut late = vec![];
                    for call in case["late_calls"].as_array().cloned().unwrap_or_default() {
                        let text: String = call.as_array().map(|ds| ds.iter().map(|d| format!("---\n{}", tpl_yaml(d))).collect()).unwrap_or_default();
                        late.push(match c.load_templates_from_str(&text) {
                            Ok(()) => json!("ok"),
                            Err(e) => crate::canon::compiler_err_kind(&e),
                        });
                    }
                    let rules = match c.rules() {
                        Ok(rs) => json!(rs.iter().map(rule_out).collect::<Vec<_>>()),
                        Err(e) => crate::canon::compiler_err_kind(&e),
                    };
                    if late.is_empty() {
                        json!({"loads": loads, "rule_load": l, "rules": rules})
                    } else {
                        json!({"loads": loads, "rule_load": l, "late": late, "rules": rules})
                    }
                }))
                .unwrap_or(json!("panic"));
                if !outs.contains(&r) {
                    outs.push(r);
                }
            }
            json!({ "outs": outs })
        }
        _ => json!({"error": "bad op"}),
    }
}

const NAMES: [&str; 12] = ["a", "ab", "b", "a b", "{a", "a}}b", "", "x.y", "\u{e9}", "a}", "set}", "b}}}"];
const TEXTS: [&str; 23] = ["X", "", "{{b}}", "{{a}}", "Y{{ab}}Z", "}}", "{{", "a.*b", "(?i)C:\\\\Win", "{", "}", "{{a}}{{b}}", "\u{e9}", "/home/\u{65e5}",
    // verbatim means verbatim: line ends, blanks and tabs at either end of a template's text are part of it
    "X\n", "\n", " X ", "X\r\n", "\tX\t", "X\n\n",
    // a text that is another template's name: a placeholder nested in another pair of braces must not be completed by it
    "a", "b", "ab"];
const PIECES: [&str; 27] = ["{{a}}", "{{ab}}", "{{b}}", "{{a b}}", "{{zz}}", "{{{a}}}", "{{", "}}", "{", "}", "x", " ", "{{a}}b}}", "{{}}", "{{x.y}}", "{{{{a}}}}", "\u{e9}", "\u{65e5}\u{672c}", "{{\u{e9}}}", "{{a}}}", "{{set}}}", "{{b}}}}}", "{{{{b}}}}", "{{ a }}", "{{a }}", "{{  a}}", "{{ ab}}"];

pub fn gen(tier: &str, seed: u64, out: &mut dyn FnMut(Value)) {
    let mut rng = Rng::new(seed);
    let thorough = tier == "thorough";
    let instances = if thorough { 32 } else { 8 };
    // template sets: up to 3 templates; strings: up to 4 pieces. Exhaustive over pieces for a sample of sets.
    let n_sets = if thorough { 3000 } else { 240 };
    for _ in 0..n_sets {
        let k = rng.below(4);
        let mut names: Vec<&str> = NAMES.to_vec();
        let mut tpls = vec![];
        for _ in 0..k {
            let i = rng.below(names.len());
            tpls.push(json!([names.remove(i), *rng.pick(&TEXTS)]));
        }
        // all strings of 1..3 pieces in batches of operands
        let mut strings: Vec<String> = vec![];
        for a in PIECES {
            strings.push(a.to_string());
            for b in PIECES {
                strings.push(format!("{a}{b}"));
            }
        }
        for _ in 0..200 {
            let n = 3 + rng.below(2);
            strings.push((0..n).map(|_| *rng.pick(&PIECES)).collect());
        }
        for chunk in strings.chunks(60) {
            let matches: Vec<Value> = chunk.iter().enumerate().map(|(i, s)| json!([format!("$m{i}"), s])).collect();
            let rule = json!({"name": "{{a}}", "matches": matches, "condition": "{{a}} and {{b}}", "meta": {"tags": ["{{a}}"], "comments": ["{{b}}"]}, "actions": ["{{a}}"]});
            out(json!({"op": "tpl_replace", "tpls": tpls, "rule": rule, "instances": instances, "tag": "replace: all strings of <=2 pieces + random", "nt": k > 0}));
        }
    }
    // template sets without a single brace in them, whose texts are other templates' names, against placeholders nested in
    // further braces: inserted text is never read again, whichever template is looked at first
    {
        let names = ["a", "b", "ab", "c"];
        let texts = ["a", "b", "ab", "c", "X", ""];
        let strings = ["{{{{a}}}}", "{{{{b}}}}", "{{{{a}}}}|{{{{b}}}}", "{{{{ab}}}}{{a}}", "{{re_{{a}}}}", "{{{{a}}}}{{{{c}}}}", "x{{{{{{a}}}}}}y", "{{ {{a}} }}", "{{{a}}}", "{{a}}{{b}}"];
        for t0 in texts {
            for t1 in texts {
                for t2 in texts {
                    let tpls = json!([[names[0], t0], [names[1], t1], [names[3], t2]]);
                    let matches: Vec<Value> = strings.iter().enumerate().map(|(i, s)| json!([format!("$m{i}"), s])).collect();
                    let rule = json!({"name": "r", "matches": matches});
                    out(json!({"op": "tpl_replace", "tpls": tpls, "rule": rule, "instances": 24, "tag": "brace-free template sets, nested placeholders", "nt": true}));
                }
            }
        }
    }
    // the order-dependence witness and friends, always
    for (tpls, s) in [
        (json!([["a", "X{{b}}"], ["b", "Y"]]), "{{a}}{{b}}"),
        (json!([["a", "{{a}}"]]), "{{a}}"),
        (json!([["a", "1"], ["ab", "2"], ["a}}b", "3"]]), "{{a}}b}}{{ab}}{{a}}"),
        (json!([["", "E"]]), "{{}}{{{}}}"),
    ] {
        let rule = json!({"name": "r", "matches": [["$m", s]]});
        out(json!({"op": "tpl_replace", "tpls": tpls, "rule": rule, "instances": 64, "tag": "replace: witnesses", "nt": true}));
    }
    // rules and template documents interleaved: each rule is rewritten with the templates known when *it* is loaded
    // (two rules may carry the very same match string and still differ afterwards)
    let n = if thorough { 20000 } else { 2000 };
    for _ in 0..n {
        let len = 2 + rng.below(6);
        let mut ops = vec![];
        let mut rn = 0;
        for _ in 0..len {
            if rng.chance(1, 2) {
                let k = 1 + rng.below(2);
                let mut names: Vec<&str> = vec!["a", "b", "ab"];
                let mut doc = vec![];
                for _ in 0..k {
                    let i = rng.below(names.len());
                    doc.push(json!([names.remove(i), *rng.pick(&["X", "Y", "{{a}}", "\u{e9}", "X\n", " "])]));
                }
                ops.push(json!({"k": "tpl", "doc": doc}));
            } else {
                rn += 1;
                let m = *rng.pick(&[".x == '{{a}}'", ".x == '{{a}}{{b}}'", ".x == '\u{c9}t\u{e9} {{ab}}'", ".x == 'plain'"]);
                ops.push(json!({"k": "load", "docs": [{"name": format!("r{rn}"), "matches": [["$m", m]], "condition": "$m"}]}));
            }
        }
        ops.push(json!({"k": "rules"}));
        out(json!({"op": "history", "ops": ops, "tag": "rules and template documents interleaved", "nt": true}));
    }
    // the programmatic API: insert / extend sequences with redefinitions; the rule shows which text survived
    let n = if thorough { 100000 } else { 8000 };
    for _ in 0..n {
        let len = 1 + rng.below(6);
        let mut calls = vec![];
        for _ in 0..len {
            if rng.chance(2, 3) {
                calls.push(json!(["insert", *rng.pick(&["a", "b", "ab", "c"]), *rng.pick(&["X", "Y", "Z", "{{a}}", "", "X\n", " Y ", "\n"])]));
            } else {
                let k = 1 + rng.below(3);
                let mut names: Vec<&str> = vec!["a", "b", "ab", "c", "d"];
                let mut doc = vec![];
                for _ in 0..k {
                    let i = rng.below(names.len());
                    doc.push(json!([names.remove(i), *rng.pick(&["P", "Q", "{{b}}", "P\n", "\tQ", "\n\n", "R\r\n"])]));
                }
                calls.push(json!(["extend", doc]));
            }
        }
        let rule = json!({"name": "r", "matches": [["$m", ".x == '{{a}}-{{b}}-{{ab}}-{{c}}-{{d}}'"]], "condition": "$m"});
        out(json!({"op": "tpl_api", "calls": calls, "rule": rule, "tag": "insert / extend sequences", "nt": true}));
    }
    // loads: sequences of calls, each a list of documents, each a map name -> text
    let n = if thorough { 100000 } else { 8000 };
    for _ in 0..n {
        let ncalls = 1 + rng.below(3);
        let mut calls = vec![];
        for _ in 0..ncalls {
            let ndocs = 1 + rng.below(3);
            let mut docs = vec![];
            for _ in 0..ndocs {
                let k = rng.below(4);
                let mut doc = vec![];
                for _ in 0..k {
                    // names from a small pool so that redefinitions (within a document, across documents, across calls) happen
                    doc.push(json!([*rng.pick(&["a", "b", "c", "ab"]), *rng.pick(&["X", "Y", "{{a}}", "", "X\n", "\n", " Y ", "Z\n\n"])]));
                }
                docs.push(json!(doc));
            }
            calls.push(json!(docs));
        }
        let rule = json!({"name": "r", "matches": [["$m", ".x == '{{a}}-{{b}}-{{c}}-{{ab}}'"], ["$n", ".y == '{{zz}}{{a}}'"], ["$o", "rule({{a}}.{{b}})"], ["$p", " rule({{c}})"], ["$q", ".{{a}} == '1'"]], "condition": "$m or $n"});
        if rng.chance(1, 3) {
            // some templates only arrive after the rule
            let late = json!([[[ [*rng.pick(&["a", "b", "c", "zz"]), *rng.pick(&["L", "{{a}}"])] ]]]);
            out(json!({"op": "tpl_load", "calls": calls, "late_calls": late, "rule": rule, "instances": 4, "tag": "load sequences, templates after the rule", "nt": true}));
        } else {
            out(json!({"op": "tpl_load", "calls": calls, "rule": rule, "instances": 4, "tag": "load sequences", "nt": true}));
        }
    }
}
