pub mod c05;
