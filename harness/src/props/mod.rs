pub mod c03;
pub mod c05;
pub mod c18;
