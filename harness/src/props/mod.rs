pub mod c03;
pub mod c05;
