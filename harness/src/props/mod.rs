pub mod c02;
pub mod c03;
pub mod c04;
pub mod c05;
pub mod c15;
pub mod c16;
pub mod c18;
pub mod parse;
