//! Whole-pipeline scenarios: structured rule sets (all rule types, match-on, dependency DAGs, every
//! operator, quantified conditions, metadata) rendered to YAML, loaded through `Compiler`, built into an
//! `Engine`, and scanned against events. Used by C01, C06, C07, C09, C10, C12, C13.
use crate::dsl::{ext_for, Form, Lit, Operand, SRule};
use crate::event::{event_to_json, DynEvent};
use crate::prng::Rng;
use gene::values::Number;
use gene::FieldValue;
use serde_json::{json, Value};

#[derive(Clone)]
pub struct Cfg {
    pub max_rules: usize,
    pub dep_prob: (u64, u64),
    pub bad_ref_prob: (u64, u64),
    pub quant_prob: (u64, u64),
    pub meta: bool,
    pub match_on: bool,
    pub err_ops: bool,
    pub unknown_operand_prob: (u64, u64),
    pub n_events: usize,
    pub disabled_prob: (u64, u64),
    pub dup_prob: (u64, u64),
}

impl Default for Cfg {
    fn default() -> Self {
        Cfg {
            max_rules: 6,
            dep_prob: (1, 3),
            bad_ref_prob: (0, 1),
            quant_prob: (1, 3),
            meta: true,
            match_on: true,
            err_ops: true,
            unknown_operand_prob: (0, 1),
            n_events: 10,
            disabled_prob: (0, 1),
            dup_prob: (0, 1),
        }
    }
}

pub const NAMES: [&str; 18] = ["r", "ra", "rab", "rb", "x.y", "dep-1", "D", "r_2", "a", "z9", "R", "Ra", "d", "A", "dep.", ".h", "a..b", "-"];
pub const OPNAMES: [&str; 19] = ["$a", "$ab", "$b", "$c", "$a_1", "$az", "$azure_1", "$a0", "$aZ", "$a-x", "$a-y", "$a\u{e9}", "$a{", "$a.b", "$a~", "$a1", "$a01", "$a001", "$a10"];
/// an operand name the condition grammar can spell (the others are reachable through `them` and prefixes only)
pub fn spellable(n: &str) -> bool {
    n.len() > 1 && n[1..].chars().all(|c| c.is_ascii_alphanumeric() || c == '_')
}
pub const FIELDS: [&str; 4] = ["f0", "f1", "f2", "f3"];

/// a path of 40 segments and its prefix of 31: a lookup that silently drops segments lands on the other one
pub fn long_path(n: usize) -> Vec<String> {
    (0..n).map(|i| format!("n{i}")).collect()
}

fn field_segs(rng: &mut Rng) -> Vec<String> {
    if rng.chance(1, 40) {
        return long_path(*rng.pick(&[31usize, 40]));
    }
    match rng.below(8) {
        0 => vec!["d".into(), rng.pick(&FIELDS).to_string()],
        2 => vec![rng.pick(&["axis", "is", "this", "f0is"]).to_string()],
        1 => vec!["k v".into()],
        _ => vec![rng.pick(&FIELDS).to_string()],
    }
}

pub fn all_paths() -> Vec<Vec<String>> {
    let mut v: Vec<Vec<String>> = FIELDS.iter().map(|f| vec![f.to_string()]).collect();
    v.extend(FIELDS.iter().map(|f| vec!["d".to_string(), f.to_string()]));
    v.push(vec!["k v".into()]);
    for f in ["axis", "is", "this", "f0is"] {
        v.push(vec![f.to_string()]);
    }
    v.push(long_path(31));
    v.push(long_path(40));
    v
}

fn field_test(rng: &mut Rng, err_ops: bool) -> Operand {
    let segs = field_segs(rng);
    if rng.chance(1, 6) {
        // less ordinary literals: quoted keywords, numbers at the representation boundaries, numeric-looking
        // text that differs from its value's canonical spelling, non-ASCII text
        let (op, lit) = match rng.below(if err_ops { 6 } else { 3 }) {
            0 => (rng.below(2), Lit::Text { s: rng.pick(&["none", "some", "true", "false", "None", "TRUE", "False"]).to_string(), dq: rng.chance(1, 2) }),
            1 => (0, Lit::sq(*rng.pick(&["00", "0x0", "-0", "42.0", "0x2a", "1.0", "+1", "1e0", " 1", "\u{e9}", "\u{65e5}\u{672c}"]))),
            2 => (0, Lit::sq(*rng.pick(&["9007199254740993", "18446744073709551615", "-9223372036854775808", "9007199254740992.0"]))),
            3 => (2 + rng.below(4), Lit::sq(*rng.pick(&["9007199254740992.0", "9007199254740993", "9223372036854775808.0", "18446744073709551616.0", "-9223372036854775808", "18446744073709551615", "0xffffffffffffffff", "-0.0", "1e19", "-1e19"]))),
            4 => (7, Lit::sq(*rng.pick(&["0xffffffffffffffff", "0x8000000000000000", "-1", "1.5", "0"]))),
            _ => (2 + rng.below(5), Lit::sq(*rng.pick(&["inf", "NaN", "-inf", "abc", "", "0x", "1_0"]))),
        };
        return Operand::Test { segs, op, lit };
    }
    let k = rng.below(if err_ops { 14 } else { 8 });
    let (op, lit) = match k {
        0..=4 => (0, Lit::sq("1")),
        5 => (1, Lit::dq("1")),
        6 => (0, Lit::sq("0")),
        7 => (rng.below(2), if rng.chance(1, 2) { Lit::None } else { Lit::Some }),
        8 => (2 + rng.below(4), Lit::sq(*rng.pick(&["0", "1", "0.5", "-1", "0x1"]))),
        9 => (6, Lit::sq(*rng.pick(&["^1$", "1|0", "(?i)A", ".", "^0$", "1.0", "^$"]))),
        10 => (7, Lit::sq(*rng.pick(&["1", "0x3", "0"]))),
        11 => (0, Lit::Bool(rng.chance(1, 2))),
        12 => (0, Lit::sq("abc")),
        _ => (0, Lit::sq("1.0")),
    };
    Operand::Test { segs, op, lit }
}

pub fn random_form_over(rng: &mut Rng, vars: &[String], depth: usize, quant: (u64, u64), unknown: (u64, u64)) -> Form {
    if depth == 0 || rng.chance(1, 3) {
        if rng.chance(quant.0, quant.1) {
            let g: Option<String> = match rng.below(4) {
                0 | 1 => None,
                2 => Some("$a".into()),
                _ => Some(rng.pick(&["$ab", "$b", "$c", "$zz", "$az", "$a0", "$a_", "$azure"]).to_string()),
            };
            return match rng.below(4) {
                0 => Form::All(g),
                1 => Form::Any(g),
                2 => Form::NoneOf(g),
                _ => {
                    if rng.chance(1, 12) {
                        Form::NBig(rng.pick(&["18446744073709551616", "99999999999999999999999999", "18446744073709551615"]).to_string(), g)
                    } else {
                        Form::N(rng.below(4) as u64, g)
                    }
                }
            };
        }
        if rng.chance(unknown.0, unknown.1) || vars.is_empty() {
            return Form::V("$zz".into());
        }
        return Form::V(rng.pick(vars).clone());
    }
    match rng.below(5) {
        0 => Form::Not(Box::new(random_form_over(rng, vars, depth - 1, quant, unknown))),
        1 | 2 => Form::And(
            Box::new(random_form_over(rng, vars, depth - 1, quant, unknown)),
            Box::new(random_form_over(rng, vars, depth - 1, quant, unknown)),
        ),
        _ => Form::Or(
            Box::new(random_form_over(rng, vars, depth - 1, quant, unknown)),
            Box::new(random_form_over(rng, vars, depth - 1, quant, unknown)),
        ),
    }
}

pub fn random_match_on(rng: &mut Rng) -> Option<Value> {
    match rng.below(10) {
        0..=4 => None,
        5 => Some(json!([])),
        6 => Some(json!("noevents")),
        _ => {
            let mut m = vec![];
            // sources that are prefixes of one another with the separator a key encoding might use; ids that
            // agree modulo 2^32 or are extreme: neighbouring keys of any (source, id) cache
            for s in ["s", "t", "s-", "S", "", "Ab", "AB", "aB"] {
                if rng.chance(if s == "s-" || s == "S" || s.is_empty() { 1 } else { 2 }, 3) {
                    let k = rng.below(3);
                    let ids: Vec<i64> = (0..k).map(|_| *rng.pick(&[1i64, 2, -1, -2, 0, 1, 2, -1, 4294967297, -4294967297, i64::MAX, i64::MIN, 64, -64, 63, 32, 128])).collect();
                    m.push(json!([s, ids]));
                }
            }
            Some(json!(m))
        }
    }
}

pub fn random_rule(rng: &mut Rng, cfg: &Cfg, name: &str, earlier: &[String]) -> SRule {
    let mut ops: Vec<(String, Operand)> = vec![];
    let n_ops = rng.below(5);
    let mut names: Vec<&str> = OPNAMES.to_vec();
    for _ in 0..n_ops {
        if names.is_empty() {
            break;
        }
        let i = rng.below(names.len());
        let on = names.remove(i);
        let o = if !earlier.is_empty() && rng.chance(cfg.dep_prob.0, cfg.dep_prob.1) {
            Operand::Rule(rng.pick(earlier).clone())
        } else if rng.chance(cfg.bad_ref_prob.0, cfg.bad_ref_prob.1) {
            Operand::Rule(rng.pick(&["nope", name, "later"]).to_string())
        } else if cfg.err_ops && rng.chance(1, 60) {
            // text the grammar does not derive: keywords in another letter case, a stray token
            Operand::Raw(format!(".f0 {} {}", rng.pick(&["is", "=="]), rng.pick(&["None", "Some", "TRUE", "False", "nOne", "NONE"])))
        } else if rng.chance(1, 12) {
            Operand::Indirect { a: field_segs(rng), b: field_segs(rng), is: rng.chance(1, 2) }
        } else {
            field_test(rng, cfg.err_ops)
        };
        ops.push((on.to_string(), o));
    }
    let vars: Vec<String> = ops.iter().map(|o| o.0.clone()).filter(|n| spellable(n)).collect();
    let cond = if rng.chance(1, 8) {
        None
    } else {
        let d = rng.below(4);
        Some(random_form_over(rng, &vars, d, cfg.quant_prob, cfg.unknown_operand_prob))
    };
    let ty = match rng.below(10) {
        0..=1 => None,
        2..=5 => Some("detection".to_string()),
        6..=7 => Some("filter".to_string()),
        _ => Some("dependency".to_string()),
    };
    let pool_tags = ["t1", "t2", "T1", "", "tag with space", "t1,t2", "t1|t2", " t1", "t2 ", "t1,", "|"];
    let pool_att = ["T1234", "t1234", "TA0001", "T1234.001", "t1", "Ta0043", "tA0043.001", "Ta1"];
    let pool_act = ["kill", "log", "Kill", "", "kill,log", "kill|log", " kill", "log,"];
    let pick_set = |rng: &mut Rng, pool: &[&str]| -> Option<Vec<String>> {
        match rng.below(4) {
            0 => None,
            1 => Some(vec![]),
            _ => {
                let mut v: Vec<String> = vec![];
                for p in pool {
                    if rng.chance(1, 3) && !v.contains(&p.to_string()) {
                        v.push(p.to_string());
                    }
                }
                Some(v)
            }
        }
    };
    SRule {
        name: name.to_string(),
        ty,
        match_on: if cfg.match_on { random_match_on(rng) } else { None },
        ops,
        cond,
        severity: match rng.below(8) {
            0 => None,
            1 => Some(*rng.pick(&[10u64, 11, 200, 255, 246, 250])),
            _ => Some(rng.below(11) as u64),
        },
        tags: if cfg.meta { pick_set(rng, &pool_tags) } else { None },
        attack: if cfg.meta { pick_set(rng, &pool_att) } else { None },
        actions: if cfg.meta { pick_set(rng, &pool_act) } else { None },
        disable: if rng.chance(cfg.disabled_prob.0, cfg.disabled_prob.1) { Some(rng.chance(1, 2)) } else { None },
        tight: false,
    }
}

pub fn random_ruleset(rng: &mut Rng, cfg: &Cfg) -> Vec<SRule> {
    let n = 1 + rng.below(cfg.max_rules);
    let mut names: Vec<&str> = NAMES.to_vec();
    let mut rules: Vec<SRule> = vec![];
    let mut earlier: Vec<String> = vec![];
    for _ in 0..n {
        let name = if !rules.is_empty() && rng.chance(cfg.dup_prob.0, cfg.dup_prob.1) {
            rules[rng.below(rules.len())].name.clone()
        } else {
            let i = rng.below(names.len());
            names.remove(i).to_string()
        };
        let r = random_rule(rng, cfg, &name, &earlier);
        if r.disable != Some(true) && !earlier.contains(&name) {
            earlier.push(name);
        }
        rules.push(r);
    }
    rules
}

pub fn random_value(rng: &mut Rng) -> FieldValue {
    if rng.chance(1, 6) {
        return match rng.below(4) {
            0 => FieldValue::String(rng.pick(&["none", "true", "false", "some", "00", "0x0", "-0", "42.0", "0x2a", "42", "\u{65e5}\u{672c}\u{8a9e}", "\u{20ac}100", "1\u{e9}", "D\u{e9}sir\u{e9}e", "9007199254740993", "inf", "NaN", "-", "+", "-x", "0x", "."]).to_string()),
            1 => FieldValue::Number(Number::Int(*rng.pick(&[i64::MIN, i64::MAX, -9007199254740993, 9007199254740993, 42, 0]))),
            2 => FieldValue::Number(Number::Uint(*rng.pick(&[u64::MAX, 1u64 << 63, 9007199254740993, 9007199254740992, 42, 0]))),
            _ => FieldValue::Number(Number::Float(*rng.pick(&[9007199254740992.0, 9223372036854775808.0, 18446744073709551616.0, f64::INFINITY, f64::NEG_INFINITY, -0.0, 1e19, -1e19, 42.0, -9223372036854775808.0]))),
        };
    }
    match rng.below(16) {
        0..=4 => FieldValue::String("1".into()),
        5..=7 => FieldValue::String("0".into()),
        8 => FieldValue::Number(Number::Uint(rng.below(3) as u64)),
        9 => FieldValue::Number(Number::Int(-(rng.below(3) as i64) - 1)),
        10 => FieldValue::Number(Number::Float(*rng.pick(&[0.5, 1.0, f64::NAN, -1.0]))),
        11 => FieldValue::Bool(rng.chance(1, 2)),
        12 => FieldValue::None,
        13 => FieldValue::Some,
        14 => FieldValue::String(rng.pick(&["abc", "A", "", "1.0", "0x1", "1\n0", "0\n1\n0", "\n"]).to_string()),
        _ => FieldValue::Number(Number::Uint(1)),
    }
}

pub fn random_event(rng: &mut Rng, missing: (u64, u64)) -> DynEvent {
    let mut fields = vec![];
    for p in all_paths() {
        if !rng.chance(missing.0, missing.1) {
            fields.push((p, random_value(rng)));
        }
    }
    DynEvent {
        source: rng.pick(&["s", "s", "s", "t", "u", "s-", "S", "T", "", "ab", "Ab", "AB"]).to_string(),
        id: *rng.pick(&[1i64, 1, 1, 2, 2, 0, 0, -1, -1, 4294967297, 4294967298, -4294967295, i64::MAX, i64::MIN, 64, 63, 32, 128]),
        fields,
    }
}

pub fn scenario_json(rules: &[SRule], events: &[DynEvent], rng: &mut Rng, tag: &str) -> Value {
    json!({
        "op": "scenario", "ext": ext_for(rules, events),
        "rules": rules.iter().map(|r| r.to_json(rng)).collect::<Vec<_>>(),
        "events": events.iter().map(event_to_json).collect::<Vec<_>>(),
        "tag": tag, "nt": true,
    })
}

pub fn gen_random(rng: &mut Rng, cfg: &Cfg, n: usize, tag: &str, missing: (u64, u64), out: &mut dyn FnMut(Value)) {
    for _ in 0..n {
        let rules = random_ruleset(rng, cfg);
        let events: Vec<DynEvent> = (0..cfg.n_events).map(|_| random_event(rng, missing)).collect();
        out(scenario_json(&rules, &events, rng, tag));
    }
}

/// rule sets scanned against events served by derived getters (`crate::derived`)
pub fn gen_derived(rng: &mut Rng, n: usize, tag: &str, out: &mut dyn FnMut(Value)) {
    let paths = crate::derived::paths();
    for _ in 0..n {
        let n_rules = 1 + rng.below(3);
        let mut rules: Vec<SRule> = vec![];
        for ri in 0..n_rules {
            let n_ops = 1 + rng.below(3);
            let mut ops: Vec<(String, Operand)> = vec![];
            for oi in 0..n_ops {
                let segs = rng.pick(&paths).clone();
                if segs.is_empty() {
                    continue;
                }
                let (op, lit) = match rng.below(9) {
                    0 => (rng.below(2), Lit::None),
                    1 => (rng.below(2), Lit::Some),
                    2 => (0, Lit::sq(*rng.pick(&["1", "/root", "root", "a", "secret", "/bin/sh", "/tmp/caf\u{fffd}/x", "42", "0.1", "4242", "-", "::ffff:10.0.0.1", "10.0.0.1", "::1", "fe80::1", "C:\\Windows\\cmd.exe", "/tmp/a\\b", "\\"]))),
                    3 => (2 + rng.below(4), Lit::sq(*rng.pick(&["0", "1", "0.1", "0.10000000149011612", "16777217", "-1", "18446744073709551615", "9223372036854775807"]))),
                    4 => (6, Lit::sq(*rng.pick(&["^/", "root", ".", "caf", "^::ffff:", "^10\\.", ":", "\\\\", "^C:"]))),
                    5 => (7, Lit::sq(*rng.pick(&["1", "0x8000000000000000", "0"]))),
                    6 => (0, Lit::Bool(rng.chance(1, 2))),
                    7 => (0, Lit::sq("18446744073709551615")),
                    _ => (0, Lit::sq("-9223372036854775808")),
                };
                ops.push((format!("$o{oi}"), Operand::Test { segs, op, lit }));
            }
            if ops.is_empty() {
                continue;
            }
            let vars: Vec<String> = ops.iter().map(|o| o.0.clone()).collect();
            let cond = random_form_over(rng, &vars, 2, (1, 4), (0, 1));
            rules.push(SRule { name: format!("r{ri}"), ops, cond: Some(cond), severity: Some(rng.below(6) as u64), ..Default::default() });
        }
        if rules.is_empty() {
            continue;
        }
        let events: Vec<Value> = (0..6).map(|_| crate::derived::event_json(rng)).collect();
        // regex / number tables: every literal, every string that occurs in the events
        let mut pats = vec![];
        let mut nums = vec![];
        for r in &rules {
            for (_, o) in &r.ops {
                if let Operand::Test { op, lit, .. } = o {
                    if crate::dsl::OPS[*op].1 == "rex" {
                        pats.push(lit.text());
                    }
                    nums.push(lit.text());
                }
            }
        }
        let mut hays = vec![];
        fn strings(v: &Value, out: &mut Vec<String>) {
            match v {
                Value::String(s) => out.push(s.clone()),
                Value::Array(a) => a.iter().for_each(|x| strings(x, out)),
                Value::Object(o) => o.values().for_each(|x| strings(x, out)),
                _ => {}
            }
        }
        for e in &events {
            strings(&e["gval"], &mut hays);
        }
        nums.extend(hays.iter().cloned());
        out(json!({
            "op": "scenario", "ext": crate::dsl::ext_tables(&pats, &hays, &nums),
            "rules": rules.iter().map(|r| r.to_json(rng)).collect::<Vec<_>>(),
            "events": events, "tag": tag, "nt": true,
        }));
    }
}
