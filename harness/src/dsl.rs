//! Structured rules: operands as (path, operator, literal), conditions as formula trees; rendering to
//! DSL text (what the real crate loads and the Lean *model* parses) and to the structured `spec`
//! object (what the Lean *spec* evaluates — it never sees DSL text).
use crate::prng::Rng;
use serde_json::{json, Value};

#[derive(Clone, Debug)]
pub enum Lit {
    None,
    Some,
    Bool(bool),
    /// quoted text; `dq` = written with double quotes
    Text { s: String, dq: bool },
}

impl Lit {
    pub fn render(&self) -> String {
        match self {
            Lit::None => "none".into(),
            Lit::Some => "some".into(),
            Lit::Bool(b) => b.to_string(),
            Lit::Text { s, dq } => {
                if *dq {
                    format!("\"{s}\"")
                } else {
                    format!("'{s}'")
                }
            }
        }
    }
    pub fn spec(&self) -> Value {
        match self {
            Lit::None => json!("none"),
            Lit::Some => json!("some"),
            Lit::Bool(b) => json!(b),
            Lit::Text { s, .. } => json!({ "t": s }),
        }
    }
    pub fn text(&self) -> String {
        match self {
            Lit::None => "none".into(),
            Lit::Some => "some".into(),
            Lit::Bool(b) => b.to_string(),
            Lit::Text { s, .. } => s.clone(),
        }
    }
    pub fn sq(s: &str) -> Lit {
        Lit::Text { s: s.into(), dq: false }
    }
    pub fn dq(s: &str) -> Lit {
        Lit::Text { s: s.into(), dq: true }
    }
}

/// operator spellings: (text, spec name)
pub const OPS: [(&str, &str); 8] = [
    ("==", "eq"),
    ("is", "eq"),
    ("<", "lt"),
    ("<=", "lte"),
    (">", "gt"),
    (">=", "gte"),
    ("~=", "rex"),
    ("&=", "flag"),
];

pub fn render_path(segs: &[String]) -> String {
    segs.iter()
        .map(|s| {
            if s.chars().all(|c| c.is_ascii_alphanumeric() || c == '_' || c == '-') && !s.is_empty() {
                format!(".{s}")
            } else {
                format!(".\"{s}\"")
            }
        })
        .collect()
}

#[derive(Clone, Debug)]
pub enum Operand {
    Test { segs: Vec<String>, op: usize, lit: Lit },
    Indirect { a: Vec<String>, b: Vec<String>, is: bool },
    Rule(String),
    /// match text that is not in the grammar (e.g. a keyword in the wrong letter case): the rule must not compile
    Raw(String),
}

impl Operand {
    pub fn render(&self) -> String {
        match self {
            Operand::Test { segs, op, lit } => format!("{} {} {}", render_path(segs), OPS[*op].0, lit.render()),
            Operand::Indirect { a, b, is } => {
                format!("{} {} @{}", render_path(a), if *is { "is" } else { "==" }, render_path(b))
            }
            Operand::Rule(n) => format!("rule({n})"),
            Operand::Raw(t) => t.clone(),
        }
    }
    /// the same operand with blanks placed differently (the grammar's rules are not atomic: any number of blanks
    /// between two tokens, none needed around a symbolic operator or inside `rule( .. )`)
    pub fn render_spaced(&self, rng: &mut Rng) -> String {
        let pad = |rng: &mut Rng, min: usize| " ".repeat(min + if rng.chance(1, 2) { 0 } else { 1 + rng.below(2) });
        match self {
            Operand::Test { segs, op, lit } => {
                let word = OPS[*op].0 == "is";
                let m = if word { 1 } else { 0 };
                format!("{}{}{}{}{}{}{}", pad(rng, 0), render_path(segs), pad(rng, m), OPS[*op].0, pad(rng, m), lit.render(), pad(rng, 0))
            }
            Operand::Indirect { a, b, is } => {
                let m = if *is { 1 } else { 0 };
                format!("{}{}{}{}{}@{}{}", pad(rng, 0), render_path(a), pad(rng, m), if *is { "is" } else { "==" }, pad(rng, m), render_path(b), pad(rng, 0))
            }
            Operand::Rule(n) => format!("{}rule({}{n}{}){}", pad(rng, 0), pad(rng, 0), pad(rng, 0), pad(rng, 0)),
            Operand::Raw(t) => t.clone(),
        }
    }
    pub fn spec(&self) -> Value {
        match self {
            Operand::Test { segs, op, lit } => json!({"test": {"segs": segs, "op": OPS[*op].1, "lit": lit.spec()}}),
            Operand::Indirect { a, b, .. } => json!({"ind": [a, b]}),
            Operand::Rule(n) => json!({ "rule": n }),
            // an operand the specification never accepts (an ordering test against a keyword)
            Operand::Raw(_) => json!({"test": {"segs": [], "op": "lt", "lit": "none"}}),
        }
    }
}

#[derive(Clone, Debug)]
pub enum Form {
    Tt,
    V(String),
    Not(Box<Form>),
    And(Box<Form>, Box<Form>),
    Or(Box<Form>, Box<Form>),
    All(Option<String>),
    Any(Option<String>),
    NoneOf(Option<String>),
    N(u64, Option<String>),
    /// a count given by its digits (may exceed 2^64)
    NBig(String, Option<String>),
}

impl Form {
    pub fn spec(&self) -> Value {
        match self {
            Form::Tt => json!("tt"),
            Form::V(v) => json!({ "v": v }),
            Form::Not(f) => json!({"not": f.spec()}),
            Form::And(a, b) => json!({"and": [a.spec(), b.spec()]}),
            Form::Or(a, b) => json!({"or": [a.spec(), b.spec()]}),
            Form::All(p) => json!({ "all": p }),
            Form::Any(p) => json!({ "any": p }),
            Form::NoneOf(p) => json!({ "none": p }),
            Form::N(n, p) => json!({"n": [n, p]}),
            Form::NBig(d, p) => json!({"nbig": [d, p]}),
        }
    }
    fn prec(&self) -> u8 {
        match self {
            Form::Or(..) => 1,
            Form::And(..) => 2,
            Form::Not(..) => 3,
            _ => 4,
        }
    }
    /// `l op r` with the spaces the grammar makes optional sometimes left out: none is needed before an
    /// operator that follows `)` or `them` (or when the operator is a symbol), none after an operator
    fn glue(rng: &mut Rng, l: &str, op: &str, r: &str) -> String {
        let symbol = op == "&&" || op == "||";
        let left_free = symbol || l.ends_with(')') || l.ends_with("them");
        let ls = if left_free && rng.chance(1, 6) { "" } else { " " };
        let rs = if rng.chance(1, 6) { "" } else { " " };
        format!("{l}{ls}{op}{rs}{r}")
    }
    fn sp(rng: &mut Rng) -> &'static str {
        match rng.below(8) {
            0 => "",
            1 => "  ",
            _ => " ",
        }
    }
    fn group(p: &Option<String>) -> String {
        match p {
            None => "them".into(),
            Some(p) => p.clone(),
        }
    }
    /// The tightest spelling: symbolic operators with nothing around them, one blank inside a quantifier
    /// (`any of $a||$b`, `!$a&&($b||$c)`)
    pub fn render_tight(&self) -> String {
        match self {
            Form::Tt => String::new(),
            Form::V(v) => v.clone(),
            Form::Not(f) => {
                let inner = f.render_tight();
                if f.prec() < 4 { format!("!({inner})") } else { format!("!{inner}") }
            }
            Form::And(a, b) => {
                let l = a.render_tight();
                let l = if a.prec() < 2 { format!("({l})") } else { l };
                let r = b.render_tight();
                let r = if b.prec() <= 2 { format!("({r})") } else { r };
                format!("{l}&&{r}")
            }
            Form::Or(a, b) => {
                let l = a.render_tight();
                let r = b.render_tight();
                let r = if b.prec() <= 1 { format!("({r})") } else { r };
                format!("{l}||{r}")
            }
            Form::All(p) => format!("all of {}", Self::group(p)),
            Form::Any(p) => format!("any of {}", Self::group(p)),
            Form::NoneOf(p) => format!("none of {}", Self::group(p)),
            Form::N(n, p) => format!("{n} of {}", Self::group(p)),
            Form::NBig(d, p) => format!("{d} of {}", Self::group(p)),
        }
    }
    /// Render with minimal parentheses for the documented precedence (not > and > or, both binary
    /// operators left-associative); `rng` picks operator spellings, spacing and redundant parentheses.
    pub fn render(&self, rng: &mut Rng) -> String {
        let s = match self {
            Form::Tt => String::new(),
            Form::V(v) => v.clone(),
            Form::Not(f) => {
                let inner = f.render(rng);
                // `negate? ~ primary`: the operand of a negation must be a primary
                let inner = if f.prec() < 4 { format!("({inner})") } else { inner };
                match rng.below(5) {
                    0 | 1 => format!("not {inner}"),
                    2 => format!("!{inner}"),
                    3 => format!("not{inner}"),
                    _ => format!("! {inner}"),
                }
            }
            Form::And(a, b) => {
                let l = a.render(rng);
                let l = if a.prec() < 2 { format!("({l})") } else { l };
                let r = b.render(rng);
                // right operand of a left-associative operator needs parentheses at equal precedence
                let r = if b.prec() <= 2 { format!("({r})") } else { r };
                let op = *rng.pick(&["and", "AND", "&&"]);
                Self::glue(rng, &l, op, &r)
            }
            Form::Or(a, b) => {
                let l = a.render(rng);
                let r = b.render(rng);
                let r = if b.prec() <= 1 { format!("({r})") } else { r };
                let op = *rng.pick(&["or", "OR", "||"]);
                Self::glue(rng, &l, op, &r)
            }
            // `count`/keyword, `of` and the group are separate tokens of non-atomic rules: any number of
            // spaces, including none, may separate them
            Form::All(p) => format!("all{}of{}{}", Self::sp(rng), Self::sp(rng), Self::group(p)),
            Form::Any(p) => format!("any{}of{}{}", Self::sp(rng), Self::sp(rng), Self::group(p)),
            Form::NoneOf(p) => format!("none{}of{}{}", Self::sp(rng), Self::sp(rng), Self::group(p)),
            Form::N(n, p) => {
                let digits = match rng.below(8) {
                    0 => format!("0{n}"),
                    1 => format!("00{n}"),
                    _ => n.to_string(),
                };
                format!("{}{}of{}{}", digits, Self::sp(rng), Self::sp(rng), Self::group(p))
            }
            Form::NBig(d, p) => format!("{}{}of{}{}", d, Self::sp(rng), Self::sp(rng), Self::group(p)),
        };
        if !matches!(self, Form::Tt) && rng.chance(1, 8) {
            format!("({s})")
        } else {
            s
        }
    }
}

/// A structured rule: produces the document (text fields) and the `spec` object.
#[derive(Clone, Debug, Default)]
pub struct SRule {
    pub name: String,
    pub ty: Option<String>,
    pub match_on: Option<Value>,
    pub ops: Vec<(String, Operand)>,
    pub cond: Option<Form>,
    pub severity: Option<u64>,
    pub tags: Option<Vec<String>>,
    pub attack: Option<Vec<String>>,
    pub actions: Option<Vec<String>>,
    pub disable: Option<bool>,
    /// write the condition in its tightest spelling
    pub tight: bool,
}

impl SRule {
    pub fn to_json(&self, rng: &mut Rng) -> Value {
        let mut r = json!({ "name": self.name });
        if let Some(t) = &self.ty {
            r["type"] = json!(t);
        }
        if self.tags.is_some() || self.attack.is_some() {
            let mut m = json!({});
            if let Some(t) = &self.tags {
                m["tags"] = json!(t);
            }
            if let Some(a) = &self.attack {
                m["attack"] = json!(a);
            }
            r["meta"] = m;
        }
        if let Some(d) = self.disable {
            r["params"] = json!({ "disable": d });
        }
        if let Some(mo) = &self.match_on {
            r["match_on"] = mo.clone();
        }
        if !self.ops.is_empty() {
            let spaced = rng.chance(1, 5);
            r["matches"] = json!(self.ops.iter().map(|(k, o)| json!([k, if spaced { o.render_spaced(rng) } else { o.render() }])).collect::<Vec<_>>());
        }
        let mut spec = json!({
            "ops": self.ops.iter().map(|(k, o)| json!([k, o.spec()])).collect::<Vec<_>>(),
        });
        if let Some(c) = &self.cond {
            r["condition"] = json!(if self.tight { c.render_tight() } else { c.render(rng) });
            spec["cond"] = c.spec();
        }
        if let Some(s) = self.severity {
            r["severity"] = json!(s);
        }
        if let Some(a) = &self.actions {
            r["actions"] = json!(a);
        }
        r["spec"] = spec;
        r
    }
}

/// external tables for the Lean side: regex behaviour and `f64::from_str`, computed with the real
/// crates for every pattern / numeric text the scenario can need.
pub fn ext_tables(patterns: &[String], hays: &[String], num_texts: &[String]) -> Value {
    let mut rx = vec![];
    let mut seen = std::collections::HashSet::new();
    for p in patterns {
        if !seen.insert(p.clone()) {
            continue;
        }
        if hays.is_empty() {
            // only validity is needed: remember it (the same literals recur in hundreds of thousands of cases)
            thread_local! { static VALID: std::cell::RefCell<std::collections::HashMap<String, bool>> = std::cell::RefCell::new(std::collections::HashMap::new()); }
            let ok = VALID.with(|c| {
                let mut c = c.borrow_mut();
                if let Some(b) = c.get(p) {
                    *b
                } else {
                    let b = regex::Regex::new(p).is_ok();
                    c.insert(p.clone(), b);
                    b
                }
            });
            rx.push(json!([p, ok, []]));
            continue;
        }
        match regex::Regex::new(p) {
            Ok(re) => {
                let mut hs = vec![];
                let mut seen_h = std::collections::HashSet::new();
                for h in hays {
                    if seen_h.insert(h.clone()) {
                        hs.push(json!([h, re.is_match(h)]));
                    }
                }
                rx.push(json!([p, true, hs]));
            }
            Err(_) => rx.push(json!([p, false, []])),
        }
    }
    let mut fp = vec![];
    let mut seen = std::collections::HashSet::new();
    for t in num_texts {
        if !seen.insert(t.clone()) {
            continue;
        }
        match t.parse::<f64>() {
            Ok(f) => fp.push(json!([t, format!("{:016x}", f.to_bits())])),
            Err(_) => fp.push(json!([t, Value::Null])),
        }
    }
    json!({"rx": rx, "fp": fp})
}

/// collect patterns / haystacks / numeric texts from structured rules and events
pub fn ext_for(rules: &[SRule], events: &[crate::event::DynEvent]) -> Value {
    let mut pats = vec![];
    let mut nums = vec![];
    let mut hays = vec![];
    for r in rules {
        for (_, o) in &r.ops {
            if let Operand::Test { op, lit, .. } = o {
                if OPS[*op].1 == "rex" {
                    pats.push(lit.text());
                }
                nums.push(lit.text());
            }
        }
    }
    for e in events {
        for (_, v) in &e.fields {
            if let gene::FieldValue::String(s) = v {
                hays.push(s.clone());
                nums.push(s.clone());
            }
        }
    }
    ext_tables(&pats, &hays, &nums)
}
